import random, subprocess, sys
sys.argv=[sys.argv[0],"1","1"]
src=open('/tmp/exp/p20.py').read().split("progs=[")[0].replace("from gates import GI","").replace("from jaqalpaq.parser import parse_jaqal_string","").replace("from jaqalpaq.emulator import run_jaqal_circuit","").replace("from jaqalpaq.error import JaqalError","")
exec(src)
tot=bad=hang=0
for seed in range(20):
    rng = random.Random(1000+seed)
    progs=[gen_items(0) for _ in range(3000)]
    out = subprocess.run(["lean","--run","/tmp/exp/lk/walk/Walk.lean"], input="\n".join(sp(p) for p in progs)+"\n", capture_output=True, text=True).stdout.split("\n")
    for l in out:
        if l.startswith("ok "):
            tot+=1
            f=l.split("fixed=")[1].split(" spec=")[0]; s=l.split("spec=")[1]; b=l.split("buggy=")[1].split(" fixed=")[0]
            if f!=s: bad+=1; print(l)
            if b=="hang": hang+=1
            elif b!=s: bad+=1; print("buggy!=spec", l)
print("accepted",tot,"fixed!=spec or buggy(nonhang)!=spec:",bad,"buggy hangs",hang)
