import sys; sys.path.insert(0,'/tmp/exp')
import numpy as np, warnings
from gates import G, GI
from jaqalpaq.parser import parse_jaqal_string
from jaqalpaq.emulator import run_jaqal_circuit
from jaqalpaq.core.result import ProbabilisticSubcircuit, ReadoutSubcircuit, Readout
from jaqalpaq.core.algorithm.walkers import Trace
def PI(t, **k): return parse_jaqal_string(t, inject_pulses=GI, autoload_pulses=False, **k)
# order independence
a = run_jaqal_circuit(PI("register r[3]\nprepare_all\n< { H r[0]; CX r[0] r[1] } | Rx r[2] 0.7 >\nmeasure_all\n")).subcircuits[0].state_vector
b = run_jaqal_circuit(PI("register r[3]\nprepare_all\n< Rx r[2] 0.7 | { H r[0]; CX r[0] r[1] } >\nmeasure_all\n")).subcircuits[0].state_vector
print("order indep:", np.allclose(a,b))
# normalisation
tr = Trace([0],[1]); tr.used_qubits=[0,1]
for p in ([0.25,0.25,0.25,0.25],[0.5,0.5,1e-14,0],[0.5,0.5,-1e-14,0],[0.5,0.5,1e-7,0],[0.5,0.5,1e-5,0],[1,0,0,0],[0,0,0,0],[2,0,0,0]):
    with warnings.catch_warnings(record=True) as w:
        warnings.simplefilter("always")
        try:
            s = ProbabilisticSubcircuit(tr, 0, probabilities=np.array(p,dtype=float))
            q = s.simulated_probability_by_int
            print(p, "->", q.tolist(), "sum", q.sum(), "min", q.min(), "warn" if w else "")
        except Exception as e: print(p, "EXC", type(e).__name__, e)
# Readout str for n qubits
rs = ReadoutSubcircuit(tr, 0)
for v in range(4):
    r = Readout(v, 0); rs.accept_readout(r); print(v, r.as_str, int(r.as_str[::-1],2)==v)
print(list(rs.relative_frequency_by_str.items()))
