import sys; sys.path.insert(0,'/tmp/exp')
exec(open('/tmp/exp/p4.py').read().split('print("==== expand_macros")')[0])
from gates import G, GI
def PI(t, **k): return parse_jaqal_string(t, inject_pulses=GI, autoload_pulses=False, **k)
print("==== C14")
for t in ["register r[2]\ng r[2]\n", "register r[2]\ng r[-1]\n", "register r[2]\ng r[-3]\n","register r[2]\nmap a r[0:3]\n","register r[2]\nmap a r[-1:2]\n","register r[2]\nmap a r[0:2:0]\n","register r[2]\nmap a r[0:2:-1]\n","register r[2]\nmap a r[3:2]\n","register r[2]\nmap a r[5]\n","register r[2]\nmap a r[-1]\n","let x 1\nregister r[2]\nmap a x[0]\n","let x 1\nregister r[2]\ng x[0]\n","register r[2]\nmap a r[1]\ng a[0]\n","register r[2]\nmap a r[1]\nmap b a[0]\n","register r[2]\nmap a r[1]\nmap b a\n","register r[2]\ng q[0]\n","register r[2]\nregister r[3]\n","register r[2]\nlet r 1\n","let r 1\nregister r[2]\n","register r[2]\nmap r r[0]\n","register r[2]\nmacro r a { g a }\n","register r[2]\nmacro m a { g a }\nmacro m b { g b }\n","register r[2]\nmacro m a a { g a }\n","register r[2]\nmacro m a { g a }\nm\n","register r[2]\nmacro m a { n a }\nmacro n a { g a }\nm r[0]\n","register r[2]\nregister s[2]\n","let n 0\nregister r[n]\n", "let n 1.5\nregister r[n]\n","let n 1.5\nregister r[2]\ng r[n]\n","let n 1.5\nregister r[2]\nloop n { g r[0] }\n","register r[2]\nmap a r[0:1]\ng a[1]\n","register r[4]\nmap a r[0:4:2]\ng a[2]\n","register r[4]\nmap a r[0:4:2]\nmap b a[2]\n", "register r[4]\nmap a r[1:4:2]\nmap b a[1:3]\n"]:
    show(repr(t), lambda: "ACCEPT "+repr(gen(P(t))))
print("==== C14 native")
for t in ["register r[2]\nY r[0]\n","register r[2]\nX r[0] r[1]\n","register r[2]\nX 1\n","register r[2]\nX r\n","register r[2]\nRz r[0] r[1]\n","register r[2]\nRz r[0] 1\n","let t 1.5\nregister r[2]\nRz r[0] t\n","let t 1\nregister r[2]\nX t\n","register r[2]\nmacro X a { H a }\n","register r[2]\nmacro m a { Rz a a }\nm r[0]\n","register r[2]\nmacro m a { Rz a a }\n", "register r[2]\nmacro m a { X a }\nm 1.0\n"]:
    show(repr(t), lambda: "ACCEPT "+repr(gen(PI(t))))
    show(" +expand", lambda: "ACCEPT "+repr(gen(expand_macros(PI(t)))))
