import sys; sys.path.insert(0,'/tmp/exp')
exec(open('/tmp/exp/p4.py').read().split('print("==== expand_macros")')[0])
from gates import G, GI
from jaqalpaq.core import GateDefinition, Parameter, ParamType, Register, Constant
from jaqalpaq.core.gatedef import add_idle_gates, IdleGateDefinition
from jaqalpaq.core.stretch import stretched_gates
import numpy as np
print("==== C18")
g = G["Rz"]; r = Register("r", 3)
show("pos", lambda: g(r[0], 1.5))
show("kw", lambda: g(q=r[0], t=1.5))
show("pos==kw", lambda: g(r[0], 1.5) == g(q=r[0], t=1.5))
show("kw order", lambda: list(g(t=1.5, q=r[0]).parameters.items()))
show("too few", lambda: g(r[0]))
show("none", lambda: g())
show("mixed", lambda: g(r[0], t=1.0))
show("kw extra", lambda: g(q=r[0], t=1.0, z=3))
show("kw missing", lambda: g(q=r[0]))
gi = GateDefinition("gi", [Parameter("n", ParamType.INT)])
for v in [1, 1.0, 1.5, True, Constant("c", 1), Constant("c", 1.0), Constant("c",1.5), r[0], r, "s", None, float('nan'), float('inf')]:
    show(f"INT accepts {v!r}", lambda: gi(v))
gf = GateDefinition("gf", [Parameter("x", ParamType.FLOAT)])
for v in [1, 1.0, True, Constant("c", 1), r[0], r, "s", None, Parameter("p", None), Parameter("p", ParamType.QUBIT), 1+2j]:
    show(f"FLOAT accepts {v!r}", lambda: gf(v))
gq = GateDefinition("gq", [Parameter("x", ParamType.QUBIT)])
for v in [1, r[0], r, Parameter("p", None), Parameter("p", ParamType.QUBIT), Parameter("p", ParamType.REGISTER), Parameter("p", None)[0]]:
    show(f"QUBIT accepts {v!r}", lambda: gq(v))
gr = GateDefinition("gr", [Parameter("x", ParamType.REGISTER)])
for v in [1, r[0], r, Parameter("p", None), Parameter("p", ParamType.REGISTER)]:
    show(f"REGISTER accepts {v!r}", lambda: gr(v))
print("idle")
I = add_idle_gates(G)
show("idle names", lambda: sorted(I))
show("idle sig", lambda: (I["I_Rz"].parameters == G["Rz"].parameters, list(I["I_Rz"].used_qubits), I["I_Rz"].ideal_unitary))
print("stretch")
show("no suffix", lambda: stretched_gates(G))
S = stretched_gates({k:v for k,v in G.items() if k in ("X","Rz","H")}, suffix="_s")
show("names", lambda: {k:(v.name,[p.name for p in v.parameters]) for k,v in S.items()})
show("Rz_s unitary", lambda: S["Rz_s"].ideal_unitary(0.3, 2.0))
show("X_s unitary", lambda: S["X_s"].ideal_unitary(2.0))
show("orig params untouched", lambda: [p.name for p in G["Rz"].parameters])
S2 = stretched_gates(add_idle_gates({k:v for k,v in G.items() if k in ("X","Rz")}), suffix="_s")
show("names w idle", lambda: {k:(type(v).__name__, v.name,[p.name for p in v.parameters]) for k,v in S2.items()})
