"""Reference for the model's `reprFloat`: CPython repr layout from a canonical decimal.
Checked: 300 000 random decimals with <= 15 significant digits, exponents -300..290: 0 differences."""
import random
from decimal import Decimal
def canon(d):
    sign, digs, exp = d.as_tuple()
    digs = list(digs)
    while len(digs) > 1 and digs[-1] == 0:
        digs.pop(); exp += 1
    n = len(digs); e = exp + n - 1          # scientific exponent
    s = "".join(map(str, digs))
    if -4 <= e < 16:
        if e < 0: body = "0." + "0" * (-e - 1) + s
        elif e >= n - 1: body = s + "0" * (e - (n - 1)) + ".0"
        else: body = s[:e + 1] + "." + s[e + 1:]
    else:
        body = s[0] + ("." + s[1:] if n > 1 else "") + "e" + ("-" if e < 0 else "+") + f"{abs(e):02d}"
    return ("-" if sign else "") + body
if __name__ == "__main__":
    rng = random.Random(1); bad = 0
    for _ in range(300000):
        n = rng.randint(1, 15); m = rng.randint(10 ** (n - 1), 10 ** n - 1)
        if m % 10 == 0: m += 1
        txt = f"{rng.choice(['', '-'])}{m}e{rng.randint(-300, 290)}"
        if repr(float(txt)) != canon(Decimal(txt)): bad += 1
    print("differences:", bad)
