import sys; sys.path.insert(0,'/tmp/exp')
import random, signal, subprocess
from gates import GI
from jaqalpaq.parser import parse_jaqal_string
from jaqalpaq.emulator import run_jaqal_circuit
from jaqalpaq.error import JaqalError
def PI(t): return parse_jaqal_string(t, inject_pulses=GI, autoload_pulses=False)
def h(*a): raise TimeoutError("hang")
signal.signal(signal.SIGALRM, h)
rng = random.Random(int(sys.argv[1]))
N = int(sys.argv[2])
def gen_items(depth):
    items=[]
    for _ in range(rng.randint(0,4)):
        k = rng.random()
        if k<0.27: items.append(('g','P'))
        elif k<0.54: items.append(('g','M'))
        elif k<0.66: items.append(('g','G'))
        elif k<0.86 and depth<3: items.append(('loop', rng.choice([0,1,1,2,3]), gen_items(depth+1)))
        elif depth<3: items.append(('blk', gen_items(depth+1)))
    return items
def jq(items):
    out=[]
    for it in items:
        if it[0]=='g': out.append({'P':'prepare_all','M':'measure_all','G':'X r[0]'}[it[1]])
        elif it[0]=='loop': out.append(f"loop {it[1]} {{\n"+jq(it[2])+"\n}")
        else: out.append("< {\n"+jq(it[1])+"\n} >")   # a block: parallel with one sequential branch => two address levels
    return "\n".join(out)
def sp(items):
    out=[]
    for it in items:
        if it[0]=='g': out.append(it[1])
        elif it[0]=='loop': out.append(f"L{it[1]}( "+sp(it[2])+" )")
        else: out.append("B( B( "+sp(it[1])+" ) )")
    return " ".join(out)
progs=[gen_items(0) for _ in range(N)]
model = subprocess.run(["lean","--run","/tmp/exp/lk/walk/Walk.lean"], input="\n".join(sp(p) for p in progs)+"\n", capture_output=True, text=True).stdout.split("\n")
model=[l for l in model if l.startswith(("ok ","rej "))]
assert len(model)==len(progs), (len(model), len(progs))
mism=0; cls={'ok':0,'rej':0,'hang':0}
for p, m in zip(progs, model):
    src="register r[1]\n"+jq(p)+"\n"
    signal.alarm(3)
    try:
        r = run_jaqal_circuit(PI(src)); got=f"ok {len(r.subcircuits)} {[ro.subcircuit.index for ro in r.readouts]}"
    except JaqalError as e:
        msg=str(e); got="rej "+("gate-outside" if "gates must" in msg else "measure-without-prepare" if "must follow a measure" in msg else "m->p-in-loop" if "not supported in loops" in msg else msg)
    except TimeoutError: got="hang"
    finally: signal.alarm(0)
    if m.startswith("rej"): exp=m
    else:
        n=m.split()[1]; b=m.split("buggy=")[1].split(" fixed=")[0]
        exp = "hang" if b=="hang" else f"ok {n} {b}"
    cls[got.split()[0]]+=1
    if exp!=got:
        mism+=1
        if mism<6: print("MISMATCH\n",src,"model:",m,"\nimpl:",got)
print("cases",N,"mismatches",mism,cls)
