import sys; sys.path.insert(0,'/tmp/exp')
exec(open('/tmp/exp/p4.py').read().split('print("==== expand_macros")')[0])
print("==== C20")
base = "let n 2\nlet t 0.5\nregister r[4]\nmap a r[0:4:2]\nmap b r[1]\nmacro m x y { g x y }\nloop n { subcircuit 3 { < g r[0] t | h a[1] > ; m b 1 } }\n"
c0 = P(base)
muts = {
 "let value": base.replace("let n 2","let n 3"),
 "let float": base.replace("0.5","0.25"),
 "reg size": base.replace("r[4]","r[5]"),
 "slice step": base.replace("0:4:2","0:4:1"),
 "slice stop": base.replace("0:4:2","0:3:2"),
 "slice start": base.replace("0:4:2","1:4:2"),
 "map idx": base.replace("map b r[1]","map b r[2]"),
 "macro param": base.replace("macro m x y { g x y }","macro m x z { g x z }"),
 "macro body gate": base.replace("{ g x y }","{ h x y }"),
 "macro body arg order": base.replace("{ g x y }","{ g y x }"),
 "loop count": base.replace("loop n","loop 2"),
 "sub count": base.replace("subcircuit 3","subcircuit 4"),
 "sub -> seq": base.replace("subcircuit 3 {","{").replace("loop n { {","loop n { <{") if False else base.replace("subcircuit 3 ",""),
 "par->seq": base.replace("< g r[0] t | h a[1] >","g r[0] t ; h a[1]"),
 "gate name": base.replace("h a[1]","k a[1]"),
 "qubit idx": base.replace("a[1]","a[0]"),
 "arg": base.replace("m b 1","m b 2"),
 "arg int vs float": base.replace("m b 1","m b 1.0"),
 "extra arg": base.replace("g r[0] t","g r[0] t t"),
 "alias vs direct": base.replace("h a[1]","h r[2]"),
}
for k,v in muts.items():
    try:
        c1 = P(v)
        print(k, "equal" if c1 == c0 else "unequal", "| sym:", (c1==c0)==(c0==c1))
    except Exception as e: print(k, "EXC", e)
print("refl", c0==c0, "reparse", P(gen(c0))==c0)
print("nan", P("register r[1]\n")==P("register r[1]\n"))
# two-reg same name diff; equal vs non-circuit
print(c0 == 3, c0 != 3, c0 == None)
from jaqalpaq.core import Macro
try: print(c0.macros['m'] == 3)
except Exception as e: print("Macro==int EXC", type(e).__name__, e)
# extra arg: zip_longest with None
d0 = P("register r[1]\ng r[0]\n"); d1=P("register r[1]\ng r[0] 1\n")
print("extra arg unequal:", d0!=d1)
# map order / registers dict order
e0 = P("register r[4]\nmap a r[0]\nmap b r[1]\n"); e1 = P("register r[4]\nmap b r[1]\nmap a r[0]\n")
print("decl order matters?", e0==e1, gen(e0)==gen(e1))
# let order
e0 = P("let a 1\nlet b 2\nregister r[4]\n"); e1 = P("let b 2\nlet a 1\nregister r[4]\n")
print("let order matters?", e0==e1)
# int vs float 1 == 1.0
e0 = P("register r[4]\ng 1\n"); e1 = P("register r[4]\ng 1.0\n"); print("1 vs 1.0 equal:", e0==e1, gen(e0)==gen(e1))
# equal circuits with different native gates
from gates import GI
e0 = parse_jaqal_string("register r[4]\nX r[0]\n", inject_pulses=GI, autoload_pulses=False); e1 = P("register r[4]\nX r[0]\n")
print("native differ:", e0==e1)
# NamedQubit eq: compares names & alias_from.name & index
e0 = P("register r[4]\nmap a r[0:2]\nmap b r[2:4]\ng a[0]\n"); e1 = P("register r[4]\nmap a r[2:4]\nmap b r[0:2]\ng a[0]\n")
print("alias redefinition detected:", e0!=e1)
