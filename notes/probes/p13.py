import sys
from jaqalpaq.parser import parse_jaqal_string
print('importlib.util' in sys.modules)
import importlib
try:
    parse_jaqal_string("from .nomod usepulses *\nregister r[1]\n", import_path="/tmp/exp")
except BaseException as e: print(type(e).__name__, e)
try:
    parse_jaqal_string("from nomod usepulses *\nregister r[1]\n")
except BaseException as e: print(type(e).__name__, e)
try:
    parse_jaqal_string("register r[1]\ng r[0]\n")
except BaseException as e: print(type(e).__name__, e)
try:
    parse_jaqal_string("from . usepulses *\nregister r[1]\n")
except BaseException as e: print(type(e).__name__, e)
try:
    parse_jaqal_string("from .a.b usepulses *\nregister r[1]\n")
except BaseException as e: print(type(e).__name__, e)
