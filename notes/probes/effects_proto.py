import ast, sys, pathlib
ROOT = pathlib.Path("/repo/src/jaqalpaq")
FILES = ["core/algorithm/expand_macros.py","core/algorithm/fill_in_let.py","core/algorithm/fill_in_map.py",
 "core/algorithm/expand_subcircuits.py","core/algorithm/unit_timing.py","core/algorithm/used_qubit_visitor.py",
 "core/algorithm/walkers.py","core/algorithm/visitor.py","core/circuit.py","core/block.py","run/run.py",
 "generator/generator.py","core/result.py","emulator/unitary.py","emulator/backend.py","core/circuitbuilder.py",
 "core/gatedef.py","core/stretch.py","core/register.py","core/usepulses.py","core/gate.py","core/macro.py"]
MUT = {"append","extend","update","pop","insert","remove","clear","setdefault","sort","reverse","popitem","appendleft","add","discard","__setitem__","__delitem__"}
FRESH_CALLS = {"list","dict","set","OrderedDict","defaultdict","deque","tuple","Circuit","BlockStatement","LoopStatement","GateStatement","Macro","Register","NamedQubit","Trace","Readout","copy"}
def root_name(e):
    while isinstance(e,(ast.Attribute,ast.Subscript)): e=e.value
    if isinstance(e, ast.Call): return ("call", ast.unparse(e.func))
    if isinstance(e, ast.Name): return ("name", e.id)
    return ("other", ast.unparse(e))
class Fn(ast.NodeVisitor):
    def __init__(self, fname, cls, fn):
        self.fname, self.cls, self.fn = fname, cls, fn
        self.params = {a.arg for a in fn.args.args + fn.args.kwonlyargs} | ({fn.args.vararg.arg} if fn.args.vararg else set()) | ({fn.args.kwarg.arg} if fn.args.kwarg else set())
        self.fresh = set(); self.derived = {}   # local -> provenance
        self.sites = []
    def classify_expr(self, e):
        # provenance of value of expression e
        if isinstance(e,(ast.List,ast.Dict,ast.Set,ast.ListComp,ast.DictComp,ast.SetComp,ast.Tuple,ast.Constant,ast.JoinedStr,ast.BinOp,ast.GeneratorExp)): return "fresh"
        if isinstance(e, ast.Call):
            f = ast.unparse(e.func).split(".")[-1]
            if f in FRESH_CALLS or f[:1].isupper(): return "fresh"
            return "call:"+ast.unparse(e.func)
        kind, r = root_name(e)
        if kind=="name":
            if r=="self": 
                # self.x : own state if visitor/class attr
                return "self"
            if r in self.derived:
                base = self.derived[r]
                # attribute of fresh object: internal container of fresh object -> fresh ; but e.g. new_circuit.native_gates shares!
                if isinstance(e,(ast.Attribute,ast.Subscript)) and base=="fresh": return "fresh-attr:"+ast.unparse(e)
                return base
            if r in self.params: return "input:"+r
            return "global:"+r
        if kind=="call": return "call:"+r
        return "other"
    def visit_Assign(self, node):
        prov = self.classify_expr(node.value)
        for t in node.targets:
            self.handle_target(t, node, prov)
        self.generic_visit(node)
    def visit_AugAssign(self, node):
        if not isinstance(node.target, ast.Name):
            self.sites.append((node.lineno, "augassign", ast.unparse(node.target), self.classify_expr(node.target.value)))
        self.generic_visit(node)
    def visit_Delete(self, node):
        for t in node.targets:
            if not isinstance(t, ast.Name):
                self.sites.append((node.lineno, "del", ast.unparse(t), self.classify_expr(t.value)))
    def handle_target(self, t, node, prov):
        if isinstance(t, ast.Name):
            self.derived[t.id] = prov
        elif isinstance(t, (ast.Tuple, ast.List)):
            for el in t.elts: self.handle_target(el, node, prov if prov.startswith("input") else prov)
        elif isinstance(t,(ast.Attribute,ast.Subscript)):
            self.sites.append((node.lineno, "store", ast.unparse(t), self.classify_expr(t.value)))
    def visit_For(self, node):
        prov = self.classify_expr(node.iter)
        self.handle_target(node.target, node, prov)
        self.generic_visit(node)
    def visit_With(self, node): self.generic_visit(node)
    def visit_Call(self, node):
        if isinstance(node.func, ast.Attribute) and node.func.attr in MUT:
            self.sites.append((node.lineno, "call."+node.func.attr, ast.unparse(node.func.value), self.classify_expr(node.func.value)))
        self.generic_visit(node)
tot=0
for f in FILES:
    src=(ROOT/f).read_text(); tree=ast.parse(src)
    for node in ast.walk(tree):
        if isinstance(node, ast.ClassDef):
            for fn in node.body:
                if isinstance(fn, ast.FunctionDef):
                    v=Fn(f,node.name,fn); 
                    for st in fn.body: v.visit(st)
                    for s in v.sites:
                        if fn.name=="__init__" and s[3]=="self": continue
                        tot+=1; print(f"{f}:{s[0]:4d} {node.name}.{fn.name:28s} {s[1]:16s} {s[2]:45s} {s[3]}")
    for fn in tree.body:
        if isinstance(fn, ast.FunctionDef):
            v=Fn(f,None,fn)
            for st in fn.body: v.visit(st)
            for s in v.sites:
                tot+=1; print(f"{f}:{s[0]:4d} {fn.name:36s} {s[1]:16s} {s[2]:45s} {s[3]}")
print("sites", tot)
