import sys; sys.path.insert(0,'/tmp/exp')
exec(open('/tmp/exp/p4.py').read().split('print("==== expand_macros")')[0])
from jaqalpaq.qsyntax import circuit
from jaqalpaq.core.circuitbuilder import CircuitBuilder, build
print("==== C17")
@circuit
def f1(Q):
    n = Q.let(2)
    t = Q.let(0.5, 'theta')
    r = Q.register(n)
    Q.g(r[0], t, 1.5)
    with Q.loop(n):
        with Q.parallel():
            Q.h(r[0]); Q.h(r[1])
show("q1", lambda: gen(f1()))
show("q1 == text", lambda: f1() == P("let __c0 2\nlet theta 0.5\nregister __r0[__c0]\nprepare_all\ng __r0[0] theta 1.5\nloop __c0 { < h __r0[0] | h __r0[1] > }\nmeasure_all\n"))
@circuit
def f2(Q):
    r = Q.register(2, '__c0')
    n = Q.let(2)
    Q.g(r[0], n)
show("collision reg named __c0 + anon let", lambda: gen(f2()))
@circuit
def f3(Q):
    a = Q.let(1, '__c0'); b = Q.let(2); c = Q.let(3,'__c1'); d = Q.let(4)
    r = Q.register(2)
    Q.g(r[0], a,b,c,d)
show("skip user names", lambda: gen(f3()))
@circuit
def f4(Q):
    r = Q.register(2,'r')
    with Q.subcircuit():
        Q.g(r[0])
    with Q.subcircuit(5):
        Q.g(r[1])
show("subcircuit", lambda: gen(f4()))
show("subcircuit==text", lambda: f4()==P("register r[2]\nsubcircuit { g r[0] }\nsubcircuit 5 { g r[1] }\n"))
@circuit
def f5(Q):
    r = Q.register(2,'r')
    with Q.sequential():
        Q.prepare_all(); Q.g(r[0]); Q.measure_all()
show("seq starting with prepare", lambda: gen(f5()))
@circuit
def f6(Q):
    r = Q.register(2,'r')
    with Q.loop(3):
        Q.prepare_all(); Q.g(r[0]); Q.measure_all()
show("loop starting with prepare", lambda: gen(f6()))
@circuit
def f7(Q):
    r = Q.register(2,'r')
    Q.g(r[0])
    with Q.subcircuit():
        Q.g(r[0])
show("gate then subcircuit", lambda: gen(f7()))
@circuit
def f8(Q):
    r = Q.register(2,'r'); n=Q.let(3,'n')
    with Q.subcircuit(n):
        Q.g(r[0])
show("subcircuit let count", lambda: (gen(f8()), f8()==P("let n 3\nregister r[2]\nsubcircuit n { g r[0] }\n")))
@circuit
def f9(Q):
    pass
show("empty", lambda: gen(f9()))
# builder
b = CircuitBuilder()
r = b.register("r", 2); n = b.let("n", 3)
b.gate("g", r[0], n, 1.5)
sb = b.subcircuit(); sb.gate("h", r[1])
from jaqalpaq.core.circuitbuilder import SequentialBlockBuilder, SubcircuitBlockBuilder
blk = SequentialBlockBuilder(); blk.gate("k", r[0]); b.loop(n, blk)
show("builder", lambda: gen(b.build()))
show("builder==text", lambda: b.build()==P("let n 3\nregister r[2]\ng r[0] n 1.5\nsubcircuit { h r[1] }\nloop n { k r[0] }\n"))
show("builder order", lambda: list(b.build().registers), )
sb2 = SubcircuitBlockBuilder(4)
show("sbb", lambda: sb2.expression)
b2 = CircuitBuilder(); b2.register("r",2,unevaluated=True); s=b2.subcircuit(7); s.gate("g", ("array_item","r",0))
show("subcircuit(7) via BlockBuilder.subcircuit drops iterations?", lambda: gen(b2.build()))
