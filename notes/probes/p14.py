import sys
from jaqalpaq.parser import parse_jaqal_string
print('importlib.util' in sys.modules)
try:
    c = parse_jaqal_string("from .mygates usepulses *\nregister r[1]\ntg r[0]\n", import_path="/tmp/exp")
    print("ok", c.native_gates)
except BaseException as e: print(type(e).__name__, e)
import importlib.util
try:
    c = parse_jaqal_string("from .mygates usepulses *\nregister r[1]\ntg r[0]\n", import_path="/tmp/exp")
    print("ok", c.native_gates)
except BaseException as e: print(type(e).__name__, e)
