import numpy as np
from jaqalpaq.core import GateDefinition, Parameter, ParamType
from jaqalpaq.core.gatedef import BusyGateDefinition, add_idle_gates
Q=ParamType.QUBIT; F=ParamType.FLOAT; I=ParamType.INT
def X(): return np.array([[0,1],[1,0]],dtype=complex)
def H(): return np.array([[1,1],[1,-1]],dtype=complex)/np.sqrt(2)
def Rz(t): return np.array([[np.exp(-1j*t/2),0],[0,np.exp(1j*t/2)]])
def Rx(t): return np.array([[np.cos(t/2),-1j*np.sin(t/2)],[-1j*np.sin(t/2),np.cos(t/2)]])
def CX():
    # control = arg0 (bit0), target = arg1 (bit1): index = b0 + 2*b1
    m=np.zeros((4,4),dtype=complex)
    for b0 in (0,1):
        for b1 in (0,1):
            i=b0+2*b1; o=b0+2*(b1^b0); m[o,i]=1
    return m
def CCX():
    m=np.zeros((8,8),dtype=complex)
    for i in range(8):
        b0,b1,b2=i&1,(i>>1)&1,(i>>2)&1
        o=b0+2*b1+4*(b2^(b0&b1)); m[o,i]=1
    return m
G = {}
def add(name, params, u): G[name]=GateDefinition(name, params, ideal_unitary=u)
add("X",[Parameter("q",Q)],X); add("H",[Parameter("q",Q)],H)
add("Rz",[Parameter("q",Q),Parameter("t",F)],Rz); add("Rx",[Parameter("q",Q),Parameter("t",F)],Rx)
add("CX",[Parameter("c",Q),Parameter("t",Q)],CX); add("CCX",[Parameter("a",Q),Parameter("b",Q),Parameter("c",Q)],CCX)
add("N",[Parameter("q",Q)],None)
G["prepare_all"]=BusyGateDefinition("prepare_all",[])
G["measure_all"]=BusyGateDefinition("measure_all",[])
GI = add_idle_gates(G)
