import traceback, math
from jaqalpaq.parser import parse_jaqal_string
from jaqalpaq.generator import generate_jaqal_program
from jaqalpaq.error import JaqalError

def rt(txt, **kw):
    try:
        c = parse_jaqal_string(txt, autoload_pulses=False, **kw)
    except Exception as e:
        print("PARSE1 FAIL", type(e).__name__, e); return
    g = generate_jaqal_program(c)
    try:
        c2 = parse_jaqal_string(g, autoload_pulses=False)
    except Exception as e:
        print("REPARSE FAIL", type(e).__name__, e, "\n---\n"+g); return
    g2 = generate_jaqal_program(c2)
    print("eq", c == c2, "texteq", g == g2)
    if c != c2 or g != g2: print(g, '----', g2)

print("# exp notation let")
rt("let y 0.000001\nregister r[2]\ng r[0] y\n")
rt("let y 1e-7\nregister r[2]\n")  # does 1e-7 even lex?
rt("register r[2]\ng r[0] 1e22\n")
rt("register r[2]\ng r[0] 0.00001\n")
rt("register r[2]\ng r[0] 100000000000000000000.0\n")
rt("register r[2]\ng r[0] 1.5e300\n")
print("# subcircuit")
rt("register r[2]\nsubcircuit 5 { g r[0] }\n")
rt("let n 5\nregister r[2]\nsubcircuit n { g r[0] }\n")
rt("register r[2]\nsubcircuit { g r[0] }\n")
print("# let-bounded slices")
rt("let a 0\nlet b 2\nregister r[4]\nmap q r[a:b]\ng q[0]\n")
rt("let a 1\nlet b 3\nlet s 2\nregister r[4]\nmap q r[a:b:s]\ng q[0]\n")
rt("register r[4]\nmap q r[1:3]\nmap z q[1]\ng z\n")
rt("register r[4]\nmap q r[:3]\ng q[0]\n")
rt("register r[4]\nmap q r[1:]\ng q[0]\n")
rt("register r[4]\nmap q r[::2]\ng q[0]\n")
print("# let-sized register")
rt("let n 3\nregister r[n]\ng r[0]\n")
print("# nesting")
rt("register r[2]\n{ < g r[0] | { g r[1]; < g r[0] > } > }\n")
rt("register r[2]\nloop 3 < g r[0] | g r[1] >\n")
rt("register r[2]\nmacro m a b { g a b }\nm r[0] 1.5\n")
rt("register r[2]\nmacro m a b < g a | g b >\nm r[0] r[1]\n")
rt("register r[2]\nmacro m { g r[0] }\nm\n")
rt("let k 2\nregister r[4]\ng r[k]\n")
rt("register r[2]\ng r[0] -1\ng r[0] +3\ng r[0] -.5\n")
rt("let x -3\nlet y -0.0\nregister r[2]\n")
rt("let x 3.0\nregister r[2]\n")
rt("from a.b usepulses *\nregister r[2]\n", )
