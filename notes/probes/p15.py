import sys; sys.path.insert(0,'/tmp/exp')
import numpy as np, random, itertools, signal
from gates import G, GI
from jaqalpaq.parser import parse_jaqal_string
from jaqalpaq.emulator import run_jaqal_circuit
from jaqalpaq.error import JaqalError
def PI(t, **k): return parse_jaqal_string(t, inject_pulses=GI, autoload_pulses=False, **k)
# reference: apply U on qubits qs (bit k of U index <-> qs[k]) to state of n qubits, little endian
def ref_apply(vec, U, qs, n):
    out = np.zeros_like(vec)
    for i in range(2**n):
        for j in range(2**n):
            # bystanders equal
            ok = all(((i>>b)&1)==((j>>b)&1) for b in range(n) if b not in qs)
            if not ok: continue
            r = sum((((i>>q)&1)<<k) for k,q in enumerate(qs)); c = sum((((j>>q)&1)<<k) for k,q in enumerate(qs))
            out[i] += U[r,c]*vec[j]
    return out
rng = random.Random(5)
bad = 0
for trial in range(150):
    n = rng.randint(1,4)
    lines = [f"register r[{n}]", "prepare_all"]
    vec = np.zeros(2**n, dtype=complex); vec[0]=1
    for _ in range(rng.randint(0,6)):
        name = rng.choice(["X","H","Rz","Rx","CX","CCX","N","I_X","I_CX"])
        gd = GI[name]
        nq = sum(1 for p in gd.parameters if not p.classical)
        if nq > n: continue
        qs = rng.sample(range(n), nq)
        args=[]; cl=[]
        for p in gd.parameters:
            if p.classical:
                v = round(rng.uniform(-7,7),3); args.append(str(v)); cl.append(v)
        qi = iter(qs)
        full = []
        for p in gd.parameters:
            if p.classical: full.append(str(cl.pop(0)) if False else None)
        # build arg text in param order
        cl2 = [a for a in args]
        txt=[]; ci=iter(cl2)
        for p in gd.parameters:
            txt.append(next(ci) if p.classical else f"r[{next(qi)}]")
        lines.append(name+" "+" ".join(txt))
        base = gd._parent_def if name.startswith("I_") else gd
        if name.startswith("I_") or gd.ideal_unitary is None: continue
        U = gd.ideal_unitary(*[float(a) for a in args])
        vec = ref_apply(vec, U, qs, n)
    lines.append("measure_all")
    r = run_jaqal_circuit(PI("\n".join(lines)+"\n"))
    sv = r.subcircuits[0].state_vector
    if not np.allclose(sv, vec, atol=1e-9):
        bad += 1; print("MISMATCH", lines)
print("bad", bad)
