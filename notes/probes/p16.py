import sys; sys.path.insert(0,'/tmp/exp')
import numpy as np, random, signal
from gates import G, GI
from jaqalpaq.parser import parse_jaqal_string
from jaqalpaq.emulator import run_jaqal_circuit
from jaqalpaq.error import JaqalError
def PI(t, **k): return parse_jaqal_string(t, inject_pulses=GI, autoload_pulses=False, **k)
def h(*a): raise TimeoutError("hang")
signal.signal(signal.SIGALRM, h)
rng = random.Random(int(sys.argv[1]) if len(sys.argv)>1 else 1)
# program tree: list of items: ('g',name) | ('loop',n,[items]) | ('seq',[items]) | ('sub',[items])
def gen_items(depth, allow_sub=True):
    items=[]
    for _ in range(rng.randint(0,4)):
        k = rng.random()
        if k<0.25: items.append(('g','prepare_all'))
        elif k<0.5: items.append(('g','measure_all'))
        elif k<0.65: items.append(('g','X'))
        elif k<0.85 and depth<3: items.append(('loop', rng.choice([0,0,1,2,3]), gen_items(depth+1, allow_sub)))
        elif k<0.92 and depth<3 and allow_sub: items.append(('sub', gen_items(depth+1, False)))
        elif depth<3: items.append(('par1', gen_items(depth+1, allow_sub)))  # < { ... } >
    return items
def text(items, ind=0):
    out=[]
    for it in items:
        if it[0]=='g': out.append(it[1] + (" r[0]" if it[1]=='X' else ""))
        elif it[0]=='loop': out.append(f"loop {it[1]} {{\n"+text(it[2])+"\n}")
        elif it[0]=='sub': out.append("subcircuit {\n"+text(it[1])+"\n}")
        elif it[0]=='par1': out.append("< {\n"+text(it[1])+"\n} >")
    return "\n".join(out)
# reference
class Rej(Exception): pass
def reference(items):
    # expand subs
    def exp(items):
        o=[]
        for it in items:
            if it[0]=='sub': o.append(('seq',[('g','prepare_all')]+exp(it[1])+[('g','measure_all')]))
            elif it[0]=='loop': o.append(('loop',it[1],exp(it[2])))
            elif it[0]=='par1': o.append(('seq',exp(it[1])))
            else: o.append(it)
        return o
    items = exp(items)
    # flat-order scan giving each gate an id; traces
    flat=[]
    def scan(items, reps_stack):
        for it in items:
            if it[0]=='g': flat.append(it)
            elif it[0]=='loop': scan(it[2], None)
            else: scan(it[1], None)
    # Implement property statement rules directly
    # flat order walk with state
    cur=[None]; traces=[]; gid=[0]
    starts={}  # gate id -> trace idx (assigned at close)
    def walk(items, reps):
        count=len(traces); had=cur[0] is not None
        for it in items:
            if it[0]=='g':
                i=gid[0]; gid[0]+=1
                it_id=i
                if it[1]=='prepare_all': cur[0]=i
                elif it[1]=='measure_all':
                    if cur[0] is None: raise Rej("measure without prepare")
                    starts[cur[0]]=len(traces); traces.append((cur[0],i)); cur[0]=None
                else:
                    if cur[0] is None: raise Rej("gate outside")
            elif it[0]=='loop': walk(it[2], it[1])
            else: walk(it[1], 1)
        if had and reps>1 and len(traces)!=count: raise Rej("m->p in loop")
    walk(items,1)
    # execution
    visits=[]; gid2=[0]
    def idassign(items):
        o=[]
        for it in items:
            if it[0]=='g': o.append(('g',it[1],gid2[0])); gid2[0]+=1
            elif it[0]=='loop': o.append(('loop',it[1],idassign(it[2])))
            else: o.append(('seq',idassign(it[1])))
        return o
    t=idassign(items)
    def ex(items):
        for it in items:
            if it[0]=='g':
                if it[2] in starts: visits.append(starts[it[2]])
            elif it[0]=='loop':
                for _ in range(it[1]): ex(it[2])
            else: ex(it[1])
    ex(t)
    return len(traces), visits
stats={'acc':0,'rej':0,'hang':0,'mismatch':0}
for trial in range(400):
    items = gen_items(0)
    src = "register r[1]\n"+text(items)+"\n"
    try: exp_n, exp_vis = reference(items); exp=('ok',exp_n,exp_vis)
    except Rej as e: exp=('rej',str(e))
    signal.alarm(3)
    try:
        r = run_jaqal_circuit(PI(src))
        got=('ok',len(r.subcircuits),[ro.subcircuit.index for ro in r.readouts])
    except JaqalError as e: got=('rej',str(e))
    except TimeoutError: got=('hang',)
    except BaseException as e: got=('exc',type(e).__name__,str(e))
    finally: signal.alarm(0)
    if got[0]=='hang': stats['hang']+=1
    if exp[0]!=got[0] or (exp[0]=='ok' and exp!=got):
        stats['mismatch']+=1
        if stats['mismatch']<=12: print("----\n"+src, "EXP",exp,"GOT",got)
    else: stats['acc' if exp[0]=='ok' else 'rej']+=1
print(stats)
