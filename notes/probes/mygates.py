from jaqalpaq.core import GateDefinition, Parameter, ParamType
class jaqal_gates:
    ALL_GATES = dict(tg=GateDefinition("tg", [Parameter("q0", ParamType.QUBIT)]))
