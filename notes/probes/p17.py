import sys; sys.path.insert(0,'/tmp/exp')
exec(open('/tmp/exp/p4.py').read().split('print("==== expand_macros")')[0])
import itertools
from jaqalpaq.core.algorithm import normalize_blocks_with_unitary_timing as N
T = "let n 2\nlet t 0.5\nregister r[4]\nmap a r[0:n]\nmacro inner x { g x t }\nmacro m x { inner x ; < h x | h r[3] > }\nloop n { subcircuit { k a[0] t ; m a[1] } }\nprepare_all\nm r[0]\nmeasure_all\n"
c = P(T)
passes = {"L": fill_in_let, "M": expand_macros, "S": expand_subcircuits, "A": fill_in_map}
res = {}
for order in itertools.permutations("LMSA"):
    x = c
    try:
        for p in order: x = passes[p](x)
        res["".join(order)] = gen(x)
    except Exception as e:
        res["".join(order)] = f"EXC {type(e).__name__}: {e}"
groups = {}
for k,v in res.items(): groups.setdefault(v, []).append(k)
for v,ks in groups.items(): print(ks, "\n", v, "\n=======")
for p in "LMSA":
    try:
        a = passes[p](c); b = passes[p](a); print(p, "idempotent:", a == b, gen(a)==gen(b))
    except Exception as e: print(p, "EXC", e)
# parse flags
for kw in [dict(expand_macro=True), dict(expand_let=True), dict(expand_let_map=True), dict(expand_macro=True, expand_let_map=True)]:
    try:
        a = P(T, **kw)
        b = c
        if kw.get('expand_macro'): b = expand_macros(b, preserve_definitions=True)
        if kw.get('expand_let_map'): b = fill_in_map(fill_in_let(b))
        elif kw.get('expand_let'): b = fill_in_let(b)
        print(kw, a == b)
    except Exception as e: print(kw, "EXC", type(e).__name__, e)
