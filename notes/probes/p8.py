import sys; sys.path.insert(0,'/tmp/exp')
exec(open('/tmp/exp/p4.py').read().split('print("==== expand_macros")')[0])
from gates import G, GI
import numpy as np, copy
from jaqalpaq.core.result import parse_jaqal_output_list
from jaqalpaq.emulator import run_jaqal_circuit
from jaqalpaq.core.algorithm import normalize_blocks_with_unitary_timing as N
def PI(t, **k): return parse_jaqal_string(t, inject_pulses=GI, autoload_pulses=False, **k)
T = "let n 2\nlet t 0.5\nregister r[4]\nmap a r[0:n]\nmacro m x { Rz x t ; < X x | H r[3] > }\nloop n { subcircuit { Rx a[0] t ; m a[1] } }\nprepare_all\nX r[0]\nmeasure_all\n"
def snap(c): return (repr(c), gen(c), len(c.native_gates), len(c.body.statements))
for name, f in [("expand_macros", expand_macros), ("fill_in_let", fill_in_let), ("fill_in_let ov", lambda c: fill_in_let(c, {'n':1})), ("fill_in_map", fill_in_map), ("expand_subcircuits", expand_subcircuits), ("unit", N), ("used", get_used_qubit_indices), ("gen", gen), ("run", run_jaqal_circuit), ("pol", lambda c: parse_jaqal_output_list(c, [0]*5))]:
    c = PI(T); s0 = snap(c)
    try:
        out = f(c)
    except Exception as e:
        print(name, "EXC", type(e).__name__, e); out=None
    s1 = snap(c)
    print(name, "input unchanged:", s0 == s1)
    # shared containers?
    if hasattr(out, 'native_gates'):
        print("   shares native_gates dict:", out.native_gates is c.native_gates, " body stmts list shared:", out.body.statements is c.body.statements)
# native_gates sharing hazard: anonymous gates
c = P("register r[2]\ng r[0]\n")
e = expand_macros(c)
print("native shared (no inject):", e.native_gates is c.native_gates, c.native_gates)
# mutation through builder: fill_in_let's build with inject_pulses=circuit.native_gates → Builder.make_gate_context copies? gate_context.update(inject) new dict; native_gates = gate_context.copy()
c = PI(T)
f = fill_in_let(c)
print("fill_in_let native same obj:", f.native_gates is c.native_gates, f.native_gates == c.native_gates)
# macros added to gate_context but native_gates copied before
print(len(f.native_gates), len(c.native_gates))
