namespace Spike

def gather : List Nat → Nat → Nat
  | [], _ => 0
  | q :: qs, i => (if i.testBit q then 1 else 0) + 2 * gather qs i

def clear (qs : List Nat) (i : Nat) : Nat := qs.foldl (fun m q => m ^^^ (m &&& (1 <<< q))) i

def scatter : List Nat → Nat → Nat → Nat
  | [], _, m => m
  | q :: qs, c, m => scatter qs (c / 2) (if c % 2 = 1 then m ||| (1 <<< q) else m)

theorem testBit_bit (q b : Nat) : (1 <<< q).testBit b = decide (q = b) := by
  rw [Nat.one_shiftLeft, Nat.testBit_two_pow]

theorem testBit_clear1 (m q b : Nat) : (m ^^^ (m &&& (1 <<< q))).testBit b = (m.testBit b && !decide (q = b)) := by
  simp only [Nat.testBit_xor, Nat.testBit_and, testBit_bit]
  cases m.testBit b <;> cases decide (q = b) <;> rfl

theorem testBit_clear (qs : List Nat) (i b : Nat) : (clear qs i).testBit b = (i.testBit b && !decide (b ∈ qs)) := by
  unfold clear
  induction qs generalizing i with
  | nil => simp
  | cons q qs ih =>
    rw [List.foldl_cons, ih, testBit_clear1]
    by_cases h : q = b
    · subst h; simp
    · have h' : ¬ b = q := fun e => h e.symm
      by_cases h2 : b ∈ qs <;> simp [h, h', h2]

theorem testBit_scatter (qs : List Nat) (c m b : Nat) (hb : b ∉ qs) : (scatter qs c m).testBit b = m.testBit b := by
  induction qs generalizing c m with
  | nil => rfl
  | cons q qs ih =>
    simp only [List.mem_cons, not_or] at hb
    unfold scatter
    rw [ih _ _ hb.2]
    split
    · rw [Nat.testBit_or, testBit_bit]; simp [Ne.symm hb.1]
    · rfl

/-- bit k of c lands on qubit qs[k] (distinct qubits) -/
theorem testBit_scatter_mem (qs : List Nat) (hd : qs.Nodup) (c m k : Nat) (hk : k < qs.length)
    (hm : ∀ q ∈ qs, m.testBit q = false) : (scatter qs c m).testBit qs[k] = c.testBit k := by
  induction qs generalizing c m k with
  | nil => simp at hk
  | cons q qs ih =>
    rw [List.nodup_cons] at hd
    unfold scatter
    cases k with
    | zero =>
      simp only [List.getElem_cons_zero]
      rw [testBit_scatter _ _ _ _ hd.1]
      have hq := hm q (List.mem_cons_self)
      split <;> rename_i h
      · rw [Nat.testBit_or, testBit_bit]; simp [hq, Nat.testBit_zero, h]
      · simp [hq, Nat.testBit_zero]; omega
    | succ k =>
      simp only [List.getElem_cons_succ]
      have hk' : k < qs.length := by simpa using hk
      rw [ih hd.2 (c/2) _ k hk']
      · simp [Nat.testBit_succ]
      · intro q' hq'
        have hne : q ≠ q' := fun e => hd.1 (e ▸ hq')
        have := hm q' (List.mem_cons_of_mem _ hq')
        split
        · rw [Nat.testBit_or, testBit_bit]; simp [this, hne]
        · exact this

theorem gather_lt (qs : List Nat) (i : Nat) : gather qs i < 2 ^ qs.length := by
  induction qs with
  | nil => simp [gather]
  | cons q qs ih => simp only [gather, List.length_cons, Nat.pow_succ]; split <;> omega

theorem testBit_gather (qs : List Nat) (i k : Nat) (hk : k < qs.length) : (gather qs i).testBit k = i.testBit qs[k] := by
  induction qs generalizing k with
  | nil => simp at hk
  | cons q qs ih =>
    cases k with
    | zero =>
      simp only [gather, List.getElem_cons_zero, Nat.testBit_zero]
      cases i.testBit q <;> simp <;> omega
    | succ k =>
      have hk' : k < qs.length := by simpa using hk
      simp only [gather, List.getElem_cons_succ, Nat.testBit_succ]
      rw [← ih k hk']
      congr 1
      split <;> omega

/-- writing back the gathered bits over the cleared mask restores the index -/
theorem scatter_gather (qs : List Nat) (hd : qs.Nodup) (i : Nat) : scatter qs (gather qs i) (clear qs i) = i := by
  apply Nat.eq_of_testBit_eq
  intro b
  by_cases hb : b ∈ qs
  · obtain ⟨k, hk, rfl⟩ := List.getElem_of_mem hb
    rw [testBit_scatter_mem qs hd _ _ k hk, testBit_gather qs i k hk]
    intro q hq; simp [testBit_clear, hq]
  · rw [testBit_scatter _ _ _ _ hb, testBit_clear]; simp [hb]

#print axioms scatter_gather
end Spike
