/-! Spike: DiscoverSubcircuits + TraceVisitor as state machines over addresses, plus a tree-recursive spec. -/
inductive Stmt where
  | gate (name : String)
  | block (body : List Stmt)
  | loop (n : Nat) (body : List Stmt)
  deriving Repr, Inhabited

abbrev Addr := List Nat

structure DState where
  cur : Option Addr := none
  subs : Array (Addr × Addr) := #[]

mutual
  def discStmt (s : Stmt) (addr : Addr) (st : DState) : Except String DState :=
    match s with
    | .gate "P" => pure { st with cur := some addr }
    | .gate "M" =>
      match st.cur with
      | none => throw "measure-without-prepare"
      | some a => pure { cur := none, subs := st.subs.push (a, addr) }
    | .gate _ =>
      match st.cur with
      | none => throw "gate-outside"
      | some _ => pure st
    | .block body => discBlock body addr 0 1 st.subs.size st.cur.isSome st
    | .loop n body => discBlock body addr 0 n st.subs.size st.cur.isSome st
  def discBlock (body : List Stmt) (addr : Addr) (i : Nat) (reps : Nat) (count : Nat) (had : Bool) (st : DState) : Except String DState :=
    match body with
    | [] => if had && decide (reps > 1) && decide (st.subs.size ≠ count) then throw "m->p-in-loop" else pure st
    | s :: rest => do
      let st' ← discStmt s (addr ++ [i]) st
      discBlock rest addr (i+1) reps count had st'
end

def discover (prog : List Stmt) : Except String (Array (Addr × Addr)) := do
  let st ← discBlock prog [] 0 1 0 false {}
  pure st.subs      -- a trailing open trace is simply not in subs

/-- list prefix test -/
def isPrefix (a b : Addr) : Bool := a == b.take a.length

structure VState where
  index : Nat
  objective : Option Addr
  out : Array Nat
  deriving Repr

/-- Faithful TraceVisitor with fuel. `fixed` selects the repaired zero-loop behaviour. -/
def visitBlock (fixed : Bool) (starts : Array Addr) : Nat → List Stmt → Addr → VState → Option VState
  | 0, _, _, _ => none
  | fuel+1, body, addr, st =>
    match st.objective with
    | none => some st
    | some obj =>
      if !(isPrefix addr obj) then some st else
      let n := obj.getD addr.length 0
      if addr.length + 1 == obj.length then
        let st1 := { st with out := st.out.push st.index, index := st.index + 1 }
        if st1.index == starts.size then some { st1 with objective := none }
        else visitBlock fixed starts fuel body addr { st1 with objective := starts[st1.index]? }
      else
        match body[n]? with
        | none => none
        | some (.gate _) => none
        | some (.block b) =>
          match visitBlock fixed starts fuel b (addr ++ [n]) st with
          | none => none
          | some st2 => visitBlock fixed starts fuel body addr st2
        | some (.loop k b) =>
          let a := addr ++ [n]
          let rec iter : Nat → VState → Option VState
            | 0, cur => some cur
            | j+1, cur =>
              match visitBlock fixed starts fuel b a { cur with index := st.index, objective := st.objective } with
              | none => none
              | some c => iter j c
          let r :=
            if k == 0 then
              if fixed then
                -- skip every trace that starts inside this loop
                let rec skip (f : Nat) (i : Nat) : Nat :=
                  match f with
                  | 0 => i
                  | f+1 => match starts[i]? with
                    | some s => if isPrefix a s then skip f (i+1) else i
                    | none => i
                let i' := skip starts.size st.index
                some { st with index := i', objective := starts[i']? }
              else some st
            else iter k st
          match r with
          | none => none
          | some st2 => visitBlock fixed starts fuel body addr st2

/-- Spec: tree-recursive; `k` = index of the next trace in flat order on entry; returns emitted visits and k on exit. -/
def countStarts (starts : Array Addr) (a : Addr) : Nat := (starts.toList.filter (isPrefix a ·)).length

mutual
  def specStmt (starts : Array Addr) (s : Stmt) (addr : Addr) (k : Nat) : (List Nat × Nat) :=
    match s with
    | .gate _ => if starts[k]? == some addr then ([k], k+1) else ([], k)
    | .block b => specBlock starts b addr 0 k
    | .loop n b =>
      let (once, k') := specBlock starts b addr 0 k
      ((List.replicate n once).flatten, k')
  def specBlock (starts : Array Addr) (body : List Stmt) (addr : Addr) (i : Nat) (k : Nat) : (List Nat × Nat) :=
    match body with
    | [] => ([], k)
    | s :: rest =>
      let (o1, k1) := specStmt starts s (addr ++ [i]) k
      let (o2, k2) := specBlock starts rest addr (i+1) k1
      (o1 ++ o2, k2)
end

/-! tiny text format:  P M G  L<n>( ... )  B( ... ) -/
partial def parseItems (ts : List String) : (List Stmt × List String) :=
  match ts with
  | [] => ([], [])
  | ")" :: rest => ([], rest)
  | "P" :: rest => let (xs, r) := parseItems rest; (.gate "P" :: xs, r)
  | "M" :: rest => let (xs, r) := parseItems rest; (.gate "M" :: xs, r)
  | "G" :: rest => let (xs, r) := parseItems rest; (.gate "G" :: xs, r)
  | "B(" :: rest =>
    let (b, r1) := parseItems rest; let (xs, r) := parseItems r1; (.block b :: xs, r)
  | t :: rest =>
    if t.startsWith "L" then
      let n := ((t.drop 1).dropRight 1).toNat!
      let (b, r1) := parseItems rest; let (xs, r) := parseItems r1; (.loop n b :: xs, r)
    else parseItems rest

def runLine (line : String) : String :=
  let toks := (line.splitOn " ").filter (· ≠ "")
  let (prog, _) := parseItems toks
  match discover prog with
  | .error e => s!"rej {e}"
  | .ok subs =>
    let starts := subs.map (·.1)
    let st0 : VState := { index := 0, objective := starts[0]?, out := #[] }
    let fuel := 100000
    let buggy := match visitBlock false starts fuel prog [] st0 with | some s => toString s.out.toList | none => "hang"
    let fixd := match visitBlock true starts fuel prog [] st0 with | some s => toString s.out.toList | none => "hang"
    let spec := (specBlock starts prog [] 0 0).1
    s!"ok {subs.size} buggy={buggy} fixed={fixd} spec={spec}"

partial def loop (h : IO.FS.Stream) : IO Unit := do
  let line ← h.getLine
  if line.isEmpty then return ()
  IO.println (runLine line.trimRight)
  loop h
def main : IO Unit := do loop (← IO.getStdin)
