import JaqalModel.Model.UnitTiming
/-!
Specification side of C19: the lock-step ("unit time") schedule of a statement tree, the normal form
the normaliser promises, the subcircuit frame, and the two defects that make it refuse a program.

## Reading of the unit-time model (decisions)

* a gate takes one step;
* a sequential block runs its statements one after the other: duration = sum;
* a parallel block starts all its branches together: duration = max (0 when empty);
* a loop `loop n body` is `n` back-to-back executions of its body: duration `n * dur body`, and a gate
  of the body occurs `n` times in the schedule (iteration `k` shifted by `k * dur body`).  This is the
  honest reading; the normaliser never looks inside a loop and only ever leaves a loop in a sequential
  position, so under this reading (and under any other that gives a loop a fixed duration) the schedule
  is preserved.  A loop that would have to be interleaved with parallel siblings is *rejected*.
* a subcircuit block is scheduled like the ordinary block with the same `par` flag (this is the
  schedule of one of its `iters` hardware repetitions; the prepare/measure it implies are not gates of
  the program).  Its interior is normalised recursively and the block itself stays one item of the
  sequence it stands in.
-/
namespace Jaqal.UnitTiming

/-! ### durations and start times -/

mutual
/-- Number of time steps a statement takes. -/
def dur : Stmt → Nat
  | .gate _ => 1
  | .loop n b => n * dur b
  | .block par _ _ body => if par then durMax body else durSum body
def durSum : List Stmt → Nat
  | [] => 0
  | s :: r => dur s + durSum r
def durMax : List Stmt → Nat
  | [] => 0
  | s :: r => max (dur s) (durMax r)
end

/-- Delay every entry of a schedule by `d` steps. -/
def shift (d : Nat) (l : List (Nat × Nat)) : List (Nat × Nat) := l.map (fun p => (p.1, p.2 + d))

/-- `n` back-to-back copies of the schedule `l` of a body of duration `d`. -/
def repeatShift : Nat → Nat → List (Nat × Nat) → List (Nat × Nat)
  | 0, _, _ => []
  | n + 1, d, l => l ++ shift d (repeatShift n d l)

mutual
/-- `times t s`: the gate executions `(gate id, time step)` of `s` when `s` starts at step `t`,
listed in program order. -/
def times : Nat → Stmt → List (Nat × Nat)
  | t, .gate i => [(i, t)]
  | t, .loop n b => repeatShift n (dur b) (times t b)
  | t, .block par _ _ body => if par then timesPar t body else timesSeq t body
/-- statements one after the other -/
def timesSeq : Nat → List Stmt → List (Nat × Nat)
  | _, [] => []
  | t, s :: r => times t s ++ timesSeq (t + dur s) r
/-- statements starting together -/
def timesPar : Nat → List Stmt → List (Nat × Nat)
  | _, [] => []
  | t, s :: r => times t s ++ timesPar t r
end

/-! ### the subcircuit frame -/

mutual
/-- `(nesting depth among subcircuit blocks, iterations)` of every subcircuit block, in program order
(this list determines the forest of subcircuit blocks with their `iters` annotations). -/
def subs : Nat → Stmt → List (Nat × Nat)
  | _, .gate _ => []
  | d, .loop _ b => subs d b
  | d, .block _ sub it body => if sub then (d, it) :: subsList (d + 1) body else subsList d body
def subsList : Nat → List Stmt → List (Nat × Nat)
  | _, [] => []
  | d, s :: r => subs d s ++ subsList d r
end

mutual
/-- `(iterations, start step, duration)` of every subcircuit block when `s` starts at step `t`, in
program order (for a subcircuit block inside a loop: its slot in the first iteration). -/
def slots : Nat → Stmt → List (Nat × Nat × Nat)
  | _, .gate _ => []
  | t, .loop _ b => slots t b
  | t, .block par sub it body =>
      (if sub then [(it, t, if par then durMax body else durSum body)] else []) ++
      (if par then slotsPar t body else slotsSeq t body)
def slotsSeq : Nat → List Stmt → List (Nat × Nat × Nat)
  | _, [] => []
  | t, s :: r => slots t s ++ slotsSeq (t + dur s) r
def slotsPar : Nat → List Stmt → List (Nat × Nat × Nat)
  | _, [] => []
  | t, s :: r => slots t s ++ slotsPar t r
end

/-! ### the normal form -/

def isGate : Stmt → Bool
  | .gate _ => true
  | _ => false

mutual
/-- An item of a normalised sequence: a gate, a loop (left untouched), a parallel group
`<g | g | …>` of at least two gates and nothing else, or a (sequential) subcircuit block whose body is
again a normalised sequence. -/
def isFlatItem : Stmt → Bool
  | .gate _ => true
  | .loop _ _ => true
  | .block par sub it body =>
      if sub then !par && isFlatList body
      else par && it == 1 && body.all isGate && decide (2 ≤ body.length)
def isFlatList : List Stmt → Bool
  | [] => true
  | s :: r => isFlatItem s && isFlatList r
end

/-! ### the two defects -/

mutual
/-- `loopInPar p s`: `s`, standing in a parallel context iff `p`, contains a loop that lies inside a
parallel block with no other loop in between (the bodies of loops are not inspected). -/
def loopInPar : Bool → Stmt → Bool
  | _, .gate _ => false
  | p, .loop _ _ => p
  | p, .block par _ _ body => anyLoopInPar (p || par) body
def anyLoopInPar : Bool → List Stmt → Bool
  | _, [] => false
  | p, s :: r => loopInPar p s || anyLoopInPar p r
end

mutual
/-- `subInPar p s`: likewise for a subcircuit block inside a parallel block. -/
def subInPar : Bool → Stmt → Bool
  | _, .gate _ => false
  | _, .loop _ _ => false
  | p, .block par sub _ body => (p && sub) || anySubInPar (p || par) body
def anySubInPar : Bool → List Stmt → Bool
  | _, [] => false
  | p, s :: r => subInPar p s || anySubInPar p r
end

end Jaqal.UnitTiming
