import JaqalModel.Model.Ir
import JaqalModel.Base.Err
/-!
# Gate-level meaning of a circuit (specification layer)

`meaning ρ c` is the series / parallel / loop / subcircuit tree of native gate applications of a
circuit, with

* every number evaluated (a let-constant `n` denotes `ρ n` when `ρ` binds it — the override
  dictionary — and its declared value otherwise),
* every qubit reference resolved to `(fundamental register, index)`,
* every macro call replaced by the meaning of the macro's body with the parameters bound to the
  (evaluated) arguments of the call — call-by-substitution; since constants are global and
  arguments are evaluated in the caller's scope this coincides with call-by-value.

It is written independently of the library's own resolution code: a register *denotes the list
of fundamental qubits it stands for* (`evalReg`), an alias slice denotes the sub-list picked by
`range(start, stop, step)`, and indexing is list indexing. C06 relates the library's closed-form
`resolve_qubit` (start + i·step composed along the chain) to this.

`Sem.norm` removes the one thing meaning is insensitive to: a non-subcircuit block nested
directly in a block of the same kind is spliced (associativity of `;` and of `|` under
lock-step timing). Two circuits have the same meaning when their normalised trees are equal.
-/
namespace Jaqal.Sem

/-- a fundamental qubit -/
abbrev FQ := String × Int

/-- an evaluated gate argument -/
inductive SArg where
  | num (n : Num)
  | qubit (q : FQ)
  /-- a whole register passed as an argument: the fundamental qubits it denotes, in order -/
  | reg (qs : List FQ)
  deriving DecidableEq, Repr, Inhabited

inductive Sem where
  | gate (name : String) (args : List SArg)
  | blk (par sub : Bool) (iters : Int) (body : List Sem)
  | loop (n : Int) (body : Sem)
  deriving Repr, Inhabited

/-- override environment: let-constant name ↦ value -/
abbrev Env := List (String × Num)
/-- macro-parameter bindings: name ↦ evaluated argument -/
abbrev Bind := List (String × SArg)

def lookup {α} (l : List (String × α)) (n : String) : Option α := (l.find? (·.1 == n)).map (·.2)

/-- the value of a number-like `Val` -/
def evalNum (ρ : Env) (b : Bind) : Val → M Num
  | .int v => pure (.int v)
  | .flt d => pure (.flt d)
  | .const n v =>
    match lookup ρ n with
    | some x => pure x
    | none => evalNum ρ b v
  | .param n _ =>
    match lookup b n with
    | some (.num x) => pure x
    | _ => .error (.jaqal "unbound or non-numeric parameter")
  | _ => .error (.jaqal "not a number")

def evalInt (ρ : Env) (b : Bind) (v : Val) : M Int := do
  match ← evalNum ρ b v with
  | .int i => pure i
  | .flt d => if d.isIntegral then pure d.toInt else .error (.jaqal "not an integer")

/-- `range(start, stop, step)` for `step > 0`, by iteration (fuel `stop - start` is always enough) -/
def rangeUp : Nat → Int → Int → Int → List Int
  | 0, _, _, _ => []
  | f+1, cur, stop, step => if cur < stop then cur :: rangeUp f (cur + step) stop step else []

def rangeDown : Nat → Int → Int → Int → List Int
  | 0, _, _, _ => []
  | f+1, cur, stop, step => if cur > stop then cur :: rangeDown f (cur + step) stop step else []

/-- `list(range(start, stop, step))` -/
def rangeList (start stop step : Int) : List Int :=
  if step > 0 then rangeUp (stop - start).toNat start stop step
  else if step < 0 then rangeDown (start - stop).toNat start stop step
  else []

def nth? {α} (l : List α) (i : Int) : Option α := if i < 0 then none else l[i.toNat]?

/-- the list of fundamental qubits a register value denotes -/
def evalReg (ρ : Env) (b : Bind) : Val → M (List FQ)
  | .regF n size => do
    let k ← evalInt ρ b size
    if k < 1 then .error (.jaqal "register size") else
    pure ((List.range k.toNat).map (fun (i : Nat) => (n, (i : Int))))
  | .regA _ src => evalReg ρ b src
  | .regS _ src start stop step => do
    let l ← evalReg ρ b src
    let a ← match start with | .none => pure 0 | v => evalInt ρ b v
    let s ← match step with | .none => pure 1 | v => evalInt ρ b v
    let e ← match stop with | .none => pure (l.length : Int) | v => evalInt ρ b v
    if s = 0 then .error (.jaqal "zero step") else
    (rangeList a e s).mapM (fun i => match nth? l i with
      | some q => pure q
      | none => .error (.jaqal "slice leaves its source"))
  | .param n _ =>
    match lookup b n with
    | some (.reg qs) => pure qs
    | _ => .error (.jaqal "unbound or non-register parameter")
  | _ => .error (.jaqal "not a register")

def evalQubit (ρ : Env) (b : Bind) : Val → M FQ
  | .qubit _ src idx => do
    let i ← evalInt ρ b idx
    let l ← evalReg ρ b src
    match nth? l i with
    | some q => pure q
    | none => .error (.jaqal "index out of range")
  | .param n _ =>
    match lookup b n with
    | some (.qubit q) => pure q
    | _ => .error (.jaqal "unbound or non-qubit parameter")
  | _ => .error (.jaqal "not a qubit")

/-- a gate argument -/
def evalArg (ρ : Env) (b : Bind) : Val → M SArg
  | v@(.int _) => do pure (.num (← evalNum ρ b v))
  | v@(.flt _) => do pure (.num (← evalNum ρ b v))
  | v@(.const _ _) => do pure (.num (← evalNum ρ b v))
  | .param n _ =>
    match lookup b n with
    | some a => pure a
    | none => .error (.jaqal "unbound parameter")
  | v@(.qubit _ _ _) => do pure (.qubit (← evalQubit ρ b v))
  | v@(.regF _ _) => do pure (.reg (← evalReg ρ b v))
  | v@(.regA _ _) => do pure (.reg (← evalReg ρ b v))
  | v@(.regS _ _ _ _ _) => do pure (.reg (← evalReg ρ b v))
  | _ => .error (.jaqal "bad argument")

/-- denotation of the macros defined so far: name ↦ (arity, arguments ↦ meaning of the body) -/
abbrev MacroDen := List (String × (Nat × (List SArg → M Sem)))

mutual
  def evalStmt (ρ : Env) (md : MacroDen) (b : Bind) : Stmt → M Sem
    | .gate name _ args => do
      let vs ← args.mapM (fun a => evalArg ρ b a.2)
      match lookup md name with
      | some (arity, f) => if vs.length = arity then f vs else .error (.jaqal "macro arity")
      | none => pure (.gate name vs)
    | .block par sub iters body => do
      let n ← evalInt ρ b iters
      pure (.blk par sub n (← evalStmts ρ md b body))
    | .loop count body => do
      let n ← evalInt ρ b count
      pure (.loop n (← evalStmt ρ md b body))
  def evalStmts (ρ : Env) (md : MacroDen) (b : Bind) : List Stmt → M (List Sem)
    | [] => pure []
    | s :: rest => do
      let x ← evalStmt ρ md b s
      let xs ← evalStmts ρ md b rest
      pure (x :: xs)
end

/-- each macro may call the macros defined before it (the builder guarantees this) -/
def denoteMacros (ρ : Env) (ms : List Macro) : MacroDen :=
  ms.foldl (fun md m =>
    md ++ [(m.name, (m.params.length,
      fun args => evalStmt ρ md (m.params.map (·.1) |>.zip args) m.body))]) []

mutual
  /-- splice non-subcircuit blocks nested directly in a block of the same kind -/
  def Sem.norm : Sem → Sem
    | .gate n a => .gate n a
    | .blk par sub it body => .blk par sub it (normList par body)
    | .loop n b => .loop n b.norm
  def normList (par : Bool) : List Sem → List Sem
    | [] => []
    | .blk p false _ body :: rest =>
      if p = par then normList par body ++ normList par rest
      else .blk p false 1 (normList p body) :: normList par rest
    | s :: rest => s.norm :: normList par rest
end

/-- a gate application -/
abbrev GateApp := String × List SArg

mutual
  /-- gate applications in textual order (loops counted once) -/
  def Sem.flat : Sem → List GateApp
    | .gate n a => [(n, a)]
    | .blk _ _ _ body => flatList body
    | .loop _ b => b.flat
  def flatList : List Sem → List GateApp
    | [] => []
    | s :: rest => s.flat ++ flatList rest
end

mutual
  /-- gate applications in execution order: loops repeated (a count ≤ 0 contributes nothing),
  the branches of a parallel block in the order written (C03/C13: any interleaving gives the same state) -/
  def Sem.unroll : Sem → List GateApp
    | .gate n a => [(n, a)]
    | .blk _ _ _ body => unrollList body
    | .loop n b => (List.replicate n.toNat b.unroll).flatten
  def unrollList : List Sem → List GateApp
    | [] => []
    | s :: rest => s.unroll ++ unrollList rest
end

/-- The meaning of a circuit under the override environment `ρ` (normalised). -/
def meaning (ρ : Env) (c : Circuit) : M Sem := do
  let s ← evalStmt ρ (denoteMacros ρ c.macros) [] c.body
  pure s.norm

end Jaqal.Sem
