import JaqalModel.Base.Sx
import JaqalModel.Model.Lexer
/-!
The Jaqal grammar, as a derivation relation between token strings and statement trees.

Written from the language description (and sly's production list, `Spec/GrammarTable.lean`), independently
of the parser model: it does not import `Model/Parser.lean`, has no notion of "next token", and every rule
is a plain context-free production `tokens ↦ tree` with free concatenation.

* a program is optional padding followed by statements separated by runs of `;`/newline, with an
  optional trailing run; all header statements (`register`, `let`, `map`, `from … usepulses *`) come
  before all body statements (gate, `< >`, `{ }`, `subcircuit`, `loop`, `macro`, `branch`);
* `{ }` may contain gates, `< >`, loops and subcircuits (not a bare `{ }`), separated by `;`/newline runs;
  `< >` may contain gates and `{ }`, separated by `|`/newline runs; both allow leading padding and a
  trailing separator run;
* a loop body, a macro body and a case body are one block (`{ }` or `< >`);
* a register declared with a literal size needs a positive size;
* `import … as …` is not part of the language.

The tree assigned to a text has the shapes listed in `Base/Sx.lean`.

Core Lean only.
-/
namespace Jaqal.Grammar
open Jaqal.Lexer

/-! ## Separators and padding -/

/-- newline or `;` -/
def IsSeqSep (t : Tok) : Prop := t = .NL ∨ t = .semi
/-- newline or `|` -/
def IsParSep (t : Tok) : Prop := t = .NL ∨ t = .bar

/-- `seqpad`: any number of newlines and `;`. -/
def SeqPad (l : List Tok) : Prop := ∀ t ∈ l, IsSeqSep t
/-- `seqsep`: at least one newline or `;`. -/
def SeqSep (l : List Tok) : Prop := l ≠ [] ∧ SeqPad l
/-- `parpad`: any number of newlines and `|`. -/
def ParPad (l : List Tok) : Prop := ∀ t ∈ l, IsParSep t
/-- `parsep`: at least one newline or `|`. -/
def ParSep (l : List Tok) : Prop := l ≠ [] ∧ ParPad l

/-! ## Gate statements -/

/-- `let_or_int`: a name or an integer literal. -/
inductive LetOrInt : Tok → Sx → Prop
  | ident (s : String) : LetOrInt (.IDENTIFIER s) (.str s)
  | int (v : Int) : LetOrInt (.INT v) (.int v)

/-- `gate_arg` -/
inductive GateArg : List Tok → Sx → Prop
  | ident (s : String) : GateArg [.IDENTIFIER s] (.str s)
  | number (d : Dec) : GateArg [.NUMBER d] (.flt d)
  | int (v : Int) : GateArg [.INT v] (.int v)
  | itemIdent (a i : String) :
      GateArg [.IDENTIFIER a, .lbrack, .IDENTIFIER i, .rbrack] (.list [.str "array_item", .str a, .str i])
  | itemInt (a : String) (v : Int) :
      GateArg [.IDENTIFIER a, .lbrack, .INT v, .rbrack] (.list [.str "array_item", .str a, .int v])

/-- `gate_args` -/
inductive GateArgs : List Tok → List Sx → Prop
  | nil : GateArgs [] []
  | cons {a as x xs} : GateArg a x → GateArgs as xs → GateArgs (a ++ as) (x :: xs)

/-- `gate_statement : IDENTIFIER gate_args` -/
inductive Gate : List Tok → Sx → Prop
  | mk (g : String) {as xs} : GateArgs as xs → Gate (.IDENTIFIER g :: as) (.list (.str "gate" :: .str g :: xs))

/-! ## Blocks -/

/-- The phrase kinds of the block structure. A statement list derives `.list [stmt, …]`. -/
inductive Ph where
  /-- `{ … }` -/
  | seqBlock
  /-- `< … >` -/
  | parBlock
  /-- `{ … }` or `< … >` -/
  | gateBlock
  /-- a statement allowed directly inside `{ }` -/
  | seqStmt
  /-- a statement allowed directly inside `< >` -/
  | parStmt
  /-- `sequential_statements` -/
  | seqStmts
  /-- `parallel_statements` -/
  | parStmts
  deriving DecidableEq, Repr

inductive Block : Ph → List Tok → Sx → Prop
  /-- `"{" seqpad sequential_statements "}"` -/
  | seqBlock {pad body xs} : SeqPad pad → Block .seqStmts body (.list xs) →
      Block .seqBlock (.lbrace :: (pad ++ body ++ [.rbrace])) (.list (.str "sequential_block" :: xs))
  /-- `"<" parpad parallel_statements ">"` -/
  | parBlock {pad body xs} : ParPad pad → Block .parStmts body (.list xs) →
      Block .parBlock (.lt :: (pad ++ body ++ [.gt])) (.list (.str "parallel_block" :: xs))
  | gateBlockSeq {ts x} : Block .seqBlock ts x → Block .gateBlock ts x
  | gateBlockPar {ts x} : Block .parBlock ts x → Block .gateBlock ts x
  /- statements inside `{ }` -/
  | seqGate {ts x} : Gate ts x → Block .seqStmt ts x
  | seqPar {ts x} : Block .parBlock ts x → Block .seqStmt ts x
  /-- `LOOP let_or_int gate_block` -/
  | seqLoop {c cx b bx} : LetOrInt c cx → Block .gateBlock b bx →
      Block .seqStmt (.LOOP :: c :: b) (.list [.str "loop", cx, bx])
  /-- `SUBCIRCUIT "{" … "}"` : the empty string stands for the missing count -/
  | seqSub {pad body xs} : SeqPad pad → Block .seqStmts body (.list xs) →
      Block .seqStmt (.SUBCIRCUIT :: .lbrace :: (pad ++ body ++ [.rbrace]))
        (.list (.str "subcircuit_block" :: .str "" :: xs))
  /-- `SUBCIRCUIT let_or_int "{" … "}"` -/
  | seqSubN {c cx pad body xs} : LetOrInt c cx → SeqPad pad → Block .seqStmts body (.list xs) →
      Block .seqStmt (.SUBCIRCUIT :: c :: .lbrace :: (pad ++ body ++ [.rbrace]))
        (.list (.str "subcircuit_block" :: cx :: xs))
  /- statements inside `< >` -/
  | parGate {ts x} : Gate ts x → Block .parStmt ts x
  | parSeq {ts x} : Block .seqBlock ts x → Block .parStmt ts x
  /- statement lists: nothing, one statement, or a statement, a separator run and a list -/
  | seqNil : Block .seqStmts [] (.list [])
  | seqOne {s x} : Block .seqStmt s x → Block .seqStmts s (.list [x])
  | seqCons {s x sep rest xs} : Block .seqStmt s x → SeqSep sep → Block .seqStmts rest (.list xs) →
      Block .seqStmts (s ++ sep ++ rest) (.list (x :: xs))
  | parNil : Block .parStmts [] (.list [])
  | parOne {s x} : Block .parStmt s x → Block .parStmts s (.list [x])
  | parCons {s x sep rest xs} : Block .parStmt s x → ParSep sep → Block .parStmts rest (.list xs) →
      Block .parStmts (s ++ sep ++ rest) (.list (x :: xs))

/-! ## Header statements -/

/-- an optional `let_or_int` (slice start / stop): absent is `None` -/
inductive OptLetOrInt : List Tok → Sx → Prop
  | none : OptLetOrInt [] .none
  | some {t x} : LetOrInt t x → OptLetOrInt [t] x

/-- `slice_step : empty | ":" let_or_int` -/
inductive OptStep : List Tok → Sx → Prop
  | none : OptStep [] .none
  | some {t x} : LetOrInt t x → OptStep [.colon, t] x

inductive Header : List Tok → Sx → Prop
  /-- `register name[size]`; a literal size must be positive -/
  | register (n : String) {sz szx} : LetOrInt sz szx → (∀ v, sz = .INT v → 0 < v) →
      Header [.REG, .IDENTIFIER n, .lbrack, sz, .rbrack] (.list [.str "register", .str n, szx])
  | letInt (n : String) (v : Int) : Header [.LET, .IDENTIFIER n, .INT v] (.list [.str "let", .str n, .int v])
  | letNumber (n : String) (d : Dec) : Header [.LET, .IDENTIFIER n, .NUMBER d] (.list [.str "let", .str n, .flt d])
  /-- `map name src` -/
  | mapWhole (n src : String) :
      Header [.MAP, .IDENTIFIER n, .IDENTIFIER src] (.list [.str "map", .str n, .str src])
  /-- `map name src[i]` -/
  | mapIndex (n src : String) {i ix} : LetOrInt i ix →
      Header [.MAP, .IDENTIFIER n, .IDENTIFIER src, .lbrack, i, .rbrack] (.list [.str "map", .str n, .str src, ix])
  /-- `map name src[start:stop:step]`, every part optional (the second colon only with a step) -/
  | mapSlice (n src : String) {a ax b bx c cx} : OptLetOrInt a ax → OptLetOrInt b bx → OptStep c cx →
      Header (.MAP :: .IDENTIFIER n :: .IDENTIFIER src :: .lbrack :: (a ++ .colon :: (b ++ (c ++ [.rbrack]))))
        (.list [.str "map", .str n, .str src, ax, bx, cx])
  | usepulses (m : String) :
      Header [.FROM, .IDENTIFIER m, .USEPULSES, .star] (.list [.str "usepulses", .str m, .str "*"])
  | usepulsesDot (m : String) :
      Header [.FROM, .DOTIDENTIFIER m, .USEPULSES, .star] (.list [.str "usepulses", .str m, .str "*"])

/-! ## Body statements -/

/-- `case_statement : BININT ":" gate_block` -/
inductive Case : List Tok → Sx → Prop
  | mk (v : Nat) {b bx} : Block .gateBlock b bx →
      Case (.BININT v :: .colon :: b) (.list [.str "case", .int v, bx])

/-- `case_statements` -/
inductive Cases : List Tok → List Sx → Prop
  | nil : Cases [] []
  | one {s x} : Case s x → Cases s [x]
  | cons {s x sep rest xs} : Case s x → SeqSep sep → Cases rest xs → Cases (s ++ sep ++ rest) (x :: xs)

inductive Body : List Tok → Sx → Prop
  /-- gate, `< >`, loop, subcircuit -/
  | stmt {ts x} : Block .seqStmt ts x → Body ts x
  | seqBlock {ts x} : Block .seqBlock ts x → Body ts x
  /-- `macro name param… block` -/
  | macroDef (name : String) (params : List String) {b bx} : Block .gateBlock b bx →
      Body (.MACRO :: .IDENTIFIER name :: (params.map Tok.IDENTIFIER ++ b))
        (.list (.str "macro" :: .str name :: (params.map Sx.str ++ [bx])))
  /-- `branch { case… }` -/
  | branch {pad cs xs} : SeqPad pad → Cases cs xs →
      Body (.BRANCH :: .lbrace :: (pad ++ cs ++ [.rbrace])) (.list (.str "branch" :: xs))

/-! ## Programs -/

/-- Which statements may still appear. -/
inductive Phase where
  /-- header and body statements -/
  | header
  /-- only body statements: a body statement has been seen -/
  | body
  deriving DecidableEq, Repr

/-- `top_statements`: statements separated by separator runs, optional trailing run, headers first. -/
inductive Stmts : Phase → List Tok → List Sx → Prop
  | nil {ph} : Stmts ph [] []
  | lastHeader {s x} : Header s x → Stmts .header s [x]
  | lastBody {ph s x} : Body s x → Stmts ph s [x]
  | consHeader {s x sep rest xs} : Header s x → SeqSep sep → Stmts .header rest xs →
      Stmts .header (s ++ sep ++ rest) (x :: xs)
  | consBody {ph s x sep rest xs} : Body s x → SeqSep sep → Stmts .body rest xs →
      Stmts ph (s ++ sep ++ rest) (x :: xs)

/-- `ts` is a Jaqal program and `t` is its statement tree. -/
inductive Derives : List Tok → Sx → Prop
  | circuit {pad body xs} : SeqPad pad → Stmts .header body xs →
      Derives (pad ++ body) (.list (.str "circuit" :: xs))

/-! ## The context-free part

`Syntax ts`: `ts` is a sentence of the context-free grammar alone (sly's 88 productions), i.e. without the
two side conditions the actions enforce (a literal register size may be any integer, header statements may
follow body statements) and with the `import … as …` statement, which is syntactically a statement although
it is never accepted. The position of a SYNTAX error is determined by this part only: `Viable`. -/

/-- `register name[size]` with any size -/
inductive RegisterAny : List Tok → Prop
  | mk (n : String) {sz szx} : LetOrInt sz szx → RegisterAny [.REG, .IDENTIFIER n, .lbrack, sz, .rbrack]

/-- `import a as b` -/
inductive ImportStmt : List Tok → Prop
  | mk (a b : String) : ImportStmt [.IMPORT, .IDENTIFIER a, .AS, .IDENTIFIER b]

/-- A top-level statement, syntax only. -/
inductive TopSyn : List Tok → Prop
  | header {s x} : Header s x → TopSyn s
  | body {s x} : Body s x → TopSyn s
  | register {s} : RegisterAny s → TopSyn s
  | importStmt {s} : ImportStmt s → TopSyn s

/-- `top_statements`, syntax only. -/
inductive StmtsSyn : List Tok → Prop
  | nil : StmtsSyn []
  | last {s} : TopSyn s → StmtsSyn s
  | cons {s sep rest} : TopSyn s → SeqSep sep → StmtsSyn rest → StmtsSyn (s ++ sep ++ rest)

/-- `ts` is a sentence of the context-free grammar. -/
inductive Syntax : List Tok → Prop
  | circuit {pad body} : SeqPad pad → StmtsSyn body → Syntax (pad ++ body)

/-- `ts` can be continued to a sentence of the context-free grammar. -/
def Viable (ts : List Tok) : Prop := ∃ rest, Syntax (ts ++ rest)

theorem Stmts.syntax {ph ts xs} (h : Stmts ph ts xs) : StmtsSyn ts := by
  induction h with
  | nil => exact .nil
  | lastHeader hh => exact .last (.header hh)
  | lastBody hb => exact .last (.body hb)
  | consHeader hh hsep _ ih => exact .cons (.header hh) hsep ih
  | consBody hb hsep _ ih => exact .cons (.body hb) hsep ih

/-- Every program is a sentence of the context-free part. -/
theorem Derives.syntax {ts t} (h : Derives ts t) : Syntax ts := by
  cases h with
  | circuit hpad hbody => exact .circuit hpad hbody.syntax

end Jaqal.Grammar
