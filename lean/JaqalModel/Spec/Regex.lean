/-!
A small regular-expression language with the semantics of a backtracking matcher (Python's `re`), enough
for the token rules of `JaqalLexer`.

`Re.run r k cs` tries the ways `r` can match a prefix of `cs` in the order a backtracking matcher tries
them (an alternation left to right; an option or a greedy repetition first with, then without, one more
match of its body; a lazy repetition first without) and returns the result of the continuation `k` on the
remaining input for the first way on which `k` succeeds.  With `k = some` this is what `re.match` does:
`Re.matchRest r cs` is the input remaining after the match that `re.match(r, cs)` reports.

An iteration of a repetition that consumes nothing ends the repetition (as in `re`); the number of
iterations is therefore bounded by the length of the input, which is used as the recursion bound.

`lexMatch` is sly's master regular expression — the token rules as named alternatives, in order — and
returns the name of the alternative that matched (`m.lastgroup`) and the remaining input.

Core Lean only.
-/
namespace Jaqal.Regex

/-- An item of a character class: a character or a range. -/
inductive ClsItem where
  | ch (c : Char)
  | range (lo hi : Char)
  deriving DecidableEq, Repr, Inhabited

def ClsItem.matches : ClsItem → Char → Bool
  | .ch c, d => decide (d = c)
  | .range lo hi, d => lo ≤ d && d ≤ hi

inductive Re where
  /-- `[…]` / `[^…]`; a literal character is a class with one item -/
  | cls (neg : Bool) (items : List ClsItem)
  | seq (r s : Re)
  | alt (r s : Re)
  /-- `r?` -/
  | opt (r : Re)
  /-- `r*` -/
  | star (r : Re)
  /-- `r*?` -/
  | lazyStar (r : Re)
  /-- `r+` -/
  | plus (r : Re)
  deriving Repr, Inhabited

def clsMatches (neg : Bool) (items : List ClsItem) (c : Char) : Bool := (items.any (·.matches c)) != neg

/-- First success (`a` has priority). -/
def first {β : Type} : Option β → Option β → Option β
  | some a, _ => some a
  | none, b => b

/-- Greedy repetition of `body`, then `k`. -/
def starLoop {β : Type} (body : (List Char → Option β) → List Char → Option β) (k : List Char → Option β) :
    Nat → List Char → Option β
  | 0, cs => k cs
  | n+1, cs =>
    first (body (fun cs' => if cs'.length < cs.length then starLoop body k n cs' else none) cs) (k cs)

/-- Lazy repetition of `body`, then `k`. -/
def lazyLoop {β : Type} (body : (List Char → Option β) → List Char → Option β) (k : List Char → Option β) :
    Nat → List Char → Option β
  | 0, cs => k cs
  | n+1, cs =>
    first (k cs) (body (fun cs' => if cs'.length < cs.length then lazyLoop body k n cs' else none) cs)

def Re.run {β : Type} : Re → (List Char → Option β) → List Char → Option β
  | .cls neg items, k, cs =>
    match cs with
    | [] => none
    | c :: cs' => if clsMatches neg items c then k cs' else none
  | .seq r s, k, cs => r.run (s.run k) cs
  | .alt r s, k, cs => first (r.run k cs) (s.run k cs)
  | .opt r, k, cs => first (r.run k cs) (k cs)
  | .star r, k, cs => starLoop r.run k cs.length cs
  | .lazyStar r, k, cs => lazyLoop r.run k cs.length cs
  | .plus r, k, cs => r.run (fun cs' => starLoop r.run k cs'.length cs') cs

/-- `re.match(r, cs)`: the input remaining after the match, `none` if there is no match. -/
def Re.matchRest (r : Re) (cs : List Char) : Option (List Char) := r.run some cs

/-- The master regular expression `(?P<name1>r1)|(?P<name2>r2)|…` at the start of `cs`: the name of the
first alternative that matches (`m.lastgroup`) and the remaining input. -/
def lexMatch : List (String × Re) → List Char → Option (String × List Char)
  | [], _ => none
  | (name, r) :: rules, cs =>
    match r.matchRest cs with
    | some rest => some (name, rest)
    | none => lexMatch rules cs

end Jaqal.Regex
