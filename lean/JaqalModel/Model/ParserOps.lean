import JaqalModel.Base.Json
import JaqalModel.Model.Parser
/-!
Driver ops for the lexer / parser model.

* `"lex"`   : `{"text": s}` → `{"ok": [[kind, value, line, index], …]}` or `{"err": [line, col]}`
  (`kind` = sly token type; `value` = token text for identifiers / keywords / literals, `null` for NL,
  `[neg, mant, exp]` for NUMBER, decimal string for INT / BININT; `line`, `index` decimal strings).
* `"parse"` : `{"text": s}` → `{"ok": <Sx JSON>}` or `{"err": [line | null, col]}`.
-/
namespace Jaqal.ParserOps
open Lean Jaqal Jaqal.Lexer Jaqal.Parser

def tokKindValue : Tok → String × Json
  | .REG => ("REG", .str "register")
  | .MAP => ("MAP", .str "map")
  | .LET => ("LET", .str "let")
  | .MACRO => ("MACRO", .str "macro")
  | .LOOP => ("LOOP", .str "loop")
  | .IMPORT => ("IMPORT", .str "import")
  | .USEPULSES => ("USEPULSES", .str "usepulses")
  | .FROM => ("FROM", .str "from")
  | .AS => ("AS", .str "as")
  | .BRANCH => ("BRANCH", .str "branch")
  | .SUBCIRCUIT => ("SUBCIRCUIT", .str "subcircuit")
  | .NL => ("NL", .null)
  | .IDENTIFIER s => ("IDENTIFIER", .str s)
  | .DOTIDENTIFIER s => ("DOTIDENTIFIER", .str s)
  | .NUMBER d => ("NUMBER", d.toJson)
  | .INT v => ("INT", jofInt v)
  | .BININT v => ("BININT", jofNat v)
  | .lt => ("<", .str "<")
  | .gt => (">", .str ">")
  | .bar => ("|", .str "|")
  | .lbrace => ("{", .str "{")
  | .rbrace => ("}", .str "}")
  | .semi => (";", .str ";")
  | .lbrack => ("[", .str "[")
  | .rbrack => ("]", .str "]")
  | .comma => (",", .str ",")
  | .star => ("*", .str "*")
  | .colon => (":", .str ":")

def ptokJson (p : PTok) : Json :=
  let kv := tokKindValue p.tok
  .arr #[.str kv.1, kv.2, jofNat p.line, jofNat p.index]

def opLex (j : Json) : R Json := do
  let s ← jstr (← jget j "text")
  match lex s with
  | .ok ts => pure (jobj [("ok", jofList ptokJson ts)])
  | .error e => pure (jobj [("err", .arr #[jofNat e.line, jofNat e.col])])

def opParse (j : Json) : R Json := do
  let s ← jstr (← jget j "text")
  match parseText s with
  | .ok x => pure (jobj [("ok", x.toJson)])
  | .error (.parseError l c) => pure (jobj [("err", .arr #[jofOpt jofNat l, jofNat c])])

def ops : List (String × (Json → R Json)) := [("lex", opLex), ("parse", opParse)]

end Jaqal.ParserOps
