import JaqalModel.Model.Ir
import JaqalModel.Base.Err
/-!
Gate definitions: `Parameter.validate` (`/repo/src/jaqalpaq/core/parameter.py`) and
`AbstractGate.call` (`/repo/src/jaqalpaq/core/gatedef.py`).
-/
namespace Jaqal.GateDef

/-- the `kind` of a `Constant`: INT or FLOAT, from its value (a constant defined by another
constant inherits its kind) -/
def constKind : Val → Kind
  | .int _ => .int
  | .flt _ => .float
  | .const _ v => constKind v
  | _ => .none

/-- is the numeric value of a constant integral (`float(value.value).is_integer()`)? -/
def constIntegral : Val → Bool
  | .int _ => true
  | .flt d => d.isIntegral
  | .const _ v => constIntegral v
  | _ => false

/-- `Parameter(kind).validate(value)` does not raise. -/
def fits (k : Kind) (v : Val) : Bool :=
  match k with
  | .qubit =>
    match v with
    | .qubit _ _ _ => true
    | .param _ kk => kk == .qubit || kk == .none
    | _ => false
  | .register =>
    match v with
    | .regF _ _ => true
    | .regA _ _ => true
    | .regS _ _ _ _ _ => true
    | .param _ kk => kk == .register || kk == .none
    | _ => false
  | .float =>
    match v with
    | .int _ => true
    | .flt _ => true
    | .const _ _ => true          -- a Constant's kind is INT or FLOAT
    | .param _ kk => kk == .int || kk == .float || kk == .none
    | _ => false
  | .int =>
    match v with
    | .int _ => true
    | .flt d => d.isIntegral
    | .const _ x => constKind x == .int || (constKind x == .float && constIntegral x)
    | .param _ kk => kk == .int || kk == .none
    | _ => false
  | .none => true

/-- validate the bound arguments in parameter order -/
def validateAll : List (String × Kind) → List (String × Val) → M Unit
  | [], _ => pure ()
  | (n, k) :: ps, bound =>
    match (bound.find? (·.1 == n)) with
    | some (_, v) => if fits k v then validateAll ps bound else .error (.jaqal "type-check")
    | none => .error (.other "KeyError")

/-- `gate_def(*args)` -/
def callPos (gd : GateDef) (args : List Val) : M Stmt := do
  if args.length > gd.params.length then throw (.jaqal "too-many-parameters")
  let bound := (gd.params.map (·.1)).zip args
  -- a repeated parameter name would collapse in the OrderedDict; definitions have distinct names
  if gd.params.length ≠ bound.length then throw (.jaqal "bad-argument-count")
  validateAll gd.params bound
  pure (.gate gd.name gd bound)

/-- `gate_def(**kwargs)`: parameters are bound in the definition's order. -/
def callKw (gd : GateDef) (kwargs : List (String × Val)) : M Stmt := do
  let rec bind : List (String × Kind) → List (String × Val) → M (List (String × Val) × List (String × Val))
    | [], rest => pure ([], rest)
    | (n, _) :: ps, rest =>
      match rest.find? (·.1 == n) with
      | some a => do
        let (bs, rest') ← bind ps (rest.filter (·.1 != n))
        pure (a :: bs, rest')
      | none => .error (.jaqal "missing-parameter")
  if kwargs.isEmpty then
    -- neither positional nor keyword arguments: only the count check remains
    if gd.params.length ≠ 0 then throw (.jaqal "bad-argument-count")
    return .gate gd.name gd []
  let (bound, rest) ← bind gd.params kwargs
  if !rest.isEmpty then throw (.jaqal "invalid-parameters")
  if gd.params.length ≠ bound.length then throw (.jaqal "bad-argument-count")
  validateAll gd.params bound
  pure (.gate gd.name gd bound)

end Jaqal.GateDef
