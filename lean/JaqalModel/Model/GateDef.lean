import JaqalModel.Model.Ir
import JaqalModel.Base.Err
/-!
Gate definitions: `Parameter.validate` (`/repo/src/jaqalpaq/core/parameter.py`),
`AbstractGate.call` / `copy`, `GateDefinition.used_qubits` / `quantum_parameters` /
`classical_parameters`, `IdleGateDefinition`, `BusyGateDefinition`, `add_idle_gates`
(`/repo/src/jaqalpaq/core/gatedef.py`), `stretched_gates` (`/repo/src/jaqalpaq/core/stretch.py`) and the
per-gate argument split of `UnitarySerializedEmulator._make_subcircuit`
(`/repo/src/jaqalpaq/emulator/unitary.py`, lines 61-76).

Core Lean only.
-/
namespace Jaqal.GateDef

/-! ### Python `dict` / `OrderedDict` as an association list in insertion order -/

/-- `d[k] = v`: an existing key keeps its position (and gets the new value), a new key goes last. -/
def odSet {β : Type} (d : List (String × β)) (k : String) (v : β) : List (String × β) :=
  match d with
  | [] => [(k, v)]
  | (k', v') :: r => if k' = k then (k', v) :: r else (k', v') :: odSet r k v

/-- `d[k]` -/
def odGet? {β : Type} (d : List (String × β)) (k : String) : Option β :=
  match d with
  | [] => none
  | (k', v') :: r => if k' = k then some v' else odGet? r k

/-- `k in d` -/
def odHas {β : Type} (d : List (String × β)) (k : String) : Bool := (odGet? d k).isSome

/-- perform the writes `ws` in order on `d` (`d.update(ws)`) -/
def odUpdate {β : Type} (d ws : List (String × β)) : List (String × β) :=
  ws.foldl (fun d w => odSet d w.1 w.2) d

/-- `kwargs.pop(k)` on a dict (keys are distinct): the remaining dict -/
def odDel {β : Type} (d : List (String × β)) (k : String) : List (String × β) :=
  d.filter (fun p => p.1 ≠ k)

/-! ### `Constant` -/

/-- the `kind` of a `Constant`: INT or FLOAT, from its value (a constant defined by another
constant inherits its kind). `Constant.__init__` raises `JaqalError` for any other value, so
`Val.const n v` with `constKind v = .none` is not the image of any Python object. -/
def constKind : Val → Kind
  | .int _ => .int
  | .flt _ => .float
  | .const _ v => constKind v
  | _ => .none

/-- is the numeric value of a constant integral (`float(value.value).is_integer()`;
`Constant.__float__` recurses through constants defined by constants)? -/
def constIntegral : Val → Bool
  | .int _ => true
  | .flt d => d.isIntegral
  | .const _ v => constIntegral v
  | _ => false

/-- `value.kind` if `value` is an `AnnotatedValue` (`Parameter` or `Constant`) -/
def avKind? : Val → Option Kind
  | .param _ k => some k
  | .const _ x => match constKind x with
    | .int => some .int
    | .float => some .float
    | _ => none                    -- no such Python object
  | _ => none

def isNamedQubit : Val → Bool
  | .qubit _ _ _ => true
  | _ => false

def isRegister : Val → Bool
  | .regF _ _ => true
  | .regA _ _ => true
  | .regS _ _ _ _ _ => true
  | _ => false

/-- `isinstance(value, AnnotatedValue) and value.kind in ks` -/
def avKindIn (v : Val) (ks : List Kind) : Bool :=
  match avKind? v with
  | some k => ks.contains k
  | none => false

def typeErr : Err := .jaqal "type-check"

/-! ### `Parameter.validate` -/

/-- `Parameter(name, k).validate(v)`, branch by branch; every failure is a `JaqalError` (since commit
c898fbf an INT parameter offered a `Parameter` of kind FLOAT fails the type check instead of raising
`AttributeError` from `value.value`). (`bool` is an `int` in Python; the IR has no separate
booleans. Non-finite floats are outside `Dec`; they fit FLOAT and untyped parameters only.) -/
def validate (k : Kind) (v : Val) : M Unit :=
  match k with
  | .qubit =>
    if isNamedQubit v then pure ()
    else if avKindIn v [.qubit, .none] then pure ()
    else throw typeErr
  | .register =>
    if isRegister v then pure ()
    else if avKindIn v [.register, .none] then pure ()
    else throw typeErr
  | .float =>
    if v.isNum then pure ()
    else if avKindIn v [.int, .float, .none] then pure ()
    else throw typeErr
  | .int =>
    if (match v with | .flt d => d.isIntegral | .int _ => true | _ => false) then pure ()
    else if avKindIn v [.int, .none] then pure ()
    else if avKindIn v [.float] then
      -- `hasattr(value, "value") and float(value.value).is_integer()`: only a `Constant` has a value
      match v with
      | .const _ x => if constIntegral x then pure () else throw typeErr
      | _ => throw typeErr
    else throw typeErr
  | .none => pure ()

/-- `Parameter(kind).validate(value)` does not raise. -/
def fits (k : Kind) (v : Val) : Bool :=
  match validate k v with
  | .ok _ => true
  | .error _ => false

/-! ### `AbstractGate.call` -/

/-- `for param in self.parameters: param.validate(params[param.name])` -/
def validateAll : List (String × Kind) → List (String × Val) → M Unit
  | [], _ => pure ()
  | (n, k) :: ps, bound =>
    match odGet? bound n with
    | some v => do validate k v; validateAll ps bound
    | none => .error (.other "KeyError")

/-- the common tail of `call`: the count check, validation, the statement -/
def finish (gd : GateDef) (bound : List (String × Val)) : M Stmt := do
  if gd.params.length ≠ bound.length then throw (.jaqal "bad-argument-count")
  validateAll gd.params bound
  pure (.gate gd.name gd bound)

/-- `gate_def(*args)`. The names are zipped with the arguments into an `OrderedDict` (a repeated
parameter name collapses, so such a definition can never be called); the branch
"Insufficient parameters" of the code is dead (same test as "Too many"), a short argument list is
caught by the count check. -/
def callPos (gd : GateDef) (args : List Val) : M Stmt := do
  if args.length > gd.params.length then throw (.jaqal "too-many-parameters")
  finish gd (odUpdate [] ((gd.params.map (·.1)).zip args))

/-- `params[param.name] = kwargs.pop(param.name)` for every parameter in order -/
def popAll : List (String × Kind) → List (String × Val) → List (String × Val) →
    M (List (String × Val) × List (String × Val))
  | [], kw, acc => pure (acc, kw)
  | (n, _) :: ps, kw, acc =>
    match odGet? kw n with
    | some v => popAll ps (odDel kw n) (odSet acc n v)
    | none => .error (.jaqal "missing-parameter")

def hasDupKey {β : Type} : List (String × β) → Bool
  | [] => false
  | (k, _) :: r => odHas r k || hasDupKey r

/-- `gate_def(**kwargs)`: parameters are bound in the definition's order. `kwargs` is a `dict`: a
repeated keyword never reaches `call` (`g(**a, **b)` raises `TypeError` at the call site). -/
def callKw (gd : GateDef) (kwargs : List (String × Val)) : M Stmt := do
  if hasDupKey kwargs then throw (.other "TypeError")
  if kwargs.isEmpty then
    -- neither positional nor keyword arguments: only the count check remains
    finish gd []
  else
    let (bound, rest) ← popAll gd.params kwargs []
    if !rest.isEmpty then throw (.jaqal "invalid-parameters")
    finish gd bound

/-- `gate_def(*args, **kwargs)` with both non-empty -/
def callMixed (_gd : GateDef) (_args : List Val) (_kwargs : List (String × Val)) : M Stmt :=
  throw (.jaqal "mixed-parameters")

/-- `AbstractGate.call(*args, **kwargs)` -/
def call (gd : GateDef) (args : List Val) (kwargs : List (String × Val)) : M Stmt :=
  if !args.isEmpty && kwargs.isEmpty then callPos gd args
  else if !kwargs.isEmpty && args.isEmpty then callKw gd kwargs
  else if !kwargs.isEmpty && !args.isEmpty then
    if hasDupKey kwargs then throw (.other "TypeError") else callMixed gd args kwargs
  else finish gd []

/-! ### Gate-definition objects with their unitary and parent -/

/-- A `GateDefinition` object by value. `U` is the (opaque) type of what `ideal_unitary(*argv)`
returns; the function receives the classical arguments in parameter order.

* `active name busy …` — `GateDefinition` (`busy = false`) or `BusyGateDefinition`
* `idle name params parent unitary` — `IdleGateDefinition`: `_parent_def` is an object reference (the
  parent need not be a member of any gate set), hence by value. `unitary` is `none` from the
  constructor (class attribute `_ideal_unitary = None`); only `copy(ideal_unitary=f)` can set it. -/
inductive GDef (U : Type) where
  | active (name : String) (busy : Bool) (params : List (String × Kind)) (unitary : Option (List Val → U))
  | idle (name : String) (params : List (String × Kind)) (parent : GDef U) (unitary : Option (List Val → U))

namespace GDef
variable {U : Type}

def name : GDef U → String
  | .active n _ _ _ => n
  | .idle n _ _ _ => n

def params : GDef U → List (String × Kind)
  | .active _ _ p _ => p
  | .idle _ p _ _ => p

/-- `ideal_unitary` -/
def unitary : GDef U → Option (List Val → U)
  | .active _ _ _ u => u
  | .idle _ _ _ u => u

def isIdle : GDef U → Bool
  | .idle _ _ _ _ => true
  | _ => false

def parent? : GDef U → Option (GDef U)
  | .idle _ _ p _ => some p
  | _ => none

def tag : GDef U → DefTag
  | .active _ false _ _ => .native
  | .active _ true _ _ => .busy
  | .idle _ _ _ _ => .idle

/-- what a gate statement keeps of the definition (`Ir.GateDef`) -/
def base (g : GDef U) : GateDef :=
  { name := g.name, tag := g.tag, params := g.params, hasUnitary := g.unitary.isSome }

/-- `copy(name=…, parameters=…, ideal_unitary=…)`: same class, same `__dict__` (an idle gate keeps its
`_parent_def`), the given attributes replaced (`None` = keep). -/
def copy (g : GDef U) (name : Option String) (params : Option (List (String × Kind)))
    (unitary : Option (List Val → U)) : GDef U :=
  match g with
  | .active n b p u => .active (name.getD n) b (params.getD p) (match unitary with | some f => some f | none => u)
  | .idle n p par u => .idle (name.getD n) (params.getD p) par (match unitary with | some f => some f | none => u)

end GDef

/-- `AnnotatedValue.classical` -/
def classical : Kind → M Bool
  | .none => throw (.jaqal "no-type")
  | .qubit => pure false
  | .register => pure false
  | .int => pure true
  | .float => pure true

/-- an element of `used_qubits`: a parameter (by name) or the symbol `all` -/
inductive UsedQ where
  | param (name : String)
  | all
  deriving DecidableEq, Repr

/-- `GateDefinition.used_qubits` (non-classical and untyped parameters), `BusyGateDefinition.used_qubits`
(`all`), `IdleGateDefinition.used_qubits` (nothing) -/
def usedQubits {U : Type} : GDef U → List UsedQ
  | .active _ false ps _ =>
    (ps.filter (fun p => match classical p.2 with | .ok c => !c | .error _ => true)).map (fun p => .param p.1)
  | .active _ true _ _ => [.all]
  | .idle _ _ _ _ => []

/-- `[param for param in parameters if f(param.classical)]` or the `JaqalError` of the first untyped parameter -/
def filterClassical (want : Bool) : List (String × Kind) → M (List (String × Kind))
  | [] => pure []
  | p :: ps => do
    let c ← classical p.2
    let r ← filterClassical want ps
    pure (if c == want then p :: r else r)

/-- `quantum_parameters` -/
def quantumParams {U : Type} (g : GDef U) : M (List (String × Kind)) :=
  match filterClassical false g.params with
  | .ok r => pure r
  | .error _ => throw (.jaqal "unknown-type")

/-- `classical_parameters` -/
def classicalParams {U : Type} (g : GDef U) : M (List (String × Kind)) :=
  match filterClassical true g.params with
  | .ok r => pure r
  | .error _ => throw (.jaqal "unknown-type")

/-- A dictionary of gate definitions (`dict` in insertion order; a key need not be the gate's name). -/
abbrev GateSet (U : Type) := List (String × GDef U)

def isSpecial (n : String) : Bool := n = "prepare_all" || n = "measure_all"

/-- `IdleGateDefinition(gate, name=name)`: `JaqalError` for `prepare_all` / `measure_all`; the same
parameter list; `name if name else f"I_{gate.name}"` (an empty name counts as not given). -/
def mkIdle {U : Type} (g : GDef U) (name : Option String) : M (GDef U) :=
  if isSpecial g.name then throw (.jaqal "no-idle-gate")
  else
    let n := match name with
      | some s => if s ≠ "" then s else "I_" ++ g.name
      | none => "I_" ++ g.name
    pure (.idle n g.params g none)

/-- one iteration of the loop of `add_idle_gates` -/
def idleStep {U : Type} (gates : GateSet U) (e : String × GDef U) : GateSet U :=
  let gates := odSet gates e.1 e.2
  match mkIdle e.2 none with
  | .error _ => gates                 -- `except JaqalError: pass`
  | .ok i => odSet gates i.name i

/-- `add_idle_gates(active_gates)` -/
def addIdleGates {U : Type} (active : GateSet U) : GateSet U :=
  active.foldl idleStep []

/-- the parameter `stretched_gates` appends -/
def stretchParam : String × Kind := ("stretch", .float)

/-- `if suffix:` — `None` and `""` are both false -/
def truthy : Option String → Option String
  | some s => if s ≠ "" then some s else none
  | none => none

/-- the wrapper `lambda *args, _parent=gate.ideal_unitary: _parent(*args[:-1])` -/
def dropStretch {U : Type} (parent : List Val → U) : List Val → U :=
  fun args => parent args.dropLast

/-- the stretched copy of one (unwrapped) gate -/
def stretchOf {U : Type} (suffix : Option String) (gate : GDef U) : GDef U :=
  gate.copy ((truthy suffix).map (gate.name ++ ·)) (some (gate.params ++ [stretchParam]))
    (gate.unitary.map dropStretch)

/-- one iteration of the loop of `stretched_gates`. The constructor of the new idle gate can raise
(`JaqalError`, stretched parent called `prepare_all`/`measure_all`); nothing catches it. -/
def stretchStep {U : Type} (suffix : Option String) (newGates : GateSet U) (gate : GDef U) : M (GateSet U) :=
  let name := gate.name
  if odHas newGates name then pure newGates          -- `continue`
  else
    let addIdle := gate.isIdle
    let gate := match gate with
      | .idle _ _ p _ => p
      | g => g
    let newGate := stretchOf suffix gate
    let newGates := odSet newGates newGate.name newGate
    if addIdle then do
      let newName := name ++ suffix.getD ""              -- `name + (suffix or "")`
      let i ← mkIdle newGate (some newName)
      pure (odSet newGates newName i)
    else pure newGates

def stretchLoop {U : Type} (suffix : Option String) : List (GDef U) → GateSet U → M (GateSet U)
  | [], acc => pure acc
  | g :: gs, acc => do
    let acc ← stretchStep suffix acc g
    stretchLoop suffix gs acc

/-- `stretched_gates(gates, suffix=suffix, update=update)` -/
def stretchedGates {U : Type} (suffix : Option String) (update : Bool) (gates : GateSet U) : M (GateSet U) := do
  let newGates ← stretchLoop suffix (gates.map (·.2)) []
  if update then pure (odUpdate gates newGates) else pure newGates

/-! ### The emulator's use of a definition (`unitary.py`, one serialised gate) -/

/-- `for param, val in zip(gatedef.parameters, gate.parameters.values())`: classical values go to
`argv`, the others are resolved to qubit indices (`val.resolve_qubit()[1]`, abstracted as `qidx`). -/
def splitArgs (qidx : Val → M Nat) : List (String × Kind) → List Val → M (List Val × List Nat)
  | [], _ => pure ([], [])
  | _, [] => pure ([], [])
  | p :: ps, v :: vs => do
    let c ← classical p.2
    if c then
      let (a, q) ← splitArgs qidx ps vs
      pure (v :: a, q)
    else
      let i ← qidx v
      let (a, q) ← splitArgs qidx ps vs
      pure (a, i :: q)

/-- What the emulator's loop does with one gate: `none` = `continue` (no unitary), otherwise the matrix
`ideal_unitary(*argv)` and the qubit indices it is applied to. -/
def emuEntry {U : Type} (qidx : Val → M Nat) (g : GDef U) (vals : List Val) : M (Option U × List Nat) :=
  match g.unitary with
  | none => pure (none, [])
  | some u => do
    let (argv, qind) ← splitArgs qidx g.params vals
    pure (some (u argv), qind)

end Jaqal.GateDef
