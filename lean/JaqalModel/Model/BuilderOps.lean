import JaqalModel.Base.Json
import JaqalModel.Model.IrJson
import JaqalModel.Model.Builder
/-!
Driver ops for the circuit builder.

* `build`, `build_nomemo`, `build_oldkey`, `build_oldnumkey`, `build_noreset`:
  `{"sx": <Sx JSON>, "natives": null | [<gatedef dump>…], "autoload": bool, "imports": {"<module>": [<gatedef dump>…]}?}`
  → `{"ok": <circuit dump>}` | `{"err": cls}` (cls as `Err.cls`; `Unmodelled:<why>` for inputs outside the model's domain)
* `parse_build`: the same followed by the "too many registers" check of `parse_jaqal_string`.
-/
namespace Jaqal.Builder
open Lean

def configOfJson (j : Json) : Jaqal.R Config := do
  let natives ← jopt (jlist GateDef.fromJson) (jgetD j "natives" .null)
  let autoload ← (match jgetD j "autoload" (.bool false) with
    | .bool b => pure b
    | _ => throw "autoload: expected bool" : Jaqal.R Bool)
  let imps ← (match jgetD j "imports" .null with
    | .obj kvs => kvs.toList.mapM (fun (p : String × Json) => do pure (p.1, ← jlist GateDef.fromJson p.2))
    | _ => pure [] : Jaqal.R (List (String × List GateDef)))
  pure { natives := natives, autoload := autoload, imports := fun m => imps.lookup m }

def resultToJson (r : M Circuit) : Json :=
  match r with
  | .ok c => jobj [("ok", c.toJson)]
  | .error e => jobj [("err", .str e.cls)]

def opBuild (mode : KeyMode) (check : Bool) (j : Json) : Jaqal.R Json := do
  let sx ← Sx.fromJson (← jget j "sx")
  let cfg ← configOfJson j
  let r := buildWith mode cfg (BSx.ofSx sx)
  pure (resultToJson (if check then r >>= tooManyRegisters else r))

def ops : List (String × (Json → Jaqal.R Json)) :=
  [("build", opBuild .new false), ("build_nomemo", opBuild .off false), ("build_oldkey", opBuild .old false), ("build_oldnumkey", opBuild .oldNum false), ("build_noreset", opBuild .noReset false),
   ("parse_build", opBuild .new true)]

end Jaqal.Builder
