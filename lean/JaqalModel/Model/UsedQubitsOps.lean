import JaqalModel.Base.Json
import JaqalModel.Model.IrJson
import JaqalModel.Model.UsedQubits
/-! Driver ops for the used-qubit model (C13). I/O glue, not part of any theorem. -/
namespace Jaqal.UsedQubits
open Lean Jaqal

/-- insertion sort of a set of indices (for output only) -/
def sortInts (l : List Int) : List Int :=
  l.foldl (fun acc x => (acc.takeWhile (· < x)) ++ x :: (acc.dropWhile (· < x))) []

def usedToJson (u : Used) : Json :=
  jobj (u.map (fun kv => (kv.1, jofList jofInt (sortInts kv.2))))

def resultJson (r : M Used) : Json :=
  match r with
  | .ok u => jobj [("ok", usedToJson u)]
  | .error e => jobj [("err", .str e.cls)]

/-- `{"circuit": <dump.circuit>}` → `{"ok": {reg: [sorted indices]}}` | `{"err": cls}` — `get_used_qubit_indices(circuit)` -/
def opUsed (j : Json) : R Json := do
  let c ← Circuit.fromJson (← jget j "circuit")
  pure (resultJson (usedCircuit c))

/-- `{"circuit": …, "path": [i, j, …]}` → the same for the sub-statement of the body at that address, visited by a
visitor whose `all_qubits` was set by `visit_Circuit` (empty context). `{"err": "bad-path"}` if there is no such statement. -/
def opUsedStmt (j : Json) : R Json := do
  let c ← Circuit.fromJson (← jget j "circuit")
  let path ← jlist jnat (← jget j "path")
  match subStmt c.body path with
  | none => pure (jobj [("err", .str "bad-path")])
  | some s =>
    pure (resultJson (do
      let allQ ← allQubits c.registers
      usedStmt allQ c.macros [] s))

/-- `{"circuit": …}` → `"ok"` | `{"err": cls}` (`{"err": "JaqalError", "rule": tag}` for a JaqalError: `tag` tells the
parallel-branch rejection `parallel-branches-same-qubit` from the within-gate one `gate-same-qubit-twice` and from
resolution errors) — the walk with `validate_parallel` in force -/
def opParallelCheck (j : Json) : R Json := do
  let c ← Circuit.fromJson (← jget j "circuit")
  match checkDisjoint c with
  | .ok () => pure (.str "ok")
  | .error (.jaqal rule) => pure (jobj [("err", .str "JaqalError"), ("rule", .str rule)])
  | .error e => pure (jobj [("err", .str e.cls)])

def ops : List (String × (Json → R Json)) :=
  [("used_qubits", opUsed), ("used_qubits_stmt", opUsedStmt), ("parallel_check", opParallelCheck)]

end Jaqal.UsedQubits
