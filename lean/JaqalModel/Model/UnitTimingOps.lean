import JaqalModel.Base.Json
import JaqalModel.Model.UnitTiming
/-!
Driver op for the unit-timing normaliser.

* `unit_timing`: `{"body":[stmt,…]}` → `{"ok":[stmt,…]}` | `{"err":"jaqal"}` | `{"err":"assert"}`

Statement JSON:
* gate   `{"g":id}`
* block  `{"b":[stmt,…],"par":bool,"sub":bool,"it":n}`
* loop   `{"l":n,"body":stmt}`

(On output the integers `id`, `it`, `n` are decimal strings, as everywhere in the driver; on input both
JSON numbers and decimal strings are accepted.)
-/
namespace Jaqal.UnitTiming
open Lean

mutual
def stmtToJson : Stmt → Json
  | .gate i => jobj [("g", jofNat i)]
  | .block par sub it body =>
      jobj [("b", .arr (stmtsToJson body).toArray), ("par", .bool par), ("sub", .bool sub), ("it", jofNat it)]
  | .loop n b => jobj [("l", jofNat n), ("body", stmtToJson b)]
def stmtsToJson : List Stmt → List Json
  | [] => []
  | s :: ss => stmtToJson s :: stmtsToJson ss
end

mutual
/-- Fuel-bounded reader (`fuel` bounds the nesting depth). -/
def stmtOfJson : Nat → Json → Jaqal.R Stmt
  | 0, _ => .error "statement nesting too deep"
  | fuel + 1, j =>
    match j.getObjVal? "g" with
    | .ok g => do pure (.gate (← jnat g))
    | .error _ =>
      match j.getObjVal? "l" with
      | .ok n => do
          let n ← jnat n
          let b ← stmtOfJson fuel (← jget j "body")
          pure (.loop n b)
      | .error _ => do
          let items ← jarr (← jget j "b")
          let par ← jbool (← jget j "par")
          let sub ← jbool (← jget j "sub")
          let it ← jnat (← jget j "it")
          let body ← stmtsOfJson fuel items
          pure (.block par sub it body)
def stmtsOfJson : Nat → List Json → Jaqal.R (List Stmt)
  | _, [] => .ok []
  | fuel, j :: js => do
      let s ← stmtOfJson fuel j
      let ss ← stmtsOfJson fuel js
      pure (s :: ss)
end

def opUnitTiming (j : Json) : Jaqal.R Json := do
  let items ← jarr (← jget j "body")
  -- the nesting depth of a JSON text is below its length
  let fuel := (j.compress.length) + 1
  let body ← stmtsOfJson fuel items
  match normalizeBody body with
  | .ok out => pure (jobj [("ok", .arr (stmtsToJson out).toArray)])
  | .error .loopInParallel => pure (jobj [("err", .str "jaqal")])
  | .error .assertion => pure (jobj [("err", .str "assert")])

def ops : List (String × (Json → Jaqal.R Json)) :=
  [("unit_timing", opUnitTiming)]

end Jaqal.UnitTiming
