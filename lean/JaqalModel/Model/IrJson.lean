import JaqalModel.Model.Ir
/-! JSON codec for the IR; the format is produced by `/verif/harness/dump.py`. I/O glue, not part of any theorem. -/
namespace Jaqal
open Lean

def Kind.toJson : Kind → Json
  | .qubit => "QUBIT" | .float => "FLOAT" | .register => "REGISTER" | .int => "INT" | .none => .null

def Kind.fromJson (j : Json) : R Kind :=
  match j with
  | .null => pure .none
  | .str "QUBIT" => pure .qubit
  | .str "FLOAT" => pure .float
  | .str "REGISTER" => pure .register
  | .str "INT" => pure .int
  | _ => .error s!"bad kind {j.compress}"

partial def Val.toJson : Val → Json
  | .int v => jobj [("i", jofInt v)]
  | .flt d => jobj [("f", d.toJson)]
  | .const n v => jobj [("c", .str n), ("v", v.toJson)]
  | .param n k => jobj [("p", .str n), ("k", k.toJson)]
  | .qubit n s i => jobj [("q", .str n), ("from", s.toJson), ("idx", i.toJson)]
  | .regF n s => jobj [("r", .str n), ("size", s.toJson)]
  | .regA n s => jobj [("r", .str n), ("from", s.toJson)]
  | .regS n s a b c => jobj [("r", .str n), ("from", s.toJson), ("slice", .arr #[a.toJson, b.toJson, c.toJson])]
  | .none => .null
  | .str s => jobj [("s", .str s)]

private def has (j : Json) (k : String) : Bool := (j.getObjVal? k).isOk

partial def Val.fromJson (j : Json) : R Val := do
  if jisNull j then return .none
  if has j "i" then return .int (← jint (← jget j "i"))
  if has j "f" then return .flt (← Dec.fromJson (← jget j "f"))
  if has j "c" then return .const (← jstr (← jget j "c")) (← Val.fromJson (← jget j "v"))
  if has j "p" then return .param (← jstr (← jget j "p")) (← Kind.fromJson (jgetD j "k" .null))
  if has j "q" then return .qubit (← jstr (← jget j "q")) (← Val.fromJson (← jget j "from")) (← Val.fromJson (← jget j "idx"))
  if has j "r" then
    let n ← jstr (← jget j "r")
    if has j "slice" then
      match ← jarr (← jget j "slice") with
      | [a, b, c] => return .regS n (← Val.fromJson (← jget j "from")) (← Val.fromJson a) (← Val.fromJson b) (← Val.fromJson c)
      | _ => throw "bad slice"
    if has j "from" then return .regA n (← Val.fromJson (← jget j "from"))
    return .regF n (← Val.fromJson (jgetD j "size" .null))
  if has j "s" then return .str (← jstr (← jget j "s"))
  throw s!"bad value {j.compress}"

def paramsToJson (ps : List (String × Kind)) : Json :=
  jofList (fun (p : String × Kind) => Json.arr #[.str p.1, p.2.toJson]) ps

def paramsFromJson (j : Json) : R (List (String × Kind)) :=
  jlist (fun p => do
    match ← jarr p with
    | [n, k] => pure (← jstr n, ← Kind.fromJson k)
    | _ => throw "bad param") j

def DefTag.toJson : DefTag → Json
  | .native => "native" | .busy => "busy" | .idle => "idle" | .macro => "macro"

def DefTag.fromJson (j : Json) : R DefTag :=
  match j with
  | .str "native" => pure .native
  | .str "busy" => pure .busy
  | .str "idle" => pure .idle
  | .str "macro" => pure .macro
  | _ => .error s!"bad gate-definition tag {j.compress}"

def GateDef.toJson (g : GateDef) : Json :=
  jobj [("name", .str g.name), ("tag", g.tag.toJson), ("params", paramsToJson g.params), ("unitary", .bool g.hasUnitary)]

def GateDef.fromJson (j : Json) : R GateDef := do
  let u := match jgetD j "unitary" (.bool false) with | .bool b => b | _ => false
  pure { name := ← jstr (← jget j "name"), tag := ← DefTag.fromJson (← jget j "tag"),
         params := ← paramsFromJson (← jget j "params"), hasUnitary := u }

partial def Stmt.toJson : Stmt → Json
  | .gate n gd args => jobj [("g", .str n), ("def", gd.toJson),
      ("args", jofList (fun (a : String × Val) => Json.arr #[.str a.1, a.2.toJson]) args)]
  | .block par sub it b => jobj [("b", jofList Stmt.toJson b), ("par", .bool par), ("sub", .bool sub), ("it", it.toJson)]
  | .loop c b => jobj [("l", c.toJson), ("body", b.toJson)]

partial def Stmt.fromJson (j : Json) : R Stmt := do
  if has j "g" then
    let args ← jlist (fun a => do
      match ← jarr a with
      | [n, v] => pure (← jstr n, ← Val.fromJson v)
      | _ => throw "bad arg") (← jget j "args")
    return .gate (← jstr (← jget j "g")) (← GateDef.fromJson (← jget j "def")) args
  if has j "b" then
    return .block (← jbool (← jget j "par")) (← jbool (← jget j "sub")) (← Val.fromJson (jgetD j "it" .null))
      (← jlist Stmt.fromJson (← jget j "b"))
  if has j "l" then return .loop (← Val.fromJson (← jget j "l")) (← Stmt.fromJson (← jget j "body"))
  throw s!"bad statement {j.compress}"

def Macro.toJson (m : Macro) : Json :=
  jobj [("m", .str m.name), ("params", paramsToJson m.params), ("body", m.body.toJson)]

def Macro.fromJson (j : Json) : R Macro := do
  pure { name := ← jstr (← jget j "m"), params := ← paramsFromJson (← jget j "params"), body := ← Stmt.fromJson (← jget j "body") }

def Circuit.toJson (c : Circuit) : Json :=
  jobj [("usepulses", jofList (fun (u : String × String) => Json.arr #[.str u.1, .str u.2]) c.usepulses),
        ("constants", jofList Val.toJson c.constants), ("registers", jofList Val.toJson c.registers),
        ("macros", jofList Macro.toJson c.macros), ("natives", jofList GateDef.toJson c.natives),
        ("body", c.body.toJson)]

def Circuit.fromJson (j : Json) : R Circuit := do
  let ups ← jlist (fun u => do
    match ← jarr u with
    | [m, .str n] => pure (← jstr m, n)
    | [m, _] => pure (← jstr m, "[…]")
    | _ => throw "bad usepulses") (jgetD j "usepulses" (.arr #[]))
  pure { usepulses := ups,
         constants := ← jlist Val.fromJson (← jget j "constants"),
         registers := ← jlist Val.fromJson (← jget j "registers"),
         macros := ← jlist Macro.fromJson (← jget j "macros"),
         natives := ← jlist GateDef.fromJson (jgetD j "natives" (.arr #[])),
         body := ← Stmt.fromJson (← jget j "body") }

end Jaqal
