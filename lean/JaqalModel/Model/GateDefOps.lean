import JaqalModel.Base.Json
import JaqalModel.Model.IrJson
import JaqalModel.Model.GateDef
/-!
Driver ops for gate definitions (I/O glue, not part of any theorem).

* `gate_call`: `{"def": <gatedef dump>, "args": [<val>…]}` (positional), `{"def":…, "kwargs": [[name, <val>]…]}`
  (keyword), both fields (mixed) → `{"ok": <stmt dump>}` | `{"err": cls}`
* `fits`: `{"kind": k, "val": v}` → bool;  `validate`: same input → `null` | exception class
* `idle_set`: `{"gates": [rec…]}` → `[rec…]` (the result dict in order)
* `stretch_set`: `{"gates": [rec…], "suffix": str|null, "update": bool, "probe": [<val>…]}` → `{"ok": [rec…]}` | `{"err": cls}`

Gate records: `{"key": str (default: name), "name": str, "tag": "native"|"busy"|"idle", "params": [[name, kind]…],
"unitary": bool, "marker": str (default: name), "parent": rec|null}`. The unitary of a record is the function
`args ↦ (marker, args)`; on output a gate with a unitary also carries `"unitary_of"` (the marker of the function that the
call `ideal_unitary(*probe)` reaches) and `"got"` (the arguments that function received), and every record
carries `"used"` (`used_qubits`: parameter names, `"*"` for `all`), `"qparams"`, `"cparams"` (lists of names or
`{"err": cls}`).
-/
namespace Jaqal.GateDef
open Lean

abbrev Mark := String × List Val

def gdefOfJson : Nat → Json → Jaqal.R (GDef Mark)
  | 0, _ => .error "gate record nesting too deep"
  | fuel + 1, j => do
    let name ← jstr (← jget j "name")
    let params ← paramsFromJson (← jget j "params")
    let hasU := match jgetD j "unitary" (.bool false) with | .bool b => b | _ => false
    let marker ← match j.getObjVal? "marker" with
      | .ok m => jstr m
      | .error _ => pure name
    let u : Option (List Val → Mark) := if hasU then some (fun args => (marker, args)) else none
    match ← jstr (← jget j "tag") with
    | "native" => pure (.active name false params u)
    | "busy" => pure (.active name true params u)
    | "idle" => do
      let p ← gdefOfJson fuel (← jget j "parent")
      pure (.idle name params p u)
    | t => .error s!"bad gate tag {t}"

def errOrNames (r : M (List (String × Kind))) : Json :=
  match r with
  | .ok ps => jofList (fun (p : String × Kind) => Json.str p.1) ps
  | .error e => jobj [("err", .str e.cls)]

def gdefToJson (probe : List Val) (key : Option String) : GDef Mark → Json
  | g@(.active name _ params u) => jobj (common g key name params u [])
  | g@(.idle name params p u) => jobj (common g key name params u [("parent", gdefToJson probe none p)])
where
  common (g : GDef Mark) (key : Option String) (name : String) (params : List (String × Kind))
      (u : Option (List Val → Mark)) (extra : List (String × Json)) : List (String × Json) :=
    (match key with | some k => [("key", Json.str k)] | none => []) ++
    [("name", .str name), ("tag", g.tag.toJson), ("params", paramsToJson params), ("unitary", .bool u.isSome),
     ("used", jofList (fun (q : UsedQ) => match q with | .param n => Json.str n | .all => Json.str "*") (usedQubits g)),
     ("qparams", errOrNames (quantumParams g)), ("cparams", errOrNames (classicalParams g))] ++
    (match u with
     | some f => [("unitary_of", Json.str (f probe).1), ("got", jofList Val.toJson (f probe).2)]
     | none => []) ++ extra

def setOfJson (j : Json) : Jaqal.R (GateSet Mark) :=
  jlist (fun r => do
    let g ← gdefOfJson 64 r
    let key ← match r.getObjVal? "key" with
      | .ok k => jstr k
      | .error _ => pure g.name
    pure (key, g)) j

def setToJson (probe : List Val) (s : GateSet Mark) : Json :=
  jofList (fun (e : String × GDef Mark) => gdefToJson probe (some e.1) e.2) s

def errJson (e : Err) : Json := jobj [("err", .str e.cls)]

def opGateCall (j : Json) : Jaqal.R Json := do
  let gd ← GateDef.fromJson (← jget j "def")
  let args? ← match j.getObjVal? "args" with
    | .ok a => do pure (some (← jlist Val.fromJson a))
    | .error _ => pure none
  let kw? ← match j.getObjVal? "kwargs" with
    | .ok a => do pure (some (← jlist (fun p => do
        match ← jarr p with
        | [n, v] => pure (← jstr n, ← Val.fromJson v)
        | _ => throw "bad kwarg") a))
    | .error _ => pure none
  let r := match args?, kw? with
    | some a, none => callPos gd a
    | none, some k => callKw gd k
    | a, k => call gd (a.getD []) (k.getD [])
  match r with
  | .ok s => pure (jobj [("ok", s.toJson)])
  | .error e => pure (errJson e)

def opFits (j : Json) : Jaqal.R Json := do
  let k ← Kind.fromJson (jgetD j "kind" .null)
  let v ← Val.fromJson (jgetD j "val" .null)
  pure (.bool (fits k v))

def opValidate (j : Json) : Jaqal.R Json := do
  let k ← Kind.fromJson (jgetD j "kind" .null)
  let v ← Val.fromJson (jgetD j "val" .null)
  match validate k v with
  | .ok _ => pure .null
  | .error e => pure (.str e.cls)

def opIdleSet (j : Json) : Jaqal.R Json := do
  let s ← setOfJson (← jget j "gates")
  let probe ← jlist Val.fromJson (jgetD j "probe" (.arr #[]))
  pure (setToJson probe (addIdleGates s))

def opStretchSet (j : Json) : Jaqal.R Json := do
  let s ← setOfJson (← jget j "gates")
  let suffix ← jopt jstr (jgetD j "suffix" .null)
  let update := match jgetD j "update" (.bool false) with | .bool b => b | _ => false
  let probe ← jlist Val.fromJson (jgetD j "probe" (.arr #[]))
  match stretchedGates suffix update s with
  | .ok r => pure (jobj [("ok", setToJson probe r)])
  | .error e => pure (errJson e)

def ops : List (String × (Json → Jaqal.R Json)) :=
  [("gate_call", opGateCall), ("fits", opFits), ("validate", opValidate),
   ("idle_set", opIdleSet), ("stretch_set", opStretchSet)]

end Jaqal.GateDef
