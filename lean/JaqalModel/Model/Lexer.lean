import JaqalModel.Base.Num
/-!
Model of `JaqalLexer` (`jaqalpaq/parser/slyparse.py`) as run by sly 0.5 `Lexer.tokenize`.

sly compiles the token rules into ONE Python regular expression, an ordered alternation
`(?P<NL>\n+)|(?P<IDENTIFIER>…)|(?P<DOTIDENTIFIER>…)|(?P<NUMBER>…)|(?P<INT>…)|(?P<BININT>…)|(?P<comment>…)|(?P<multiline_comment>…)`
and at every position (after skipping the `ignore` characters space and tab) takes the FIRST alternative
that matches (each alternative greedy, with backtracking inside it); when none matches, a character from
`literals` is a one-character token; anything else goes to `JaqalLexer.error`, which raises
`JaqalParseError(lineno, column)`.

The text is a list of code points (Python `str` indexing); `index` is the 0-based offset of the first
character of a token, `line` is sly's `lineno` (starts at 1, advanced by NL tokens and by newlines inside
block comments).

Core Lean only.
-/
namespace Jaqal.Lexer

/-- Token kinds of `JaqalLexer` with their converted values. The eleven literal characters are separate
constructors. -/
inductive Tok where
  | REG | MAP | LET | MACRO | LOOP | IMPORT | USEPULSES | FROM | AS | BRANCH | SUBCIRCUIT
  | NL
  | IDENTIFIER (s : String)
  | DOTIDENTIFIER (s : String)
  | NUMBER (d : Dec)
  | INT (v : Int)
  | BININT (v : Nat)
  /-- `<` -/ | lt
  /-- `>` -/ | gt
  /-- `|` -/ | bar
  /-- `{` -/ | lbrace
  /-- `}` -/ | rbrace
  /-- `;` -/ | semi
  /-- `[` -/ | lbrack
  /-- `]` -/ | rbrack
  /-- `,` -/ | comma
  /-- `*` -/ | star
  /-- `:` -/ | colon
  deriving DecidableEq, Repr, Inhabited

/-- A token with sly's `lineno` and `index`. -/
structure PTok where
  tok : Tok
  line : Nat
  index : Nat
  deriving DecidableEq, Repr, Inhabited

/-- A lexing failure: `JaqalParseError.line`, `.column`. -/
structure LexErr where
  line : Nat
  col : Nat
  deriving DecidableEq, Repr, Inhabited

/-! ## Character classes -/

def isDigit (c : Char) : Bool := '0' ≤ c && c ≤ '9'
def isAlpha_ (c : Char) : Bool := ('a' ≤ c && c ≤ 'z') || ('A' ≤ c && c ≤ 'Z') || c = '_'
def isAlnum_ (c : Char) : Bool := isAlpha_ c || isDigit c
def isSign (c : Char) : Bool := c = '-' || c = '+'
/-- sly `ignore = " \t"` -/
def isIgnore (c : Char) : Bool := c = ' ' || c = '\t'

/-- The `literals` set. -/
def literal? (c : Char) : Option Tok :=
  if c = '<' then some .lt else if c = '>' then some .gt else if c = '|' then some .bar
  else if c = '{' then some .lbrace else if c = '}' then some .rbrace else if c = ';' then some .semi
  else if c = '[' then some .lbrack else if c = ']' then some .rbrack else if c = ',' then some .comma
  else if c = '*' then some .star else if c = ':' then some .colon else none

/-! ## Matchers for the eight regular expressions

Each returns the matched text and the remaining input, or `none` when the rule does not match at the
start of the input. -/

/-- Longest prefix of characters satisfying `p` (`[…]*`, greedy). -/
def spanP (p : Char → Bool) : List Char → List Char × List Char
  | [] => ([], [])
  | c :: cs => if p c then let r := spanP p cs; (c :: r.1, r.2) else ([], c :: cs)

/-- `\n+` -/
def mNL (cs : List Char) : Option (List Char × List Char) :=
  match spanP (· = '\n') cs with
  | ([], _) => none
  | r => some r

/-- `(\.?[a-zA-Z0-9_])*` : greedy; a dot is taken only when an identifier character follows it. -/
def identTail : List Char → List Char × List Char
  | [] => ([], [])
  | c :: cs =>
    if isAlnum_ c then let r := identTail cs; (c :: r.1, r.2)
    else if c = '.' then
      match cs with
      | d :: ds => if isAlnum_ d then let r := identTail ds; (c :: d :: r.1, r.2) else ([], c :: cs)
      | [] => ([], c :: cs)
    else ([], c :: cs)

/-- `[a-zA-Z_](\.?[a-zA-Z0-9_])*` -/
def mIdent : List Char → Option (List Char × List Char)
  | c :: cs => if isAlpha_ c then let r := identTail cs; some (c :: r.1, r.2) else none
  | [] => none

/-- `\.([a-zA-Z_](\.?[a-zA-Z0-9_])*)?` -/
def mDotIdent : List Char → Option (List Char × List Char)
  | c :: cs =>
    if c = '.' then
      match mIdent cs with
      | some r => some (c :: r.1, r.2)
      | none => some ([c], cs)
    else none
  | [] => none

/-- `[-+]?` -/
def optSign : List Char → List Char × List Char
  | c :: cs => if isSign c then ([c], cs) else ([], c :: cs)
  | [] => ([], [])

/-- `([eE][-+]?[0-9]+)?` : the sign and digits of the exponent and the rest, when the whole group matches. -/
def mExponent : List Char → Option (List Char × List Char × List Char)
  | c :: cs =>
    if c = 'e' || c = 'E' then
      let s := optSign cs
      match spanP isDigit s.2 with
      | ([], _) => none
      | (ds, rest) => some (s.1, ds, rest)
    else none
  | [] => none

/-- The pieces of a NUMBER literal. -/
structure NumLit where
  sign : List Char
  intDigits : List Char
  fracDigits : List Char
  /-- `some (sign, digits)` of the exponent part -/
  exponent : Option (List Char × List Char)
  deriving Repr

/-- `[-+]?[0-9]*\.[0-9]+([eE][-+]?[0-9]+)?` (no backtracking can succeed where the greedy path fails:
the sign and digit classes are disjoint from `.`). -/
def mNumber (cs : List Char) : Option (NumLit × List Char) :=
  let s := optSign cs
  let i := spanP isDigit s.2
  match i.2 with
  | c :: r =>
    if c = '.' then
      match spanP isDigit r with
      | ([], _) => none
      | (fd, rest) =>
        match mExponent rest with
        | some (es, ed, rest') => some ({ sign := s.1, intDigits := i.1, fracDigits := fd, exponent := some (es, ed) }, rest')
        | none => some ({ sign := s.1, intDigits := i.1, fracDigits := fd, exponent := none }, rest)
    else none
  | [] => none

/-- `[-+]?[0-9]+` : sign, digits, rest. -/
def mInt (cs : List Char) : Option (List Char × List Char × List Char) :=
  let s := optSign cs
  match spanP isDigit s.2 with
  | ([], _) => none
  | (ds, rest) => some (s.1, ds, rest)

/-- `'[0-1]+'` : the binary digits and the rest. -/
def mBinInt : List Char → Option (List Char × List Char)
  | c :: cs =>
    if c = '\'' then
      match spanP (fun d => d = '0' || d = '1') cs with
      | ([], _) => none
      | (ds, q :: rest) => if q = '\'' then some (ds, rest) else none
      | (_, []) => none
    else none
  | [] => none

/-- `//[^\n]*` : the rest after the comment (which stops before the newline). -/
def mComment : List Char → Option (List Char)
  | a :: b :: cs => if a = '/' && b = '/' then some (spanP (· ≠ '\n') cs).2 else none
  | _ => none

/-- Body of a block comment: shortest prefix ending in `*/` (`(\n|[^\n])*?\*/`). Returns the comment body
including the closing `*/` and the rest. -/
def blockBody : List Char → Option (List Char × List Char)
  | [] => none
  | c :: cs =>
    match cs with
    | d :: ds =>
      if c = '*' && d = '/' then some ([c, d], ds)
      else match blockBody cs with
        | some r => some (c :: r.1, r.2)
        | none => none
    | [] => none

/-- `/\*(\n|[^\n])*?\*/` : the text between `/*` and the rest (including `*/`), and the rest. -/
def mBlockComment : List Char → Option (List Char × List Char)
  | a :: b :: cs => if a = '/' && b = '*' then blockBody cs else none
  | _ => none

/-! ## Token values -/

def digitVal (c : Char) : Nat := c.toNat - '0'.toNat

/-- Value of a string of decimal digits. -/
def natOfDigits (ds : List Char) : Nat := ds.foldl (fun acc c => 10 * acc + digitVal c) 0

/-- Value of a string of binary digits (`int(s, 2)`). -/
def natOfBits (ds : List Char) : Nat := ds.foldl (fun acc c => 2 * acc + digitVal c) 0

def isNeg (sign : List Char) : Bool := sign = ['-']

/-- `int(text)` for `[-+]?[0-9]+`. -/
def intValue (sign ds : List Char) : Int :=
  if isNeg sign then -(natOfDigits ds : Int) else (natOfDigits ds : Int)

def expValue (e : Option (List Char × List Char)) : Int :=
  match e with
  | none => 0
  | some (s, ds) => intValue s ds

/-- The exact decimal value of a NUMBER literal, in canonical form. -/
def NumLit.value (n : NumLit) : Dec :=
  Dec.normalize { neg := isNeg n.sign, mant := natOfDigits (n.intDigits ++ n.fracDigits),
                  exp := expValue n.exponent - n.fracDigits.length }

/-- Number of decimal digits of a positive number (`0` for `0`); fuel = the number itself. -/
def numDigitsAux : Nat → Nat → Nat
  | 0, _ => 0
  | fuel+1, m => if m = 0 then 0 else 1 + numDigitsAux fuel (m / 10)

def numDigits (m : Nat) : Nat := numDigitsAux m m

/-- The smallest magnitude that `float()` rounds to infinity: `2^1024 − 2^970` (half-way between the
largest double and `2^1024`; the tie goes to the even neighbour `2^1024`). -/
def overflowThreshold : Nat := 2 ^ 1024 - 2 ^ 970

/-- Does `float(text)` give `±inf`?  `float` is correctly rounded, so this is `|value| ≥ 2^1024 − 2^970`.
The decimal exponent of the leading digit decides except when it equals 308, where the comparison is
done exactly. -/
def Dec.overflows (d : Dec) : Bool :=
  if d.mant = 0 then false
  else
    let lead : Int := d.exp + (numDigits d.mant : Int) - 1
    if lead > 308 then true
    else if lead < 308 then false
    else if d.exp ≥ 0 then decide (d.mant * 10 ^ d.exp.toNat ≥ overflowThreshold)
    else decide (d.mant ≥ overflowThreshold * 10 ^ (-d.exp).toNat)

/-- `int(text)` raises `ValueError` (turned into a `JaqalParseError` by the INT action) when the literal
has more than `sys.get_int_max_str_digits()` = 4300 digits; the sign does not count, leading zeros do.
BININT is converted with base 2, which has no such limit. -/
def maxIntDigits : Nat := 4300

/-- Keyword remapping (`IDENTIFIER["register"] = REG`, …), applied to the full matched text. -/
def keyword? (s : String) : Option Tok :=
  if s = "register" then some .REG else if s = "map" then some .MAP else if s = "let" then some .LET
  else if s = "macro" then some .MACRO else if s = "loop" then some .LOOP else if s = "import" then some .IMPORT
  else if s = "usepulses" then some .USEPULSES else if s = "from" then some .FROM else if s = "as" then some .AS
  else if s = "branch" then some .BRANCH else if s = "subcircuit" then some .SUBCIRCUIT else none

def identTok (m : List Char) : Tok :=
  let s := String.ofList m
  match keyword? s with
  | some k => k
  | none => .IDENTIFIER s

def countNL (cs : List Char) : Nat := cs.countP (· = '\n')

/-- `index − text.rfind("\n", 0, index)` : 1-based column of offset `index`. -/
def colOf (text : List Char) (index : Nat) : Nat :=
  ((text.take index).reverse.takeWhile (· ≠ '\n')).length + 1

/-! ## One step of `tokenize` -/

/-- What happens at a position whose first character is not an `ignore` character. -/
inductive Step where
  /-- a token, the remaining input and the number of lines to add AFTER the token -/
  | token (t : Tok) (rest : List Char) (newlines : Nat)
  /-- a comment -/
  | skip (rest : List Char) (newlines : Nat)
  /-- the NUMBER action raised ("out of range") or the INT action raised ("Integer literal too long"):
  a `JaqalParseError` at the token's own line and column -/
  | overflow
  /-- no rule and no literal: `error` callback -/
  | illegal
  deriving Repr

/-- The master regular expression (ordered alternation), then the literals, at the start of `cs`
(`cs` non-empty and not starting with an `ignore` character). -/
def step (cs : List Char) : Step :=
  match mNL cs with
  | some (m, rest) => .token .NL rest m.length
  | none =>
  match mIdent cs with
  | some (m, rest) => .token (identTok m) rest 0
  | none =>
  match mDotIdent cs with
  | some (m, rest) => .token (.DOTIDENTIFIER (String.ofList m)) rest 0
  | none =>
  match mNumber cs with
  | some (n, rest) =>
    let d := n.value
    if Dec.overflows d then .overflow else .token (.NUMBER d) rest 0
  | none =>
  match mInt cs with
  | some (s, ds, rest) =>
    if ds.length > maxIntDigits then .overflow else .token (.INT (intValue s ds)) rest 0
  | none =>
  match mBinInt cs with
  | some (ds, rest) => .token (.BININT (natOfBits ds)) rest 0
  | none =>
  match mComment cs with
  | some rest => .skip rest 0
  | none =>
  match mBlockComment cs with
  | some (body, rest) => .skip rest (countNL body)
  | none =>
  match cs with
  | c :: rest =>
    match literal? c with
    | some t => .token t rest 0
    | none => .illegal
  | [] => .illegal

/-- The tokenizer loop. `fuel` bounds the number of iterations (each consumes at least one character).
Returns the tokens produced before the first error, and that error if there is one: sly's `tokenize` is a
generator, so the parser sees exactly these tokens before the exception propagates.
`index` is always `text.length - cs.length`. -/
def lexAux (text : List Char) : Nat → List Char → Nat → List PTok × Option LexErr
  | 0, _, _ => ([], none)
  | fuel+1, cs, line =>
    match cs with
    | [] => ([], none)
    | c :: rest =>
      if isIgnore c then lexAux text fuel rest line
      else
        let index := text.length - cs.length
        match step cs with
        | .token t rest' nl =>
          let r := lexAux text fuel rest' (line + nl)
          (⟨t, line, index⟩ :: r.1, r.2)
        | .skip rest' nl => lexAux text fuel rest' (line + nl)
        | .overflow => ([], some ⟨line, colOf text index⟩)
        | .illegal => ([], some ⟨line, colOf text index⟩)

/-- Tokens before the first lexing error, and the error. -/
def lexAll (s : String) : List PTok × Option LexErr :=
  let cs := s.toList
  lexAux cs (cs.length + 1) cs 1

/-- `list(JaqalLexer().tokenize(s))`. -/
def lex (s : String) : Except LexErr (List PTok) :=
  match lexAll s with
  | (ts, none) => .ok ts
  | (_, some e) => .error e

end Jaqal.Lexer
