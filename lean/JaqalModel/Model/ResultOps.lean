import JaqalModel.Base.Json
import JaqalModel.Model.Result
/-! Driver ops for the result model (`normalize`, `accept_all`). -/
namespace Jaqal.Result
open Lean Jaqal

/-- `[num, den]` (ints as JSON numbers or decimal strings), `den > 0`. -/
def jrat (j : Json) : R Rat := do
  match (← jarr j) with
  | [n, d] =>
    let n ← jint n; let d ← jnat d
    if d = 0 then .error "zero denominator" else pure (mkRat n d)
  | _ => .error s!"expected [num, den], got {j.compress}"

def jofRat (q : Rat) : Json := .arr #[jofInt q.num, jofNat q.den]

/-- `{"p":[[num,den],...]}` → `{"ok":[[num,den],...],"warn":bool}` or `{"err":"runtime"|"value"}`. -/
def opNormalize (j : Json) : R Json := do
  let p ← jlist jrat (← jget j "p")
  match normalize p with
  | .ok (q, w) => pure (jobj [("ok", jofList jofRat q), ("warn", .bool w)])
  | .error e => pure (jobj [("err", .str e)])

/-- `{"len":n,"outs":[...]}` → histogram after `accept_readout` of every outcome, `null` on `IndexError`. -/
def opAcceptAll (j : Json) : R Json := do
  let len ← jnat (← jget j "len"); let outs ← jlist jnat (← jget j "outs")
  pure (jofOpt (jofList jofNat) (acceptAll len outs))

def ops : List (String × (Json → R Json)) :=
  [("normalize", opNormalize), ("accept_all", opAcceptAll)]

end Jaqal.Result
