import JaqalModel.Model.Ir
import JaqalModel.Base.Err
import JaqalModel.Model.GateDef
import JaqalModel.Model.Resolve
import JaqalModel.Model.NumText
/-!
`expand_macros` (`/repo/src/jaqalpaq/core/algorithm/expand_macros.py`), by value on the shared IR.

Python modelled
* `MacroExpander` (`visit_Circuit`, `visit_LoopStatement`, `visit_BlockStatement` with the splice of
  same-kind non-subcircuit child blocks, `visit_GateStatement`), `preserve_definitions`;
* `replace_gate` (lookup BY NAME in the circuit's macro table, arity check → `JaqalError`);
* `GateReplacer` (`visit_Macro`, `visit_BlockStatement` with the same splice and the visited
  `iterations`, `visit_LoopStatement`, `visit_GateStatement` = substitute, `gate.gate_def(**new)`,
  `replace_gate`; `visit_Parameter` = lookup by name + `param.validate(arg)`; `visit_NamedQubit` =
  (`JaqalError` unless the substituted `alias_from` is a `Register` or a `Parameter`, then)
  `alias_from[filter_float(alias_index)]`, i.e. `Register.__getitem__` / `Parameter.__getitem__`, which
  build `NamedQubit(f"{array.name}[{index}]", array, index)` and so run `NamedQubit.__init__`'s checks);
* `BlockStatement.__init__`'s checks (`not subcircuit and iterations != 1` → `JaqalError`; `_validate_count`: a count that
  is neither an int nor a constant / parameter of kind INT or NONE → `JaqalError`) and `LoopStatement.__init__`'s (`_validate_count`),
  which every rebuilt block / loop passes through.

Recursion.  Python recurses `replace_gate → GateReplacer.visit(macro) → … → replace_gate`; with a macro
table in which some macro reaches itself this never ends and CPython raises `RecursionError`.  The
model is structural: `replStmt` / `expStmt` recurse on the statement and take the function handling
a gate statement (`call`) as a parameter; `replaceGate` recurses on a fuel counter and hands
`replaceGate fuel` to `replStmt`.  `expandMacros` starts with fuel `= number of macros`.  For a table
without a cycle (all the builder can produce: a macro body can only name macros defined before it)
a chain of nested expansions never repeats a macro, so its length is at most the number of macros and
the fuel never runs out: the model is exact.  With a cyclic table the model answers
`Err.other "RecursionError"` when the fuel runs out; Python answers `RecursionError` too unless some
statement visited *before* the recursive call at a deeper level raises first (documented deviation,
only reachable through hand-built tables).  Not modelled: CPython's actual recursion limit (a legitimate
table nested ≈ 100 macros deep makes Python raise `RecursionError`).
-/
namespace Jaqal.ExpandMacros
open Jaqal

/-- `filter_float` -/
def filterFloat : Val → Val
  | .flt d => if d.isIntegral then .int d.toInt else .flt d
  | v => v

/-- `isinstance(v, AnnotatedValue)` and its `kind` -/
def avKind? : Val → Option Kind
  | .const _ v => some (GateDef.constKind v)
  | .param _ k => some k
  | _ => none

/-- `int(x)` for a float: truncation towards zero -/
def truncDec (d : Dec) : Int :=
  let v : Int := if d.exp ≥ 0 then (d.mant * 10 ^ d.exp.toNat : Nat) else (d.mant / 10 ^ (-d.exp).toNat : Nat)
  if d.neg then -v else v

/-- `int(alias_from.size)` inside `NamedQubit.__init__`'s `try … except JaqalError: return`:
`none` = a `JaqalError` was caught (no range check), `some n` = the size. -/
def sizeForCheck (src : Val) : M (Option Int) :=
  match Resolve.resolveSize [] src with
  | .error (.jaqal _) => pure none
  | .error e => .error e
  | .ok (.int k) => pure (some k)
  | .ok (.flt d) => pure (some (truncDec d))
  | .ok (.const _ (.int k)) => pure (some k)       -- `Constant.__int__`
  | .ok (.const _ _) => pure none                  -- `Constant.__int__` raises JaqalError: caught
  | .ok _ => .error (.other "TypeError")

/-- `isinstance(i, AnnotatedValue) and i.kind not in (INT, NONE)` -/
def badIndexKind : Option Kind → Bool
  | some .int => false
  | some .none => false
  | some _ => true
  | none => false

/-- `isinstance(r, AnnotatedValue) and r.kind not in (REGISTER, NONE)` -/
def badSourceKind : Option Kind → Bool
  | some .register => false
  | some .none => false
  | some _ => true
  | none => false

/-- `isinstance(i, (int, float, AnnotatedValue))` -/
def isIndexLike : Val → Bool
  | .int _ => true
  | .flt _ => true
  | .const _ _ => true
  | .param _ _ => true
  | _ => false

/-- The checks of `NamedQubit.__init__(name, alias_from, alias_index)`. Every failure is a `JaqalError`
(an index that is not a number / annotated value is rejected in both branches); the only other exceptions
that can escape come from `alias_from.size` of an ill-built register (`sizeForCheck`). -/
def checkQubit (src idx : Val) : M Unit :=
  if idx == .none || src == .none then .error (.jaqal "invalid-map-statement") else
  match avKind? idx, avKind? src with
  | none, none =>
    -- `not isinstance(alias_index, (int, float)) or alias_index != int(alias_index)`
    let rangeCheck (i : Int) : M Unit := do
      match ← sizeForCheck src with
      | none => pure ()
      | some n => if i < 0 || i ≥ n then .error (.jaqal "index-out-of-range") else pure ()
    match idx with
    | .int i => rangeCheck i
    | .flt d => if d.isIntegral then rangeCheck d.toInt else .error (.jaqal "index-not-integer")
    | _ => .error (.jaqal "index-not-integer")
  | ki, ks =>
    if !isIndexLike idx then .error (.jaqal "index-not-integer")
    else if badIndexKind ki then .error (.jaqal "index-kind")
    else if badSourceKind ks then .error (.jaqal "source-kind")
    else pure ()

/-- `str(index)` inside `make_item_name` -/
def strIndex : Val → M String
  | .int i => pure (NumText.genInt i)
  | .flt d => pure (NumText.reprFloat d)
  | .const n _ => pure n
  | .param n _ => pure n
  | _ => .error (.other "unmodelled-str")

/-- `alias_from[alias_index]`: `Register.__getitem__` / `Parameter.__getitem__` with a non-slice key.
Anything else (`NamedQubit`, `Constant`, numbers, `None`) is not subscriptable. -/
def getItem (src idx : Val) : M Val :=
  match src.name?, src with
  | _, .const _ _ => .error (.other "TypeError")
  | _, .qubit _ _ _ => .error (.other "TypeError")
  | some n, _ => do
    checkQubit src idx
    let s ← strIndex idx
    pure (.qubit (n ++ "[" ++ s ++ "]") src idx)
  | none, _ => .error (.other "TypeError")

/-- `isinstance(a, (Register, Parameter))` -/
def isArrayLike : Val → Bool
  | .regF _ _ => true
  | .regA _ _ => true
  | .regS _ _ _ _ _ => true
  | .param _ _ => true
  | _ => false

/-- `self.arguments[name]` -/
def lookupArg (args : List (String × Val)) (n : String) : Option Val := (args.find? (·.1 == n)).map (·.2)

/-- `GateReplacer.visit` on a value: `visit_Parameter`, `visit_NamedQubit`, `visit_default`. -/
def substVal (args : List (String × Val)) : Val → M Val
  | .param n k =>
    match lookupArg args n with
    | some a => if GateDef.fits k a then pure a else .error (.jaqal "type-check")
    | none => pure (.param n k)
  | .qubit _ src idx => do
    let s ← substVal args src
    -- `if not isinstance(alias_from, (Register, Parameter)): raise JaqalError("Cannot index …")`
    if !isArrayLike s then .error (.jaqal "not-a-register") else
    let i ← substVal args idx
    getItem s (filterFloat i)
  | v => pure v

/-- `iterations != 1` -/
def neq1 : Val → Bool
  | .int 1 => false
  | .flt d => !(d == { neg := false, mant := 1, exp := 0 })
  | _ => true

/-- `_validate_count(count, …)` raises: the count is neither an `int` nor a constant / parameter of kind INT or
NONE (a float, a FLOAT constant, a qubit or register parameter kind, a register, a qubit, `None` are all rejected) -/
def badCount : Val → Bool
  | .int _ => false
  | .const _ v => !(GateDef.constKind v == .int || GateDef.constKind v == .none)
  | .param _ k => !(k == .int || k == .none)
  | _ => true

/-- `BlockStatement(parallel, subcircuit, iterations, statements)` -/
def mkBlock (par sub : Bool) (it : Val) (body : List Stmt) : M Stmt :=
  if !sub && neq1 it then .error (.jaqal "iterations-of-non-subcircuit")
  else if badCount it then .error (.jaqal "count-not-integer")
  else pure (.block par sub it body)

/-- `LoopStatement(iterations, statements)` -/
def mkLoop (count : Val) (body : Stmt) : M Stmt :=
  if badCount count then .error (.jaqal "count-not-integer") else pure (.loop count body)

/-- the splice step of both `visit_BlockStatement`s -/
def spliceInto (par : Bool) (new : Stmt) (rest : List Stmt) : List Stmt :=
  match new with
  | .block p false _ b => if p = par then b ++ rest else new :: rest
  | s => s :: rest

def substArgs (args : List (String × Val)) : List (String × Val) → M (List (String × Val))
  | [] => pure []
  | (n, v) :: rest => do
    let v' ← substVal args v
    let rest' ← substArgs args rest
    pure ((n, v') :: rest')

mutual
  /-- `GateReplacer(args, macros).visit(stmt)`; `call` is `replace_gate(·, macros)` -/
  def replStmt (call : Stmt → M Stmt) (args : List (String × Val)) : Stmt → M Stmt
    | .gate _ gd gargs => do
      let new ← substArgs args gargs
      let g ← GateDef.callKw gd new
      call g
    | .block par sub it body => do
      let stmts ← replList call args par body
      let it' ← substVal args it
      mkBlock par sub it' stmts
    | .loop count body => do
      let c' ← substVal args count
      let b' ← replStmt call args body
      mkLoop c' b'
  def replList (call : Stmt → M Stmt) (args : List (String × Val)) (par : Bool) : List Stmt → M (List Stmt)
    | [] => pure []
    | s :: rest => do
      let s' ← replStmt call args s
      let rest' ← replList call args par rest
      pure (spliceInto par s' rest')
end

def findMacro (ms : List Macro) (name : String) : Option Macro := ms.find? (·.name == name)

/-- `replace_gate(gate, macros)` with a bound on the depth of nested expansions -/
def replaceGate (ms : List Macro) : Nat → Stmt → M Stmt
  | fuel, .gate name gd gargs =>
    match findMacro ms name with
    | none => pure (.gate name gd gargs)
    | some m =>
      if gargs.length ≠ m.params.length then .error (.jaqal "wrong-argument-count") else
      match fuel with
      | 0 => .error (.other "RecursionError")
      | f+1 => replStmt (replaceGate ms f) gargs m.body
  | _, s => pure s

mutual
  /-- `MacroExpander.visit(stmt)` -/
  def expStmt (call : Stmt → M Stmt) : Stmt → M Stmt
    | .gate name gd gargs => call (.gate name gd gargs)
    | .block par sub it body => do
      let stmts ← expList call par body
      mkBlock par sub it stmts
    | .loop count body => do
      let b' ← expStmt call body
      mkLoop count b'
  def expList (call : Stmt → M Stmt) (par : Bool) : List Stmt → M (List Stmt)
    | [] => pure []
    | s :: rest => do
      let s' ← expStmt call s
      let rest' ← expList call par rest
      pure (spliceInto par s' rest')
end

/-- iterating over a statement (`BlockStatement.__iter__`, `LoopStatement.__iter__`) -/
def iterStmts : Stmt → M (List Stmt)
  | .block _ _ _ b => pure b
  | .loop _ b => iterStmts b
  | .gate _ _ _ => .error (.other "TypeError")

/-- `new_circuit.body.statements.extend(x.statements)` -/
def statementsOf : Stmt → M (List Stmt)
  | .block _ _ _ b => pure b
  | .loop _ b => iterStmts b
  | .gate _ _ _ => .error (.other "AttributeError")

/-- `expand_macros(circuit, preserve_definitions)` -/
def expandMacros (preserve : Bool) (c : Circuit) : M Circuit := do
  let body ← expStmt (replaceGate c.macros c.macros.length) c.body
  let stmts ← statementsOf body
  pure { usepulses := c.usepulses, constants := c.constants, registers := c.registers,
         macros := if preserve then c.macros else [], natives := c.natives,
         body := .block false false (.int 1) stmts }

end Jaqal.ExpandMacros
