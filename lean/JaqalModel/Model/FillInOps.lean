import JaqalModel.Base.Json
import JaqalModel.Model.IrJson
import JaqalModel.Model.FillIn
import JaqalModel.Spec.Sem
/-!
Driver ops for `fill_in_let`, `fill_in_map` and qubit resolution.

* `fill_in_let`: `{"circuit": <dump.circuit>, "override": [[name, <num>], …]}` → `{"ok": <circuit>}` | `{"err": cls}`
* `fill_in_map`: `{"circuit": <dump.circuit>}` → same
* `resolve`:     `{"val": <dump.val of a NamedQubit>, "ctx": [[name, <val>], …]}` → `{"ok": [regname, index]}` | `{"err": cls}`
  (`Resolve.resolveQubit`, the library's closed form)
* `eval_qubit`:  same input → the SPECIFICATION's answer `Sem.evalQubit [] b q`, where the binding `b` of a parameter is
  the denotation of its context value (a number, a qubit, the list of qubits of a register)
-/
namespace Jaqal.FillIn
open Lean Jaqal

def result {α} (f : α → Json) : M α → Json
  | .ok a => jobj [("ok", f a)]
  | .error e => jobj [("err", .str e.cls)]

def overrideFromJson (j : Json) : R (List (String × Num)) :=
  jlist (fun e => do
    match ← jarr e with
    | [n, v] => pure (← jstr n, ← Num.fromJson v)
    | _ => throw "bad override entry") j

def ctxFromJson (j : Json) : R (List (String × Val)) :=
  jlist (fun e => do
    match ← jarr e with
    | [n, v] => pure (← jstr n, ← Val.fromJson v)
    | _ => throw "bad ctx entry") j

def opFillInLet (j : Json) : R Json := do
  let c ← Circuit.fromJson (← jget j "circuit")
  let ov ← overrideFromJson (jgetD j "override" (.arr #[]))
  pure (result Circuit.toJson (fillInLet ov c))

def opFillInMap (j : Json) : R Json := do
  let c ← Circuit.fromJson (← jget j "circuit")
  pure (result Circuit.toJson (fillInMap c))

def fqToJson (q : String × Int) : Json := .arr #[.str q.1, jofInt q.2]

def opResolve (j : Json) : R Json := do
  let v ← Val.fromJson (← jget j "val")
  let ctx ← ctxFromJson (jgetD j "ctx" (.arr #[]))
  pure (result fqToJson (Resolve.resolveQubit ctx v))

/-- the denotation of a context value (evaluated without parameters) -/
def sargOf (v : Val) : M Sem.SArg := Sem.evalArg [] [] v

/-- the parameter bindings a context stands for; entries that have no denotation are left unbound -/
def bindOfCtx : List (String × Val) → Sem.Bind
  | [] => []
  | (n, v) :: rest =>
    match sargOf v with
    | .ok a => (n, a) :: bindOfCtx rest
    | .error _ => bindOfCtx rest

def opEvalQubit (j : Json) : R Json := do
  let v ← Val.fromJson (← jget j "val")
  let ctx ← ctxFromJson (jgetD j "ctx" (.arr #[]))
  pure (result fqToJson (Sem.evalQubit [] (bindOfCtx ctx) v))

def ops : List (String × (Json → R Json)) :=
  [("fill_in_let", opFillInLet), ("fill_in_map", opFillInMap), ("resolve", opResolve), ("eval_qubit", opEvalQubit)]

end Jaqal.FillIn
