import JaqalModel.Model.Parser
import JaqalModel.Model.Builder
import JaqalModel.Model.Generator
import JaqalModel.Model.PyEq
/-!
# The whole pipeline: text → circuit → text (property C01)

`parseProgram cfg txt` is `parse_jaqal_string(txt, inject_pulses=cfg.natives, autoload_pulses=cfg.autoload)`:
`parse_to_sexpression` (lexer + LALR parser, `Model/Parser.lean`: `parseText`), then `Builder.build` and the
"too many registers" check (`Model/Builder.lean`: `parseBuild`).  Passes (`expand_macro=…`, …) are not requested.
Loading a `usepulses` module is outside the model: the theorems of C01 take `cfg.autoload = false`.

`roundTrip cfg txt` is what the differential test evaluates on the real code:

```
c  = parse_jaqal_string(txt, …);   t  = generate_jaqal_program(c)
c2 = parse_jaqal_string(t, …);     t2 = generate_jaqal_program(c2)
return t, c2, c == c2, t2 == t
```

Core Lean only.
-/
namespace Jaqal.Pipeline
open Jaqal Jaqal.Parser Jaqal.Builder Jaqal.Generator Jaqal.PyEq

/-- a `JaqalParseError` of `parse_to_sexpression` as an error of the pipeline -/
def liftErr : Parser.Err → Jaqal.Err
  | .parseError l c => .parse l c

/-- `parse_to_sexpression(text)` in the error monad of the pipeline -/
def parseSx (txt : String) : M Sx :=
  match parseText txt with
  | .ok x => .ok x
  | .error e => .error (liftErr e)

/-- `parse_jaqal_string(txt, inject_pulses=cfg.natives, autoload_pulses=cfg.autoload)` -/
def parseProgram (cfg : Config) (txt : String) : M Circuit :=
  (parseSx txt).bind (parseBuild cfg)

/-- generate, parse again, compare, generate again: the generated text, the re-parsed circuit, `c == c2`, and
whether the second text is byte-for-byte the first -/
def roundTrip (cfg : Config) (txt : String) : M (String × Circuit × Bool × Bool) := do
  let c ← parseProgram cfg txt
  let t ← gen c
  let c2 ← parseProgram cfg t
  let t2 ← gen c2
  pure (t, c2, circuitEq c c2, t2 == t)

end Jaqal.Pipeline
