import JaqalModel.Model.Parser
import JaqalModel.Model.Builder
import JaqalModel.Model.Generator
import JaqalModel.Model.PyEq
/-!
# The whole pipeline: text → circuit → text (property C01)

`parseProgram cfg txt` is `parse_jaqal_string(txt, inject_pulses=cfg.natives, autoload_pulses=cfg.autoload)`:
`parse_to_sexpression` (lexer + LALR parser, `Model/Parser.lean`: `parseText`), then `Builder.build` and the
"too many registers" check (`Model/Builder.lean`: `parseBuild`).  Passes (`expand_macro=…`, …) are not requested.
Loading a `usepulses` module is outside the model: the theorems of C01 take `cfg.autoload = false`; Props/C01Autoload.lean lifts them to every configuration.

`roundTrip cfg txt` is what the differential test evaluates on the real code:

```
c  = parse_jaqal_string(txt, …);   t  = generate_jaqal_program(c)
c2 = parse_jaqal_string(t, …);     t2 = generate_jaqal_program(c2)
return t, c2, c == c2, t2 == t
```

Core Lean only.
-/
namespace Jaqal.Pipeline
open Jaqal Jaqal.Parser Jaqal.Builder Jaqal.Generator Jaqal.PyEq

/-- a `JaqalParseError` of `parse_to_sexpression` as an error of the pipeline -/
def liftErr : Parser.Err → Jaqal.Err
  | .parseError l c => .parse l c

/-- `parse_to_sexpression(text)` in the error monad of the pipeline -/
def parseSx (txt : String) : M Sx :=
  match parseText txt with
  | .ok x => .ok x
  | .error e => .error (liftErr e)

/-- `parse_jaqal_string(txt, inject_pulses=cfg.natives, autoload_pulses=cfg.autoload)` -/
def parseProgram (cfg : Config) (txt : String) : M Circuit :=
  (parseSx txt).bind (parseBuild cfg)

/-- generate, parse again, compare, generate again: the generated text, the re-parsed circuit, `c == c2`, and
whether the second text is byte-for-byte the first -/
def roundTrip (cfg : Config) (txt : String) : M (String × Circuit × Bool × Bool) := do
  let c ← parseProgram cfg txt
  let t ← gen c
  let c2 ← parseProgram cfg t
  let t2 ← gen c2
  pure (t, c2, circuitEq c c2, t2 == t)

/-! ## The three layers of the round trip, executable

`toks c` is the generator at token level: the tokens (without positions) of the text `gen c` writes.
`unbuild c` is the S-expression the parser returns for that text.
`printable c` says that every slot of `c` holds something Jaqal has syntax for (the shape of every circuit
the builder makes from a parser S-expression). -/

open Jaqal.Lexer

/-- a name or an integer: `let_or_int` -/
def refTok : Val → Tok
  | .int i => .INT i
  | .const n _ => .IDENTIFIER n
  | .param n _ => .IDENTIFIER n
  | _ => .NL

def refSx : Val → Sx
  | .int i => .int i
  | .const n _ => .str n
  | .param n _ => .str n
  | _ => .none

def okRef : Val → Bool
  | .int _ => true
  | .const _ _ => true
  | .param _ _ => true
  | _ => false

/-- `.name` when there is one -/
def nameOf (v : Val) : String := (v.name?).getD ""

/-- is this qubit an element `arr[idx]` written in place (its name is the one `make_item_name` gives)? -/
def isItem (n : String) (src idx : Val) : Bool :=
  match src.name? with
  | some an => okRef idx && Builder.itemName an idx == some n
  | Option.none => false

/-- a gate argument -/
def argToks : Val → List Tok
  | .int i => [.INT i]
  | .flt d => [.NUMBER d]
  | .qubit n src idx =>
    if isItem n src idx then [.IDENTIFIER (nameOf src), .lbrack, refTok idx, .rbrack] else [.IDENTIFIER n]
  | v => [.IDENTIFIER (nameOf v)]

def argSx : Val → Sx
  | .int i => .int i
  | .flt d => .flt d
  | .qubit n src idx =>
    if isItem n src idx then .list [.str "array_item", .str (nameOf src), refSx idx] else .str n
  | v => .str (nameOf v)

def okArg : Val → Bool
  | .none => false
  | .str _ => false
  | _ => true

/-- `statement.iterations != 1` decides whether the count of a subcircuit is written -/
def subHead (it : Val) : List Tok := if itersNe1 it then [.SUBCIRCUIT, refTok it] else [.SUBCIRCUIT]
def subCountSx (it : Val) : Sx := if itersNe1 it then refSx it else .str ""

def openTok (par : Bool) : Tok := if par then .lt else .lbrace
def closeTok (par : Bool) : Tok := if par then .gt else .rbrace
def blockCmd (par : Bool) : String := if par then "parallel_block" else "sequential_block"

mutual
  /-- the tokens of one statement (without the newline that ends it) -/
  def stmtToks : Stmt → List Tok
    | .gate name _ args => .IDENTIFIER name :: argsToks args
    | .loop cnt body =>
      match body with
      | .block par _ _ b => .LOOP :: refTok cnt :: openTok par :: .NL :: (itemsToks par b ++ [closeTok par])
      | _ => []
    | .block par sub it b =>
      (if sub then subHead it else []) ++ openTok par :: .NL :: (itemsToks par b ++ [closeTok par])
  /-- the lines inside a block of kind `par`, directly nested blocks of the same kind spliced -/
  def itemsToks (par : Bool) : List Stmt → List Tok
    | [] => []
    | .block p false it b :: rest =>
      if p = par then itemsToks par b ++ itemsToks par rest
      else stmtToks (.block p false it b) ++ .NL :: itemsToks par rest
    | s :: rest => stmtToks s ++ .NL :: itemsToks par rest
  def argsToks : List (String × Val) → List Tok
    | [] => []
    | a :: as => argToks a.2 ++ argsToks as
end

mutual
  def stmtSx : Stmt → Sx
    | .gate name _ args => .list (.str "gate" :: .str name :: argsSx args)
    | .loop cnt body =>
      match body with
      | .block par _ _ b => .list [.str "loop", refSx cnt, .list (.str (blockCmd par) :: itemsSx par b)]
      | _ => .none
    | .block par sub it b =>
      if sub then .list (.str "subcircuit_block" :: subCountSx it :: itemsSx par b)
      else .list (.str (blockCmd par) :: itemsSx par b)
  def itemsSx (par : Bool) : List Stmt → List Sx
    | [] => []
    | .block p false it b :: rest =>
      if p = par then itemsSx par b ++ itemsSx par rest
      else stmtSx (.block p false it b) :: itemsSx par rest
    | s :: rest => stmtSx s :: itemsSx par rest
  def argsSx : List (String × Val) → List Sx
    | [] => []
    | a :: as => argSx a.2 :: argsSx as
end

mutual
  /-- may this statement stand directly in a block of kind `par`? -/
  def okStmt (par : Bool) : Stmt → Bool
    | .gate _ _ args => okArgs args
    | .loop cnt body =>
      match body with
      | .block p sub _ b => !par && okRef cnt && !sub && okItems p b
      | _ => false
    | .block p sub it b =>
      if sub then !par && !p && okRef it && okItems false b
      else (p != par) && okItems p b
  def okItems (par : Bool) : List Stmt → Bool
    | [] => true
    | .block p false it b :: rest =>
      if p = par then okItems par b && okItems par rest
      else okStmt par (.block p false it b) && okItems par rest
    | s :: rest => okStmt par s && okItems par rest
  def okArgs : List (String × Val) → Bool
    | [] => true
    | a :: as => okArg a.2 && okArgs as
end

/-- a statement at the top level: anything allowed inside `{ }`, or a `{ }` block -/
def okTop : Stmt → Bool
  | .block false false _ b => okItems false b
  | s => okStmt false s

def modTok (m : String) : Tok :=
  if m.toList.head? = some '.' then .DOTIDENTIFIER m else .IDENTIFIER m

def usepulsesToks (u : String × String) : List Tok := [.FROM, modTok u.1, .USEPULSES, .star]
def usepulsesSx (u : String × String) : Sx := .list [.str "usepulses", .str u.1, .str "*"]

def letToks : Val → List Tok
  | .const n (.int i) => [.LET, .IDENTIFIER n, .INT i]
  | .const n (.flt d) => [.LET, .IDENTIFIER n, .NUMBER d]
  | _ => []
def letSx : Val → Sx
  | .const n (.int i) => .list [.str "let", .str n, .int i]
  | .const n (.flt d) => .list [.str "let", .str n, .flt d]
  | _ => .none
def okLet : Val → Bool
  | .const _ (.int _) => true
  | .const _ (.flt _) => true
  | _ => false

def regToks : Val → List Tok
  | .regF n size => [.REG, .IDENTIFIER n, .lbrack, refTok size, .rbrack]
  | _ => []
def regSx : Val → Sx
  | .regF n size => .list [.str "register", .str n, refSx size]
  | _ => .none
def okRegister : Val → Bool
  | .regF _ (.int k) => decide (0 < k)
  | .regF _ (.const _ _) => true
  | .regF _ (.param _ _) => true
  | _ => false

/-- is the step written (`if s.step:` in `notate_slice`)? not for the int 0 -/
def writesStep : Val → Bool
  | .int k => k != 0
  | _ => true

def stepToks (c : Val) : List Tok := if writesStep c then [.colon, refTok c] else []
def stepSx (c : Val) : Sx := if writesStep c then refSx c else .none

def mapToks : Val → List Tok
  | .qubit n src idx => [.MAP, .IDENTIFIER n, .IDENTIFIER (nameOf src), .lbrack, refTok idx, .rbrack]
  | .regA n src => [.MAP, .IDENTIFIER n, .IDENTIFIER (nameOf src)]
  | .regS n src a b c =>
    .MAP :: .IDENTIFIER n :: .IDENTIFIER (nameOf src) :: .lbrack :: ([refTok a] ++ .colon :: ([refTok b] ++ (stepToks c ++ [.rbrack])))
  | _ => []
def mapSx : Val → Sx
  | .qubit n src idx => .list [.str "map", .str n, .str (nameOf src), refSx idx]
  | .regA n src => .list [.str "map", .str n, .str (nameOf src)]
  | .regS n src a b c => .list [.str "map", .str n, .str (nameOf src), refSx a, refSx b, stepSx c]
  | _ => .none
def okMap : Val → Bool
  | .qubit _ src idx => src.name?.isSome && okRef idx
  | .regA _ src => src.name?.isSome
  | .regS _ src a b c => src.name?.isSome && okRef a && okRef b && okRef c
  | _ => false

def macroToks (m : Macro) : List Tok :=
  match m.body with
  | .block par _ _ b =>
    .MACRO :: .IDENTIFIER m.name :: (m.params.map (fun p => Tok.IDENTIFIER p.1) ++ openTok par :: .NL :: (itemsToks par b ++ [closeTok par]))
  | _ => []
def macroSx (m : Macro) : Sx :=
  match m.body with
  | .block par _ _ b =>
    .list (.str "macro" :: .str m.name :: (m.params.map (fun p => Sx.str p.1) ++ [.list (.str (blockCmd par) :: itemsSx par b)]))
  | _ => .none
def okMacro (m : Macro) : Bool :=
  match m.body with
  | .block par sub _ b => !sub && okItems par b
  | _ => false

def isFund : Val → Bool
  | .regF _ _ => true
  | _ => false

/-- every line, each followed by the newline token that ends it -/
def lines {α} (f : α → List Tok) : List α → List Tok
  | [] => []
  | x :: xs => f x ++ .NL :: lines f xs

def headerToks (c : Circuit) : List Tok :=
  lines usepulsesToks c.usepulses ++ lines letToks c.constants ++ lines regToks (c.registers.filter isFund)

/-- the tokens of `gen c`: blank lines merge into the newline token before them; only when nothing precedes
the unconditional blank line after the register section does it give a token of its own -/
def toks (c : Circuit) : List Tok :=
  (if (headerToks c).isEmpty then [.NL] else []) ++
    (headerToks c ++ lines mapToks (c.registers.filter (fun r => !isFund r)) ++ lines macroToks c.macros ++
      lines stmtToks c.body.stmts)

/-- the S-expression of `gen c` -/
def unbuild (c : Circuit) : Sx :=
  .list (.str "circuit" ::
    (c.usepulses.map usepulsesSx ++ c.constants.map letSx ++ (c.registers.filter isFund).map regSx ++
      (c.registers.filter (fun r => !isFund r)).map mapSx ++ c.macros.map macroSx ++ c.body.stmts.map stmtSx))

/-- no alias has the literal step 0 (which `notate_slice` does not write: the one parser-accepted shape that does
not survive the round trip; the builder lets it through when another bound of the slice is a let) -/
def zeroStepFree (c : Circuit) : Bool :=
  c.registers.all (fun r => match r with
    | .regS _ _ _ _ (.int 0) => false
    | _ => true)

/-- every slot holds something Jaqal has syntax for -/
def printable (c : Circuit) : Bool :=
  c.usepulses.all (fun u => u.2 == "*") && c.constants.all okLet &&
  c.registers.all (fun r => if isFund r then okRegister r else okMap r) &&
  c.macros.all okMacro &&
  (match c.body with
   | .block _ _ _ b => b.all okTop
   | _ => false)

/-- The three layers evaluated on one text: (A) the parser model returns `unbuild c` on the token list `toks c`
given any positions; (B) lexing `gen c` gives `toks c`; (C) building `unbuild c` gives a circuit `==` to `c` that
generates the same text. -/
structure Layers where
  printable : Bool
  layerA : Bool
  layerB : Bool
  layerC : Bool
  deriving Repr, DecidableEq

def layers (cfg : Config) (txt : String) : M Layers := do
  let c ← parseProgram cfg txt
  let t ← gen c
  let a := match parse ((toks c).map (fun t => (⟨t, 1, 0⟩ : PTok))) with
    | .ok sx => sx == unbuild c
    | .error _ => false
  let b := match lex t with
    | .ok ts => ts.map (·.tok) == toks c
    | .error _ => false
  let cc := match parseBuild cfg (unbuild c) with
    | .ok c' => circuitEq c c' && (match gen c' with | .ok t' => t' == t | .error _ => false)
    | .error _ => false
  pure { printable := printable c, layerA := a, layerB := b, layerC := cc }

end Jaqal.Pipeline
