import JaqalModel.Model.Walk
/-!
# Specifications for the walkers (independent of the visitors' state machines)

* `flatToks` : the program in flat (textual) order — loop counts ignored, bodies of zero-count loops
  included — with a bracket pair around every loop body carrying the loop count;
* `Bracketed` : the C12 rule, as a left-to-right automaton over that token list;
* `pairs` : the prepare/measure pairs of a token list in flat order;
* `unroll` : execution order (loops repeated, counts ≤ 0 contribute nothing);
* `execVisits` : C08's reading of "visit" on the unrolled program;
* `specVisits` : the same, tree-recursive;
* `segment` : what a trace serialises to.
Core Lean only.
-/
namespace Jaqal.Walk

/-- Flat tokens: a gate occurrence with its address, or a loop bracket. -/
inductive Tok where
  | g (k : GK) (a : Addr)
  | lopen (n : Int)
  | lclose
  deriving DecidableEq, Repr

mutual
  def flatStmt : Stmt → Addr → List Tok
    | .gate k, a => [.g k a]
    | .block _ b, a => flatList b a 0
    | .loop n _ b, a => .lopen n :: (flatList b a 0 ++ [.lclose])
  def flatList : List Stmt → Addr → Nat → List Tok
    | [], _, _ => []
    | s :: r, a, i => flatStmt s (a ++ [i]) ++ flatList r a (i + 1)
end

/-- The program read in flat order. -/
def flatToks (body : List Stmt) : List Tok := flatList body [] 0

/-! ### The C12 rule -/

/-- An enclosing loop: its count, and whether the subcircuit that is open *now* was opened before
this loop's body began. -/
structure BFrame where
  count : Int
  openedBefore : Bool
  deriving DecidableEq, Repr

/-- Is a subcircuit open, and the enclosing loops (innermost first). -/
structure BState where
  isOpen : Bool
  stack : List BFrame
  deriving DecidableEq, Repr

def BState.forget (σ : BState) : List BFrame := σ.stack.map (fun f => { f with openedBefore := false })

/-- One token of the C12 rule.
* an ordinary gate needs an open subcircuit ("every gate lies between a prepare_all and the
  following measure_all");
* a measure_all needs an open subcircuit ("every measure_all is preceded by a prepare_all") and must
  not close a subcircuit opened before the body of an enclosing loop that repeats (count > 1) began;
* a prepare_all opens a subcircuit (discarding an open one), which therefore was opened inside every
  enclosing loop. -/
def bstep (σ : BState) : Tok → Except DiscErr BState
  | .g .prep _ => .ok { isOpen := true, stack := σ.forget }
  | .g .meas _ =>
    if !σ.isOpen then .error .measureWithoutPrepare
    else if σ.stack.any (fun f => decide (f.count > 1) && f.openedBefore) then
      .error .measureToPrepareInLoop
    else .ok { isOpen := false, stack := σ.forget }
  | .g (.other _) _ => if σ.isOpen then .ok σ else .error .gateOutside
  | .lopen n => .ok { σ with stack := { count := n, openedBefore := σ.isOpen } :: σ.stack }
  | .lclose => .ok { σ with stack := σ.stack.tail }

def brun : List Tok → BState → Except DiscErr BState
  | [], σ => .ok σ
  | t :: r, σ =>
    match bstep σ t with
    | .error e => .error e
    | .ok σ' => brun r σ'

/-- Result of reading a token list by the C12 rule. -/
def bracketCheck (toks : List Tok) : Except DiscErr BState := brun toks { isOpen := false, stack := [] }

/-- The C12 rule holds of a flat token list. -/
def Bracketed (toks : List Tok) : Prop := ∃ σ, bracketCheck toks = .ok σ

/-- Prepare/measure pairs in flat order: a prepare_all (re)opens, discarding an earlier opening;
a measure_all closes the open one.  A trailing unmatched prepare_all yields nothing. -/
def pairsFrom : List Tok → Option Addr → List (Addr × Addr)
  | [], _ => []
  | .g .prep a :: r, _ => pairsFrom r (some a)
  | .g .meas a :: r, some s => (s, a) :: pairsFrom r none
  | .g .meas _ :: r, none => pairsFrom r none
  | .g (.other _) _ :: r, c => pairsFrom r c
  | .lopen _ :: r, c => pairsFrom r c
  | .lclose :: r, c => pairsFrom r c

def pairs (toks : List Tok) : List (Addr × Addr) := pairsFrom toks none

/-- The subcircuit open after reading `toks` (start address), if any. -/
def openAfter : List Tok → Option Addr → Option Addr
  | [], c => c
  | .g .prep a :: r, _ => openAfter r (some a)
  | .g .meas _ :: r, _ => openAfter r none
  | _ :: r, c => openAfter r c

/-! ### Execution order -/

mutual
  /-- Gate occurrences (kind, address of the statement) in execution order. -/
  def unrollStmt : Stmt → Addr → List (GK × Addr)
    | .gate k, a => [(k, a)]
    | .block _ b, a => unrollList b a 0
    | .loop n _ b, a => (List.replicate n.toNat (unrollList b a 0)).flatten
  def unrollList : List Stmt → Addr → Nat → List (GK × Addr)
    | [], _, _ => []
    | s :: r, a, i => unrollStmt s (a ++ [i]) ++ unrollList r a (i + 1)
end

/-- The program with its loops unrolled (`range(n)` of `n ≤ 0` is empty). -/
def unroll (body : List Stmt) : List (GK × Addr) := unrollList body [] 0

/-- Position of an address in the list of trace starts. -/
def indexOf? : List Addr → Addr → Option Nat
  | [], _ => none
  | s :: r, a => if s = a then some 0 else (indexOf? r a).map (· + 1)

/-- C08's "sequence of subcircuit visits": walk the unrolled program, emit `k` whenever the executed
gate occurrence is the start of trace `k`. -/
def execVisits (starts : List Addr) (u : List (GK × Addr)) : List Nat :=
  u.filterMap (fun x => indexOf? starts x.2)

mutual
  /-- Tree-recursive form: `k` = index of the next trace in flat order; returns the visits emitted
  and the index of the next trace after the statement (in flat order, independent of loop counts). -/
  def specStmt (starts : List Addr) : Stmt → Addr → Nat → List Nat × Nat
    | .gate _, a, k => if starts[k]? = some a then ([k], k + 1) else ([], k)
    | .block _ b, a, k => specList starts b a 0 k
    | .loop n _ b, a, k =>
      let r := specList starts b a 0 k
      ((List.replicate n.toNat r.1).flatten, r.2)
  def specList (starts : List Addr) : List Stmt → Addr → Nat → Nat → List Nat × Nat
    | [], _, _, k => ([], k)
    | s :: r, a, i, k =>
      let r1 := specStmt starts s (a ++ [i]) k
      let r2 := specList starts r a (i + 1) r1.2
      (r1.1 ++ r2.1, r2.2)
end

def specVisits (starts : List Addr) (body : List Stmt) : List Nat := (specList starts body [] 0 0).1

/-! ### What a trace serialises to -/

mutual
  /-- Execution order as seen from a trace starting at `start`: a loop whose body contains `start`
  (its address is a prefix of `start`) is not repeated — its body is taken once, whatever its
  count (even 0) — every other loop is unrolled. -/
  def unrollFromStmt (start : Addr) : Stmt → Addr → List (GK × Addr)
    | .gate k, a => [(k, a)]
    | .block _ b, a => unrollFromList start b a 0
    | .loop n _ b, a =>
      if a.isPrefixOf start then unrollFromList start b a 0
      else (List.replicate n.toNat (unrollFromList start b a 0)).flatten
  def unrollFromList (start : Addr) : List Stmt → Addr → Nat → List (GK × Addr)
    | [], _, _ => []
    | s :: r, a, i => unrollFromStmt start s (a ++ [i]) ++ unrollFromList start r a (i + 1)
end

/-- The gates of the segment `start … end` (inclusive, flat order = lexicographic order of
addresses) of that execution order. -/
def segment (tr : Addr × Addr) (body : List Stmt) : List GK :=
  ((unrollFromList tr.1 body [] 0).filter (fun x => !lexLt x.2 tr.1 && !lexLt tr.2 x.2)).map (·.1)

end Jaqal.Walk
