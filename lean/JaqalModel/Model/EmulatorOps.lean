import JaqalModel.Base.Json
import JaqalModel.Model.Emulator
/-!
Driver ops for the emulator model.

* `apply_gate`: `{"n":N, "qs":[...], "U":[[[re,im,k],...],...], "v":[[re,im,k],...]}` →
  the output vector as a list of `[re,im,k]`, or `null` where numpy raises `IndexError`.
* `run_gates`: `{"n":N, "gates":[{"U":matrix-or-null,"qs":[...]},...]}` →
  `{"vec":[[re,im,k],...], "probs":[[num,k],...]}` (or `null`).

A Gaussian dyadic `[re,im,k]` stands for `(re + i·im) / 2^k`; a probability `[num,k]` for `num / 2^k`.
Inputs need not be normalised; outputs are.
-/
namespace Jaqal.Emulator
open Lean

def gdOfJson (j : Json) : Jaqal.R GD := do
  match (← jarr j) with
  | [re, im, k] => pure (GD.mk' (← jnat k) (← jint re) (← jint im))
  | _ => .error s!"expected [re,im,k], got {j.compress}"

def gdToJson (a : GD) : Json := .arr #[jofInt a.re, jofInt a.im, jofNat a.k]

def vecOfJson (j : Json) : Jaqal.R (Array GD) := do pure (← jlist gdOfJson j).toArray

def matOfJson (j : Json) : Jaqal.R (Array (Array GD)) := do pure (← jlist vecOfJson j).toArray

def vecToJson (v : Array GD) : Json := jofList gdToJson v.toList

def opApplyGate (j : Json) : Jaqal.R Json := do
  let n ← jnat (← jget j "n")
  let qs ← jlist jnat (← jget j "qs")
  let U ← matOfJson (← jget j "U")
  let v ← vecOfJson (← jget j "v")
  pure (jofOpt vecToJson (applyGateVec U qs n v))

def gateOfJson (j : Json) : Jaqal.R (Option (Array (Array GD)) × List Nat) := do
  let U ← jopt matOfJson (← jget j "U")
  let qs ← jlist jnat (← jget j "qs")
  pure (U, qs)

def probToJson (p : Int × Nat) : Json := .arr #[jofInt p.1, jofNat p.2]

def opRunGates (j : Json) : Jaqal.R Json := do
  let n ← jnat (← jget j "n")
  let gates ← jlist gateOfJson (← jget j "gates")
  pure (jofOpt (fun v => jobj [("vec", vecToJson v), ("probs", jofList (fun a => probToJson (GD.normSq a)) v.toList)])
    (runGates n gates))

def ops : List (String × (Json → Jaqal.R Json)) :=
  [("apply_gate", opApplyGate), ("run_gates", opRunGates)]

end Jaqal.Emulator
