import JaqalModel.Base.Json
import JaqalModel.Model.IrJson
import JaqalModel.Model.Passes
/-!
Driver ops for property C10 (the passes as a family, `parse_jaqal_string`'s flags, the pipeline table).

* `apply_seq`:   `{"circuit": <dump.circuit>, "passes": [["let", [[name, <num>]…]] | ["macros", bool] | ["subs"] | ["map"] …]}`
                 → `{"ok": <circuit>}` | `{"err": cls}`; with `"trace": true` → `{"steps": [<result after pass 1>, …]}`
                 (one result per pass up to and including the first failure)
* `parse_flags`: `{"sx": <Sx>, "natives": null | [<gatedef>…], "expand_macro": b, "expand_let": b, "expand_let_map": b,
                 "override": [[name, <num>]…]}` → `{"ok": <circuit>}` | `{"err": cls}`
* `pipelines`:   `{}` → `[[site, [pass…]], …]` (`Passes.pipelines`)
-/
namespace Jaqal.Passes
open Lean Jaqal Jaqal.Builder

def result {α} (f : α → Json) : M α → Json
  | .ok a => jobj [("ok", f a)]
  | .error e => jobj [("err", .str e.cls)]

def overrideFromJson (j : Json) : R (List (String × Num)) :=
  jlist (fun e => do
    match ← jarr e with
    | [n, v] => pure (← jstr n, ← Num.fromJson v)
    | _ => throw "bad override entry") j

def passFromJson (j : Json) : R Pass := do
  match ← jarr j with
  | [k] =>
    match ← jstr k with
    | "subs" => pure .subs
    | "map" => pure .map
    | "let" => pure (.let_ [])
    | "macros" => pure (.macros false)
    | s => throw s!"bad pass {s}"
  | [k, a] =>
    match ← jstr k with
    | "let" => do pure (.let_ (← overrideFromJson a))
    | "macros" => do pure (.macros (← jbool a))
    | s => throw s!"bad pass {s}"
  | _ => throw "bad pass"

/-- the result after every pass, up to and including the first failure -/
def traceSeq : List Pass → Circuit → List (M Circuit)
  | [], _ => []
  | p :: ps, c =>
    match apply p c with
    | .ok c' => .ok c' :: traceSeq ps c'
    | .error e => [.error e]

def opApplySeq (j : Json) : R Json := do
  let c ← Circuit.fromJson (← jget j "circuit")
  let ps ← jlist passFromJson (← jget j "passes")
  let tr ← jbool (jgetD j "trace" (.bool false))
  if tr then pure (jobj [("steps", jofList (result Circuit.toJson) (traceSeq ps c))])
  else pure (result Circuit.toJson (applySeq ps c))

def opParseFlags (j : Json) : R Json := do
  let sx ← Sx.fromJson (← jget j "sx")
  let natives ← jopt (jlist GateDef.fromJson) (jgetD j "natives" .null)
  let cfg : Config := { natives := natives, autoload := false }
  let em ← jbool (jgetD j "expand_macro" (.bool false))
  let el ← jbool (jgetD j "expand_let" (.bool false))
  let elm ← jbool (jgetD j "expand_let_map" (.bool false))
  let ov ← overrideFromJson (jgetD j "override" (.arr #[]))
  pure (result Circuit.toJson (parseWithFlags cfg em el elm ov sx))

def opPipelines (_ : Json) : R Json :=
  pure (jofList (fun (p : String × List String) => Json.arr #[.str p.1, jofList Json.str p.2]) pipelines)

def ops : List (String × (Json → R Json)) :=
  [("apply_seq", opApplySeq), ("parse_flags", opParseFlags), ("pipelines", opPipelines)]

end Jaqal.Passes
