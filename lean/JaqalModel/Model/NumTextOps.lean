import JaqalModel.Base.Json
import JaqalModel.Model.NumText
/-!
Driver ops for number literals.

* `gen_num`: `{"num": N}` → the text `generate_jaqal_value` writes, where `N` is `{"i": int}` or
  `{"f": [neg, mant, exp]}` (`Num.toJson`; integers as JSON numbers or decimal strings).
* `read_literal`: `{"text": s}` → `N` if the whole of `s` is one NUMBER or INT token, else `null`.
* `match_number`, `match_int`: `{"text": s}` → `[matched, rest]` (what `re.match` of the token's regular
  expression consumes at the head of `s`, and what is left) or `null`.
-/
namespace Jaqal.NumText
open Lean

def opGenNum (j : Json) : Jaqal.R Json := do
  let x ← Num.fromJson (← jget j "num")
  pure (.str (genNum x))

def opReadLiteral (j : Json) : Jaqal.R Json := do
  let s ← jstr (← jget j "text")
  pure (jofOpt Num.toJson (readLiteral s))

def matchToJson : Option (List Char × List Char) → Json
  | none => .null
  | some (m, r) => .arr #[.str (String.ofList m), .str (String.ofList r)]

def opMatchNumber (j : Json) : Jaqal.R Json := do
  let s ← jstr (← jget j "text")
  pure (matchToJson (matchNumber s.toList))

def opMatchInt (j : Json) : Jaqal.R Json := do
  let s ← jstr (← jget j "text")
  pure (matchToJson (matchInt s.toList))

def ops : List (String × (Json → Jaqal.R Json)) :=
  [("gen_num", opGenNum), ("read_literal", opReadLiteral),
   ("match_number", opMatchNumber), ("match_int", opMatchInt)]

end Jaqal.NumText
