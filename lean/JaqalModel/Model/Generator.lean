import JaqalModel.Model.Ir
import JaqalModel.Model.Resolve
import JaqalModel.Model.NumText
/-!
# `generate_jaqal_program` (`/repo/src/jaqalpaq/generator/generator.py`), by value

Same case splits, same order of appends, same error points:

* `generate_jaqal_value` returns the `.name` of registers / qubits / annotated values, `generate_jaqal_float`
  of a float, `str` of an int and **`None` for anything else**; `"".join` / `" ".join` over a tuple holding
  `None` raises `TypeError`, while `"%s" % None` inside `notate_slice` prints `None`;
* `notate_slice`: `if s.step:` and `s.start or 0` use Python truthiness (`None`, `0`, `0.0` are false, a
  `Constant` object is true);
* `generate_jaqal_block` writes `subcircuit ` and then `f"{iterations} "` when `iterations != 1` (Python
  `!=`: true for every `Constant`/`Parameter` object, by value for numbers: `1.0 != 1` is false);
* `iter_block_statements` splices the statements of a directly nested non-subcircuit block of the same kind;
* the body of the circuit is iterated, NOT spliced, and its own `parallel`/`subcircuit` flags are ignored.

`Err.other "AttributeError"` / `"TypeError"` / `"AssertionError"` where the Python raises those.
The only thing not transcribed is `format()` of a `Register`/`NamedQubit` object used as an iteration count
(it would print the object's `repr`): `Err.other "unmodelled-repr"`.
-/
namespace Jaqal.Generator
open Jaqal.NumText

def tabs (n : Nat) : String := String.ofList (List.replicate n '\t')

/-- `generate_jaqal_value`; `none` is Python's `None` (no branch taken) -/
def genValue : Val → Option String
  | .int i => some (genInt i)
  | .flt d => some (genFloat d)
  | .const n _ => some n
  | .param n _ => some n
  | .qubit n _ _ => some n
  | .regF n _ => some n
  | .regA n _ => some n
  | .regS n _ _ _ _ => some n
  | .none => Option.none
  | .str _ => Option.none

/-- a value inside `"".join((…))`: `None` makes `join` raise `TypeError` -/
def joinValue (v : Val) : M String :=
  match genValue v with
  | some s => pure s
  | Option.none => .error (.other "TypeError")

/-- `"%s" % generate_jaqal_value(v)` -/
def pctValue (v : Val) : String := (genValue v).getD "None"

/-- `.name` of an object (`AttributeError` for numbers, `None`, `str`) -/
def nameAttr (v : Val) : M String :=
  match v.name? with
  | some n => pure n
  | Option.none => .error (.other "AttributeError")

/-- Python truthiness `bool(v)`. A `Register` has `__len__` (= `.size`, which must be a non-negative `int`). -/
def truthy : Val → M Bool
  | .none => pure false
  | .int i => pure (i != 0)
  | .flt d => pure (d.mant != 0)
  | .str s => pure (s != "")
  | .const _ _ => pure true
  | .param _ _ => pure true
  | .qubit _ _ _ => pure true
  | r => do
    match ← Resolve.resolveSize [] r with
    | .int k => if k < 0 then .error (.other "ValueError") else pure (k != 0)
    | _ => .error (.other "TypeError")

/-- `notate_slice(slice(start, stop, step))` -/
def notateSlice (start stop step : Val) : M String := do
  let withStep ← truthy step
  let start' := if ← truthy start then start else .int 0
  if withStep then
    pure (pctValue start' ++ ":" ++ pctValue stop ++ ":" ++ pctValue step)
  else
    pure (pctValue start' ++ ":" ++ pctValue stop)

/-- `statement.iterations != 1` -/
def itersNe1 : Val → Bool
  | .int i => i != 1
  | .flt d => !(Num.veq (.flt d) (.int 1))
  | _ => true

/-- `f"{statement.iterations}"` -/
def fmtIters : Val → M String
  | .int i => pure (genInt i)
  | .flt d => pure (reprFloat d)            -- `str(float)`, NOT `generate_jaqal_float`
  | .const n _ => pure n                     -- `AnnotatedValue.__str__`
  | .param n _ => pure n
  | .none => pure "None"
  | .str s => pure s
  | _ => .error (.other "unmodelled-repr")

/-- `generate_jaqal_usepulses` -/
def genUsepulses (u : String × String) : M String :=
  if u.2 == "*" then pure ("from " ++ u.1 ++ " usepulses *\n") else .error (.other "AssertionError")

/-- `generate_jaqal_let` (`const.name`, `const.value`) -/
def genLet : Val → M String
  | .const n v => do pure ("let " ++ n ++ " " ++ (← joinValue v) ++ "\n")
  | v => do let _ ← nameAttr v; .error (.other "AttributeError")

/-- `register.fundamental` -/
def fundamentalAttr : Val → M Bool
  | .regF _ _ => pure true
  | .regA _ _ => pure false
  | .regS _ _ _ _ _ => pure false
  | .qubit _ _ _ => pure false
  | _ => .error (.other "AttributeError")

/-- `generate_jaqal_reg` -/
def genReg : Val → M String
  | .regF n size => do pure ("register " ++ n ++ "[" ++ (← joinValue size) ++ "]\n")
  | _ => .error (.other "AttributeError")

/-- `generate_jaqal_map` -/
def genMap : Val → M String
  | .qubit n src idx => do
    let s ← nameAttr src
    pure ("map " ++ n ++ " " ++ s ++ "[" ++ (← joinValue idx) ++ "]\n")
  | .regS n src start stop step => do
    let s ← nameAttr src
    pure ("map " ++ n ++ " " ++ s ++ "[" ++ (← notateSlice start stop step) ++ "]\n")
  | .regA n src => do
    let s ← nameAttr src
    pure ("map " ++ n ++ " " ++ s ++ "\n")
  | _ => .error (.other "AttributeError")

/-- `generate_jaqal_gate` -/
def genGate (depth : Nat) (name : String) (args : List (String × Val)) : M String := do
  let vs ← args.mapM (fun a => joinValue a.2)
  pure (tabs depth ++ " ".intercalate (name :: vs) ++ "\n")

/-- the text of `generate_jaqal_block` before the statements -/
def blockOpen (indent : Bool) (depth : Nat) (par sub : Bool) (iters : Val) : M String := do
  let ind := if indent then tabs depth else ""
  let subc ← if sub then
      (if itersNe1 iters then do pure ("subcircuit " ++ (← fmtIters iters) ++ " ") else pure "subcircuit ")
    else pure ""
  pure (ind ++ subc ++ (if par then "<\n" else "{\n"))

def blockClose (depth : Nat) (par : Bool) : String :=
  tabs depth ++ (if par then ">\n" else "}\n")

mutual
  /-- `generate_jaqal_gate` / `generate_jaqal_loop` / `generate_jaqal_block(·, depth, True)` -/
  def genStmt (depth : Nat) : Stmt → M String
    | .gate name _ args => genGate depth name args
    | .loop cnt body =>
      match body with
      | .block par sub iters stmts => do
        -- the tuple handed to `"".join` is built first (block text), then `join` meets a `None`
        let op ← blockOpen false depth par sub iters
        let inner ← genItems par (depth + 1) stmts
        let c ← joinValue cnt
        pure (tabs depth ++ "loop " ++ c ++ " " ++ op ++ inner ++ blockClose depth par)
      | _ => .error (.other "AttributeError")       -- `statement.subcircuit` on a non-block
    | .block par sub iters stmts => do
      let op ← blockOpen true depth par sub iters
      let inner ← genItems par (depth + 1) stmts
      pure (op ++ inner ++ blockClose depth par)
  /-- the loop over `iter_block_statements(block)` where `block.parallel = par` -/
  def genItems (par : Bool) (depth : Nat) : List Stmt → M String
    | [] => pure ""
    | .block p false it b :: rest =>
      if p = par then do
        let x ← genItems par depth b
        let y ← genItems par depth rest
        pure (x ++ y)
      else do
        let x ← genStmt depth (.block p false it b)
        let y ← genItems par depth rest
        pure (x ++ y)
    | s :: rest => do
      let x ← genStmt depth s
      let y ← genItems par depth rest
      pure (x ++ y)
end

/-- `generate_jaqal_macro` -/
def genMacro (m : Macro) : M String :=
  match m.body with
  | .block par sub iters stmts => do
    let op ← blockOpen false 0 par sub iters
    let inner ← genItems par 1 stmts
    pure ("macro " ++ m.name ++ " " ++ " ".intercalate (m.params.map (·.1)) ++ " " ++ op ++ inner ++ blockClose 0 par ++ "\n")
  | _ => .error (.other "AttributeError")

/-- `iter(circ.body)`: a block iterates its statements, a loop delegates to its block, a gate is not iterable -/
def iterBody : Stmt → M (List Stmt)
  | .block _ _ _ b => pure b
  | .loop _ b => iterBody b
  | .gate .. => .error (.other "TypeError")

def concatM {α} (f : α → M String) : List α → M String
  | [] => pure ""
  | x :: xs => do
    let a ← f x
    let b ← concatM f xs
    pure (a ++ b)

/-- `generate_jaqal_program` -/
def gen (c : Circuit) : M String := do
  let ups ← concatM genUsepulses c.usepulses
  let ups := if c.usepulses.isEmpty then ups else ups ++ "\n"
  let lets ← concatM genLet c.constants
  let lets := if c.constants.isEmpty then lets else lets ++ "\n"
  let regs ← concatM (fun r => do if ← fundamentalAttr r then genReg r else pure "") c.registers
  let maps ← concatM (fun r => do if !(← fundamentalAttr r) then genMap r else pure "") c.registers
  let maps := if c.registers.length > 1 then maps ++ "\n" else maps
  let macros ← concatM genMacro c.macros
  let body ← concatM (genStmt 0) (← iterBody c.body)
  pure (ups ++ lets ++ regs ++ "\n" ++ maps ++ macros ++ body)

end Jaqal.Generator
