import JaqalModel.Base.Json
import JaqalModel.Model.IrJson
import JaqalModel.Model.Pipeline
/-!
Driver ops for the whole pipeline (property C01).

* `parse_program`: `{"text": s, "natives": null | [<gatedef dump>…]}` → `{"ok": <circuit dump>}` |
  `{"err": cls}` | `{"err": "JaqalParseError", "pos": [line | null, col]}`
* `round_trip`: same input → `{"text2": s, "equal": bool, "stable": bool, "circuit2": <circuit dump>}` |
  `{"err": cls, "stage": "parse" | "gen" | "reparse" | "regen", "pos"?: …}`
  (`text2` = the generated text, `equal` = `c == parse(text2)`, `stable` = generating from the re-parsed circuit
  gives `text2` again).
* `round_trip_layers`: same input → `{"printable": bool, "A": bool, "B": bool, "C": bool, "Cexact": bool}` | `{"err": …}`:
  the three layer statements of C01 (`Pipeline.layers`) evaluated in the model on the circuit the text parses to;
  `Cexact`: building `unbuild c` gives back exactly `c` (what `C01_rebuild_canonical` proves for ordered programs).
-/
namespace Jaqal.Pipeline
open Lean Jaqal.Builder

def cfgOfJson (j : Json) : Jaqal.R Config := do
  let natives ← jopt (jlist GateDef.fromJson) (jgetD j "natives" .null)
  pure { natives := natives, autoload := false }

def errFields (e : Jaqal.Err) : List (String × Json) :=
  match e with
  | .parse l c => [("err", .str e.cls), ("pos", .arr #[jofOpt jofNat l, jofNat c])]
  | _ => [("err", .str e.cls)]

def opParseProgram (j : Json) : Jaqal.R Json := do
  let s ← jstr (← jget j "text")
  let cfg ← cfgOfJson j
  match parseProgram cfg s with
  | .ok c => pure (jobj [("ok", c.toJson)])
  | .error e => pure (jobj (errFields e))

def opRoundTrip (j : Json) : Jaqal.R Json := do
  let s ← jstr (← jget j "text")
  let cfg ← cfgOfJson j
  let fail (stage : String) (e : Jaqal.Err) : Json := jobj (errFields e ++ [("stage", .str stage)])
  match parseProgram cfg s with
  | .error e => pure (fail "parse" e)
  | .ok c =>
    match Generator.gen c with
    | .error e => pure (fail "gen" e)
    | .ok t =>
      match parseProgram cfg t with
      | .error e => pure (fail "reparse" e)
      | .ok c2 =>
        match Generator.gen c2 with
        | .error e => pure (fail "regen" e)
        | .ok t2 =>
          pure (jobj [("text2", .str t), ("equal", .bool (PyEq.circuitEq c c2)), ("stable", .bool (t2 == t)),
                      ("circuit2", c2.toJson)])

def opLayers (j : Json) : Jaqal.R Json := do
  let s ← jstr (← jget j "text")
  let cfg ← cfgOfJson j
  match layers cfg s with
  | .error e => pure (jobj (errFields e))
  | .ok l =>
    -- `C01_rebuild_canonical` says more than (C): the rebuilt circuit IS the original one (compared as JSON dumps)
    let exact := match parseProgram cfg s with
      | .ok c => (match parseBuild cfg (unbuild c) with
        | .ok c' => c'.toJson.compress == c.toJson.compress
        | .error _ => false)
      | .error _ => false
    pure (jobj [("printable", .bool l.printable), ("A", .bool l.layerA), ("B", .bool l.layerB), ("C", .bool l.layerC),
      ("Cexact", .bool exact)])

def ops : List (String × (Json → Jaqal.R Json)) :=
  [("parse_program", opParseProgram), ("round_trip", opRoundTrip), ("round_trip_layers", opLayers)]

end Jaqal.Pipeline
