/-!
Model of the result views in `jaqalpaq/core/result.py`:

* `Readout.as_str`            = `f"{n:b}".zfill(k)[::-1]`
* `OutputParser.process_trace`: a string output `s` is read as `int(s[::-1], 2)`
* `relative_frequency_by_str` / `simulated_probability_by_str`: keys `f"{n:b}".zfill(k)[::-1]` for `n` in `enumerate(p)`
* `ReadoutSubcircuit.accept_readout`: `relative_frequencies[readout.as_int] += 1`
* `ProbabilisticSubcircuit.__init__`: clip to [0,1], renormalise, warn / raise on the size of the correction
  (over exact rationals instead of IEEE doubles)

Core Lean only.
-/
namespace Jaqal.Result

/-! ## `as_str`, `int(s[::-1], 2)` -/

/-- `f"{n:b}"`: binary digits, most significant first, `"0"` for zero. Fuel = `n` is always enough. -/
def binMSBAux : Nat → Nat → List Bool → List Bool
  | 0, _, acc => acc
  | fuel+1, n, acc => if n = 0 then acc else binMSBAux fuel (n / 2) ((n % 2 == 1) :: acc)

def binMSB (n : Nat) : List Bool := if n = 0 then [false] else binMSBAux n n []

/-- `str.zfill(k)` on a digit list (no sign handling needed: inputs are digits). -/
def zfill (k : Nat) (l : List Bool) : List Bool := List.replicate (k - l.length) false ++ l

/-- `Readout.as_str` as a list of bits, leftmost character first. -/
def asBits (k n : Nat) : List Bool := (zfill k (binMSB n)).reverse

def bitChar (b : Bool) : Char := if b then '1' else '0'

def asStr (k n : Nat) : String := String.ofList ((asBits k n).map bitChar)

/-- `int(s, 2)` on a list of characters: `none` where Python raises `ValueError`
(empty string or a character other than 0/1; underscores, signs, whitespace and `0b` prefixes
are accepted by Python but are never produced by hardware output and are rejected here — the
correspondence harness never sends them). -/
def intBase2 : List Char → Option Nat
  | [] => none
  | cs => cs.foldlM (fun acc c => if c = '0' then some (2 * acc) else if c = '1' then some (2 * acc + 1) else none) 0

/-- `int(s[::-1], 2)`. -/
def ofStr (s : String) : Option Nat := intBase2 s.toList.reverse

/-- keys of the `*_by_str` views for a `k`-qubit subcircuit whose vector has `len` entries. -/
def viewKeys (k len : Nat) : List String := (List.range len).map (asStr k)

/-! ## `accept_readout` -/

/-- `accept_readout` folded over a list of integer outcomes: histogram of length `len`
(closed form; out-of-range outcomes are not counted — see `acceptAll` for the code path that exists). -/
def histogram (len : Nat) (outs : List Nat) : List Nat :=
  (List.range len).map (fun i => outs.count i)

/-- One `self._relative_frequencies[readout.as_int] += 1` on an array: `none` where numpy raises
`IndexError` (index ≥ length; negative indices are not modelled, outcomes are `Nat`). -/
def bump : List Nat → Nat → Option (List Nat)
  | [], _ => none
  | x :: xs, 0 => some ((x + 1) :: xs)
  | x :: xs, i+1 => (bump xs i).map (x :: ·)

/-- The code path that exists: start from `numpy.zeros(len)` and `accept_readout` every outcome in turn;
`none` as soon as one outcome is out of range (`IndexError`). -/
def acceptAll (len : Nat) (outs : List Nat) : Option (List Nat) :=
  outs.foldlM bump (List.replicate len 0)

/-! ## `ProbabilisticSubcircuit.__init__` -/

/-- `ProbabilisticSubcircuit.CUTOFF_FAIL` (source literal `2e-6`, read as an exact decimal). -/
def cutoffFail : Rat := 2e-6
/-- `ProbabilisticSubcircuit.CUTOFF_WARN` (source literal `1e-13`, read as an exact decimal). -/
def cutoffWarn : Rat := 1e-13

/-- `numpy.clip(x, 0, 1)` = `minimum(maximum(x, 0), 1)` on one entry. -/
def clip01 (x : Rat) : Rat := if x < 0 then 0 else if 1 < x then 1 else x

/-- `numpy.abs`. -/
def absR (x : Rat) : Rat := if x < 0 then -x else x

/-- Python's builtin `max(a, b)`: `b` if `b > a` else `a`. -/
def pyMax (a b : Rat) : Rat := if a < b then b else a

/-- `ndarray.max()`: `none` for an empty array (numpy raises `ValueError`). -/
def maxList : List Rat → Option Rat
  | [] => none
  | x :: xs => some (xs.foldl (fun m y => if m < y then y else m) x)

/-- `p_clipped = numpy.clip(p, 0, 1)`. -/
def clipped (p : List Rat) : List Rat := p.map clip01

/-- `clip_err = numpy.abs(p_clipped - p).max()`. -/
def clipErr (p : List Rat) : Option Rat := maxList (p.map (fun x => absR (clip01 x - x)))

/-- `total = p_clipped.sum()`. -/
def total (p : List Rat) : Rat := (clipped p).sum

/-- `total_err = numpy.abs(total - 1)`. -/
def totalErr (p : List Rat) : Rat := absR (total p - 1)

/-- `err = max(total_err, clip_err)`; `none` for an empty vector. -/
def normErr (p : List Rat) : Option Rat := (clipErr p).map (fun ce => pyMax (totalErr p) ce)

/-- `ProbabilisticSubcircuit.__init__` on the probability vector: the stored `_probabilities` and whether a
`RuntimeWarning` was issued; `.error "runtime"` where the constructor raises `RuntimeError`,
`.error "value"` where numpy raises `ValueError` (empty vector: `max` of an empty array).

Order of operations as in the source: clip, `clip_err`, `total`, `total_err`, divide when `total_err > 0`,
then `err` against the two cutoffs. When `total = 0` numpy's in-place division yields nan (0/0) with a numpy
warning, no exception; then `total_err = 1 > CUTOFF_FAIL` and the constructor raises — that case is made
explicit here so that no division by zero is ever evaluated in the model. -/
def normalize (p : List Rat) : Except String (List Rat × Bool) :=
  let pc := clipped p
  match clipErr p with
  | none => .error "value"
  | some ce =>
    let tot := total p
    let te := totalErr p
    if tot = 0 then .error "runtime"
    else
      let q := if 0 < te then pc.map (· / tot) else pc
      let err := pyMax te ce
      if cutoffWarn < err then
        if cutoffFail < err then .error "runtime" else .ok (q, true)
      else .ok (q, false)

end Jaqal.Result
