/-!
Model of the result views in `jaqalpaq/core/result.py`:

* `Readout.as_str`            = `f"{n:b}".zfill(k)[::-1]`
* `OutputParser.process_trace`: a string output `s` is read as `int(s[::-1], 2)`
* `relative_frequency_by_str` / `simulated_probability_by_str`: keys `f"{n:b}".zfill(k)[::-1]` for `n` in `enumerate(p)`
* `ReadoutSubcircuit.accept_readout`: `relative_frequencies[readout.as_int] += 1`

Core Lean only.
-/
namespace Jaqal.Result

/-- `f"{n:b}"`: binary digits, most significant first, `"0"` for zero. Fuel = `n` is always enough. -/
def binMSBAux : Nat → Nat → List Bool → List Bool
  | 0, _, acc => acc
  | fuel+1, n, acc => if n = 0 then acc else binMSBAux fuel (n / 2) ((n % 2 == 1) :: acc)

def binMSB (n : Nat) : List Bool := if n = 0 then [false] else binMSBAux n n []

/-- `str.zfill(k)` on a digit list (no sign handling needed: inputs are digits). -/
def zfill (k : Nat) (l : List Bool) : List Bool := List.replicate (k - l.length) false ++ l

/-- `Readout.as_str` as a list of bits, leftmost character first. -/
def asBits (k n : Nat) : List Bool := (zfill k (binMSB n)).reverse

def bitChar (b : Bool) : Char := if b then '1' else '0'

def asStr (k n : Nat) : String := String.ofList ((asBits k n).map bitChar)

/-- `int(s, 2)` on a list of characters: `none` where Python raises `ValueError`
(empty string or a character other than 0/1; underscores, signs, whitespace and `0b` prefixes
are accepted by Python but are never produced by hardware output and are rejected here — the
correspondence harness never sends them). -/
def intBase2 : List Char → Option Nat
  | [] => none
  | cs => cs.foldlM (fun acc c => if c = '0' then some (2 * acc) else if c = '1' then some (2 * acc + 1) else none) 0

/-- `int(s[::-1], 2)`. -/
def ofStr (s : String) : Option Nat := intBase2 s.toList.reverse

/-- keys of the `*_by_str` views for a `k`-qubit subcircuit whose vector has `len` entries. -/
def viewKeys (k len : Nat) : List String := (List.range len).map (asStr k)

/-- `accept_readout` folded over a list of integer outcomes: histogram of length `len`. -/
def histogram (len : Nat) (outs : List Nat) : List Nat :=
  (List.range len).map (fun i => outs.count i)

end Jaqal.Result
