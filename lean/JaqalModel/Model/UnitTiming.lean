/-!
Model of `jaqalpaq.core.algorithm.unit_timing` (`normalize_blocks_with_unitary_timing`).

Python objects ↦ `Stmt`:
* `GateStatement`                       ↦ `gate id`   (the id stands for name + arguments; the pass never looks inside)
* `BlockStatement(parallel, subcircuit, iterations, statements)` ↦ `block par sub iters body`
* `LoopStatement(iterations, statements)` ↦ `loop n body` (`body` is the loop's `BlockStatement`)

Python exceptions ↦ `Err`:
* `JaqalError("A Loop is embedded somewhere within a parallel block …")` ↦ `loopInParallel`
* `AssertionError("Normalization Failed")` (`assert stmt.parallel`)     ↦ `assertion`

The functions follow the Python one for one:

| Python                                   | here            |
|------------------------------------------|-----------------|
| `UnrollIterator().visit(stmt)`           | `unroll`        |
| `BlockNormalizer.iter_unroll_blocks`     | `unrollAll`     |
| `zip_longest(*iterators)` + `filter(None)` | `zipLongest`  |
| body of the `for stmt in non_none` loop  | `chunkOf`       |
| `BlockNormalizer.iter_chunk_blocks`      | `chunkBlocks`   |
| `len(chunk)==1 ? chunk[0] : BlockStatement(parallel=True, chunk)` | `emit` |
| `BlockNormalizer.visit` (`visit_default` / `visit_BlockStatement`) | `normalize` |
| `[self.visit(s) for s in obj.statements]`| `normalizeList` |
| `self.visit(circuit.body).statements` (in `visit_Circuit`) | `normalizeBody` |

Order of evaluation / error points: the children are visited left to right before anything else
(the first child that raises wins); then, for a parallel block, the chunks are produced in order and
inside a chunk the statements are inspected left to right, the first offending one raises.
-/
namespace Jaqal.UnitTiming

inductive Stmt where
  | gate (id : Nat)
  | block (par sub : Bool) (iters : Nat) (body : List Stmt)
  | loop (n : Nat) (body : Stmt)
  deriving Repr, Inhabited

inductive Err where
  /-- `JaqalError`: a loop inside a parallel block -/
  | loopInParallel
  /-- `AssertionError`: `assert stmt.parallel` (a subcircuit block inside a parallel block) -/
  | assertion
  deriving Repr, DecidableEq, Inhabited

mutual
/-- Structural equality test (used by the driver and by `decide`-style examples). -/
def Stmt.beq : Stmt → Stmt → Bool
  | .gate a, .gate b => a == b
  | .block p s i b, .block p' s' i' b' => p == p' && s == s' && i == i' && Stmt.beqList b b'
  | .loop n b, .loop n' b' => n == n' && Stmt.beq b b'
  | _, _ => false
def Stmt.beqList : List Stmt → List Stmt → Bool
  | [], [] => true
  | a :: as, b :: bs => Stmt.beq a b && Stmt.beqList as bs
  | _, _ => false
end

theorem Stmt.beq_iff (a : Stmt) : ∀ b, Stmt.beq a b = true ↔ a = b := by
  induction a using Stmt.rec (motive_2 := fun l => ∀ l', Stmt.beqList l l' = true ↔ l = l') with
  | gate i => intro b; cases b <;> simp [Stmt.beq]
  | loop n body ih => intro b; cases b <;> simp [Stmt.beq, ih]
  | block p s i body ih => intro b; cases b <;> simp [Stmt.beq, ih, and_assoc]
  | nil => rename_i l'; cases l' <;> simp [Stmt.beqList]
  | cons x xs ihx ihxs => rename_i l'; cases l' <;> simp [Stmt.beqList, ihx, ihxs]

instance Stmt.instDecidableEq : DecidableEq Stmt := fun a b => decidable_of_iff _ (Stmt.beq_iff a b)

/-- (core has no such instance) lets `decide` compare results of the model -/
instance decEqExcept {ε α} [DecidableEq ε] [DecidableEq α] : DecidableEq (Except ε α)
  | .ok a, .ok b => if h : a = b then isTrue (by rw [h]) else isFalse (fun h' => by cases h'; exact h rfl)
  | .error a, .error b => if h : a = b then isTrue (by rw [h]) else isFalse (fun h' => by cases h'; exact h rfl)
  | .ok _, .error _ => isFalse (fun h => by cases h)
  | .error _, .ok _ => isFalse (fun h => by cases h)

/-- `UnrollIterator().visit(stmt)`: a parallel or subcircuit block is yielded whole, any other block
yields its statements, everything else (gate, loop) is yielded as is. -/
def unroll : Stmt → List Stmt
  | .block par sub it body => if par || sub then [.block par sub it body] else body
  | s => [s]

/-- `iter_unroll_blocks`. -/
def unrollAll : List Stmt → List Stmt
  | [] => []
  | s :: ss => unroll s ++ unrollAll ss

/-- Put the stream `l` in front of the already transposed streams `rows`:
row `k` of the result is `l[k] :: rows[k]` (with the obvious reading when one side is exhausted). -/
def zipCons {α} : List α → List (List α) → List (List α)
  | [], rows => rows
  | x :: xs, [] => [x] :: zipCons xs []
  | x :: xs, r :: rs => (x :: r) :: zipCons xs rs

/-- `[list(filter(lambda x: x is not None, ch)) for ch in zip_longest(*streams)]`: the `k`-th row
collects, in stream order, the `k`-th element of every stream that has one. -/
def zipLongest {α} : List (List α) → List (List α)
  | [] => []
  | l :: ls => zipCons l (zipLongest ls)

/-- The `for stmt in non_none` loop of `iter_chunk_blocks` on one row of `zip_longest`. -/
def chunkOf : List Stmt → Except Err (List Stmt)
  | [] => .ok []
  | .block par _ _ body :: rest =>
      if par then (chunkOf rest).map (body ++ ·)        -- `chunk.extend(stmt.statements)`
      else .error .assertion                             -- `assert stmt.parallel`
  | .loop _ _ :: _ => .error .loopInParallel             -- appended, then `raise JaqalError`
  | .gate i :: rest => (chunkOf rest).map (.gate i :: ·) -- `chunk.append(stmt)`

/-- `mapM chunkOf` written out (first failing row wins). -/
def chunkRows : List (List Stmt) → Except Err (List (List Stmt))
  | [] => .ok []
  | r :: rs =>
    match chunkOf r with
    | .error e => .error e
    | .ok c =>
      match chunkRows rs with
      | .error e => .error e
      | .ok cs => .ok (c :: cs)

/-- `iter_chunk_blocks` (as the list of all chunks, or the first exception). -/
def chunkBlocks (visited : List Stmt) : Except Err (List (List Stmt)) :=
  chunkRows (zipLongest (visited.map unroll))

/-- A chunk of exactly one statement is emitted bare, any other as a parallel block. -/
def emit : List Stmt → Stmt
  | [s] => s
  | chunk => .block true false 1 chunk

mutual
/-- `BlockNormalizer().visit(stmt)`. -/
def normalize : Stmt → Except Err Stmt
  | .gate i => .ok (.gate i)                    -- `visit_default`
  | .loop n b => .ok (.loop n b)                -- `visit_default`: the loop body is not touched
  | .block par sub it body =>
    match normalizeList body with
    | .error e => .error e
    | .ok visited =>
      if par then
        match chunkBlocks visited with
        | .error e => .error e
        | .ok chunks => .ok (.block false sub it (chunks.map emit))
      else
        .ok (.block false sub it (unrollAll visited))
/-- `[self.visit(stmt) for stmt in statements]`. -/
def normalizeList : List Stmt → Except Err (List Stmt)
  | [] => .ok []
  | s :: ss =>
    match normalize s with
    | .error e => .error e
    | .ok v =>
      match normalizeList ss with
      | .error e => .error e
      | .ok vs => .ok (v :: vs)
end

/-- `self.visit(circuit.body).statements`, where `circuit.body` is the (sequential, non-subcircuit)
top-level block holding the statements `b`; this list becomes the body of the new circuit. -/
def normalizeBody (b : List Stmt) : Except Err (List Stmt) :=
  match normalizeList b with
  | .error e => .error e
  | .ok visited => .ok (unrollAll visited)

theorem normalizeBody_eq (b : List Stmt) :
    normalizeBody b = (normalize (.block false false 1 b)).map
      (fun s => match s with | .block _ _ _ body => body | _ => []) := by
  simp only [normalizeBody, normalize]
  cases normalizeList b <;> rfl

end Jaqal.UnitTiming
