import JaqalModel.Base.Json
import JaqalModel.Model.Walk
import JaqalModel.Model.WalkSpec
/-!
# Driver ops for the walkers

JSON for statements: `{"g":"P"|"M"|<nat id>}`, `{"b":[...],"par":bool}`, `{"l":<int>,"par":bool,"b":[...]}`.

* `"discover"` : `{"body":[…]}` → `{"ok":[[start,end],…]}` | `{"err":"gate-outside"|"measure-without-prepare"|"m->p-in-loop"}`
* `"visits"`   : `{"body":[…]}` → list of subcircuit indices in visit order | `"hang"` (fuel
  `Walk.fuelBound` exhausted — by `C08_terminates` impossible for an accepted program) | `"raise"` |
  `{"err":…}` when discovery rejects.  Also `"spec"`: the same from `specVisits`, `"exec"` from `execVisits ∘ unroll`.
* `"serialize"`: `{"body":[…]}` → for each discovered trace the gate tokens (`"P"`, `"M"`, id) the
  emulator would apply, or `null` where the Python raises; `{"err":…}` when discovery rejects.
-/
namespace Jaqal.Walk
open Lean Jaqal

/-- Statement decoder; `fuel` bounds the nesting depth (JSON is a nested inductive; no `partial`). -/
def stmtOfJson : Nat → Json → R Stmt
  | 0, _ => .error "statement nesting too deep"
  | d + 1, j =>
    match j.getObjVal? "g" with
    | .ok (.str "P") => .ok (.gate .prep)
    | .ok (.str "M") => .ok (.gate .meas)
    | .ok v => do let n ← jnat v; pure (.gate (.other n))
    | .error _ => do
      let par ← jbool (jgetD j "par" (.bool false))
      let b ← (← jarr (← jget j "b")).mapM (stmtOfJson d)
      match j.getObjVal? "l" with
      | .ok v => do let n ← jint v; pure (.loop n par b)
      | .error _ => pure (.block par b)

def bodyOfJson (j : Json) : R (List Stmt) := do
  (← jarr (← jget j "body")).mapM (stmtOfJson 512)

def errStr : DiscErr → String
  | .gateOutside => "gate-outside"
  | .measureWithoutPrepare => "measure-without-prepare"
  | .measureToPrepareInLoop => "m->p-in-loop"

def jaddr (a : Addr) : Json := jofList jofNat a

def gkJson : GK → Json
  | .prep => .str "P"
  | .meas => .str "M"
  | .other n => jofNat n

def opDiscover (j : Json) : R Json := do
  let body ← bodyOfJson j
  match discover body with
  | .error e => pure (jobj [("err", .str (errStr e))])
  | .ok trs => pure (jobj [("ok", jofList (fun t => .arr #[jaddr t.1, jaddr t.2]) trs),
                           ("pairs", jofList (fun t => .arr #[jaddr t.1, jaddr t.2]) (pairs (flatToks body))),
                           ("bracketed", .bool (match bracketCheck (flatToks body) with | .ok _ => true | .error _ => false))])

def opVisits (j : Json) : R Json := do
  let body ← bodyOfJson j
  match discover body with
  | .error e =>
    pure (jobj [("err", .str (errStr e)),
                ("spec_err", match bracketCheck (flatToks body) with | .ok _ => .null | .error e => .str (errStr e))])
  | .ok trs =>
    let starts := trs.map (·.1)
    let v : Json := match visit (fuelBound starts body) starts body with
      | .ok l => jofList jofNat l
      | .error .fuel => .str "hang"
      | .error .raised => .str "raise"
    pure (jobj [("visits", v), ("spec", jofList jofNat (specVisits starts body)),
                ("exec", jofList jofNat (execVisits starts (unroll body)))])

def opSerialize (j : Json) : R Json := do
  let body ← bodyOfJson j
  match discover body with
  | .error e => pure (jobj [("err", .str (errStr e))])
  | .ok trs =>
    pure (jobj [("ok", jofList (fun t => jofOpt (jofList gkJson) (serialize t body)) trs),
                ("spec", jofList (fun t => jofList gkJson (segment t body)) trs)])

def ops : List (String × (Json → R Json)) :=
  [("discover", opDiscover), ("visits", opVisits), ("serialize", opSerialize)]

end Jaqal.Walk
