/-!
# A small heap model for property C11 (analyses and transformations never modify their input)

Python objects have identity; `circuit.body.statements` is a list object shared by everybody who holds
the circuit.  This file models exactly that much: a heap of objects with addresses, a command language
for the effects a library call can have on it (allocate, store an attribute, append to a list, set a
dictionary key, read), and the run-time trace of the addresses a program writes (`writesOf`) and
allocates (`allocatedBy`).  `JaqalProofs/Props/C11.lean` proves the frame theorem over it.

The second half defines the row types of the *generated* effect table
(`JaqalModel/Generated/Effects.lean`, written by `/verif/harness/effects_scan.py` from the Python
source on every check): one `Site` per heap-mutation site of the anchored modules with the provenance
class of its receiver, and one `GlobalSite` per piece of process-global state.

Modelling decisions
* Lists and dictionaries are heap objects of their own (as in Python), not values: a value is a scalar or
  an address.  Records (`__dict__`), lists and dictionaries are the three object kinds.
* Addresses are indices into the list of objects, so an allocation returns an address that is not in the
  domain of the heap it starts from, and nothing is ever deallocated.
* A program has no literal addresses: it reaches the heap only through its environment, which starts as
  the argument values (`roots`) and grows by one slot per `alloc` / read.
* A command that cannot execute (unbound variable, receiver not an address, dangling address, wrong
  object kind, missing attribute / index / key: the Python `NameError` / `AttributeError` / `TypeError`
  / `IndexError` / `KeyError`) records the error and every later command is skipped; the heap keeps the
  effects made so far, as after a Python exception.
-/
namespace Jaqal.Heap

/-! ## values, objects, heaps -/

abbrev Addr := Nat

inductive Val where
  | int (i : Int)
  | str (s : String)
  | none
  | ref (a : Addr)
  deriving DecidableEq, Repr, Inhabited

inductive Kind where
  | record | list | dict
  deriving DecidableEq, Repr

inductive Obj where
  /-- an instance: attribute name ↦ value (`__dict__`) -/
  | record (fields : List (String × Val))
  | list (items : List Val)
  | dict (items : List (String × Val))
  deriving DecidableEq, Repr, Inhabited

def Obj.empty : Kind → Obj
  | .record => .record []
  | .list => .list []
  | .dict => .dict []

/-- finite map update: replace the first binding of `k` or add one at the end -/
def assocSet (k : String) (v : Val) : List (String × Val) → List (String × Val)
  | [] => [(k, v)]
  | (k', v') :: m => if k' = k then (k, v) :: m else (k', v') :: assocSet k v m

def assocGet (k : String) : List (String × Val) → Option Val
  | [] => Option.none
  | (k', v') :: m => if k' = k then some v' else assocGet k m

/-- The heap: object at address `a` is `objs[a]?`; its domain is `{a | a < size}`. -/
abbrev Heap := List Obj

/-- `a ∈ dom h` -/
abbrev Heap.has (h : Heap) (a : Addr) : Prop := a < h.length

/-! ## programs -/

/-- expressions: a slot of the environment or a scalar literal -/
inductive Ex where
  | var (i : Nat)
  | int (n : Int)
  | str (s : String)
  | none
  deriving DecidableEq, Repr

inductive Cmd where
  /-- `x = C()` / `[]` / `{}`: allocate an empty object, bind its address to a new slot -/
  | alloc (k : Kind)
  /-- `r.f = e` -/
  | write (r : Nat) (f : String) (e : Ex)
  /-- `r.append(e)` -/
  | listAppend (r : Nat) (e : Ex)
  /-- `r[k] = e` -/
  | dictSet (r : Nat) (k : String) (e : Ex)
  /-- `x = r.f` (binds a new slot) -/
  | readField (r : Nat) (f : String)
  /-- `x = r[i]` on a list -/
  | readItem (r : Nat) (i : Nat)
  /-- `x = r[k]` on a dictionary -/
  | readKey (r : Nat) (k : String)
  /-- `x = len(r)` on a list -/
  | readLen (r : Nat)
  /-- contribute a value to the result of the call -/
  | emit (e : Ex)
  deriving DecidableEq, Repr

/-- sequencing is list concatenation -/
abbrev Prog := List Cmd

structure St where
  heap : Heap
  env : List Val
  out : List Val
  err : Option String
  deriving DecidableEq, Repr

def eval (env : List Val) : Ex → Option Val
  | .var i => env[i]?
  | .int n => some (.int n)
  | .str s => some (.str s)
  | .none => some .none

/-- the address a slot holds, if it holds one -/
def addrOf (env : List Val) (r : Nat) : Option Addr :=
  match env[r]? with
  | some (.ref a) => some a
  | _ => Option.none

def St.fail (s : St) (msg : String) : St := { s with err := some msg }

/-- One command.  Nothing happens once an error is recorded. -/
def step (c : Cmd) (s : St) : St :=
  if s.err.isSome then s else
  match c with
  | .alloc k =>
      { s with heap := s.heap ++ [Obj.empty k], env := s.env ++ [.ref s.heap.length] }
  | .write r f e =>
      match addrOf s.env r, eval s.env e with
      | some a, some v =>
          match s.heap[a]? with
          | some (.record fs) => { s with heap := s.heap.set a (.record (assocSet f v fs)) }
          | _ => s.fail "AttributeError"
      | _, _ => s.fail "NameError"
  | .listAppend r e =>
      match addrOf s.env r, eval s.env e with
      | some a, some v =>
          match s.heap[a]? with
          | some (.list xs) => { s with heap := s.heap.set a (.list (xs ++ [v])) }
          | _ => s.fail "AttributeError"
      | _, _ => s.fail "NameError"
  | .dictSet r k e =>
      match addrOf s.env r, eval s.env e with
      | some a, some v =>
          match s.heap[a]? with
          | some (.dict kvs) => { s with heap := s.heap.set a (.dict (assocSet k v kvs)) }
          | _ => s.fail "TypeError"
      | _, _ => s.fail "NameError"
  | .readField r f =>
      match addrOf s.env r with
      | some a =>
          match s.heap[a]? with
          | some (.record fs) =>
              match assocGet f fs with
              | some v => { s with env := s.env ++ [v] }
              | Option.none => s.fail "AttributeError"
          | _ => s.fail "AttributeError"
      | Option.none => s.fail "NameError"
  | .readItem r i =>
      match addrOf s.env r with
      | some a =>
          match s.heap[a]? with
          | some (.list xs) =>
              match xs[i]? with
              | some v => { s with env := s.env ++ [v] }
              | Option.none => s.fail "IndexError"
          | _ => s.fail "TypeError"
      | Option.none => s.fail "NameError"
  | .readKey r k =>
      match addrOf s.env r with
      | some a =>
          match s.heap[a]? with
          | some (.dict kvs) =>
              match assocGet k kvs with
              | some v => { s with env := s.env ++ [v] }
              | Option.none => s.fail "KeyError"
          | _ => s.fail "TypeError"
      | Option.none => s.fail "NameError"
  | .readLen r =>
      match addrOf s.env r with
      | some a =>
          match s.heap[a]? with
          | some (.list xs) => { s with env := s.env ++ [.int xs.length] }
          | _ => s.fail "TypeError"
      | Option.none => s.fail "NameError"
  | .emit e =>
      match eval s.env e with
      | some v => { s with out := s.out ++ [v] }
      | Option.none => s.fail "NameError"

/-- `run : Prog → St → St`; the final state carries the heap and the result. -/
def run : Prog → St → St
  | [], s => s
  | c :: p, s => run p (step c s)

/-- what a call returns to its caller: the emitted values and the error class, if any -/
structure Result where
  out : List Val
  err : Option String
  deriving DecidableEq, Repr

def St.result (s : St) : Result := ⟨s.out, s.err⟩

/-! ## the write and allocation traces of a run -/

/-- the object a mutating command is about to write in state `s` (its *receiver*), resolved -/
def Cmd.target (c : Cmd) (s : St) : Option Addr :=
  if s.err.isSome then Option.none else
  match c with
  | .write r _ _ => addrOf s.env r
  | .listAppend r _ => addrOf s.env r
  | .dictSet r _ _ => addrOf s.env r
  | _ => Option.none

/-- the address an `alloc` creates in state `s` -/
def Cmd.newAddr (c : Cmd) (s : St) : Option Addr :=
  if s.err.isSome then Option.none else
  match c with
  | .alloc _ => some s.heap.length
  | _ => Option.none

/-- the write targets of the run of `p` from `s`, in order: a function of the run, not of the text -/
def writesOf : Prog → St → List Addr
  | [], _ => []
  | c :: p, s => (c.target s).toList ++ writesOf p (step c s)

/-- the addresses the run of `p` from `s` allocates -/
def allocatedBy : Prog → St → List Addr
  | [], _ => []
  | c :: p, s => (c.newAddr s).toList ++ allocatedBy p (step c s)

/-! ## library calls and histories of calls on a shared heap -/

/-- A library call: run the program of the call with the argument values `roots` as its environment. -/
def call (roots : List Val) (p : Prog) (h : Heap) : St := run p ⟨h, roots, [], Option.none⟩

/-- Run the calls one after the other on ONE shared heap (each with the same argument values - the
shared circuit object - and a fresh environment); collect every call's result and the final heap. -/
def history (roots : List Val) : List Prog → Heap → List Result × Heap
  | [], h => ([], h)
  | p :: ps, h =>
      let s := call roots p h
      let r := history roots ps s.heap
      (s.result :: r.1, r.2)

/-- `h'` still holds every object of `h` unchanged (`h'` restricted to `dom h` is `h`). -/
def Extends (h h' : Heap) : Prop := ∀ a, a < h.length → h'[a]? = h[a]?

/-! ## rows of the generated effect table -/

/-- provenance class of the receiver of a mutation site (see `/verif/harness/effects_scan.py`) -/
inductive Prov where
  /-- created in the same function (constructor / literal / comprehension / copy), or a container the
      constructor of such an object created -/
  | fresh
  /-- the object under construction in `__init__` / `__new__` -/
  | selfInit
  /-- bookkeeping of a visitor / builder / parser / backend object, created by that object -/
  | ownState
  /-- `self` of an IR / result class outside `__init__` (lazy caches …) -/
  | selfIr
  /-- a parameter, or something obtained from one -/
  | param
  /-- a module-level or class-level object -/
  | global
  | unknown
  deriving DecidableEq, Repr

/-- In the heap model a `fresh` / `selfInit` / `ownState` receiver is an address in `allocatedBy`. -/
def Prov.safe : Prov → Bool
  | .fresh | .selfInit | .ownState => true
  | _ => false

structure Site where
  module : String
  func : String
  render : String
  cls : Prov
  /-- listed in the hand-kept `/verif/harness/effects_justified.json` -/
  justified : Bool
  deriving DecidableEq, Repr

def Site.ok (s : Site) : Bool := s.cls.safe || s.justified

structure GlobalSite where
  module : String
  func : String
  kind : String
  render : String
  deriving DecidableEq, Repr

end Jaqal.Heap
