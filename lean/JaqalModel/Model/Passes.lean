import JaqalModel.Model.ExpandMacros
import JaqalModel.Model.ExpandSubcircuits
import JaqalModel.Model.FillIn
import JaqalModel.Model.Builder
/-!
# The four preprocessing passes as one family, and the three places the library chains them (property C10)

* `Pass` / `apply` / `applySeq` — `fill_in_let(c, override_dict=ov)`, `expand_macros(c, preserve_definitions=p)`,
  `expand_subcircuits(c)` (default bounding gates), `fill_in_map(c)`, and a sequence of such calls, each applied to the
  result of the one before (the first failure is the failure of the sequence).
* `parseWithFlags` — `parse_jaqal_string(text, override_dict=ov, expand_macro=…, expand_let=…, expand_let_map=…,
  inject_pulses=cfg.natives, autoload_pulses=cfg.autoload)` from the S-expression on
  (`/repo/src/jaqalpaq/parser/parser.py`):

  ```
  try:
      circuit = build(sexpr, …)
      if expand_macro:     circuit = expand_macros(circuit, preserve_definitions=True)
      if expand_let_map:   circuit = fill_in_let(circuit, override_dict=override_dict); circuit = fill_in_map(circuit)
      elif expand_let:     circuit = fill_in_let(circuit, override_dict=override_dict)
  except RecursionError:   raise JaqalError("Program is nested too deeply")
  if sum(reg.fundamental for reg in circuit.registers.values()) > 1: raise JaqalError(…)
  ```

  The register-count check comes AFTER the passes (`Builder.parseBuild` is the special case without flags, `parseWithFlags_plain`).
  `expand_let` is ignored when `expand_let_map` is set.  The override dictionary is only read when one of the two let
  flags is set.
* `runPipeline` / `outputPipeline` — the preprocessing of `run_jaqal_circuit` (`run/run.py`) and `parse_jaqal_output_list`
  (`core/result.py`): `expand_macros(fill_in_let(expand_subcircuits(circuit)))`, a `RecursionError` turned into `JaqalError`.
* `pipelines` — the pass orders of the three call sites as data; `/verif/harness/agents/c10_extract.py` re-derives this
  table from the Python ASTs on every run and compares.

`RecursionError`: the only place a model answers `Err.other "RecursionError"` is `ExpandMacros.replaceGate` on a cyclic
macro table (hand-built only); CPython's recursion limit itself is not modelled.  The `except RecursionError` clauses are
modelled by `catchRecursion`.

Core Lean only.
-/
namespace Jaqal.Passes
open Jaqal Jaqal.Builder

/-- one call of a preprocessing pass with its keyword arguments -/
inductive Pass where
  /-- `fill_in_let(c, override_dict=ov)` -/
  | let_ (ov : List (String × Num))
  /-- `expand_macros(c, preserve_definitions=preserve)` -/
  | macros (preserve : Bool)
  /-- `expand_subcircuits(c)` -/
  | subs
  /-- `fill_in_map(c)` -/
  | map
  deriving Repr, Inhabited

/-- the function's name in `jaqalpaq.core.algorithm` -/
def Pass.pyName : Pass → String
  | .let_ _ => "fill_in_let"
  | .macros _ => "expand_macros"
  | .subs => "expand_subcircuits"
  | .map => "fill_in_map"

def apply : Pass → Circuit → M Circuit
  | .let_ ov, c => FillIn.fillInLet ov c
  | .macros p, c => ExpandMacros.expandMacros p c
  | .subs, c => ExpandSubcircuits.expandSubcircuits none none c
  | .map, c => FillIn.fillInMap c

/-- `c = p₁(c); c = p₂(c); …` -/
def applySeq : List Pass → Circuit → M Circuit
  | [], c => pure c
  | p :: ps, c => (apply p c).bind (applySeq ps)

/-- `try: … except RecursionError: raise JaqalError("Program is nested too deeply")` -/
def catchRecursion {α} (r : M α) : M α :=
  match r with
  | .error (.other cls) => if cls = "RecursionError" then .error (.jaqal "nested-too-deeply") else r
  | _ => r

/-- the passes `parse_jaqal_string` runs for a combination of its flags, in its order -/
def flagPasses (expandMacro expandLet expandLetMap : Bool) (ov : List (String × Num)) : List Pass :=
  (if expandMacro then [Pass.macros true] else []) ++
  (if expandLetMap then [Pass.let_ ov, Pass.map] else if expandLet then [Pass.let_ ov] else [])

/-- `parse_jaqal_string` from the S-expression on (see the header) -/
def parseWithFlags (cfg : Config) (expandMacro expandLet expandLetMap : Bool) (ov : List (String × Num)) (sx : Sx) :
    M Circuit :=
  (catchRecursion ((build cfg (BSx.ofSx sx)).bind (applySeq (flagPasses expandMacro expandLet expandLetMap ov)))).bind
    tooManyRegisters

/-- the preprocessing of `run_jaqal_circuit`: `expand_macros(fill_in_let(expand_subcircuits(circuit)))` -/
def runPasses : List Pass := [.subs, .let_ [], .macros false]
/-- the preprocessing of `parse_jaqal_output_list`: the same expression -/
def outputPasses : List Pass := [.subs, .let_ [], .macros false]

def runPipeline (c : Circuit) : M Circuit := catchRecursion (applySeq runPasses c)
def outputPipeline (c : Circuit) : M Circuit := catchRecursion (applySeq outputPasses c)

/-- a pass with the keyword arguments the call site writes (`fill_in_let`'s `override_dict=override_dict` is the caller's
dictionary and is written as the bare keyword name) -/
def Pass.render : Pass → String
  | .let_ _ => "fill_in_let"
  | .macros true => "expand_macros(preserve_definitions=True)"
  | .macros false => "expand_macros"
  | .subs => "expand_subcircuits"
  | .map => "fill_in_map"

/-- how a call site spells a call that passes the caller's override dictionary on -/
def renderAt (passesOverrides : Bool) (p : Pass) : String :=
  match passesOverrides, p with
  | true, .let_ _ => "fill_in_let(override_dict=override_dict)"
  | _, p => p.render

/-- The pass orders of the call sites: for `parse_jaqal_string` one row per flag combination (`expand_macro`,
`expand_let`, `expand_let_map` as `0`/`1`), computed by `flagPasses`; one row each for `run_jaqal_circuit` and
`parse_jaqal_output_list`. -/
def pipelines : List (String × List String) :=
  let b (x : Bool) : String := if x then "1" else "0"
  let bools := [false, true]
  (bools.flatMap fun em => bools.flatMap fun el => bools.map fun elm =>
    (s!"parse_jaqal_string[expand_macro={b em},expand_let={b el},expand_let_map={b elm}]",
      (flagPasses em el elm []).map (renderAt true))) ++
  [("run_jaqal_circuit", runPasses.map (renderAt false)),
   ("parse_jaqal_output_list", outputPasses.map (renderAt false))]

end Jaqal.Passes
