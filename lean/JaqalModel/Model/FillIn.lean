import JaqalModel.Model.Builder
import JaqalModel.Model.NumText
/-!
`fill_in_let` (`/repo/src/jaqalpaq/core/algorithm/fill_in_let.py`: `LetFiller`, `RegisterVisitor`) and `fill_in_map`
(`fill_in_map.py`: `MapFiller`), by value on the shared IR.

Both passes walk the circuit, produce an S-expression whose leaves are already-built core objects (`Constant`,
`Register`, `NamedQubit`, `Parameter`, numbers) and hand it to `circuitbuilder.build(sexpr, inject_pulses=
circuit.native_gates or None)` (autoload off).  The model does the same: the visitors return a `Builder.BSx`, and the
rebuild is `Builder.build`.

Python modelled
* `LetFiller.resolve_constant` (`as_integer` of an overriding value; the declared value when it is an `int`/`float`;
  `JaqalError` for a constant whose value is another constant);
* `LetFiller.visit_Constant / visit_NamedQubit / visit_Register / visit_default` and `RegisterVisitor.visit_NamedQubit`
  (`letVal ov rv`, `rv` = "is the `RegisterVisitor`"): a qubit is ALWAYS rebuilt on the visited register —
  `new_from[new_index]` (`Register.__getitem__` / `Parameter.__getitem__`, which rename it `f"{new_from.name}[{new_index}]"`)
  when the index was a constant, the visitor is the `LetFiller` and the qubit is the anonymous `r[n]` (not a declared
  single-qubit alias `map m r[n]`, which keeps its name), `NamedQubit(qubit.name, new_from, index)` otherwise;
  a fundamental register is rebuilt (`Register(name, value)`) only when its size is a constant; an alias is always
  rebuilt (`Register(name, alias_from=…, alias_slice=…)`).  The constructors' checks are the `Builder` model's
  `mkRegister`, `mkQubit`, `mkSlice`;
* `visit_GateStatement / visit_BlockStatement / visit_LoopStatement / visit_Macro / visit_Circuit` (`visitStmt`, `letMacro`,
  `fillInLet`): `["gate", name, *args]`, `["subcircuit_block", visit(iterations), *stmts]` for a subcircuit block
  (whatever its `parallel` flag), else `["parallel_block" | "sequential_block", *stmts]`, `["loop", visit(iterations),
  visit(body)]`, `["macro", name, *parameter NAMES, body]` (the rebuilt macro's parameters are untyped),
  `["circuit", *usepulses, *constants, *visited registers, *macros, *body[1:]]`; order of visits: body, registers, macros;
* `MapFiller` likewise (`mapVal`, `mapStmt` = the same `visitStmt`, `mapMacro`, `fillInMap`): `visit_NamedQubit` = `reg[index]` of
  `qubit.resolve_qubit()` (empty context: a qubit indexed by / taken from a macro parameter raises `JaqalError`;
  `JaqalError` too when the fundamental register's name is a parameter name of the macro being visited),
  `visit_Register` = the register itself if fundamental, `JaqalError` for an alias; subcircuit iteration counts are
  passed unvisited.

Outside the model (answered `Err.other "Unmodelled:…"`; none can be produced by the builder, only through direct use of
the constructors): a slice alias one of whose bounds is `None` (the builder fills in the defaults); a `usepulses`
statement with a list of names (the embedded `UsePulsesStatement` object is represented by `["usepulses", module, "*"]`,
which builds to the same object when autoload is off; `build_usepulses` itself refuses everything but `*`).
`Register.resolve_qubit` returns the fundamental register OBJECT; `resolveRegV` mirrors `Resolve.resolveReg`
returning the register value instead of its name (`JaqalProofs/Lemmas/FillInResolve.lean` proves they agree).
-/
namespace Jaqal.FillIn
open Jaqal Jaqal.Builder

/-- `override_dict.get(name)` -/
def lookupOv (ov : List (String × Num)) (n : String) : Option Num := (ov.find? (·.1 == n)).map (·.2)

def isConst : Val → Bool
  | .const _ _ => true
  | _ => false

/-- `LetFiller.resolve_constant(const)` -/
def resolveConstant (ov : List (String × Num)) : Val → M Val
  | .const n v =>
    match lookupOv ov n with
    | some x => pure (Val.ofNum (Num.asInteger x))          -- `as_integer(self.override_dict[const.name])`
    | none =>
      match v with
      | .int _ => pure v
      | .flt _ => pure v
      | _ => throw (.jaqal "constant-non-numeric")
  | _ => throw (.other "AttributeError")

/-- `make_item_name(array, index)`: `str()` of a float index is its `repr` -/
def itemName (an : String) (idx : Val) : Option String :=
  match idx with
  | .flt d => some (an ++ "[" ++ NumText.reprFloat d ++ "]")
  | _ => Builder.itemName an idx

/-- `new_from[new_index]`: `Register.__getitem__` / `Parameter.__getitem__` with a non-slice key -/
def getItem (arr idx : Val) : M Val :=
  if !(isRegister arr || isParam arr) then throw (.other "TypeError")
  else
    match arr.name? with
    | Option.none => throw (.other "TypeError")
    | some an =>
      match itemName an idx with
      | some n => mkQubit n arr idx
      | Option.none => do
        let _ ← mkQubit an arr idx
        throw (unmodelledName "qubit-name")

/-- `Register(name, alias_from=src, alias_slice=slice(a, b, s))` (bounds `None` are outside the model) -/
def mkSliceN (name : String) (src a b s : Val) : M Val :=
  if a == .none || b == .none || s == .none then throw (unmodelled "none-slice-bound")
  else mkSlice name src a b s

/-- the end of `visit_NamedQubit` when the index was a constant (`nf`, `ni` = the visited register and the value of the
index).  `RegisterVisitor`: `NamedQubit(qubit.name, new_from, new_index)`.  `LetFiller`: a qubit whose name is not
`make_item_name(qubit.alias_from, qubit.alias_index)` is a declared single-qubit alias (`map m r[n]`) and keeps its name;
the anonymous `r[n]` is re-indexed, `new_from[new_index]`, which renames it `r[2]`. -/
def constIndexQubit (rv : Bool) (name : String) (src idx nf ni : Val) : M Val :=
  if rv then mkQubit name nf ni
  else
    match (src.name?).bind (fun an => itemName an idx) with
    | some nm => if name != nm then mkQubit name nf ni else getItem nf ni
    | Option.none => throw (.other "AttributeError")

/-- `LetFiller.visit` (`rv = false`) / `RegisterVisitor.visit` (`rv = true`) on a value -/
def letVal (ov : List (String × Num)) (rv : Bool) : Val → M Val
  | .const n v => resolveConstant ov (.const n v)
  | .qubit name src idx => do
    let nf ← letVal ov rv src
    if isConst idx then do
      let ni ← resolveConstant ov idx
      constIndexQubit rv name src idx nf ni
    else mkQubit name nf idx
  | .regF name size =>
    if isConst size then do
      let ns ← resolveConstant ov size
      mkRegister name ns
    else pure (.regF name size)
  | .regA name src => do
    let nf ← letVal ov rv src
    pure (.regA name nf)
  | .regS name src a b s => do
    let nf ← letVal ov rv src
    let a' ← letVal ov rv a
    let b' ← letVal ov rv b
    let s' ← letVal ov rv s
    mkSliceN name nf a' b' s'
  | v => pure v

/-- a visited value as a member of the S-expression: numbers and `None` are atoms, everything else an embedded object -/
def ofVal : Val → BSx
  | .int v => .int v
  | .flt d => .flt d
  | .none => .none
  | v => .val v

/-- `[self.visit(param) for param in gate.parameters.values()]` (`F` = the visitor on values) -/
def visitArgs (F : Val → M Val) : List (String × Val) → M (List BSx)
  | [] => pure []
  | (_, v) :: rest => do
    let v' ← F v
    let rest' ← visitArgs F rest
    pure (ofVal v' :: rest')

def blockCmd (par : Bool) : String := if par then "parallel_block" else "sequential_block"

mutual
  /-- `visit_GateStatement`, `visit_BlockStatement`, `visit_LoopStatement` — the two visitors have the same three
  methods up to what they do with a value (`F`: gate arguments and loop counts) and with the iteration count of a
  subcircuit block (`G`: `LetFiller` visits it, `MapFiller` passes `block.iterations` on as it is). -/
  def visitStmt (F G : Val → M Val) : Stmt → M BSx
    | .gate name _ args => do
      let vs ← visitArgs F args
      pure (.list (.str "gate" :: .str name :: vs))
    | .block par sub it body => do
      let ss ← visitStmts F G body
      if sub then do
        let c ← G it
        pure (.list (.str "subcircuit_block" :: ofVal c :: ss))
      else pure (.list (.str (blockCmd par) :: ss))
    | .loop count body => do
      let c ← F count
      let b ← visitStmt F G body
      pure (.list [.str "loop", ofVal c, b])
  def visitStmts (F G : Val → M Val) : List Stmt → M (List BSx)
    | [] => pure []
    | s :: rest => do
      let x ← visitStmt F G s
      let xs ← visitStmts F G rest
      pure (x :: xs)
end

/-- `LetFiller.visit` on a statement -/
def letStmt (ov : List (String × Num)) : Stmt → M BSx := visitStmt (letVal ov false) (letVal ov false)

def macroSx (m : Macro) (body : BSx) : BSx :=
  .list (.str "macro" :: .str m.name :: (m.params.map (fun p => BSx.str p.1) ++ [body]))

/-- `LetFiller.visit_Macro` -/
def letMacro (ov : List (String × Num)) (m : Macro) : M BSx := do
  let b ← letStmt ov m.body
  pure (macroSx m b)

/-- `body[1:]` -/
def tailOf : BSx → M (List BSx)
  | .list (_ :: tl) => pure tl
  | .list [] => pure []
  | _ => throw (.other "TypeError")

/-- the embedded `UsePulsesStatement` -/
def useSx (u : String × String) : BSx := .list [.str "usepulses", .str u.1, .str u.2]

/-- `inject_pulses = circuit.native_gates or None`, autoload off -/
def rebuildCfg (c : Circuit) : Config :=
  { natives := if c.natives.isEmpty then Option.none else some c.natives, autoload := false }

def circuitSx (c : Circuit) (regs : List Val) (macros stmts : List BSx) : BSx :=
  .list (.str "circuit" :: (c.usepulses.map useSx ++ c.constants.map BSx.val ++ regs.map BSx.val ++ macros ++ stmts))

/-- the S-expression `LetFiller.visit_Circuit` hands to the builder -/
def letSx (ov : List (String × Num)) (c : Circuit) : M BSx := do
  let body ← letStmt ov c.body
  let stmts ← tailOf body
  let regs ← c.registers.mapM (letVal ov true)
  let macros ← c.macros.mapM (letMacro ov)
  pure (circuitSx c regs macros stmts)

/-- `fill_in_let(circuit, override_dict)` -/
def fillInLet (ov : List (String × Num)) (c : Circuit) : M Circuit := do
  let sx ← letSx ov c
  build (rebuildCfg c) sx

/-! ### `fill_in_map` -/

/-- `Register.resolve_qubit(idx, context)` returning the fundamental register itself -/
def resolveRegV (ctx : Resolve.Ctx) : Val → Int → M (Val × Int)
  | r@(.regF _ size), idx => do
    let sz ← Resolve.resolveAV ctx (Resolve.avFuel ctx) size
    match sz with
    | .int k => if idx < 0 ∨ idx ≥ k then .error (.jaqal "index-out-of-range") else pure (r, idx)
    | .none => pure (r, idx)
    | .flt _ => .error (.other "float-size")
    | _ => .error (.other "TypeError")
  | r@(.regA _ src), idx => do
    let sz ← Resolve.resolveAV ctx (Resolve.avFuel ctx) (← Resolve.resolveSize ctx r)
    match sz with
    | .int k => if idx < 0 ∨ idx ≥ k then throw (.jaqal "index-out-of-range")
    | .none => pure ()
    | _ => throw (.other "TypeError")
    resolveRegV ctx src idx
  | r@(.regS _ src start _ step), idx => do
    let sz ← Resolve.resolveAV ctx (Resolve.avFuel ctx) (← Resolve.resolveSize ctx r)
    match sz with
    | .int k => if idx < 0 ∨ idx ≥ k then throw (.jaqal "index-out-of-range")
    | .none => pure ()
    | _ => throw (.other "TypeError")
    let a ← Resolve.resolveInt ctx (Resolve.startOr0 start)
    let s ← Resolve.resolveInt ctx (Resolve.stepOr1 step)
    resolveRegV ctx src (a + idx * s)
  | _, _ => .error (.other "AttributeError")

/-- `NamedQubit.resolve_qubit(context)` returning the fundamental register itself -/
def resolveQubitV (ctx : Resolve.Ctx) : Val → M (Val × Int)
  | .qubit _ src idx => do
    let i ← Resolve.resolveAV ctx (Resolve.avFuel ctx) idx
    let r ← Resolve.resolveAV ctx (Resolve.avFuel ctx) src
    if !Resolve.isRegister r then throw (.jaqal "not-a-register")
    match i with
    | .int k => resolveRegV ctx r k
    | .flt d => if d.isIntegral then resolveRegV ctx r d.toInt else .error (.jaqal "index-not-integer")
    | _ => .error (.jaqal "index-not-integer")
  | _ => .error (.other "AttributeError")

/-- `MapFiller.visit` on a value; `mps` = `self.macro_parameters`, the parameter names of the macro being visited
(empty outside macros): the register's name must not be written where a parameter of that name shadows it -/
def mapVal (mps : List String) : Val → M Val
  | .qubit n src idx => do
    let (reg, k) ← resolveQubitV [] (.qubit n src idx)
    if mps.contains ((reg.name?).getD "") then throw (.jaqal "macro-parameter-named-like-register")
    getItem reg (.int k)
  | .regF n size => pure (.regF n size)
  | .regA _ _ => throw (.jaqal "full-alias-in-statements")
  | .regS _ _ _ _ _ => throw (.jaqal "full-alias-in-statements")
  | v => pure v

/-- `MapFiller.visit` on a statement (the iteration count of a subcircuit block is not visited) -/
def mapStmt (mps : List String) : Stmt → M BSx := visitStmt (mapVal mps) pure

/-- `MapFiller.visit_Macro` -/
def mapMacro (m : Macro) : M BSx := do
  let b ← mapStmt (m.params.map (·.1)) m.body
  pure (macroSx m b)

/-- the S-expression `MapFiller.visit_Circuit` hands to the builder -/
def mapSx (c : Circuit) : M BSx := do
  let body ← mapStmt [] c.body
  let stmts ← tailOf body
  let macros ← c.macros.mapM mapMacro
  pure (circuitSx c c.registers macros stmts)

/-- `fill_in_map(circuit)` -/
def fillInMap (c : Circuit) : M Circuit := do
  let sx ← mapSx c
  build (rebuildCfg c) sx

end Jaqal.FillIn
