import JaqalModel.Model.Pipeline
import JaqalModel.Model.ExpandSubcircuits
import JaqalModel.Model.FillIn
import JaqalModel.Model.ExpandMacros
import JaqalModel.Model.Walk
import JaqalModel.Model.UsedQubits
/-!
# The executing entry point, end to end (property C16)

`runModel cfg ov txt` is the model of

```
run_jaqal_circuit(parse_jaqal_string(txt, inject_pulses=cfg.natives, autoload_pulses=cfg.autoload))
```

(`/repo/src/jaqalpaq/run/run.py`, `parser/parser.py`, `emulator/backend.py`, `emulator/unitary.py`) up to, and not including, the
floating-point arithmetic of the emulator; `ov` is the `override_dict` of the `fill_in_let` inside `run_jaqal_circuit` (`[]` for the
entry point as it is; the differential test drives the three lines of its body with `fill_in_let(..., override_dict=ov)`).

Stages, in the order of the code:

1. `Pipeline.parseProgram` — `parse_to_sexpression` (a `JaqalParseError` with its position), `Builder.build`, the
   "too many registers" check of `parse_jaqal_string`;
2. `expand_subcircuits`, `fill_in_let(ov)`, `expand_macros` (`run_jaqal_circuit`);
3. `IndependentSubcircuitsBackend.__call__`: `DiscoverSubcircuits().visit(circ)` = the register-size limit (`tooLarge`), the prepare / measure bookkeeping
   (`Walk.discover` on the skeleton `skeleton body`: gate = `prepare_all` | `measure_all` | other) and the used-qubit walk with the
   disjointness checks (`UsedQubits.checkDisjoint`).  The real visitor interleaves the two; which of two `JaqalError`s comes
   first is not observable in the error CLASS, which is all the correspondence compares;
4. `_make_subcircuit` for every trace, in order: `get_n_qubits` (no fundamental register / several ⇒ `JaqalError`), the
   allocation of `2 ** n` amplitudes (`JaqalError` beyond `maxQubits`, see below), then the gates of
   `TraceSerializer(trace).visit(circ)` one by one: `circ.native_gates[gate.name]` (`JaqalError` when absent), and for a
   definition with a unitary `val.resolve_qubit()` of every non-classical argument;
5. `job.execute()`: `TraceVisitor.visit` (`Walk.visit` with `Walk.fuelBound`) — one readout per visit.

`RunSummary` = number of subcircuits, the subcircuit index of every readout in order, and per subcircuit the serialised gates
(name, then `q<index>` for a qubit argument resolved to its index in the fundamental register, `i<int>`, `f<neg>:<mant>:<exp>`
for numbers).  A `prepare_all` / `measure_all` is written by its name alone (with every gate set in use they have no parameters).

## The allocation of the state vector

`numpy.empty(2 ** n_qubits, dtype=complex)` fails for a register that does not fit in memory (`MemoryError` for n = 36 … 62 on the
test machine, `ValueError("Maximum allowed dimension exceeded")` for n ≥ 63); since the repair of today both are converted to
`JaqalError("Cannot emulate N qubits …")`.  The threshold is the memory of the machine, not a constant of the code: the model
says `JaqalError` above `maxQubits` and the differential test executes nothing between 13 and 35 qubits.

Core Lean only.
-/
namespace Jaqal.RunModel
open Jaqal Jaqal.Builder

/-- registers larger than this cannot be emulated on the machine at hand (a property of the machine) -/
def maxQubits : Nat := 35

structure RunSummary where
  /-- `len(result.subcircuits)` -/
  subcircuits : Nat
  /-- `[r.subcircuit.index for r in result.readouts]` -/
  visits : List Nat
  /-- the gates `TraceSerializer(sc.trace)` yields, for every subcircuit -/
  traces : List (List String)
  deriving Repr, DecidableEq, Inhabited

/-! ### The walker skeleton of an expanded circuit -/

/-- a gate statement that is not `prepare_all` / `measure_all`: its name, definition and arguments -/
abbrev GateRec := String × GateDef × List (String × Val)

def gateKind (name : String) (id : Nat) : Walk.GK :=
  if name == "prepare_all" then .prep else if name == "measure_all" then .meas else .other id

/-- `LoopStatement.iterations` as the walkers use it (`range(loop.iterations)`, `reps > 1`): a Python int -/
def loopCount : Val → M Int
  | .int k => pure k
  | _ => throw (.other "TypeError")

mutual
  /-- the skeleton of a statement; the ordinary gates are numbered in flat order from `tbl.length` and appended to `tbl` -/
  def skelStmt (tbl : List GateRec) : Stmt → M (Walk.Stmt × List GateRec)
    | .gate name gd args =>
      match gateKind name tbl.length with
      | .other id => pure (.gate (.other id), tbl ++ [(name, gd, args)])
      | k => pure (.gate k, tbl)
    | .block par _ _ body => do
      let (b, t) ← skelList tbl body
      pure (.block par b, t)
    | .loop count body => do
      let n ← loopCount count
      match body with
      | .block par _ _ b => do
        let (b', t) ← skelList tbl b
        pure (.loop n par b', t)
      | _ => throw (.other "Unmodelled:loop-body-not-a-block")
  def skelList (tbl : List GateRec) : List Stmt → M (List Walk.Stmt × List GateRec)
    | [] => pure ([], tbl)
    | s :: rest => do
      let (s', t) ← skelStmt tbl s
      let (r', t') ← skelList t rest
      pure (s' :: r', t')
end

/-- the skeleton of the body of a circuit (`circuit.body` is a sequential block) -/
def skeleton (c : Circuit) : M (List Walk.Stmt × List GateRec) :=
  match c.body with
  | .block _ _ _ b => skelList [] b
  | _ => throw (.other "Unmodelled:body-not-a-block")

/-! ### Errors of the walkers as exception classes -/

def ofDiscErr : Walk.DiscErr → Err
  | .gateOutside => .jaqal "gates-must-follow-prepare"
  | .measureWithoutPrepare => .jaqal "measure-without-prepare"
  | .measureToPrepareInLoop => .jaqal "measure-to-prepare-in-loop"

def ofVErr : Walk.VErr → Err
  | .fuel => .hang
  | .raised => .other "AssertionError"

/-! ### `_make_subcircuit` -/

/-- `AbstractBackend.get_n_qubits(circ)` -/
def nQubits (c : Circuit) : M Val :=
  match c.registers.filter isFundamental with
  | [] => throw (.jaqal "no-register")
  | [r] =>
    match r with
    | .regF _ size => pure size
    | _ => throw (.other "Unmodelled:not-a-register")
  | _ => throw (.jaqal "multiple-registers")

/-- `hilb_dim = 2 ** n_qubits` and the two `numpy` arrays of that length: `MemoryError` / `ValueError` / `OverflowError` are
converted to `JaqalError`; a negative size would make `2 ** n` a float, which `numpy.empty` refuses with `TypeError` -/
def allocate : Val → M Unit
  | .int k =>
    if k < 0 then throw (.other "TypeError")
    else if k > (maxQubits : Int) then throw (.jaqal "state-vector-does-not-fit") else pure ()
  | _ => throw (.other "TypeError")

def decToken (d : Dec) : String :=
  let n := d.normalize
  "f" ++ (if n.neg then "1" else "0") ++ ":" ++ toString n.mant ++ ":" ++ toString n.exp

/-- `val.resolve_qubit(i)[1] for i in range(n)` from index `i` on -/
def regLoop (r : Val) : Int → Nat → M (List Int)
  | _, 0 => pure []
  | i, n + 1 => do
    let (_, j) ← Resolve.resolveReg [] r i
    let rest ← regLoop r (i + 1) n
    pure (j :: rest)

/-- `[val.resolve_qubit(i)[1] for i in range(len(val))]` for a register argument (`len` = `int(val.size)`) -/
def regIndices (r : Val) : M (List Int) := do
  let k ← UsedQubits.pyInt (← Resolve.resolveSize [] r)
  regLoop r 0 k.toNat

def regToken (is : List Int) : String := "r" ++ ",".intercalate (is.map toString)

/-- a non-classical argument as the emulator reads it: a `Register` stands for all of its qubits in order, anything else
must have `resolve_qubit` (a `NamedQubit`; a number raises `AttributeError`) -/
def quantumToken (v : Val) : M String :=
  match v with
  | .qubit _ _ _ => do
    let (_, i) ← Resolve.resolveQubit [] v
    pure ("q" ++ toString i)
  | .regF _ _ => do pure (regToken (← regIndices v))
  | .regA _ _ => do pure (regToken (← regIndices v))
  | .regS _ _ _ _ _ => do pure (regToken (← regIndices v))
  | _ => throw (.other "AttributeError")

/-- an argument as the summary writes it, when the emulator does not look at it -/
def looseToken (v : Val) : String :=
  match v with
  | .int k => "i" ++ toString k
  | .flt d => decToken d
  | _ =>
    match quantumToken v with
    | .ok t => t
    | .error _ => "?"

/-- `for param, val in zip(gatedef.parameters, gate.parameters.values())`: `param.classical` raises `JaqalError` for an
untyped parameter; a classical argument goes to the unitary as it is; of the others a `Register` is expanded into its qubits
(since today's repair), anything else is asked for `resolve_qubit()` -/
def emuArg (k : Kind) (v : Val) : M String :=
  match k with
  | .none => throw (.jaqal "no-type-for-parameter")
  | .int => pure (looseToken v)
  | .float => pure (looseToken v)
  | .qubit => quantumToken v
  | .register => quantumToken v

def emuArgs : List (String × Kind) → List (String × Val) → M (List String)
  | (_, k) :: ps, (_, v) :: as => do
    let t ← emuArg k v
    let ts ← emuArgs ps as
    pure (t :: ts)
  | _, as => pure (as.map (fun a => looseToken a.2))

/-- the arguments of a gate as `_make_subcircuit` reads them; a definition without a unitary is skipped -/
def gateArgs (gd : GateDef) (args : List (String × Val)) : M (List String) :=
  if gd.hasUnitary then emuArgs gd.params args else pure (args.map (fun a => looseToken a.2))

/-- `gatedefs[gate.name]` (a `JaqalError` when absent), then the arguments -/
def gateToken (natives : List GateDef) (name : String) (args : List (String × Val)) : M String :=
  match natives.find? (·.name == name) with
  | none => throw (.jaqal "not-a-native-gate")
  | some gd => do
    let ts ← gateArgs gd args
    pure (" ".intercalate (name :: ts))

/-- one gate the serialiser yields -/
def gkToken (natives : List GateDef) (tbl : List GateRec) : Walk.GK → M String
  | .prep => gateToken natives "prepare_all" []
  | .meas => gateToken natives "measure_all" []
  | .other id =>
    match tbl[id]? with
    | some (name, _, args) => gateToken natives name args
    | none => throw (.other "IndexError")

/-- the gates of one trace, in the order the serialiser yields them -/
def traceTokens (natives : List GateDef) (tbl : List GateRec) : List Walk.GK → M (List String)
  | [] => pure []
  | k :: rest => do
    let t ← gkToken natives tbl k
    let ts ← traceTokens natives tbl rest
    pure (t :: ts)

/-- `self._make_subcircuit(job, index, trace)` as far as the summary goes -/
def makeSubcircuit (c : Circuit) (body : List Walk.Stmt) (tbl : List GateRec) (tr : Walk.Addr × Walk.Addr) : M (List String) := do
  let n ← nQubits c
  allocate n
  match Walk.serialize tr body with
  | none => throw (.other "AssertionError")
  | some gates => traceTokens c.natives tbl gates

def makeSubcircuits (c : Circuit) (body : List Walk.Stmt) (tbl : List GateRec) : List (Walk.Addr × Walk.Addr) → M (List (List String))
  | [] => pure []
  | tr :: rest => do
    let t ← makeSubcircuit c body tbl tr
    let ts ← makeSubcircuits c body tbl rest
    pure (t :: ts)

/-! ### The pipeline -/

/-- the first lines of `DiscoverSubcircuits.visit_Circuit` (added today): a fundamental register of more than
`sys.maxsize.bit_length()` = 63 qubits is refused before its qubits are listed -/
def tooLarge : List Val → M Unit
  | [] => pure ()
  | .regF _ size :: rest => do
    let k ← UsedQubits.pyInt size
    if k > 63 then throw (.jaqal "register-too-large-to-execute") else tooLarge rest
  | _ :: rest => tooLarge rest

/-- `backend(expanded).execute()` -/
def execute (c : Circuit) : M RunSummary := do
  let (body, tbl) ← skeleton c
  tooLarge c.registers
  let traces ← match Walk.discover body with
    | .ok t => pure t
    | .error e => throw (ofDiscErr e)
  UsedQubits.checkDisjoint c
  let toks ← makeSubcircuits c body tbl traces
  let starts := traces.map (·.1)
  match Walk.visit (Walk.fuelBound starts body) starts body with
  | .ok visits => pure { subcircuits := traces.length, visits := visits, traces := toks }
  | .error e => throw (ofVErr e)

/-- `expand_macros(fill_in_let(expand_subcircuits(circuit), override_dict=ov))` -/
def expandAll (ov : List (String × Num)) (c : Circuit) : M Circuit := do
  let c1 ← ExpandSubcircuits.expandSubcircuits none none c
  let c2 ← FillIn.fillInLet ov c1
  ExpandMacros.expandMacros false c2

/-- `run_jaqal_circuit(circuit)` with the emulator backend -/
def runCircuit (ov : List (String × Num)) (c : Circuit) : M RunSummary := do
  let x ← expandAll ov c
  execute x

/-- `run_jaqal_circuit(parse_jaqal_string(txt, inject_pulses=cfg.natives, autoload_pulses=cfg.autoload))` -/
def runModel (cfg : Config) (ov : List (String × Num)) (txt : String) : M RunSummary := do
  let c ← Pipeline.parseProgram cfg txt
  runCircuit ov c

/-! ### The well-formedness `expand_macros` relies on, as an executable check

A copy of `ExpandMacros.WellFormed` (`JaqalProofs/Lemmas/ExpandMacrosSem.lean`, where the theorems about `expand_macros` live)
for the driver: the differential test evaluates it on the circuit `fill_in_let` returns for every generated program (hypothesis
`BuiltWellFormed` of `C16_total_partial`).  `JaqalProofs/Props/C16.lean` proves the copy equal to the original (`wellFormed_eq`). -/
namespace WF
open Jaqal.ExpandMacros

def noParam : Val → Bool
  | .int _ => true
  | .flt _ => true
  | .none => true
  | .str _ => true
  | .const _ v => noParam v
  | .param _ _ => false
  | .qubit _ s i => noParam s && noParam i
  | .regF _ s => noParam s
  | .regA _ s => noParam s
  | .regS _ s a b c => noParam s && noParam a && noParam b && noParam c

def isParam : Val → Bool
  | .param _ _ => true
  | _ => false

def okVal : Val → Bool
  | .param _ _ => true
  | .qubit _ s i => (isParam s || noParam s) && (isParam i || noParam i)
  | v => noParam v

def isMacro (ms : List Macro) (n : String) : Bool := (findMacro ms n).isSome

def wfGate (ms : List Macro) (n : String) (gd : GateDef) (args : List (String × Val)) : Bool :=
  n == gd.name && (args.map (·.1) == gd.params.map (·.1)) && decide ((gd.params.map (·.1)).Nodup) &&
  args.all (fun a => okVal a.2) &&
  (match findMacro ms n with
   | some m => gd.params == m.params
   | none => true)

mutual
  def wfStmt (ms : List Macro) : Stmt → Bool
    | .gate n gd args => wfGate ms n gd args
    | .loop c b => (isParam c || noParam c) && wfStmt ms b
    | .block _ _ it body => (isParam it || noParam it) && wfStmtList ms body
  def wfStmtList (ms : List Macro) : List Stmt → Bool
    | [] => true
    | s :: r => wfStmt ms s && wfStmtList ms r
end

mutual
  def inScope (avail all : List String) : Stmt → Bool
    | .gate n _ _ => decide (n ∈ avail) || !decide (n ∈ all)
    | .loop _ b => inScope avail all b
    | .block _ _ _ body => inScopeList avail all body
  def inScopeList (avail all : List String) : List Stmt → Bool
    | [] => true
    | s :: r => inScope avail all s && inScopeList avail all r
end

def wfMacrosFrom (ms : List Macro) (pre : List String) : List Macro → Bool
  | [] => true
  | m :: r => wfStmt ms m.body && inScope pre (ms.map (·.name)) m.body && wfMacrosFrom ms (pre ++ [m.name]) r

def isReg : Val → Bool
  | .regF _ _ => true
  | .regA _ _ => true
  | .regS _ _ _ _ _ => true
  | _ => false

def intLike : Val → Bool
  | .int _ => true
  | .const _ (.int _) => true
  | _ => false

def regBuilt : Val → Bool
  | .regF _ size =>
    (match size with
     | .int _ => true
     | .flt _ => true
     | .const _ _ => true
     | _ => false)
  | .regA _ src => isReg src && regBuilt src
  | .regS _ src a b c => isReg src && (a == .none || intLike a) && intLike b && (c == .none || intLike c)
  | _ => false

def goodVal : Val → Bool
  | .qubit _ s i => isArrayLike s && (!isReg s || regBuilt s) && isIndexLike i
  | v => !isReg v || regBuilt v

mutual
  def wfT : Stmt → Bool
    | .gate _ _ args => args.all (fun a => goodVal a.2)
    | .loop c b => isIndexLike c && wfT b
    | .block _ _ it body => isIndexLike it && wfTList body
  def wfTList : List Stmt → Bool
    | [] => true
    | s :: r => wfT s && wfTList r
end

def wellFormed (c : Circuit) : Bool :=
  wfMacrosFrom c.macros [] c.macros && wfStmt c.macros c.body &&
  (match c.body with
   | .block false false _ _ => true
   | _ => false) &&
  wfT c.body && c.macros.all (fun m => wfT m.body)

end WF

end Jaqal.RunModel
