import JaqalModel.Base.Json
import JaqalModel.Model.PipelineOps
import JaqalModel.Model.OutputList
/-!
Driver op for the parser of hardware output lists (properties C08, C15, C09).

* `output_list`: `{"text": s, "natives": null | [<gatedef dump>…], "outputs": [{"i": <int>} | {"s": <string>}, …]}` →
  `{"ok": {"subcircuits": n, "readouts": [[readout index, subcircuit index, as_int], …], "tables": [[count…]…]}}` |
  `{"err": cls}` | `{"err": "JaqalParseError", "pos": [line | null, col]}` — `OutputList.outputModel`
  (integers as decimal strings on output; on input as JSON numbers or decimal strings).
-/
namespace Jaqal.OutputList
open Lean Jaqal Jaqal.Builder

def hwOutFromJson (j : Json) : Jaqal.R HwOut :=
  match j.getObjVal? "i" with
  | .ok v => do pure (.int (← jint v))
  | .error _ =>
    match j.getObjVal? "s" with
    | .ok v => do pure (.str (← jstr v))
    | .error _ => .error s!"expected an output {"{"}\"i\": int{"}"} or {"{"}\"s\": string{"}"}, got {j.compress}"

def summaryToJson (s : OutputSummary) : Json :=
  jobj [("subcircuits", jofNat s.subcircuits),
        ("readouts", jofList (fun (r : Nat × Nat × Int) => Json.arr #[jofNat r.1, jofNat r.2.1, jofInt r.2.2]) s.readouts),
        ("tables", jofList (jofList jofNat) s.tables)]

def opOutputList (j : Json) : Jaqal.R Json := do
  let s ← jstr (← jget j "text")
  let cfg ← Pipeline.cfgOfJson j
  let outs ← jlist hwOutFromJson (← jget j "outputs")
  match outputModel cfg s outs with
  | .ok r => pure (jobj [("ok", summaryToJson r)])
  | .error e => pure (jobj (Pipeline.errFields e))

def ops : List (String × (Json → Jaqal.R Json)) :=
  [("output_list", opOutputList)]

end Jaqal.OutputList
