import JaqalModel.Base.Json
import JaqalModel.Model.IrJson
import JaqalModel.Model.ExpandMacros
import JaqalModel.Model.ExpandSubcircuits
import JaqalModel.Spec.Sem
/-!
Driver ops for the two expansion passes and for the meaning specification.

* `expand_macros`: `{"circuit": <dump.circuit>, "preserve": bool}` → `{"ok": <circuit>}` | `{"err": <class>}`
* `expand_subcircuits`: `{"circuit": …, "prepare": null | "name" | <dump.gatedef>, "measure": …}` → same
* `meaning`: `{"circuit": …, "env": [[name, <num>], …]}` → `{"ok": <sem>}` | `{"err": <class>}`

`<sem>`: `{"g": name, "args": [<sarg>…]}` | `{"b": [<sem>…], "par": b, "sub": b, "it": n}` | `{"l": n, "body": <sem>}`;
`<sarg>`: `{"n": <num>}` | `{"q": [reg, idx]}` | `{"r": [[reg, idx], …]}`.
-/
namespace Jaqal.PassOps1
open Lean Jaqal

def fqToJson (q : Sem.FQ) : Json := .arr #[.str q.1, jofInt q.2]

def sargToJson : Sem.SArg → Json
  | .num n => jobj [("n", n.toJson)]
  | .qubit q => jobj [("q", fqToJson q)]
  | .reg qs => jobj [("r", jofList fqToJson qs)]

mutual
  def semToJson : Sem.Sem → Json
    | .gate n a => jobj [("g", .str n), ("args", jofList sargToJson a)]
    | .blk par sub it body => jobj [("b", .arr (semsToJson body).toArray), ("par", .bool par), ("sub", .bool sub), ("it", jofInt it)]
    | .loop n b => jobj [("l", jofInt n), ("body", semToJson b)]
  def semsToJson : List Sem.Sem → List Json
    | [] => []
    | s :: r => semToJson s :: semsToJson r
end

def result {α} (f : α → Json) : M α → Json
  | .ok a => jobj [("ok", f a)]
  | .error e => jobj [("err", .str e.cls)]

def choiceFromJson (j : Json) : R (Option ExpandSubcircuits.GateDefChoice) :=
  match j with
  | .null => pure none
  | .str n => pure (some (.name n))
  | _ => do pure (some (.defn (← GateDef.fromJson j)))

def opExpandMacros (j : Json) : R Json := do
  let c ← Circuit.fromJson (← jget j "circuit")
  let p ← jbool (jgetD j "preserve" (.bool false))
  pure (result Circuit.toJson (ExpandMacros.expandMacros p c))

def opExpandSubcircuits (j : Json) : R Json := do
  let c ← Circuit.fromJson (← jget j "circuit")
  let p ← choiceFromJson (jgetD j "prepare" .null)
  let m ← choiceFromJson (jgetD j "measure" .null)
  pure (result Circuit.toJson (ExpandSubcircuits.expandSubcircuits p m c))

def opMeaning (j : Json) : R Json := do
  let c ← Circuit.fromJson (← jget j "circuit")
  let env ← jlist (fun e => do
    match ← jarr e with
    | [n, v] => pure (← jstr n, ← Num.fromJson v)
    | _ => throw "bad env entry") (jgetD j "env" (.arr #[]))
  pure (result semToJson (Sem.meaning env c))

def ops : List (String × (Json → R Json)) :=
  [("expand_macros", opExpandMacros), ("expand_subcircuits", opExpandSubcircuits), ("meaning", opMeaning)]

end Jaqal.PassOps1
