import JaqalModel.Base.Json
import JaqalModel.Model.IrJson
import JaqalModel.Model.PyEq
import JaqalModel.Model.Generator
/-!
Driver ops for the generator and circuit equality (circuits / values in the `harness/dump.py` format).

* `gen`:    `{"circuit": C}` → `{"ok": text}` | `{"err": exception class}`
* `pyeq`:   `{"a": C, "b": C}` → `true` | `false`   (`a == b`; no `__eq__` can raise any more)
* `val_eq`: `{"a": V, "b": V}` → `true` | `false`
* `stmt_eq`: `{"a": S, "b": S}` → the same for two statements
-/
namespace Jaqal.GenOps
open Lean

def boolOut (b : Bool) : Json := .bool b

def opGen (j : Json) : Jaqal.R Json := do
  let c ← Circuit.fromJson (← jget j "circuit")
  match Generator.gen c with
  | .ok s => pure (jobj [("ok", .str s)])
  | .error e => pure (jobj [("err", .str e.cls)])

def opPyEq (j : Json) : Jaqal.R Json := do
  let a ← Circuit.fromJson (← jget j "a")
  let b ← Circuit.fromJson (← jget j "b")
  pure (boolOut (PyEq.circuitEq a b))

def opValEq (j : Json) : Jaqal.R Json := do
  let a ← Val.fromJson (← jget j "a")
  let b ← Val.fromJson (← jget j "b")
  pure (boolOut (PyEq.valEq a b))

def opStmtEq (j : Json) : Jaqal.R Json := do
  let a ← Stmt.fromJson (← jget j "a")
  let b ← Stmt.fromJson (← jget j "b")
  pure (boolOut (PyEq.stmtEq a b))

def ops : List (String × (Json → Jaqal.R Json)) :=
  [("gen", opGen), ("pyeq", opPyEq), ("val_eq", opValEq), ("stmt_eq", opStmtEq)]

end Jaqal.GenOps
