import JaqalModel.Base.Json
import JaqalModel.Model.IrJson
import JaqalModel.Model.UnitTimingCircuit
/-!
Driver op for the unit-timing normaliser on real circuits.

* `unit_timing_circuit`: `{"circuit": <dump.circuit>}` → `{"ok": <circuit>}` | `{"err": <exception class>}`
  (`<dump.circuit>` is what `harness/dump.py: circuit` writes and `IrJson.lean` decodes; the class is
  `"JaqalError"`, `"AssertionError"`, `"AttributeError"`, `"TypeError"`).
-/
namespace Jaqal.UnitTimingCircuit
open Lean Jaqal

def result {α} (f : α → Json) : M α → Json
  | .ok a => jobj [("ok", f a)]
  | .error e => jobj [("err", .str e.cls)]

def opUnitTimingCircuit (j : Json) : R Json := do
  let c ← Circuit.fromJson (← jget j "circuit")
  pure (result Circuit.toJson (normalizeCircuit c))

def ops : List (String × (Json → R Json)) :=
  [("unit_timing_circuit", opUnitTimingCircuit)]

end Jaqal.UnitTimingCircuit
