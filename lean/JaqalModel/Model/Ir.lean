import JaqalModel.Base.Num
/-!
The circuit IR of `jaqalpaq.core`, by value.

Python object graphs (a `NamedQubit` pointing to a `Register` pointing to its source, a
`GateStatement` pointing to its `GateDefinition`) are modelled by value; object identity and
mutation are the subject of C11 and are treated separately.

* `Val`   — everything that can be a gate argument, an index, a size, a bound or a count:
            `int`/`float`, `Constant`, `Parameter`, `NamedQubit`, `Register` (fundamental, whole
            alias, slice alias), `None`.
* `Stmt`  — `GateStatement`, `BlockStatement`, `LoopStatement`.
* `Circuit`.
-/
namespace Jaqal

/-- `ParamType` -/
inductive Kind where
  | qubit | float | register | int | none
  deriving DecidableEq, Repr, Inhabited

inductive Val where
  | int (v : Int)
  | flt (d : Dec)
  /-- `Constant(name, value)`; the value is an int, a float or (through the API) another constant -/
  | const (name : String) (v : Val)
  /-- `Parameter(name, kind)` -/
  | param (name : String) (kind : Kind)
  /-- `NamedQubit(name, alias_from, alias_index)` -/
  | qubit (name : String) (src : Val) (idx : Val)
  /-- fundamental `Register(name, size)` -/
  | regF (name : String) (size : Val)
  /-- `Register(name, alias_from=src)` -/
  | regA (name : String) (src : Val)
  /-- `Register(name, alias_from=src, alias_slice=slice(start, stop, step))` -/
  | regS (name : String) (src : Val) (start stop step : Val)
  | none
  /-- a bare string (only inside S-expressions handed to the builder) -/
  | str (s : String)
  deriving DecidableEq, Repr, Inhabited

inductive DefTag where
  | native | busy | idle | macro
  deriving DecidableEq, Repr, Inhabited

/-- What the model keeps of a `GateDefinition` / `Macro` referenced from a gate statement. -/
structure GateDef where
  name : String
  tag : DefTag
  params : List (String × Kind)
  hasUnitary : Bool := false
  deriving DecidableEq, Repr, Inhabited

inductive Stmt where
  | gate (name : String) (gd : GateDef) (args : List (String × Val))
  | block (par sub : Bool) (iters : Val) (body : List Stmt)
  | loop (count : Val) (body : Stmt)
  deriving Repr, Inhabited

structure Macro where
  name : String
  params : List (String × Kind)
  body : Stmt
  deriving Repr, Inhabited

structure Circuit where
  usepulses : List (String × String) := []
  constants : List Val := []
  registers : List Val := []
  macros : List Macro := []
  natives : List GateDef := []
  body : Stmt := .block false false (.int 1) []
  deriving Repr, Inhabited

namespace Val

/-- `.name` of registers, qubits and annotated values -/
def name? : Val → Option String
  | .const n _ => some n
  | .param n _ => some n
  | .qubit n _ _ => some n
  | .regF n _ => some n
  | .regA n _ => some n
  | .regS n _ _ _ _ => some n
  | _ => Option.none

def isNum : Val → Bool
  | .int _ => true
  | .flt _ => true
  | _ => false

def toNum? : Val → Option Num
  | .int v => some (.int v)
  | .flt d => some (.flt d)
  | _ => Option.none

def ofNum : Num → Val
  | .int v => .int v
  | .flt d => .flt d

end Val

/-- The statements of a block statement (empty for anything else). -/
def Stmt.stmts : Stmt → List Stmt
  | .block _ _ _ b => b
  | _ => []

end Jaqal
