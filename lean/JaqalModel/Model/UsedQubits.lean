import JaqalModel.Model.Ir
import JaqalModel.Model.Resolve
/-!
# Used-qubit analysis and the parallel-disjointness check (property C13)

Model of `/repo/src/jaqalpaq/core/algorithm/used_qubit_visitor.py` (`UsedQubitIndicesVisitor`,
`get_used_qubit_indices`) and of what `DiscoverSubcircuits` (`walkers.py`) adds to it for parallel
blocks (`merge_into(..., disjoint=block.parallel)`).

## Representation

The Python result is a `dict` (often a `defaultdict(set)`) register name ↦ `set` of indices.
`Used = List (String × List Int)` is that dictionary as an association list:

* keys in insertion order, every key at most once (`upsert` is the only constructor; the invariant
  `KeysNodup` is proved in `JaqalProofs/Lemmas/UsedQubits.lean`),
* a set is a duplicate-free list in insertion order; results are to be compared **up to set
  equality** (`Mem u r i := i ∈ get u r`); the driver op sorts the indices.  A key bound to the
  empty set is representable (Python: `{'r': set()}` for a busy gate on a register of size ≤ 0).
* `get d k` is `defaultdict.__getitem__`: the empty set for a missing key. This is the Python
  behaviour (`tgt = tgt_dict[key]`), not a totalisation of an error.

## What is modelled

`visit` dispatches on the class of the object (MRO):
`Circuit`, `BlockStatement`, `LoopStatement`, `GateStatement`, `Parameter`, `NamedQubit`, `Register`,
anything else (`int`, `float`, `Constant`, `None`, …) → `visit_default` = `{}`.
In particular a number bound to a used-qubit parameter of an untyped (anonymous) gate contributes
nothing, and so does a `Constant`.

`visit_GateStatement` on a macro call takes the body from the gate statement's `gate_def` OBJECT.
By value the IR's `GateDef` carries no body, so the model looks the macro up BY NAME in the list
`macros` (the circuit's macros). For circuits produced by the builder the two coincide (macro names are
unique and a gate statement's `gate_def` is the macro registered under that name). A macro call whose
name is not in `macros` is outside the by-value model (`Err.other "model:unknown-macro"`).

Every recursive call consumes one unit of `fuel` (statement nesting + macro expansion); running out
of fuel is reported as `Err.hang`. With `defaultFuel` this only happens when a macro (transitively)
calls itself, which the builder makes impossible (Python: `RecursionError`). `visit_Parameter`
recursing through a context that binds a parameter (transitively) to itself is the other place
where Python does not return (`RecursionError`); the model says `Err.hang` there too.
-/
namespace Jaqal.UsedQubits
open Jaqal.Resolve

/-- `dict` register name ↦ `set` of indices -/
abbrev Used := List (String × List Int)

/-- `d[k]` of a `defaultdict(set)` (without the insertion side effect) -/
def get (d : Used) (k : String) : List Int :=
  match d with
  | [] => []
  | (k', v) :: rest => if k' = k then v else get rest k

/-- `d[k] = v` -/
def upsert (d : Used) (k : String) (v : List Int) : Used :=
  match d with
  | [] => [(k, v)]
  | (k', v') :: rest => if k' = k then (k', v) :: rest else (k', v') :: upsert rest k v

/-- `a | b` -/
def setUnion (a b : List Int) : List Int := a ++ b.filter (fun x => !a.contains x)

/-- `bool(a & b)` -/
def intersects (a b : List Int) : Bool := a.any (fun x => b.contains x)

/-- One iteration of the loop of `merge_into`:
```
tgt = tgt_dict[key]; src = src_dict[key]
if disjoint and (tgt & src): raise JaqalError("Parallel branches of block acting on the same qubit.")
tgt |= src
``` -/
def mergeKey (disjoint : Bool) (tgt : Used) (kv : String × List Int) : M Used :=
  let cur := get tgt kv.1
  if disjoint && intersects cur kv.2 then .error (.jaqal "parallel-branches-same-qubit")
  else pure (upsert tgt kv.1 (setUnion cur kv.2))

/-- `merge_into(tgt_dict, src_dict, disjoint)`: keys of `src_dict` in order; the first key whose sets
intersect raises. -/
def mergeInto (disjoint : Bool) (tgt src : Used) : M Used :=
  match src with
  | [] => pure tgt
  | kv :: rest => do
    let t ← mergeKey disjoint tgt kv
    mergeInto disjoint t rest

/-- `indices[reg.name].add(idx)` -/
def addIdx (d : Used) (q : String × Int) : Used := upsert d q.1 (setUnion (get d q.1) [q.2])

/-- `int(x)` for the size of a fundamental register: `int`, `float` (truncation towards zero),
`Constant.__int__` (only a `Constant` whose value IS a Python `int`; otherwise `JaqalError("Could not convert …")`). -/
def pyInt : Val → M Int
  | .int k => pure k
  | .flt d =>
    let m : Int :=
      if d.exp ≥ 0 then (d.mant * 10 ^ d.exp.toNat : Nat) else (d.mant / 10 ^ (-d.exp).toNat : Nat)
    pure (if d.neg then -m else m)
  | .const _ (.int k) => pure k
  | .const _ _ => .error (.jaqal "constant-not-int")
  | _ => .error (.other "TypeError")

/-- `set(range(k))` -/
def rangeSet (k : Int) : List Int := (List.range k.toNat).map (fun (i : Nat) => (i : Int))

/-- `visit_Circuit`: `self.all_qubits[reg.name] = set(range(int(reg.size)))` for the fundamental registers,
in the order of `circuit.registers`. -/
def allQubits (regs : List Val) (acc : Used := []) : M Used :=
  match regs with
  | [] => pure acc
  | .regF n size :: rest => do
    let k ← pyInt size
    allQubits rest (upsert acc n (rangeSet k))
  | _ :: rest => allQubits rest acc

/-- the fundamental register at the end of an alias chain (what `Register.resolve_qubit` returns as its first component) -/
def fundOf : Val → Option Val
  | r@(.regF _ _) => some r
  | .regA _ src => fundOf src
  | .regS _ src _ _ _ => fundOf src
  | _ => none

/-- `visit_Register`'s loop `for reg, idx in (obj[i].resolve_qubit(context) for i in range(size))`,
from index `i` for `n` more indices. `obj[i]` builds `NamedQubit(name, obj, i)`, whose constructor cannot
fail for `0 ≤ i < size` where `size` is the very value `obj.resolve_size()` it recomputes; its
`resolve_qubit(context)` is `obj.resolve_qubit(i, context)`. -/
def visitRegLoop (ctx : Ctx) (r : Val) (acc : Used) (i : Int) : Nat → M Used
  | 0 => pure acc
  | n+1 => do
    let q ← resolveReg ctx r i
    visitRegLoop ctx r (addIdx acc q) (i + 1) n

/-- `visit_Register`: `size = int(obj.resolve_size())` — WITHOUT the context — then every index.
`int(...)` (`pyInt`): a let-sized fundamental register stores a `Constant`, whose `__int__` gives the value when it is a
Python `int` (`JaqalError` otherwise); `None` raises `TypeError`. -/
def visitRegister (ctx : Ctx) (r : Val) : M Used := do
  let k ← pyInt (← resolveSize [] r)
  visitRegLoop ctx r [] 0 k.toNat

/-- `visit` of a gate argument (everything that is not a statement). -/
def visitVal (ctx : Ctx) : Nat → Val → M Used
  | 0, .param _ _ => .error .hang
  | fuel+1, .param n _ =>
    -- `visit_Parameter`: `self.visit(obj.resolve_value(context), context)`
    match Ctx.find ctx n with
    | some v => visitVal ctx fuel v
    | none => .error (.jaqal "unbound-identifier")
  | _, v@(.qubit _ _ _) => do
    -- `visit_NamedQubit`
    let q ← resolveQubit ctx v
    pure [(q.1, [q.2])]
  | _, v@(.regF _ _) => visitRegister ctx v
  | _, v@(.regA _ _) => visitRegister ctx v
  | _, v@(.regS _ _ _ _ _) => visitRegister ctx v
  | _, _ => pure []     -- `visit_default`

/-- enough for every acyclic chain of parameter bindings -/
def valFuel (ctx : Ctx) : Nat := ctx.length + 1

/-- `bind_argument(arg, context)` (added to the visitor today). -/
def bindArgument (ctx : Ctx) (arg : Val) : M Val :=
  match arg with
  | .param n _ =>
    match Ctx.find ctx n with
    | some v => pure v
    | none => pure arg
  | .qubit _ src _ =>
    match resolveQubit ctx arg with
    | .ok (n, idx) =>
      -- `reg[idx]`: a fresh `NamedQubit` on the FUNDAMENTAL register object. `resolveQubit` returns only the
      -- register's name; the object is the end of the alias chain of the resolved source.
      match resolveAV ctx (avFuel ctx) src with
      | .ok r =>
        match fundOf r with
        | some reg => pure (.qubit (n ++ "[" ++ toString idx ++ "]") reg (.int idx))
        | none => .error (.other "model:unreachable")
      | .error e => .error e
    | .error (.jaqal _) => pure arg      -- `except JaqalError: return arg`
    | .error e => .error e
  | _ => pure arg

/-- `{name: self.bind_argument(arg, context) for name, arg in obj.parameters.items()}` -/
def bindArguments (ctx : Ctx) : List (String × Val) → M (List (String × Val))
  | [] => pure []
  | (n, a) :: rest => do
    let v ← bindArgument ctx a
    let vs ← bindArguments ctx rest
    pure ((n, v) :: vs)

/-- Does `GateDefinition.used_qubits` yield this parameter? `not p.classical`, where `classical` raises
`JaqalError` for an untyped parameter, which is caught and the parameter yielded as well. -/
def usedKind : Kind → Bool
  | .qubit => true
  | .register => true
  | .none => true
  | .float => false
  | .int => false

/-- names of the parameters `GateDefinition.used_qubits` yields -/
def usedParams (gd : GateDef) : List String := (gd.params.filter (fun p => usedKind p.2)).map (·.1)

/-- `any(indices[reg] & used[reg] for reg in used)` -/
def overlaps (indices used : Used) : Bool := used.any (fun kv => intersects (get indices kv.1) kv.2)

/-- the loop of the non-macro branch of `visit_GateStatement` over `obj.used_qubits`
(`self._parameters[param.name]` — `KeyError` when the statement lacks the argument):
```
used = self.visit(param, context)
if self.validate_parallel and any(indices[reg] & used[reg] for reg in used):
    raise JaqalError(f"Gate {obj.name} acting on the same qubit more than once.")
self.merge_into(indices, used)
``` -/
def visitUsedParams (vp : Bool) (ctx : Ctx) (args : List (String × Val)) (acc : Used) : List String → M Used
  | [] => pure acc
  | p :: rest =>
    match args.lookup p with
    | none => .error (.other "KeyError")
    | some a => do
      let u ← visitVal ctx (valFuel ctx) a
      if vp && overlaps acc u then .error (.jaqal "gate-same-qubit-twice") else
      let acc' ← mergeInto false acc u
      visitUsedParams vp ctx args acc' rest

/-- the loop of `visit_BlockStatement`: `for n, sub_obj in …: self.merge_into(indices, self.visit(sub_obj, context), disjoint)` -/
def foldBlock (visit : Stmt → M Used) (disjoint : Bool) (acc : Used) : List Stmt → M Used
  | [] => pure acc
  | s :: rest => do
    let u ← visit s
    let acc' ← mergeInto disjoint acc u
    foldBlock visit disjoint acc' rest

/-- `visit` of a statement. `vp` = `validate_parallel`: the disjoint merge is in force for parallel blocks
(`DiscoverSubcircuits.visit_BlockStatement`: `disjoint=block.parallel`; equivalently the base class with
`validate_parallel = True`) and a native gate whose own used-qubit arguments overlap is rejected. `allQ` = `self.all_qubits`. One unit of fuel per nesting level / macro expansion. -/
def usedStmtF (vp : Bool) (allQ : Used) (macros : List Macro) : Nat → Ctx → Stmt → M Used
  | 0, _, _ => .error .hang
  | fuel+1, ctx, .gate name gd args =>
    match gd.tag with
    | .macro =>
      match macros.find? (fun m => m.name == name) with
      | none => .error (.other "model:unknown-macro")
      | some m => do
        let arguments ← bindArguments ctx args
        -- `{**context, **arguments}`: the arguments shadow the caller's bindings, which stay visible
        usedStmtF vp allQ macros fuel (arguments ++ ctx) m.body
    | .busy => mergeInto false [] allQ
    | .idle => pure []
    | .native => visitUsedParams vp ctx args [] (usedParams gd)
  | fuel+1, ctx, .block par _ _ body => foldBlock (usedStmtF vp allQ macros fuel ctx) (vp && par) [] body
  | fuel+1, ctx, .loop _ body => usedStmtF vp allQ macros fuel ctx body

mutual
  /-- nesting depth of a statement -/
  def stmtDepth : Stmt → Nat
    | .gate _ _ _ => 1
    | .block _ _ _ body => stmtsDepth body + 1
    | .loop _ body => stmtDepth body + 1
  def stmtsDepth : List Stmt → Nat
    | [] => 0
    | s :: rest => max (stmtDepth s) (stmtsDepth rest)
end

/-- Enough fuel whenever no macro (transitively) calls itself: on any chain of nested visits every macro
body is entered at most once. -/
def defaultFuel (macros : List Macro) (s : Stmt) : Nat :=
  stmtDepth s + (macros.map (fun m => stmtDepth m.body + 1)).sum + 1

/-- `UsedQubitIndicesVisitor.visit(stmt, context)` (base class: no disjointness check), with
`self.all_qubits = allQ`. -/
def usedStmt (allQ : Used) (macros : List Macro) (ctx : Ctx) (s : Stmt) : M Used :=
  usedStmtF false allQ macros (defaultFuel macros s) ctx s

/-- `visit_Circuit` with the disjoint merge switched by `vp`. -/
def usedCircuitV (vp : Bool) (c : Circuit) : M Used := do
  let allQ ← allQubits c.registers
  usedStmtF vp allQ c.macros (defaultFuel c.macros c.body) [] c.body

/-- `get_used_qubit_indices(circuit)` -/
def usedCircuit (c : Circuit) : M Used := usedCircuitV false c

/-- What `DiscoverSubcircuits().visit(circuit)` adds to the analysis as far as C13 is concerned: the same
walk with `merge_into(..., disjoint=block.parallel)`; `JaqalError("Parallel branches of block acting on the
same qubit.")` at the first offending branch in visit order. (The prepare/measure bracketing errors of
`DiscoverSubcircuits.visit_GateStatement` / `visit_BlockStatement` are the subject of C12, `Model/Walk.lean`.) -/
def checkDisjoint (c : Circuit) : M Unit := do
  let _ ← usedCircuitV true c
  pure ()

/-- the sub-statement at an address (`path` = child indices; a loop's only child is its body block, index 0 is NOT
consumed for it: the address of a statement inside a loop body continues with the index inside the body block). -/
def subStmt : Stmt → List Nat → Option Stmt
  | s, [] => some s
  | .block _ _ _ body, i :: rest =>
    match body[i]? with
    | some s => subStmt s rest
    | none => none
  | .loop _ body, path => subStmt body path
  | .gate _ _ _, _ :: _ => none

end Jaqal.UsedQubits
