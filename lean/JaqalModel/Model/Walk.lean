/-!
# Walkers: `DiscoverSubcircuits`, `TraceVisitor`, `TraceSerializer` (+ `Visitor.trace_statements`)

Executable models of

* `jaqalpaq/core/algorithm/walkers.py` : `DiscoverSubcircuits` (prepare/measure bookkeeping only: the
  used-qubit / parallel-disjointness part is modelled elsewhere), `TraceVisitor`, `TraceSerializer`;
* `jaqalpaq/core/algorithm/visitor.py` : `Visitor.trace_statements`.

Gates are abstracted to `prepare_all` (`GK.prep`), `measure_all` (`GK.meas`) or an ordinary gate
carrying an opaque payload id.  Macros are assumed expanded, branch/case statements absent.

Addresses are paths of statement indices through `BlockStatement`s; a `LoopStatement` adds no level
of its own (its body block does): the children of a block *or loop* at address `a` are at `a ++ [i]`.

Python list comparison (`<`, `>` on `self.address`, `trace.end`, …) is lexicographic: `lexLt`.
Core Lean only.
-/
namespace Jaqal.Walk

/-- Gate kind. -/
inductive GK where
  | prep
  | meas
  | other (id : Nat)
  deriving DecidableEq, Repr, Inhabited

/-- Statements.  A loop's body is always a block (`LoopStatement.statements` is a `BlockStatement`);
`par` is that block's `parallel` flag, irrelevant for walking. -/
inductive Stmt where
  | gate (k : GK)
  | block (par : Bool) (body : List Stmt)
  | loop (n : Int) (par : Bool) (body : List Stmt)
  deriving Repr, Inhabited

abbrev Addr := List Nat

/-- Python's `<` on lists of ints. -/
def lexLt : List Nat → List Nat → Bool
  | [], [] => false
  | [], _ :: _ => true
  | _ :: _, [] => false
  | a :: as, b :: bs => decide (a < b) || (a == b && lexLt as bs)

/-! ## `DiscoverSubcircuits` -/

/-- The three `JaqalError`s of `DiscoverSubcircuits` (messages in the comments). -/
inductive DiscErr where
  /-- "gates must follow a prepare_all" -/
  | gateOutside
  /-- "prepare_all must follow a measure_all" -/
  | measureWithoutPrepare
  /-- "measure_all -> prepare_all not supported in loops" -/
  | measureToPrepareInLoop
  deriving DecidableEq, Repr, Inhabited

/-- `self.current` (start address of the open `Trace`, if any) and `self.subcircuits`
(closed traces `(start, end)` in the order they were appended). -/
structure DState where
  cur : Option Addr
  subs : List (Addr × Addr)
  deriving Repr, DecidableEq

/-- The check at the end of `visit_BlockStatement(block, reps)`:
`if (entry is not None) and (reps > 1) and (entry.end is not None): raise`.
`entry` is the `Trace` *object* that was `self.current` on entry.  By value: a `Trace` object is
created at exactly one `prepare_all` statement, discovery visits every statement once, so objects
are identified by their start address, and `entry.end is not None` iff that object has been
appended to `self.subcircuits`. -/
def blockExit (entry : Option Addr) (reps : Int) (st : DState) : Except DiscErr DState :=
  match entry with
  | none => .ok st
  | some s =>
    if decide (reps > 1) && st.subs.any (fun t => t.1 == s) then .error .measureToPrepareInLoop
    else .ok st

mutual
  /-- `DiscoverSubcircuits.visit_GateStatement / visit_BlockStatement / visit_LoopStatement`
  at address `a` (= `self.address`). -/
  def discStmt : Stmt → Addr → DState → Except DiscErr DState
    | .gate .prep, a, st => .ok { st with cur := some a }
    | .gate .meas, a, st =>
      match st.cur with
      | none => .error .measureWithoutPrepare
      | some s => .ok { cur := none, subs := st.subs ++ [(s, a)] }
    | .gate (.other _), _, st =>
      match st.cur with
      | none => .error .gateOutside
      | some _ => .ok st
    | .block _ body, a, st =>
      match discList body a 0 st with
      | .error e => .error e
      | .ok st' => blockExit st.cur 1 st'
    | .loop n _ body, a, st =>
      match discList body a 0 st with
      | .error e => .error e
      | .ok st' => blockExit st.cur n st'
  /-- `for n, stmt in self.trace_statements(block.statements)` with no trace restriction:
  statements `i, i+1, …` at addresses `a ++ [i]`, … -/
  def discList : List Stmt → Addr → Nat → DState → Except DiscErr DState
    | [], _, _, st => .ok st
    | s :: rest, a, i, st =>
      match discStmt s (a ++ [i]) st with
      | .error e => .error e
      | .ok st' => discList rest a (i + 1) st'
end

/-- `DiscoverSubcircuits().visit(circuit)` on the circuit body (a sequential block, `reps = 1`).
Only closed traces are ever appended to `self.subcircuits`, so a trailing open trace (still in
`self.current`) is not returned. -/
def discover (body : List Stmt) : Except DiscErr (List (Addr × Addr)) :=
  match discStmt (.block false body) [] { cur := none, subs := [] } with
  | .error e => .error e
  | .ok st => .ok st.subs

/-! ## `TraceVisitor` -/

/-- `self.index`, `self.objective`, and the subcircuit indices passed to `process_trace` so far. -/
structure VState where
  index : Nat
  objective : Option Addr
  out : List Nat
  deriving Repr, DecidableEq

/-- Why a walk did not return normally. -/
inductive VErr where
  /-- fuel exhausted (the Python would still be running) -/
  | fuel
  /-- the Python raises (`AssertionError`, `IndexError`, or `JaqalError("No visitor defined…")`) -/
  | raised
  deriving DecidableEq, Repr, Inhabited

/-- `self.index += 1; if self.index == len(self.traces): self.objective = None
else: self.objective = self.traces[self.index].start` -/
def advance (starts : List Addr) (st : VState) : Except VErr VState :=
  let i := st.index + 1
  if i = starts.length then .ok { st with index := i, objective := none }
  else match starts[i]? with
    | none => .error .raised          -- IndexError (unreachable: index ≤ len)
    | some o => .ok { st with index := i, objective := some o }

/-- The repaired tail of `visit_LoopStatement` for `iterations <= 0`:
`while self.objective and self.objective[:len(address)] == address: <advance>`; one unit of fuel per
iteration. `a` is the loop's address. -/
def skipLoop (starts : List Addr) (a : Addr) : Nat → VState → Except VErr VState
  | 0, _ => .error .fuel
  | f + 1, st =>
    match st.objective with
    | none => .ok st
    | some [] => .ok st
    | some (x :: xs) =>
      if (x :: xs).take a.length = a then
        match advance starts st with
        | .error e => .error e
        | .ok st' => skipLoop starts a f st'
      else .ok st

/-- `for n in range(k): <restore index/objective>; self.visit(loop.statements)` -/
def iterate (f : VState → Except VErr VState) : Nat → VState → Except VErr VState
  | 0, st => .ok st
  | j + 1, st =>
    match f st with
    | .error e => .error e
    | .ok st' => iterate f j st'

/-- `TraceVisitor.visit_BlockStatement` on a block with statements `body` at `self.address = addr`;
one unit of fuel per evaluation of the `while self.objective` test.  The dispatch `self.visit(nxt)`
(`visit_BlockStatement` / `visit_LoopStatement` / no visitor for a gate) is inlined. -/
def visitBlock (starts : List Addr) : Nat → List Stmt → Addr → Bool → VState → Except VErr VState
  | 0, _, _, _, _ => .error .fuel
  | fuel + 1, body, addr, first, st =>
    match st.objective with
    | none => .ok st                      -- `while self.objective` : None is falsy
    | some [] => .ok st                   -- … and so is the empty list
    | some (x :: xs) =>
      let obj := x :: xs
      if addr ≠ obj.take addr.length then
        -- assert not first; assert address < self.objective[:len(address)]; return
        if first then .error .raised
        else if lexLt addr (obj.take addr.length) then .ok st else .error .raised
      else
        match obj[addr.length]? with
        | none => .error .raised          -- IndexError: objective[len(address)]
        | some n =>
          match body[n]? with
          | none => .error .raised        -- IndexError: block.statements[n]
          | some nxt =>
            if addr.length + 1 = obj.length then
              -- self.process_trace(); advance
              match advance starts { st with out := st.out ++ [st.index] } with
              | .error e => .error e
              | .ok st1 =>
                match st1.objective with
                | none => .ok st1         -- "We've found all the traces" : return
                | some _ => visitBlock starts fuel body addr false st1
            else
              let a := addr ++ [n]
              let r : Except VErr VState :=
                match nxt with
                | .gate _ => .error .raised     -- JaqalError: no visitor defined for a gate
                | .block _ b => visitBlock starts fuel b a true st
                | .loop k _ b =>
                  -- every iteration restores index/objective (not the results)
                  match iterate (fun cur => visitBlock starts fuel b a true
                          { cur with index := st.index, objective := st.objective }) k.toNat st with
                  | .error e => .error e
                  | .ok st2 => if k ≤ 0 then skipLoop starts a fuel st2 else .ok st2
              match r with
              | .error e => .error e
              | .ok st2 => visitBlock starts fuel body addr false st2

/-- `TraceVisitor(traces).visit(circuit)`; result = the value of `self.index` at each
`process_trace` call, in call order. -/
def visit (fuel : Nat) (starts : List Addr) (body : List Stmt) : Except VErr (List Nat) :=
  match starts with
  | [] => .ok []                          -- `if len(self.traces) == 0: return`
  | s0 :: _ =>
    match visitBlock starts fuel body [] true { index := 0, objective := some s0, out := [] } with
    | .error e => .error e
    | .ok st => .ok st.out

/-! ## `TraceSerializer` driving `Visitor.trace_statements` -/

/-- Result of a generator run: gates yielded and the final `self.started`;
`none` = the Python raises (`AssertionError` / `IndexError`). -/
abbrev SR := Option (List GK × Bool)

/-- `trace_statements(statements)` + the consuming `for` of `visit_BlockStatement`, with the two
`while` loops passed in: `all n st` = first while (no break) from `n`, `brk n st` = second while
from `n`.  `tr = (trace.start, trace.end)`, `addr = self.address` on entry. -/
def serBlockWith (tr : Addr × Addr) (all brk : Nat → Bool → SR) (addr : Addr) (started : Bool) : SR :=
  let go (n : Nat) (st : Bool) : SR :=
    if lexLt tr.2 (addr ++ [n]) then          -- `if self.trace and (address > self.trace.end)`
      match all n st with
      | none => none
      | some (o1, st1) =>
        match brk 0 st1 with                   -- `n = address[-1] = 0` then the second while
        | none => none
        | some (o2, st2) => some (o1 ++ o2, st2)
    else brk n st
  if started then go 0 true
  else
    let pre := tr.1.take addr.length
    if pre != addr then
      (if lexLt addr pre then some ([], false) else none)   -- assert start[:len] > address; return
    else
      match tr.1[addr.length]? with
      | none => none                           -- IndexError: start[len(address)]
      | some n => go n (tr.1 == addr ++ [n])   -- `if start == address: self.started = True`

mutual
  /-- `TraceSerializer.visit_GateStatement / visit_BlockStatement / visit_LoopStatement`. -/
  def serStmt (tr : Addr × Addr) : Stmt → Addr → Bool → SR
    | .gate k, _, st => some ([k], st)
    | .block _ body, a, st => serBlockWith tr (serAll tr body a 0) (serBrk tr body a 0) a st
    | .loop n _ body, a, st =>
      if st then
        -- `for n in range(loop.iterations): yield from self.visit(loop.statements)`.
        -- `self.started` stays True and `self.address` is restored by the `pop`, so every
        -- iteration runs from the same state and yields the same gates (or raises in the first).
        match n.toNat with
        | 0 => some ([], true)
        | _ + 1 =>
          match serBlockWith tr (serAll tr body a 0) (serBrk tr body a 0) a true with
          | none => none
          | some (o, st') => some ((List.replicate n.toNat o).flatten, st')
      else serBlockWith tr (serAll tr body a 0) (serBrk tr body a 0) a false
  /-- first `while n < len(statements)` (the "measure -> prepare case"): no break.
  `skip` statements are passed over first (the walk starts at index `n`). -/
  def serAll (tr : Addr × Addr) : List Stmt → Addr → Nat → Nat → Bool → SR
    | [], _, _, _, st => some ([], st)
    | s :: rest, a, i, skip, st =>
      match skip with
      | k + 1 => serAll tr rest a (i + 1) k st
      | 0 =>
        match serStmt tr s (a ++ [i]) st with
        | none => none
        | some (o1, st1) =>
          match serAll tr rest a (i + 1) 0 st1 with
          | none => none
          | some (o2, st2) => some (o1 ++ o2, st2)
  /-- second `while`: `break` as soon as the next address exceeds `trace.end`. -/
  def serBrk (tr : Addr × Addr) : List Stmt → Addr → Nat → Nat → Bool → SR
    | [], _, _, _, st => some ([], st)
    | s :: rest, a, i, skip, st =>
      match skip with
      | k + 1 => serBrk tr rest a (i + 1) k st
      | 0 =>
        match serStmt tr s (a ++ [i]) st with
        | none => none
        | some (o1, st1) =>
          if lexLt tr.2 (a ++ [i + 1]) then some (o1, st1)
          else
            match serBrk tr rest a (i + 1) 0 st1 with
            | none => none
            | some (o2, st2) => some (o1 ++ o2, st2)
end

/-- `list(TraceSerializer(trace).visit(circuit))` as gate kinds. -/
def serialize (tr : Addr × Addr) (body : List Stmt) : Option (List GK) :=
  (serStmt tr (.block false body) [] false).map (·.1)

/-! ## A sufficient amount of fuel for `visit` (static: loop iterations cost no fuel) -/

mutual
  def stmtFuel : Stmt → Nat
    | .gate _ => 0
    | .block _ b => listFuel b
    | .loop _ _ b => listFuel b
  /-- one `while` test per statement of the block plus the final one, plus what the statements need -/
  def listFuel : List Stmt → Nat
    | [] => 1
    | s :: r => 1 + stmtFuel s + listFuel r
end

/-- Fuel with which `visit` provably returns on every accepted program (C08_terminates):
`2·(number of statements) + 1`-ish for the `while self.objective` tests plus one test per trace for
the skipping loop of a zero-count `LoopStatement`. -/
def fuelBound (starts : List Addr) (body : List Stmt) : Nat := listFuel body + starts.length + 1

end Jaqal.Walk
