import JaqalModel.Model.Ir
import JaqalModel.Base.Err
/-!
Alias resolution: `Register.resolve_size`, `Register.resolve_qubit`, `NamedQubit.resolve_qubit`
(`/repo/src/jaqalpaq/core/register.py`), by value.

`Ctx` is the `context` dictionary mapping parameter names to values.
Indices are Python ints (`Int`): nothing here bounds them below (the constructors do, see C14).
A float where an integer is needed makes Python raise `TypeError` (in `range`) or propagate a
float index; the model reports `Err.other "TypeError"` for the former and carries no floats.
-/
namespace Jaqal.Resolve

abbrev Ctx := List (String × Val)

def Ctx.find (ctx : Ctx) (n : String) : Option Val := (ctx.find? (·.1 == n)).map (·.2)

/-- `while isinstance(v, AnnotatedValue): v = v.resolve_value(context)`.
`Constant.resolve_value` returns the value; `Parameter.resolve_value` looks the name up and raises
`JaqalError("Unbound identifier")` otherwise. Fuel bounds the `while` loop (a context that binds a
parameter to itself makes Python spin forever). -/
def resolveAV (ctx : Ctx) : Nat → Val → M Val
  | 0, _ => .error .hang
  | fuel+1, v =>
    match v with
    | .const _ x => resolveAV ctx fuel x
    | .param n _ =>
      match Ctx.find ctx n with
      | some x => resolveAV ctx fuel x
      | none => .error (.jaqal "unbound-identifier")
    | _ => .ok v

def avFuel (ctx : Ctx) : Nat := ctx.length + 64

/-- resolve an annotated value and require a Python int -/
def resolveInt (ctx : Ctx) (v : Val) : M Int := do
  match ← resolveAV ctx (avFuel ctx) v with
  | .int i => pure i
  | .flt _ => .error (.other "TypeError")
  | _ => .error (.other "TypeError")

/-- `len(range(start, stop, step))` -/
def rangeLen (start stop step : Int) : M Int :=
  if step = 0 then .error (.other "ValueError")
  else if step > 0 then
    pure (if stop ≤ start then 0 else (stop - start + step - 1) / step)
  else
    pure (if start ≤ stop then 0 else (start - stop + (-step) - 1) / (-step))

/-- `slice.start or 0`: `None` and `0` give `0`; an object (a `Constant`) is truthy and is kept -/
def startOr0 : Val → Val
  | .none => .int 0
  | .int 0 => .int 0
  | .flt d => if d.mant = 0 then .int 0 else .flt d
  | v => v

def stepOr1 : Val → Val
  | .none => .int 1
  | v => v

/-- `Register.resolve_size(context)`. Returns the size as Python would: a fundamental register
returns `_size` as stored, which may be a `Constant`. -/
def resolveSize (ctx : Ctx) : Val → M Val
  | .regF _ size => pure size
  | .regA _ src =>
    match src with
    | .param n _ =>
      -- `while isinstance(alias_from, AnnotatedValue): alias_from.resolve_value(context)`: the result is dropped
      match Ctx.find ctx n with
      | some _ => .error .hang
      | none => .error (.jaqal "unbound-identifier")
    | .const _ _ => .error .hang
    | _ => resolveSize [] src          -- `self.alias_from.size` is the property: empty context
  | .regS _ src start stop step =>
    match src with
    | .param n _ =>
      match Ctx.find ctx n with
      | some _ => .error .hang
      | none => .error (.jaqal "unbound-identifier")
    | .const _ _ => .error .hang
    | _ => do
      let a ← resolveInt ctx (startOr0 start)
      let s ← resolveInt ctx (stepOr1 step)
      let b ← resolveInt ctx stop
      if s = 0 then .error (.jaqal "zero-step") else
      pure (.int (← rangeLen a b s))
  | _ => .error (.other "AttributeError")

/-- `Register.resolve_qubit(idx, context)` → (name of the fundamental register, index). -/
def resolveReg (ctx : Ctx) : Val → Int → M (String × Int)
  | .regF n size, idx => do
    let sz ← resolveAV ctx (avFuel ctx) size
    match sz with
    | .int k => if idx < 0 ∨ idx ≥ k then .error (.jaqal "index-out-of-range") else pure (n, idx)
    | .none => pure (n, idx)
    | .flt _ => .error (.other "float-size")
    | _ => .error (.other "TypeError")
  | r@(.regA _ src), idx => do
    let sz ← resolveAV ctx (avFuel ctx) (← resolveSize ctx r)
    match sz with
    | .int k => if idx < 0 ∨ idx ≥ k then throw (.jaqal "index-out-of-range")
    | .none => pure ()
    | _ => throw (.other "TypeError")
    resolveReg ctx src idx
  | r@(.regS _ src start _ step), idx => do
    let sz ← resolveAV ctx (avFuel ctx) (← resolveSize ctx r)
    match sz with
    | .int k => if idx < 0 ∨ idx ≥ k then throw (.jaqal "index-out-of-range")
    | .none => pure ()
    | _ => throw (.other "TypeError")
    let a ← resolveInt ctx (startOr0 start)
    let s ← resolveInt ctx (stepOr1 step)
    resolveReg ctx src (a + idx * s)
  | _, _ => .error (.other "AttributeError")

def isRegister : Val → Bool
  | .regF _ _ => true
  | .regA _ _ => true
  | .regS _ _ _ _ _ => true
  | _ => false

/-- `NamedQubit.resolve_qubit(context)`: the resolved source must be a `Register` and the resolved
index an int (an integral float is converted), else `JaqalError`. -/
def resolveQubit (ctx : Ctx) : Val → M (String × Int)
  | .qubit _ src idx => do
    let i ← resolveAV ctx (avFuel ctx) idx
    let r ← resolveAV ctx (avFuel ctx) src
    if !isRegister r then throw (.jaqal "not-a-register")
    match i with
    | .int k => resolveReg ctx r k
    | .flt d => if d.isIntegral then resolveReg ctx r d.toInt else .error (.jaqal "index-not-integer")
    | _ => .error (.jaqal "index-not-integer")
  | _ => .error (.other "AttributeError")

end Jaqal.Resolve
