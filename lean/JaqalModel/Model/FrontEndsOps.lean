import JaqalModel.Base.Json
import JaqalModel.Model.FrontEnds
/-!
Driver ops of the front-end models (C17).

* `lower_q`, `lower_oo`, `parse_sx`: `{"prog": Prog}` → `{"ok": Sx}` | `{"err": "<error class>"}`
* `render`: `{"prog": Prog}` → `{"ok": "<text>"}` | `{"err": …}`
* `namer`: `{"lets":[name|null…], "registers":[name|null…]}` → `{"ok": {"lets":[name…], "registers":[name…]}}`
* `namer_old`: the same with the pre-repair `Namer` (own-kind skip only)
* `fe_info`: `{"prog": Prog}` → `{"wf": bool, "legal": bool, "wraps": bool}`
* `fe_norm`: `{"sx": Sx}` → Sx (`norm`)

Prog JSON:
```
{"lets": [{"name": str|null, "value": Num}…], "regs": [{"name": str|null, "size": Count}…], "body": [Stmt…]}
Num   = {"i": int} | {"f": [neg, mant, exp]}
Count = {"i": int} | {"ref": k}
Arg   = Num | {"ref": k} | {"r": k} | {"q": k, "idx": Count}
Stmt  = {"g": name, "args": [Arg…]} | {"seq": [Stmt…]} | {"par": [Stmt…]}
      | {"loop": Count, "body": [Stmt…]} | {"sub": Count|null, "body": [Stmt…]}
```
-/
namespace Jaqal.FrontEnds
open Lean

def countOfJson (j : Json) : R Count :=
  match j.getObjVal? "ref" with
  | .ok k => do pure (.ref (← jnat k))
  | .error _ => do pure (.lit (← jint (← jget j "i")))

def argOfJson (j : Json) : R Arg :=
  match j.getObjVal? "ref" with
  | .ok k => do pure (.ref (← jnat k))
  | .error _ =>
    match j.getObjVal? "r" with
    | .ok k => do pure (.reg (← jnat k))
    | .error _ =>
      match j.getObjVal? "q" with
      | .ok k => do pure (.qubit (← jnat k) (← countOfJson (← jget j "idx")))
      | .error _ => do pure (.num (← Num.fromJson j))

mutual
/-- Fuel-bounded reader (`fuel` bounds the nesting depth). -/
def stmtOfJson : Nat → Json → R Stmt
  | 0, _ => .error "statement nesting too deep"
  | fuel + 1, j =>
    match j.getObjVal? "g" with
    | .ok g => do pure (.gate (← jstr g) (← jlist argOfJson (← jget j "args")))
    | .error _ =>
      match j.getObjVal? "seq" with
      | .ok b => do pure (.seq (← stmtsOfJson fuel (← jarr b)))
      | .error _ =>
        match j.getObjVal? "par" with
        | .ok b => do pure (.par (← stmtsOfJson fuel (← jarr b)))
        | .error _ =>
          match j.getObjVal? "loop" with
          | .ok c => do pure (.loop (← countOfJson c) (← stmtsOfJson fuel (← jarr (← jget j "body"))))
          | .error _ => do
              let c ← jget j "sub"
              let c ← (if jisNull c then pure SubCount.absent else do pure (.given (← countOfJson c)))
              pure (.sub c (← stmtsOfJson fuel (← jarr (← jget j "body"))))
def stmtsOfJson : Nat → List Json → R (List Stmt)
  | _, [] => .ok []
  | fuel, j :: js => do
      let s ← stmtOfJson fuel j
      let ss ← stmtsOfJson fuel js
      pure (s :: ss)
end

def progOfJson (j : Json) : R Prog := do
  let lets ← jlist (fun l => do
    pure ({ name := ← jopt jstr (← jget l "name"), value := ← Num.fromJson (← jget l "value") } : LetDecl))
    (← jget j "lets")
  let regs ← jlist (fun r => do
    pure ({ name := ← jopt jstr (← jget r "name"), size := ← countOfJson (← jget r "size") } : RegDecl))
    (← jget j "regs")
  -- the nesting depth of a JSON text is below its length
  let body ← stmtsOfJson (j.compress.length + 1) (← jarr (← jget j "body"))
  pure { lets, regs, body }

/-- The same function as `Sx.toJson` of Base, by structural recursion. -/
def sxJson : Sx → Json
  | .str s => .str s
  | .int v => jobj [("i", jofInt v)]
  | .flt d => jobj [("f", d.toJson)]
  | .none => .null
  | .list l => .arr (sxJsons l).toArray
where sxJsons : List Sx → List Json
  | [] => []
  | x :: xs => sxJson x :: sxJsons xs

def outM {α} (f : α → Json) : M α → Json
  | .ok a => jobj [("ok", f a)]
  | .error e => jobj [("err", .str e.cls)]

def progOp (f : Prog → Json) (j : Json) : R Json := do
  let p ← progOfJson (← jget j "prog")
  pure (f p)

def namesJson (x : List String × List String) : Json :=
  jobj [("lets", jofList Json.str x.1), ("registers", jofList Json.str x.2)]

def namerOp (f : List (Option String) → List (Option String) → M (List String × List String)) (j : Json) :
    R Json := do
  let lets ← jlist (jopt jstr) (← jget j "lets")
  let regs ← jlist (jopt jstr) (← jget j "registers")
  pure (outM namesJson (f lets regs))

def ops : List (String × (Json → R Json)) :=
  [ ("lower_q", progOp fun p => outM sxJson (lowerQ p)),
    ("lower_oo", progOp fun p => outM sxJson (lowerOO p)),
    ("parse_sx", progOp fun p => outM sxJson (parseSx p)),
    ("render", progOp fun p => outM Json.str (render p)),
    ("namer", namerOp namer),
    ("namer_old", namerOp namerOld),
    ("fe_info", progOp fun p =>
        jobj [("wf", .bool p.wf), ("legal", .bool p.legal), ("wraps", .bool (wraps p))]),
    ("fe_norm", fun j => do pure (sxJson (norm (← Sx.fromJson (← jget j "sx"))))) ]

end Jaqal.FrontEnds
