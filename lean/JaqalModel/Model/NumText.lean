import JaqalModel.Base.Num
/-!
Number literals as text: what the code generator writes and what the lexer reads.

Python modelled (pinned tree, `/repo/src/jaqalpaq`):
* `generator/generator.py`: `generate_jaqal_value` (ints: `str(val)`; floats: `generate_jaqal_float`),
  `generate_jaqal_float` (`repr(val)`; in exponent notation a mantissa without a dot gets `.0`);
* `parser/slyparse.py`: tokens `NUMBER = [-+]?[0-9]*\.[0-9]+([eE][-+]?[0-9]+)?` (value `float(text)`)
  and `INT = [-+]?[0-9]+` (value `int(text)`), tried in this order, after `NL`, `IDENTIFIER`,
  `DOTIDENTIFIER` in sly's master regular expression.

Abstraction (DESIGN.md §3.3): a float is its exact canonical decimal `Dec`; `repr(float)` is the layout
rule of `notes/probes/p22_repr_layout.py`; `float(text)` is the exact decimal value of the text,
canonicalised. Not modelled: overflow to `inf` / underflow (the lexer raises on `inf`), and
CPython's limit of 4300 digits on `int(text)`/`str(int)`.

Everything is defined on `List Char`; the `String` functions are thin wrappers, so that proofs and
`decide` never have to look inside the byte representation of `String`.
-/
namespace Jaqal.NumText
open Jaqal

/-! ## Writing -/

/-- Decimal digits of a natural number, most significant first (`str(n)`); `"0"` for 0. -/
def natDigits (n : Nat) : List Char := Nat.toDigits 10 n

def zeros (k : Nat) : List Char := List.replicate k '0'

/-- `f"{k:02d}"`: at least two digits. -/
def pad2 (k : Nat) : List Char := if k < 10 then '0' :: natDigits k else natDigits k

/-- Body of `repr(float)` (no sign) for the decimal `mant · 10^exp`, `mant` without trailing zeros
(or `mant = 0 ∧ exp = 0`). Line by line `canon` of `p22_repr_layout.py`:
`s` the digits, `n` their number, `e = exp + n - 1` the scientific exponent. -/
def reprBody (mant : Nat) (exp : Int) : List Char :=
  let s := natDigits mant
  let n : Int := s.length
  let e : Int := exp + n - 1
  if -4 ≤ e ∧ e < 16 then
    if e < 0 then '0' :: '.' :: (zeros (-e - 1).toNat ++ s)
    else if e ≥ n - 1 then s ++ (zeros (e - (n - 1)).toNat ++ ['.', '0'])
    else s.take (e + 1).toNat ++ '.' :: s.drop (e + 1).toNat
  else
    s.take 1 ++ ((if n > 1 then '.' :: s.drop 1 else []) ++
      'e' :: (if e < 0 then '-' else '+') :: pad2 e.natAbs)

/-- CPython `repr(x)` for the finite float whose exact shortest decimal is `d`. -/
def reprFloatL (d : Dec) : List Char :=
  let d := d.normalize
  (if d.neg then ['-'] else []) ++ reprBody d.mant d.exp

/-- `generate_jaqal_float`, the part after `text = repr(val)`:
```
if "e" in text:
    mantissa, exponent = text.split("e")
    if "." not in mantissa: mantissa += ".0"
    text = mantissa + "e" + exponent
```
(`repr` of a finite float has at most one `e`, so the two-way unpacking of `split` cannot fail.) -/
def fixExponentForm (text : List Char) : List Char :=
  if text.contains 'e' then
    let (mantissa, rest) := text.span (· != 'e')
    let exponent := rest.drop 1
    let mantissa := if mantissa.contains '.' then mantissa else mantissa ++ ['.', '0']
    mantissa ++ 'e' :: exponent
  else text

def genFloatL (d : Dec) : List Char := fixExponentForm (reprFloatL d)

/-- `str(i)` for a Python int. -/
def genIntL (i : Int) : List Char :=
  if i < 0 then '-' :: natDigits i.natAbs else natDigits i.natAbs

def reprFloat (d : Dec) : String := String.ofList (reprFloatL d)
/-- `generate_jaqal_float`. -/
def genFloat (d : Dec) : String := String.ofList (genFloatL d)
/-- `str(int)`. -/
def genInt (i : Int) : String := String.ofList (genIntL i)

/-- `generate_jaqal_value` on numbers. -/
def genNum : Num → String
  | .int i => genInt i
  | .flt d => genFloat d

/-! ## Reading

Python's `re` is a backtracking matcher, but on these two expressions backtracking never finds a
match that the greedy first attempt misses: after a greedy `[0-9]*`/`[0-9]+` the next character is
not a digit, and giving digits back makes the next regex item (`\.`, `[eE]`, end) face a digit, or
ends the match earlier than the first success; giving back an optional sign makes the next item
(a digit class or `\.`) face the sign. The only real choice point is the optional exponent group
`([eE][-+]?[0-9]+)?`: it is tried first and skipped when it fails. The functions below are that
deterministic reading. -/

/-- `[-+]?` -/
def optSign : List Char → List Char × List Char
  | [] => ([], [])
  | c :: cs => if c == '-' || c == '+' then ([c], cs) else ([], c :: cs)

/-- The pieces of a NUMBER match. -/
structure Parts where
  sign : List Char
  ip : List Char
  fp : List Char
  /-- exponent group: the `e`/`E`, its sign, its digits -/
  ex : Option (Char × List Char × List Char)
  deriving DecidableEq, Repr

/-- `[eE][-+]?[0-9]+` at the head of the input. -/
def parseExp : List Char → Option ((Char × List Char × List Char) × List Char)
  | [] => none
  | c :: cs =>
    if c == 'e' || c == 'E' then
      let (sg, cs1) := optSign cs
      let (ds, cs2) := cs1.span Char.isDigit
      if ds.isEmpty then none else some ((c, sg, ds), cs2)
    else none

/-- `[-+]?[0-9]*\.[0-9]+([eE][-+]?[0-9]+)?` at the head of the input: pieces and remaining input. -/
def parseNumber (cs : List Char) : Option (Parts × List Char) :=
  let (sg, cs1) := optSign cs
  let (ip, cs2) := cs1.span Char.isDigit
  match cs2 with
  | [] => none
  | c :: cs3 =>
    if c == '.' then
      let (fp, cs4) := cs3.span Char.isDigit
      if fp.isEmpty then none
      else match parseExp cs4 with
        | some (ex, cs5) => some (⟨sg, ip, fp, some ex⟩, cs5)
        | none => some (⟨sg, ip, fp, none⟩, cs4)
    else none

def Parts.text (p : Parts) : List Char :=
  p.sign ++ (p.ip ++ ('.' :: (p.fp ++
    match p.ex with
    | none => []
    | some (c, sg, ds) => c :: (sg ++ ds))))

def signNeg (sg : List Char) : Bool := sg == ['-']

/-- Value of a digit string (`int(ds)`); 0 for the empty string. -/
def digitsVal (ds : List Char) : Nat := Nat.ofDigitChars 10 ds 0

def applySign (sg : List Char) (v : Nat) : Int := if signNeg sg then -(v : Int) else (v : Int)

def Parts.expValue (p : Parts) : Int :=
  match p.ex with
  | none => 0
  | some (_, sg, ds) => applySign sg (digitsVal ds)

/-- `float(text)` as an exact decimal: `± ip.fp · 10^ex`, canonicalised (the sign of zero is kept). -/
def Parts.value (p : Parts) : Dec :=
  Dec.normalize ⟨signNeg p.sign, digitsVal (p.ip ++ p.fp), p.expValue - p.fp.length⟩

/-- Longest match of the NUMBER regex at the head of the input: (matched text, rest). -/
def matchNumber (cs : List Char) : Option (List Char × List Char) :=
  (parseNumber cs).map fun (p, rest) => (p.text, rest)

/-- `float(text)` for a text that is, as a whole, a NUMBER. -/
def numberValue (cs : List Char) : Option Dec :=
  match parseNumber cs with
  | some (p, []) => some p.value
  | _ => none

/-- `[-+]?[0-9]+` at the head of the input: (sign, digits) and remaining input. -/
def parseInt (cs : List Char) : Option ((List Char × List Char) × List Char) :=
  let (sg, cs1) := optSign cs
  let (ds, cs2) := cs1.span Char.isDigit
  if ds.isEmpty then none else some ((sg, ds), cs2)

def matchInt (cs : List Char) : Option (List Char × List Char) :=
  (parseInt cs).map fun ((sg, ds), rest) => (sg ++ ds, rest)

/-- `int(text)` for a text that is, as a whole, an INT. -/
def intValue (cs : List Char) : Option Int :=
  match parseInt cs with
  | some ((sg, ds), []) => some (applySign sg (digitsVal ds))
  | _ => none

def readNumberL (cs : List Char) : Option Dec :=
  match matchNumber cs with
  | some (m, []) => numberValue m
  | _ => none

def readIntL (cs : List Char) : Option Int :=
  match matchInt cs with
  | some (m, []) => intValue m
  | _ => none

/-- The whole text is one number token, as the lexer sees it (then `gate_arg`/`let_statement` pass
the token value on unchanged). sly tries the alternatives of its master expression in order:
`NL | IDENTIFIER | DOTIDENTIFIER | NUMBER | INT | …`. The first three can only start with a newline,
a letter/underscore, or a dot; of those only the dot can also start a NUMBER (`.5`), and there
DOTIDENTIFIER wins (`.5` lexes as `.` followed by INT 5). Then NUMBER before INT: `1.5` is a float,
`15` an int, `1e-06` is not one token. -/
def readLiteralL (cs : List Char) : Option Num :=
  match cs with
  | [] => none
  | c :: _ =>
    if c == '.' then none
    else match matchNumber cs with
      | some (m, rest) => if rest.isEmpty then (numberValue m).map Num.flt else none
      | none =>
        match matchInt cs with
        | some (m, rest) => if rest.isEmpty then (intValue m).map Num.int else none
        | none => none

def readNumber (s : String) : Option Dec := readNumberL s.toList
def readInt (s : String) : Option Int := readIntL s.toList
def readLiteral (s : String) : Option Num := readLiteralL s.toList

end Jaqal.NumText
