import JaqalModel.Model.Ir
import JaqalModel.Base.Err
import JaqalModel.Model.UnitTiming
import JaqalModel.Model.ExpandMacros
/-!
`normalize_blocks_with_unitary_timing` (`/repo/src/jaqalpaq/core/algorithm/unit_timing.py`) on the shared circuit IR
(`JaqalModel/Model/Ir.lean`), by value.  `JaqalModel/Model/UnitTiming.lean` is the same pass on a skeleton (gate ids,
natural-number counts); `JaqalProofs/Props/C19Circuit.lean` proves that this model refines the skeleton.

| Python                                                              | here              |
|---------------------------------------------------------------------|-------------------|
| `UnrollIterator().visit(stmt)` (`visit_default`, `visit_BlockStatement`) | `unroll`     |
| `BlockNormalizer.iter_unroll_blocks`                                | `unrollAll`       |
| `zip_longest(*iterators)` + `filter(lambda x: x is not None, ch)`   | `UnitTiming.zipLongest` (polymorphic, shared) |
| body of the `for stmt in non_none` loop of `iter_chunk_blocks`      | `chunkOf`         |
| `iter_chunk_blocks` (all chunks, or the first exception)            | `chunkBlocks`     |
| `block = chunk[0] if len(chunk) == 1 else BlockStatement(parallel=True, statements=chunk)` | `emit` |
| `BlockStatement(subcircuit=…, iterations=…, statements=…)` (constructor checks) | `ExpandMacros.mkBlock false` |
| `BlockNormalizer.visit` (`visit_default` / `visit_BlockStatement`)  | `normalizeStmt`   |
| `[self.visit(stmt) for stmt in obj.statements]`                     | `normalizeList`   |
| `BlockNormalizer.visit_Circuit`                                     | `normalizeCircuit`|

What the Python does with the parts of a circuit (read off the code, confirmed by `harness/agents/c19_circuit_diff.py`):

* **gate statements** (`visit_default`): returned as they are — name, definition, arguments untouched.  A call of a macro
  is a gate statement like any other (an opaque one-step gate).
* **loops** (`visit_default`, `LoopStatement` is not a `BlockStatement`): returned as they are.  The count (an int, a let
  constant, a macro parameter — anything) is never looked at, no `LoopStatement` is constructed (so `_validate_count` does
  not run), and the BODY OF A LOOP IS NOT NORMALISED.
* **blocks**: the children are visited left to right first; a parallel block is then cut into lock-step chunks, a sequential
  one has its (visited) sequential non-subcircuit children spliced.  The result is
  `BlockStatement(subcircuit=obj.subcircuit, iterations=obj.iterations, statements=new)`: `parallel` is NOT passed on (the
  new block is always sequential), the subcircuit flag and the iteration count object are kept.  The constructor re-runs its
  checks AFTER the children were visited and the chunks were made: `not subcircuit and iterations != 1` → `JaqalError`,
  `_validate_count` → `JaqalError` (no object built through the public constructors can fail them, since the input block
  passed the same checks with the same `subcircuit` / `iterations`).
* **chunks**: `UnrollIterator` yields a parallel or subcircuit block whole.  All visited blocks are sequential, so in a chunk a
  block is either a parallel group made by an inner `iter_chunk_blocks` (its statements are spliced into the chunk) or a
  subcircuit block (`assert stmt.parallel` → `AssertionError`).  A loop is appended and then `JaqalError` is raised.  The
  statements of a row are inspected left to right, the rows top to bottom; the first offender wins.
  A chunk of one statement is emitted bare, any other as `BlockStatement(parallel=True, statements=chunk)`
  (`subcircuit=False`, `iterations=1`: the checks pass).  (An empty chunk would be emitted as `< >`; it cannot arise:
  rows of `zip_longest` are non-empty and the only parallel blocks met in a row are groups of ≥ 2 gates made by an inner
  `iter_chunk_blocks` — `C19_circuit_flat`.)
* **`visit_Circuit`**: `Circuit(native_gates=circuit.native_gates)` runs `normalize_native_gates` on the dictionary:
  `JaqalError` when a value is not a `GateDefinition` (a `Macro` put there by hand; tag `macro` in the dump) — this is the
  first thing that happens.  (The other check, key ≠ `gate.name`, is about dictionary keys, which the by-value IR does not
  carry.)  `constants`, `macros`, `registers` are `dict.update`d and `usepulses` is `extend`ed from the input: same entries,
  same order.  MACRO DEFINITIONS ARE COPIED UNVISITED (their bodies are not normalised).  Then
  `self.visit(circuit.body).statements` is spliced into the fresh body `BlockStatement()`: the flags and count of the input's
  body block play no role beyond the constructor checks (a parallel body block — not constructible through `Circuit` — is
  cut into chunks like any parallel block).  A body that is not a block (not constructible either) goes through
  `visit_default`; `.statements` / iteration then behave as in the other passes (`ExpandMacros.statementsOf`).
-/
namespace Jaqal.UnitTimingCircuit
open Jaqal

/-- `UrollIterator().visit(stmt)`: a parallel or subcircuit block is yielded whole, any other block yields its statements,
a gate or a loop is yielded as it is. -/
def unroll : Stmt → List Stmt
  | .block par sub it body => if par || sub then [.block par sub it body] else body
  | s => [s]

/-- `iter_unroll_blocks` -/
def unrollAll : List Stmt → List Stmt
  | [] => []
  | s :: ss => unroll s ++ unrollAll ss

/-- `raise JaqalError("A Loop is embedded somewhere within a parallel block. …")` -/
def errLoop : Err := .jaqal "loop-in-parallel-block"
/-- `assert stmt.parallel, "Normalization Failed"` -/
def errAssert : Err := .other "AssertionError"

/-- The `for stmt in non_none` loop of `iter_chunk_blocks` on one row of `zip_longest`. -/
def chunkOf : List Stmt → M (List Stmt)
  | [] => .ok []
  | .block par _ _ body :: rest =>
      if par then
        match chunkOf rest with                           -- `chunk.extend(stmt.statements)`
        | .error e => .error e
        | .ok c => .ok (body ++ c)
      else .error errAssert                                -- `assert stmt.parallel`
  | .loop _ _ :: _ => .error errLoop                       -- appended, then `raise JaqalError`
  | .gate n gd a :: rest =>
      match chunkOf rest with                              -- `chunk.append(stmt)`
      | .error e => .error e
      | .ok c => .ok (.gate n gd a :: c)

/-- the chunks of all rows; the first failing row wins -/
def chunkRows : List (List Stmt) → M (List (List Stmt))
  | [] => .ok []
  | r :: rs =>
    match chunkOf r with
    | .error e => .error e
    | .ok c =>
      match chunkRows rs with
      | .error e => .error e
      | .ok cs => .ok (c :: cs)

/-- `iter_chunk_blocks(visited_statements)` -/
def chunkBlocks (visited : List Stmt) : M (List (List Stmt)) :=
  chunkRows (UnitTiming.zipLongest (visited.map unroll))

/-- `(block,) = chunk if len(chunk) == 1 else BlockStatement(parallel=True, statements=chunk)` -/
def emit : List Stmt → Stmt
  | [s] => s
  | chunk => .block true false (.int 1) chunk

/-- the constructor call `BlockStatement(subcircuit=sub, iterations=it, statements=body)` at the end of `visit_BlockStatement` -/
def mkSeqBlock (sub : Bool) (it : Val) (body : List Stmt) : M Stmt := ExpandMacros.mkBlock false sub it body

mutual
  /-- `BlockNormalizer().visit(stmt)` -/
  def normalizeStmt : Stmt → M Stmt
    | .gate n gd a => .ok (.gate n gd a)            -- `visit_default`
    | .loop c b => .ok (.loop c b)                  -- `visit_default`: neither the count nor the body is touched
    | .block par sub it body =>
      match normalizeList body with
      | .error e => .error e
      | .ok visited =>
        if par then
          match chunkBlocks visited with
          | .error e => .error e
          | .ok chunks => mkSeqBlock sub it (chunks.map emit)
        else
          mkSeqBlock sub it (unrollAll visited)
  /-- `[self.visit(stmt) for stmt in obj.statements]` -/
  def normalizeList : List Stmt → M (List Stmt)
    | [] => .ok []
    | s :: ss =>
      match normalizeStmt s with
      | .error e => .error e
      | .ok v =>
        match normalizeList ss with
        | .error e => .error e
        | .ok vs => .ok (v :: vs)
end

/-- `normalize_native_gates(circuit.native_gates)` raises: some value of the dictionary is not a `GateDefinition` -/
def badNatives (c : Circuit) : Bool := c.natives.any (fun g => g.tag == .macro)

/-- `BlockNormalizer.visit_Circuit` = `normalize_blocks_with_unitary_timing` -/
def normalizeCircuit (c : Circuit) : M Circuit :=
  if badNatives c then .error (.jaqal "native-gates-must-be-GateDefinition") else
  match normalizeStmt c.body with
  | .error e => .error e
  | .ok body =>
    match ExpandMacros.statementsOf body with
    | .error e => .error e
    | .ok stmts =>
      .ok { usepulses := c.usepulses, constants := c.constants, registers := c.registers,
            macros := c.macros, natives := c.natives, body := .block false false (.int 1) stmts }

end Jaqal.UnitTimingCircuit
