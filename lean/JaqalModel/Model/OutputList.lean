import JaqalModel.Model.RunModel
import JaqalModel.Model.Result
/-!
# The parser of hardware output lists: `parse_jaqal_output_list` (properties C08, C15, C09)

`parseOutputs c outs` is the model of

```
parse_jaqal_output_list(c, outs)                      # /repo/src/jaqalpaq/core/result.py
```

for a list `outs` whose entries are Python `int`s (not `bool`s, see below) or `str`s; `outputModel cfg txt outs` is the same
after `parse_jaqal_string(txt, inject_pulses=cfg.natives, autoload_pulses=cfg.autoload)`.  It is the sibling of
`RunModel.runCircuit` (the emulator): the same three passes, the same `DiscoverSubcircuits().visit`, and then a `TraceVisitor`
(`OutputParser`) whose `process_trace` takes the next element of the list instead of drawing an outcome.

Stages, in the order of the code:

1. `expand_macros(fill_in_let(expand_subcircuits(circuit)))` — `RunModel.expandAll []`;
2. `DiscoverSubcircuits().visit(circuit)` — exactly as in `RunModel.execute`: the skeleton, the register-size limit
   (`RunModel.tooLarge`), `self.qubits = list(chain.from_iterable(circuit.fundamental_registers()))` (`measuredQubits`: the
   qubits of ALL fundamental registers, `range(int(reg.size))` each; no "exactly one register" check here, unlike the
   emulator's `get_n_qubits`), the prepare / measure bookkeeping (`Walk.discover`) and the disjointness walk
   (`UsedQubits.checkDisjoint`);
3. `OutputParser(traces, output)`: one `ReadoutSubcircuit` per trace, each allocating `numpy.zeros(2 ** n)`;
   `MemoryError` / `ValueError` / `OverflowError` are converted to `JaqalError` (`allocTables`; nothing is allocated when there is
   no trace).  The threshold is the memory of the machine (`maxTableQubits`), not a constant of the code;
4. `w.visit(circuit)`: `Walk.visit` with `Walk.fuelBound`, and at every visit `process_trace` (`consume`), in this order:
   `self.subcircuits[self.index]`; `next(self.data)` — `JaqalError("Not enough outputs…")` when the list is exhausted;
   a `str` is read as `int(s[::-1], 2)` — **`ValueError` escapes** for the empty string or a character other than 0/1
   (`Result.ofStr`); `accept_readout`: `self._relative_frequencies[as_int] += 1` on the numpy array — **`IndexError` escapes**
   for an index outside `[-len, len)`, **`OverflowError`** for `2**63 ≤ k < 2**64`, and a NEGATIVE integer `-len ≤ k < 0` is
   accepted and counted at `len + k` (`normIndex`), the readout keeping the negative `as_int`.
   Outputs after the last visit are never looked at.

The walk and the consumption of outputs are interleaved in the code; the model runs the walk first and then consumes.
The difference would be visible only if the walk failed after some outputs had been consumed, which it never does
(`Walk.C08_terminates`: on discovered traces the walk returns).

What `ExecutionResult` lets a caller observe is collected in `OutputSummary`: `len(result.subcircuits)`; for every readout of
`result.readouts` in order `(readout.index, readout.subcircuit.index, readout.as_int)`; for every subcircuit its
`relative_frequency_by_int` (floats holding counts; here `Nat`).  `readout.as_str`, `relative_frequency_by_str` and
`subcircuit.readouts` are functions of these (`Result.asStr`, `Result.viewKeys`, the readouts with that subcircuit index).

## Outside the model

* a `bool` output (`True` / `False` are `int`s for Python): nothing is raised, `as_int` is the bool, and numpy reads
  `table[True] += 1` as a MASK: every entry of the table is incremented (`False`: none is).  `HwOut` has no such constructor.
* strings that `int(·, 2)` accepts beyond 0/1 digits (surrounding whitespace, `_` between digits, a sign, a `0b` prefix — after
  the reversal: `"1b0"` is read as 1, `"1-"` as −1 — and non-ASCII decimal digits): `Result.ofStr` says `ValueError` for them.
* outputs that are neither `int` nor `str` (floats, `None`, numpy scalars, …) and an `output` that is not iterable.

Core Lean only.
-/
namespace Jaqal.OutputList
open Jaqal Jaqal.Builder

/-- one entry of the output list: a Python `int` or a `str` -/
inductive HwOut where
  | int (n : Int)
  | str (s : String)
  deriving Repr, DecidableEq, Inhabited

structure OutputSummary where
  /-- `len(result.subcircuits)` -/
  subcircuits : Nat
  /-- `[(r.index, r.subcircuit.index, r.as_int) for r in result.readouts]` -/
  readouts : List (Nat × Nat × Int)
  /-- `[list(sc.relative_frequency_by_int) for sc in result.subcircuits]` -/
  tables : List (List Nat)
  deriving Repr, DecidableEq, Inhabited

/-- the largest `n` for which `numpy.zeros(2 ** n)` succeeds on the machine at hand (64 GB: `MemoryError` from 33 on,
`ValueError` from 62 on); a property of the machine -/
def maxTableQubits : Nat := 32

/-- `len(list(chain.from_iterable(circuit.fundamental_registers())))`: `range(int(reg.size))` qubits for every fundamental
register (none for a size ≤ 0) -/
def measuredQubits : List Val → M Nat
  | [] => pure 0
  | .regF _ size :: rest => do
    let k ← UsedQubits.pyInt size
    let r ← measuredQubits rest
    pure (k.toNat + r)
  | _ :: rest => measuredQubits rest

/-- `[ReadoutSubcircuit(sc, n) for n, sc in enumerate(traces)]`: a table `numpy.zeros(2 ** n)` per trace -/
def allocTables (n : Nat) (traces : Nat) : M (List (List Nat)) :=
  if traces = 0 then pure []
  else if n > maxTableQubits then throw (.jaqal "frequency-tables-do-not-fit")
  else pure (List.replicate traces (List.replicate (2 ^ n) 0))

/-- the integer a list entry stands for: `int(s[::-1], 2)` for a string (`ValueError` escapes) -/
def HwOut.value : HwOut → M Int
  | .int k => pure k
  | .str s =>
    match Result.ofStr s with
    | some v => pure (v : Int)
    | none => throw (.other "ValueError")

/-- numpy's reading of `array[k]` for a Python int `k` and an array of length `len`: the position, or the exception class -/
def normIndex (len : Nat) (k : Int) : M Nat :=
  if 0 ≤ k then
    if k.toNat < len then pure k.toNat
    else if (2 : Int) ^ 63 ≤ k ∧ k < (2 : Int) ^ 64 then throw (.other "OverflowError")
    else throw (.other "IndexError")
  else if (-k).toNat ≤ len then pure (len - (-k).toNat)
  else throw (.other "IndexError")

/-- `self._relative_frequencies[readout.as_int] += 1` -/
def accept (tbl : List Nat) (k : Int) : M (List Nat) := do
  let i ← normIndex tbl.length k
  match Result.bump tbl i with
  | some t => pure t
  | none => throw (.other "IndexError")      -- unreachable: `i < tbl.length`

/-- `process_trace` at every visit, in visit order: `visits` = the subcircuit index of every visit, `i` = `self.readout_index`,
`tbls` = the tables of `self.subcircuits`.  Result: the readouts and the final tables. -/
def consume : List Nat → List HwOut → Nat → List (List Nat) → M (List (Nat × Nat × Int) × List (List Nat))
  | [], _, _, tbls => pure ([], tbls)
  | sc :: vs, outs, i, tbls =>
    match tbls[sc]? with
    | none => throw (.other "IndexError")    -- `self.subcircuits[self.index]` (unreachable: the walk yields valid indices)
    | some t =>
      match outs with
      | [] => throw (.jaqal "not-enough-outputs")
      | o :: os => do
        let v ← o.value
        let t' ← accept t v
        let (rs, tb) ← consume vs os (i + 1) (tbls.set sc t')
        pure ((i, sc, v) :: rs, tb)

/-- everything after the three passes: `DiscoverSubcircuits().visit(x)`, `OutputParser(traces, outs).visit(x)` -/
def parseExpanded (x : Circuit) (outs : List HwOut) : M OutputSummary := do
  let (body, _) ← RunModel.skeleton x
  RunModel.tooLarge x.registers
  let n ← measuredQubits x.registers
  let traces ← match Walk.discover body with
    | .ok t => pure t
    | .error e => throw (RunModel.ofDiscErr e)
  UsedQubits.checkDisjoint x
  let tbls ← allocTables n traces.length
  let starts := traces.map (·.1)
  match Walk.visit (Walk.fuelBound starts body) starts body with
  | .ok visits => do
    let (rs, tb) ← consume visits outs 0 tbls
    pure { subcircuits := traces.length, readouts := rs, tables := tb }
  | .error e => throw (RunModel.ofVErr e)

/-- `parse_jaqal_output_list(c, outs)` -/
def parseOutputs (c : Circuit) (outs : List HwOut) : M OutputSummary := do
  let x ← RunModel.expandAll [] c
  parseExpanded x outs

/-- `parse_jaqal_output_list(parse_jaqal_string(txt, inject_pulses=cfg.natives, autoload_pulses=cfg.autoload), outs)` -/
def outputModel (cfg : Config) (txt : String) (outs : List HwOut) : M OutputSummary := do
  let c ← Pipeline.parseProgram cfg txt
  parseOutputs c outs

end Jaqal.OutputList
