import JaqalModel.Base.Json
import JaqalModel.Model.IrJson
import JaqalModel.Model.FillInOps
import JaqalModel.Model.PipelineOps
import JaqalModel.Model.RunModel
/-!
Driver ops for the executing entry point (property C16).

* `run_model`: `{"text": s, "natives": null | [<gatedef dump>…], "override": [[name, <num>], …]}` →
  `{"ok": {"subcircuits": n, "visits": [k…], "traces": [[gate token…]…]}}` | `{"err": cls}` |
  `{"err": "JaqalParseError", "pos": [line | null, col]}` — `RunModel.runModel`
* `well_formed`: same input → `{"well_formed": bool}` for the circuit `fill_in_let(expand_subcircuits(parse(text)), ov)` returns
  (`WF.wellFormed` = `ExpandMacros.WellFormed`), `{"well_formed": null, "stage": …}` when an earlier stage fails.
* `run_stage`: same input → `{"stage": name, "err": cls}` naming the first stage that fails (`parse`, `build`,
  `expand_subcircuits`, `fill_in_let`, `expand_macros`, `execute`) or `{"stage": "done"}`; for diagnostics.
-/
namespace Jaqal.RunModel
open Lean Jaqal Jaqal.Builder

def summaryToJson (s : RunSummary) : Json :=
  jobj [("subcircuits", jofNat s.subcircuits), ("visits", jofList jofNat s.visits),
        ("traces", jofList (jofList Json.str) s.traces)]

def opRunModel (j : Json) : Jaqal.R Json := do
  let s ← jstr (← jget j "text")
  let cfg ← Pipeline.cfgOfJson j
  let ov ← FillIn.overrideFromJson (jgetD j "override" (.arr #[]))
  match runModel cfg ov s with
  | .ok r => pure (jobj [("ok", summaryToJson r)])
  | .error e => pure (jobj (Pipeline.errFields e))

def opRunStage (j : Json) : Jaqal.R Json := do
  let s ← jstr (← jget j "text")
  let cfg ← Pipeline.cfgOfJson j
  let ov ← FillIn.overrideFromJson (jgetD j "override" (.arr #[]))
  let fail (stage : String) (e : Jaqal.Err) : Json := jobj (Pipeline.errFields e ++ [("stage", .str stage)])
  match Pipeline.parseSx s with
  | .error e => pure (fail "parse" e)
  | .ok sx =>
    match parseBuild cfg sx with
    | .error e => pure (fail "build" e)
    | .ok c =>
      match ExpandSubcircuits.expandSubcircuits none none c with
      | .error e => pure (fail "expand_subcircuits" e)
      | .ok c1 =>
        match FillIn.fillInLet ov c1 with
        | .error e => pure (fail "fill_in_let" e)
        | .ok c2 =>
          match ExpandMacros.expandMacros false c2 with
          | .error e => pure (fail "expand_macros" e)
          | .ok c3 =>
            match execute c3 with
            | .error e => pure (fail "execute" e)
            | .ok _ => pure (jobj [("stage", .str "done")])

def opWellFormed (j : Json) : Jaqal.R Json := do
  let s ← jstr (← jget j "text")
  let cfg ← Pipeline.cfgOfJson j
  let ov ← FillIn.overrideFromJson (jgetD j "override" (.arr #[]))
  let early (stage : String) : Json := jobj [("well_formed", .null), ("stage", .str stage)]
  match Pipeline.parseProgram cfg s with
  | .error _ => pure (early "parse")
  | .ok c =>
    match ExpandSubcircuits.expandSubcircuits none none c with
    | .error _ => pure (early "expand_subcircuits")
    | .ok c1 =>
      match FillIn.fillInLet ov c1 with
      | .error _ => pure (early "fill_in_let")
      | .ok c2 => pure (jobj [("well_formed", .bool (WF.wellFormed c2))])

def ops : List (String × (Json → Jaqal.R Json)) :=
  [("run_model", opRunModel), ("run_stage", opRunStage), ("well_formed", opWellFormed)]

end Jaqal.RunModel
