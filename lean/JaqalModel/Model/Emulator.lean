/-!
Model of the state-vector update in `jaqalpaq/emulator/unitary.py`
(`UnitarySerializedEmulator._make_subcircuit`).

For each serialised gate whose definition has an ideal unitary the Python does

```
inp, vec = vec, inp ; vec[:] = 0
for i in range(hilb_dim):
    mask = i; dsub_row = 0; dsub_bit = 1
    for i_k in qind:
        n_high = mask & (1 << i_k); mask ^= n_high
        if n_high: dsub_row |= dsub_bit
        dsub_bit <<= 1
    for dsub_col in range(dsub.shape[0]):
        j = mask; dsub_bit = 1
        for j_k in qind:
            if dsub_col & dsub_bit: j |= 1 << j_k
            dsub_bit <<= 1
        vec[i] += inp[j] * dsub[dsub_row, dsub_col]
```

* `rowMask`, `colIndex` transcribe the two bit-twiddling loops step by step.
* `applyGate` is the loop nest on total functions (`Nat → K`), used by the proofs.
* `applyGateVec` / `runGates` are the executable array versions; they return `none` exactly where
  numpy raises `IndexError` (`inp[j]` with `j ≥ hilb_dim`, `dsub[row, col]` out of the matrix).
  Note the column loop runs over `dsub.shape[0]`, *not* over `2 ^ len(qind)`: the code never checks
  that the matrix size matches the number of qubit arguments, and neither does `applyGateVec`.
* `GD` = Gaussian dyadic numbers `(re + i·im) / 2^k`, normalised, for exact executable arithmetic.

Core Lean only.
-/
namespace Jaqal.Emulator

/-! ### The two inner loops -/

/-- One iteration of the first inner loop; state = `(mask, dsub_row, dsub_bit)`. -/
def rowStep (st : Nat × Nat × Nat) (q : Nat) : Nat × Nat × Nat :=
  let nHigh := st.1 &&& (1 <<< q)
  (st.1 ^^^ nHigh, (if nHigh ≠ 0 then st.2.1 ||| st.2.2 else st.2.1), st.2.2 <<< 1)

/-- First inner loop: `(mask, dsub_row)` for state index `i`. -/
def rowMask (qs : List Nat) (i : Nat) : Nat × Nat :=
  let r := qs.foldl rowStep (i, 0, 1)
  (r.1, r.2.1)

/-- One iteration of the second inner loop; state = `(j, dsub_bit)`. -/
def colStep (c : Nat) (st : Nat × Nat) (q : Nat) : Nat × Nat :=
  ((if c &&& st.2 ≠ 0 then st.1 ||| (1 <<< q) else st.1), st.2 <<< 1)

/-- Second inner loop: the input index `j` for bystander bits `mask` and matrix column `c`. -/
def colIndex (qs : List Nat) (mask c : Nat) : Nat :=
  (qs.foldl (colStep c) (mask, 1)).1

/-! ### Function form (used by the proofs) -/

/-- `vec[i]` after one gate: `Σ_c inp[colIndex c] * dsub[row, c]`, accumulated from `0` in the order
of the code, with `dsub.shape[0] = 2 ^ len(qind)`. -/
def applyGate {K : Type} [Add K] [Mul K] [Zero K]
    (U : Nat → Nat → K) (qs : List Nat) (v : Nat → K) (i : Nat) : K :=
  (List.range (2 ^ qs.length)).foldl
    (fun acc c => acc + v (colIndex qs (rowMask qs i).1 c) * U (rowMask qs i).2 c) 0

/-- `vec = zeros; vec[0] = 1`. -/
def e0 {K : Type} [Zero K] [One K] (i : Nat) : K := if i = 0 then 1 else 0

/-- All gates of a subcircuit in function form; gates without a unitary (`none`) are skipped. -/
def runGatesFn {K : Type} [Add K] [Mul K] [Zero K] [One K]
    (gates : List (Option (Nat → Nat → K) × List Nat)) : Nat → K :=
  gates.foldl (fun v g => match g.1 with
    | none => v
    | some U => applyGate U g.2 v) e0

/-! ### Executable array form -/

/-- `dsub[r, c]`; `none` where numpy raises `IndexError`. -/
def matGet? {K : Type} (U : Array (Array K)) (r c : Nat) : Option K :=
  match U[r]? with
  | none => none
  | some row => row[c]?

/-- The accumulation `vec[i] += inp[j] * dsub[dsub_row, dsub_col]` for one `i`. -/
def applyGateAt {K : Type} [Add K] [Mul K] [Zero K]
    (U : Array (Array K)) (qs : List Nat) (v : Array K) (i : Nat) : Option K :=
  (List.range U.size).foldlM
    (fun acc c =>
      match v[colIndex qs (rowMask qs i).1 c]? with
      | none => none
      | some x =>
        match matGet? U (rowMask qs i).2 c with
        | none => none
        | some u => some (acc + x * u)) 0

/-- One gate on a register of `n` qubits (`hilb_dim = 2 ^ n`). -/
def applyGateVec {K : Type} [Add K] [Mul K] [Zero K]
    (U : Array (Array K)) (qs : List Nat) (n : Nat) (v : Array K) : Option (Array K) :=
  ((List.range (2 ^ n)).mapM (applyGateAt U qs v)).map List.toArray

/-- `vec = numpy.zeros(hilb_dim); vec[0] = 1`. -/
def e0Vec {K : Type} [Zero K] [One K] (n : Nat) : Array K :=
  ((List.range (2 ^ n)).map (fun i => if i = 0 then (1 : K) else 0)).toArray

/-- All gates of a subcircuit; a gate is `(ideal unitary or none, qubit indices)`. -/
def runGates {K : Type} [Add K] [Mul K] [Zero K] [One K]
    (n : Nat) (gates : List (Option (Array (Array K)) × List Nat)) : Option (Array K) :=
  gates.foldlM (fun v g => match g.1 with
    | none => some v
    | some U => applyGateVec U g.2 n v) (e0Vec n)

/-- Total views of arrays, used only to state the link with the function form
(under explicit size hypotheses). -/
def matFn {K : Type} [Zero K] (U : Array (Array K)) (r c : Nat) : K := (matGet? U r c).getD 0
def vecFn {K : Type} [Zero K] (v : Array K) (j : Nat) : K := (v[j]?).getD 0

/-! ### Gaussian dyadic numbers -/

/-- `(re + i·im) / 2^k`. Normal form: `k = 0`, or `re` or `im` odd. -/
structure GD where
  re : Int
  im : Int
  k : Nat
  deriving DecidableEq, Repr, Inhabited

namespace GD

/-- Cancel common factors of two (structural on the exponent). -/
def mk' : Nat → Int → Int → GD
  | 0, re, im => ⟨re, im, 0⟩
  | k+1, re, im => if re % 2 = 0 ∧ im % 2 = 0 then mk' k (re / 2) (im / 2) else ⟨re, im, k+1⟩

def normalize (a : GD) : GD := mk' a.k a.re a.im

def add (a b : GD) : GD :=
  let k := max a.k b.k
  mk' k (a.re * 2 ^ (k - a.k) + b.re * 2 ^ (k - b.k)) (a.im * 2 ^ (k - a.k) + b.im * 2 ^ (k - b.k))

def mul (a b : GD) : GD :=
  mk' (a.k + b.k) (a.re * b.re - a.im * b.im) (a.re * b.im + a.im * b.re)

instance : Zero GD := ⟨⟨0, 0, 0⟩⟩
instance : One GD := ⟨⟨1, 0, 0⟩⟩
instance : Add GD := ⟨add⟩
instance : Mul GD := ⟨mul⟩

/-- Cancel factors of two of a dyadic rational `num / 2^k`. -/
def dyadic : Nat → Int → Int × Nat
  | 0, num => (num, 0)
  | k+1, num => if num % 2 = 0 then dyadic k (num / 2) else (num, k+1)

/-- `|a|²` as a normalised dyadic rational `(num, k)` = `num / 2^k`. -/
def normSq (a : GD) : Int × Nat := dyadic (2 * a.k) (a.re * a.re + a.im * a.im)

end GD

end Jaqal.Emulator
