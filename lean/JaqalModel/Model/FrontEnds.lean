import JaqalModel.Base.Sx
import JaqalModel.Base.Err
import JaqalModel.Model.NumText
/-!
# The three front ends: Jaqal text, `CircuitBuilder`, Python Q-syntax (property C17)

All three front ends end in `jaqalpaq.core.circuitbuilder.build(sexpr, …)`.  This file models, for a
common abstract program `Prog`, the S-expression each front end hands to `build`:

* `lowerQ  : Prog → M Sx` — `qsyntax/qsyntax.py`: the `Q` API calls push `QGateCall` / `QBlock` objects on
  the frames of a `Stack`; `circuit_from_stack` names anonymous lets / registers (`Namer`), decides the
  implicit `prepare_all` / `measure_all` wrap (`starts_with_prepare` of the first top-level statement)
  and builds the list it passes to `build`.
* `lowerOO : Prog → M Sx` — `core/circuitbuilder.py`, class `CircuitBuilder` and the `BlockBuilder`s:
  every method call appends one S-expression.
* `render : Prog → M String` — canonical Jaqal text; `parseSx : Prog → M Sx` — what
  `parse_to_sexpression(render p)` returns (`parser/slyparse.py`), written directly; the correspondence
  script checks it against the real parser (the parser model is another component).

`Sx` does not distinguish Python lists from tuples (`dump.sexpr` maps both to a JSON array), so the
list/tuple differences between the front ends are invisible here by construction:
the parser returns lists except for the tuple `("array_item", r, i)`; Q-syntax builds lists only;
`CircuitBuilder` appends tuples `("gate", …)`, `("let", …)`, `("register", …)`, `("loop", …)` to lists.
`build` never distinguishes them: `SExpression.is_convertible` / `SExpression.__init__` test
`isinstance(x, tuple) or isinstance(x, list)`, `.args` just iterates, and the only other reader of raw
arguments, `GateMemoizer`, maps lists to tuples (`_make_hashable`) and treats `(list, tuple)` alike
(`make_context_entry`).

## Identity of Q objects
`QConstant` / `QRegister` define neither `__eq__` nor `__hash__`: the dictionaries `let_dict` /
`register_dict` of `circuit_from_stack` are keyed by object identity.  An object is therefore modelled by
its position in `Stack.top_context["lets"]` / `["registers"]` (creation order = the order in which
`circuit_from_stack` names them).  A `Prog` refers to lets / registers by that position.  A position
that does not exist denotes no Q-syntax program that uses the API only (a `QConstant` constructed by hand
and never registered with `Q.let` gives `KeyError` in `lookup_object`); all functions here then return
`Err.other "KeyError"`, so nothing is totalised silently; `WF p` says all references exist.

## Usage modelled (= what `/verif/harness/agents/qsyn_diff.py` replays)
Q-syntax: inside the decorated function, first `Q.let(value, name)` for every let, then
`Q.register(size, name)` for every register, then the body: `getattr(Q, gate)(*args)`,
`with Q.sequential():`, `with Q.parallel():`, `with Q.loop(count):`, `with Q.subcircuit(count):` and
`with Q.subcircuit():` for an absent count.
`CircuitBuilder`: `let(name, value, unevaluated=True)`, `register(name, size, unevaluated=True)`,
`gate(name, *args)`, `block(parallel)`, `subcircuit(iterations)` (`None` when absent), and for loops
`SequentialBlockBuilder()` filled, then `loop(count, blockbuilder, unevaluated=True)`.
(`unevaluated=False` calls `build` on the single statement at once, with an empty context and no gate
set: references to lets fail and gates get anonymous definitions, so that usage cannot express the
common programs.)  Let references are passed by name, qubits as `("array_item", regname, index)`.
Anonymous lets / registers have no counterpart in text or builder API: there the program is written with
the names the `Namer` chooses.
-/
namespace Jaqal.FrontEnds
open Jaqal

/-! ## The common program -/

/-- A loop count, register size or qubit index: an integer literal or the `i`-th let. -/
inductive Count where
  | lit (n : Int)
  | ref (i : Nat)
  deriving DecidableEq, Repr, Inhabited

/-- The count of a subcircuit: absent, or as `Count`. -/
inductive SubCount where
  | absent
  | given (c : Count)
  deriving DecidableEq, Repr, Inhabited

/-- A gate argument: number, the `i`-th let, the `r`-th register, a qubit of the `r`-th register. -/
inductive Arg where
  | num (v : Num)
  | ref (i : Nat)
  | reg (r : Nat)
  | qubit (r : Nat) (idx : Count)
  deriving DecidableEq, Repr, Inhabited

inductive Stmt where
  | gate (name : String) (args : List Arg)
  | seq (body : List Stmt)
  | par (body : List Stmt)
  /-- `loop count { body }` -/
  | loop (count : Count) (body : List Stmt)
  /-- `subcircuit [count] { body }` -/
  | sub (count : SubCount) (body : List Stmt)
  deriving Repr, Inhabited

structure LetDecl where
  name : Option String
  value : Num
  deriving DecidableEq, Repr, Inhabited

structure RegDecl where
  name : Option String
  size : Count
  deriving DecidableEq, Repr, Inhabited

structure Prog where
  lets : List LetDecl
  regs : List RegDecl
  body : List Stmt
  deriving Repr, Inhabited

/-! ## `Namer` -/

/-- `"__c{}".format(i)` -/
def letTemplate (i : Nat) : String := String.ofList ('_' :: '_' :: 'c' :: Nat.toDigits 10 i)
/-- `"__r{}".format(i)` -/
def regTemplate (i : Nat) : String := String.ofList ('_' :: '_' :: 'r' :: Nat.toDigits 10 i)

/-- `Namer._user_names()`: `[*let_names, *register_names]`.  The Python lists hold `None` for anonymous
objects; a generated `str` is never `== None`, so only the real names matter for `name not in …`. -/
def userNames (lets regs : List (Option String)) : List String :=
  lets.filterMap id ++ regs.filterMap id

/-- `Namer._choose_name(template, index, user_names)`:
```
while True:
    name = template.format(index); index += 1
    if name not in user_names: break
return name, index
```
`fuel` replaces `while True`; `user.length + 1` iterations always suffice (`chooseName_total`). -/
def chooseName (tmpl : Nat → String) (user : List String) : Nat → Nat → M (String × Nat)
  | 0, _ => .error .hang
  | fuel + 1, index =>
    if tmpl index ∈ user then chooseName tmpl user fuel (index + 1) else .ok (tmpl index, index + 1)

/-- The calls `namer.name_let(x)` (resp. `name_register`) for the objects in creation order, threading
`next_let` (resp. `next_register`): a user name is returned as is, an anonymous object gets the next free
name. -/
def nameAll (tmpl : Nat → String) (user : List String) : List (Option String) → Nat → M (List String)
  | [], _ => .ok []
  | some n :: rest, next => do
      let ns ← nameAll tmpl user rest next
      pure (n :: ns)
  | none :: rest, next => do
      let (n, next') ← chooseName tmpl user (user.length + 1) next
      let ns ← nameAll tmpl user rest next'
      pure (n :: ns)

/-- The names of all lets and of all registers, as `circuit_from_stack` assigns them: every let in creation
order, then every register in creation order; one counter per kind, both skipping every user name. -/
def namer (lets regs : List (Option String)) : M (List String × List String) := do
  let user := userNames lets regs
  let ln ← nameAll letTemplate user lets 0
  let rn ← nameAll regTemplate user regs 0
  pure (ln, rn)

/-- The `Namer` before today's repair: each kind skipped the user names of its own kind only. -/
def namerOld (lets regs : List (Option String)) : M (List String × List String) := do
  let ln ← nameAll letTemplate (lets.filterMap id) lets 0
  let rn ← nameAll regTemplate (regs.filterMap id) regs 0
  pure (ln, rn)

def Prog.letNames (p : Prog) : List (Option String) := p.lets.map (·.name)
def Prog.regNames (p : Prog) : List (Option String) := p.regs.map (·.name)

/-! ## Q-syntax objects -/

/-- An index or size accepted by `validate_int`: an `int` or a `QConstant` (by identity). -/
inductive QAtom where
  | int (n : Int)
  | const (id : Nat)
  deriving DecidableEq, Repr, Inhabited

/-- Python values that occur as gate arguments / block arguments. -/
inductive QVal where
  | num (v : Num)
  | const (id : Nat)
  | reg (id : Nat)
  /-- `QNamedQubit(source, index)` -/
  | qubit (src : Nat) (idx : QAtom)
  | none
  deriving DecidableEq, Repr, Inhabited

/-- The subclasses of `QBlock` in scope (`QBranch` / `QCase` are not). -/
inductive BlockCls where
  | seq | par | sub | loop
  deriving DecidableEq, Repr, Inhabited

/-- `QGateCall(name, args)` and `QBlock(statements, argument)` objects. -/
inductive QStmt where
  | gateCall (name : String) (args : List QVal)
  | block (cls : BlockCls) (argument : QVal) (stmts : List QStmt)
  deriving Repr, Inhabited

structure LetObj where
  value : Num
  name : Option String
  deriving Repr, Inhabited

structure RegObj where
  size : QAtom
  name : Option String
  deriving Repr, Inhabited

/-- `class Stack`: `stack` (the frames; the HEAD of `frames` is `stack[-1]`) and `top_context`
(usepulses out of scope). -/
structure Stack where
  frames : List (List QStmt)
  lets : List LetObj
  regs : List RegObj
  deriving Repr, Inhabited

namespace Stack

def empty : Stack := { frames := [], lets := [], regs := [] }
def depth (st : Stack) : Nat := st.frames.length
def push (st : Stack) : Stack := { st with frames := [] :: st.frames }

def pop (st : Stack) : M Stack :=
  match st.frames with
  | [] => .error (.jaqal "Popping frame off empty stack")
  | _ :: r => .ok { st with frames := r }

/-- `set_statement`: `self.stack[-1].append(item)`. -/
def setStatement (st : Stack) (q : QStmt) : M Stack :=
  match st.frames with
  | [] => .error (.jaqal "Cannot define statements outside a circuit")
  | f :: r => .ok { st with frames := (f ++ [q]) :: r }

/-- `iter_statements`: `iter(self.stack[-1])`. -/
def iterStatements (st : Stack) : M (List QStmt) :=
  match st.frames with
  | [] => .error (.other "IndexError")
  | f :: _ => .ok f

def setLet (st : Stack) (l : LetObj) : Stack := { st with lets := st.lets ++ [l] }
def setRegister (st : Stack) (r : RegObj) : Stack := { st with regs := st.regs ++ [r] }

end Stack

/-- `int(x) == x` for a Python number. -/
def numIsInt : Num → Bool
  | .int _ => true
  | .flt d => d.normalize.isIntegral

/-- `validate_int(value)`: an `int` passes; a `QConstant` passes when its value is integral; the value
itself (not its integer) is returned.  (`lets` = the `QConstant`s created so far: the Python reads the
value off the object it is handed.) -/
def validateInt (lets : List LetObj) : Count → M QAtom
  | .lit n => .ok (.int n)
  | .ref i =>
    match lets[i]? with
    | none => .error (.other "KeyError")
    | some l => if numIsInt l.value then .ok (.const i) else .error (.jaqal "Invalid int value")

/-- Evaluation of one Python argument expression of a gate call: `1.5`, `lets[i]`, `regs[r]`,
`regs[r][idx]` (`QRegister.__getitem__` → `QNamedQubit.__init__` → `validate_int(index)`). -/
def mkArg (lets : List LetObj) : Arg → M QVal
  | .num v => .ok (.num v)
  | .ref i => .ok (.const i)
  | .reg r => .ok (.reg r)
  | .qubit r idx => do
      let a ← validateInt lets idx
      pure (.qubit r a)

/-- The argument of `Q.loop(repeats)` / `Q.subcircuit(argument)`: passed through unchecked. -/
def countVal : Count → QVal
  | .lit n => .num (.int n)
  | .ref i => .const i

/-- `Q.subcircuit(argument=1)`: an absent count IS the literal 1. -/
def subCountVal : SubCount → QVal
  | .absent => .num (.int 1)
  | .given c => countVal c

/-- The end of a block context manager, after the body ran (`st2`), `start` = depth before `push`:
```
        block = QXxx.from_stack(self._stack, argument)   # statements = list(stack.iter_statements())
    # leaving `with self._stack.frame()`: pop; if start_depth != depth: raise
self._stack.set_statement(block)
``` -/
def finishBlock (cls : BlockCls) (argument : QVal) (start : Nat) (st2 : Stack) : M Stack := do
  let stmts ← st2.iterStatements
  let blk := QStmt.block cls argument stmts
  let st3 ← st2.pop
  if start != st3.depth then throw (.jaqal "Stack depth changed in block")
  st3.setStatement blk

mutual
/-- The Q API calls that replay one statement. -/
def exec : Stmt → Stack → M Stack
  | .gate name args, st => do
      let a ← args.mapM (mkArg st.lets)
      st.setStatement (.gateCall name a)
  | .seq body, st => do
      let st2 ← execs body st.push
      finishBlock .seq .none st.depth st2
  | .par body, st => do
      let st2 ← execs body st.push
      finishBlock .par .none st.depth st2
  | .loop c body, st => do
      let st2 ← execs body st.push
      finishBlock .loop (countVal c) st.depth st2
  | .sub c body, st => do
      let st2 ← execs body st.push
      finishBlock .sub (subCountVal c) st.depth st2
def execs : List Stmt → Stack → M Stack
  | [], st => .ok st
  | s :: rest, st => do
      let st' ← exec s st
      execs rest st'
end

/-- `Q.register(size, name)` for every register: `QRegister.__init__` validates the size. -/
def declRegs : List RegDecl → Stack → M Stack
  | [], st => .ok st
  | r :: rest, st => do
      let sz ← validateInt st.lets r.size
      declRegs rest (st.setRegister { size := sz, name := r.name })

/-- `Q.let(value, name)` for every let (`QConstant.__init__` accepts any `int` / `float`). -/
def declLets (ls : List LetDecl) (st : Stack) : Stack :=
  ls.foldl (fun st l => st.setLet { value := l.value, name := l.name }) st

/-- `inner` of the `circuit` decorator up to the call of `circuit_from_stack`: a fresh stack, one frame,
the user function. -/
def runQ (p : Prog) : M Stack := do
  let st := Stack.empty.push
  let st := declLets p.lets st
  let st ← declRegs p.regs st
  execs p.body st

def numSx : Num → Sx
  | .int v => .int v
  | .flt d => .flt d

def nameAt (names : List String) (i : Nat) : M String :=
  match names[i]? with
  | some n => .ok n
  | none => .error (.other "KeyError")

def lookupAtom (ln : List String) : QAtom → M Sx
  | .int n => .ok (.int n)
  | .const i => do pure (.str (← nameAt ln i))

/-- `lookup_object` with `let_dict` / `register_dict` given by the name lists. -/
def lookup (ln rn : List String) : QVal → M Sx
  | .num v => .ok (numSx v)
  | .const i => do pure (.str (← nameAt ln i))
  | .reg r => do pure (.str (← nameAt rn r))
  | .qubit r idx => do
      let s ← nameAt rn r
      let i ← lookupAtom ln idx
      pure (.list [.str "array_item", .str s, i])
  | .none => .ok .none

namespace BlockCls
def internalName : BlockCls → String
  | .seq => "sequential_block" | .par => "parallel_block" | .sub => "subcircuit_block" | .loop => "loop"
def arity : BlockCls → Nat
  | .sub | .loop => 1
  | _ => 0
def defaultArgument : BlockCls → Option Sx
  | .sub => some (.int 1)
  | _ => none
def wrapStatements : BlockCls → Bool
  | .loop => true
  | _ => false
end BlockCls

/-- `_validate_statement` / `_validate_inner_block`: only `QSubcircuitBlock` rejects a (direct) inner
`QSubcircuitBlock`; `QCase` does not occur. -/
def validInner : BlockCls → QStmt → Bool
  | .sub, .block .sub _ _ => false
  | _, _ => true

/-- The header of `QBlock.build` for `arity == 1`:
```
if self.argument is None:
    if self.default_argument is None: raise JaqalError(...)
    ret.append(self.default_argument)
else:
    ret.append(lookup_object(self.argument))
```
(The `else` is today's repair: before it `Q.subcircuit(None)` produced `["subcircuit_block", 1, None, …]`.) -/
def blockHeader (ln rn : List String) (cls : BlockCls) (argument : QVal) : M (List Sx) :=
  if cls.arity == 1 then
    if argument == .none then
      match cls.defaultArgument with
      | none => throw (.jaqal "requires an argument")
      | some d => pure [d]
    else do
      let a ← lookup ln rn argument
      pure [a]
  else pure []

mutual
/-- `QGateCall.build` / `QBlock.build`. -/
def buildQ (ln rn : List String) : QStmt → M Sx
  | .gateCall name args => do
      let a ← args.mapM (lookup ln rn)
      pure (.list (.str "gate" :: .str name :: a))
  | .block cls argument stmts => do
      let hd ← blockHeader ln rn cls argument
      let inner ← buildQs ln rn cls stmts
      if cls.wrapStatements then
        pure (.list (.str cls.internalName :: (hd ++ [.list (.str "sequential_block" :: inner)])))
      else
        pure (.list (.str cls.internalName :: (hd ++ inner)))
/-- `for stmt in self.statements: self._validate_statement(stmt); inner.append(stmt.build(…))` -/
def buildQs (ln rn : List String) (cls : BlockCls) : List QStmt → M (List Sx)
  | [] => .ok []
  | s :: rest => do
      if !validInner cls s then throw (.jaqal "cannot contain block")
      let x ← buildQ ln rn s
      let xs ← buildQs ln rn cls rest
      pure (x :: xs)
end

/-- Top-level statements are built without `_validate_statement`. -/
def buildTop (ln rn : List String) : List QStmt → M (List Sx)
  | [] => .ok []
  | s :: rest => do
      let x ← buildQ ln rn s
      let xs ← buildTop ln rn rest
      pure (x :: xs)

def prepareName : String := "prepare_all"
def measureName : String := "measure_all"

/-- `starts_with_prepare(name)`: `QGateCall`: `self.name == name`; `QSubcircuitBlock`: `True`;
other `QBlock`s (sequential, parallel, loop): `len(statements) > 0 and statements[0].starts_with_prepare`. -/
def startsWithPrepare (name : String) : QStmt → Bool
  | .gateCall n _ => n == name
  | .block .sub _ _ => true
  | .block _ _ [] => false
  | .block _ _ (s :: _) => startsWithPrepare name s

/-- `do_implicit_measure = len(statements) == 0 or not statements[0].starts_with_prepare(prepare)` -/
def doImplicitMeasure : List QStmt → Bool
  | [] => true
  | s :: _ => !startsWithPrepare prepareName s

def letSx (name : String) (l : LetObj) : Sx := .list [.str "let", .str name, numSx l.value]

def regSx (ln : List String) (name : String) (r : RegObj) : M Sx := do
  pure (.list [.str "register", .str name, ← lookupAtom ln r.size])

def regsSx (ln : List String) : List String → List RegObj → M (List Sx)
  | n :: ns, r :: rs => do
      let x ← regSx ln n r
      let xs ← regsSx ln ns rs
      pure (x :: xs)
  | _, _ => .ok []

/-- `circuit_from_stack` up to the call of `build` (no usepulses). -/
def circuitFromStack (st : Stack) : M Sx := do
  if st.depth > 1 then throw (.jaqal "Q stack corrupted: too many stack frames.")
  let (ln, rn) ← namer (st.lets.map (·.name)) (st.regs.map (·.name))
  let lets := List.zipWith letSx ln st.lets
  let regs ← regsSx ln rn st.regs
  let statements ← st.iterStatements
  let wrap := doImplicitMeasure statements
  let pre ← (if wrap then do pure [← buildQ ln rn (.gateCall prepareName [])] else pure [])
  let body ← buildTop ln rn statements
  let post ← (if wrap then do pure [← buildQ ln rn (.gateCall measureName [])] else pure [])
  pure (.list (.str "circuit" :: (lets ++ regs ++ pre ++ body ++ post)))

/-- Front end 3: the S-expression the decorated function passes to `build`. -/
def lowerQ (p : Prog) : M Sx := do
  let st ← runQ p
  -- leaving `with stack.frame()` happens after `circuit_from_stack` returned
  circuitFromStack st

/-! ## Shared pieces of the name-based front ends -/

def countSx (ln : List String) : Count → M Sx
  | .lit n => .ok (.int n)
  | .ref i => do pure (.str (← nameAt ln i))

def argSx (ln rn : List String) : Arg → M Sx
  | .num v => .ok (numSx v)
  | .ref i => do pure (.str (← nameAt ln i))
  | .reg r => do pure (.str (← nameAt rn r))
  | .qubit r idx => do
      let s ← nameAt rn r
      let i ← countSx ln idx
      pure (.list [.str "array_item", .str s, i])

def declLetSx (name : String) (l : LetDecl) : Sx := .list [.str "let", .str name, numSx l.value]

def declRegsSx (ln : List String) : List String → List RegDecl → M (List Sx)
  | n :: ns, r :: rs => do
      let sz ← countSx ln r.size
      let xs ← declRegsSx ln ns rs
      pure (.list [.str "register", .str n, sz] :: xs)
  | _, _ => .ok []

/-! ## `CircuitBuilder` -/

/-- `subcircuit(iterations=None)` → `SubcircuitBlockBuilder(iterations)`: `["subcircuit_block", iterations]`. -/
def ooSubCount (ln : List String) : SubCount → M Sx
  | .absent => .ok .none
  | .given c => countSx ln c

mutual
/-- The expression one builder call (and the calls on the returned child builder) appends.  The child
builder's list is appended to the parent's when the child is created and filled afterwards; Python
lists being references, the parent holds the filled list when `build` runs — modelled by value. -/
def ooStmt (ln rn : List String) : Stmt → M Sx
  | .gate name args => do
      let a ← args.mapM (argSx ln rn)
      pure (.list (.str "gate" :: .str name :: a))
  | .seq body => do pure (.list (.str "sequential_block" :: (← ooStmts ln rn body)))
  | .par body => do pure (.list (.str "parallel_block" :: (← ooStmts ln rn body)))
  | .loop c body => do
      let n ← countSx ln c
      let b ← ooStmts ln rn body
      pure (.list [.str "loop", n, .list (.str "sequential_block" :: b)])
  | .sub c body => do
      let n ← ooSubCount ln c
      let b ← ooStmts ln rn body
      pure (.list (.str "subcircuit_block" :: n :: b))
def ooStmts (ln rn : List String) : List Stmt → M (List Sx)
  | [] => .ok []
  | s :: rest => do
      let x ← ooStmt ln rn s
      let xs ← ooStmts ln rn rest
      pure (x :: xs)
end

/-- Front end 2: `CircuitBuilder().expression` after the calls described in the header. -/
def lowerOO (p : Prog) : M Sx := do
  let (ln, rn) ← namer p.letNames p.regNames
  let lets := List.zipWith declLetSx ln p.lets
  let regs ← declRegsSx ln rn p.regs
  let body ← ooStmts ln rn p.body
  pure (.list (.str "circuit" :: (lets ++ regs ++ body)))

/-! ## Jaqal text -/

/-- `subcircuit_gate_block` without a count: `ret.appendleft("")`. -/
def parseSubCount (ln : List String) : SubCount → M Sx
  | .absent => .ok (.str "")
  | .given c => countSx ln c

mutual
/-- `gate_statement`, `sequential_gate_block`, `parallel_gate_block`, `loop_statement`,
`subcircuit_gate_block` of slyparse.py. -/
def parseStmt (ln rn : List String) : Stmt → M Sx
  | .gate name args => do
      let a ← args.mapM (argSx ln rn)
      pure (.list (.str "gate" :: .str name :: a))
  | .seq body => do pure (.list (.str "sequential_block" :: (← parseStmts ln rn body)))
  | .par body => do pure (.list (.str "parallel_block" :: (← parseStmts ln rn body)))
  | .loop c body => do
      let n ← countSx ln c
      let b ← parseStmts ln rn body
      pure (.list [.str "loop", n, .list (.str "sequential_block" :: b)])
  | .sub c body => do
      let n ← parseSubCount ln c
      let b ← parseStmts ln rn body
      pure (.list (.str "subcircuit_block" :: n :: b))
def parseStmts (ln rn : List String) : List Stmt → M (List Sx)
  | [] => .ok []
  | s :: rest => do
      let x ← parseStmt ln rn s
      let xs ← parseStmts ln rn rest
      pure (x :: xs)
end

/-- Front end 1: what `parse_to_sexpression(render p)` returns when the text is grammatical (`legal p`,
names are identifiers other than keywords). -/
def parseSx (p : Prog) : M Sx := do
  let (ln, rn) ← namer p.letNames p.regNames
  let lets := List.zipWith declLetSx ln p.lets
  let regs ← declRegsSx ln rn p.regs
  let body ← parseStmts ln rn p.body
  pure (.list (.str "circuit" :: (lets ++ regs ++ body)))

def countText (ln : List String) : Count → M String
  | .lit n => .ok (NumText.genInt n)
  | .ref i => nameAt ln i

def argText (ln rn : List String) : Arg → M String
  | .num v => .ok (NumText.genNum v)
  | .ref i => nameAt ln i
  | .reg r => nameAt rn r
  | .qubit r idx => do pure ((← nameAt rn r) ++ "[" ++ (← countText ln idx) ++ "]")

mutual
def stmtText (ln rn : List String) : Stmt → M String
  | .gate name args => do
      let a ← args.mapM (argText ln rn)
      pure (" ".intercalate (name :: a))
  | .seq body => do pure ("{ " ++ " ; ".intercalate (← stmtsText ln rn body) ++ " }")
  | .par body => do pure ("< " ++ " | ".intercalate (← stmtsText ln rn body) ++ " >")
  | .loop c body => do
      pure ("loop " ++ (← countText ln c) ++ " { " ++ " ; ".intercalate (← stmtsText ln rn body) ++ " }")
  | .sub .absent body => do
      pure ("subcircuit { " ++ " ; ".intercalate (← stmtsText ln rn body) ++ " }")
  | .sub (.given c) body => do
      pure ("subcircuit " ++ (← countText ln c) ++ " { " ++ " ; ".intercalate (← stmtsText ln rn body) ++ " }")
def stmtsText (ln rn : List String) : List Stmt → M (List String)
  | [] => .ok []
  | s :: rest => do
      let x ← stmtText ln rn s
      let xs ← stmtsText ln rn rest
      pure (x :: xs)
end

def declRegsText (ln : List String) : List String → List RegDecl → M (List String)
  | n :: ns, r :: rs => do
      let sz ← countText ln r.size
      let xs ← declRegsText ln ns rs
      pure (("register " ++ n ++ "[" ++ sz ++ "]") :: xs)
  | _, _ => .ok []

/-- Canonical Jaqal text: one top-level statement per line; lets, then registers, then the body. -/
def render (p : Prog) : M String := do
  let (ln, rn) ← namer p.letNames p.regNames
  let lets := List.zipWith (fun n (l : LetDecl) => "let " ++ n ++ " " ++ NumText.genNum l.value) ln p.lets
  let regs ← declRegsText ln rn p.regs
  let body ← stmtsText ln rn p.body
  pure ("\n".intercalate (lets ++ regs ++ body) ++ "\n")

/-! ## Well-formedness, grammar legality, the wrap -/

def Count.wf (nl : Nat) : Count → Bool
  | .lit _ => true
  | .ref i => i < nl

def SubCount.wf (nl : Nat) : SubCount → Bool
  | .absent => true
  | .given c => c.wf nl

def Arg.wf (nl nr : Nat) : Arg → Bool
  | .num _ => true
  | .ref i => i < nl
  | .reg r => r < nr
  | .qubit r idx => r < nr && idx.wf nl

mutual
def Stmt.wf (nl nr : Nat) : Stmt → Bool
  | .gate _ args => args.all (Arg.wf nl nr)
  | .seq body => wfs nl nr body
  | .par body => wfs nl nr body
  | .loop c body => c.wf nl && wfs nl nr body
  | .sub c body => c.wf nl && wfs nl nr body
def wfs (nl nr : Nat) : List Stmt → Bool
  | [] => true
  | s :: rest => s.wf nl nr && wfs nl nr rest
end

/-- Every reference to a let / register exists. -/
def Prog.wf (p : Prog) : Bool :=
  p.regs.all (fun r => r.size.wf p.lets.length) && wfs p.lets.length p.regs.length p.body

/-- Where a statement stands, for the grammar: `top_statement`, `inner_seq_statement`
(inside `{}` — also the body of loops and subcircuits), `inner_par_statement` (inside `<>`). -/
inductive Ctx where
  | top | inSeq | inPar
  deriving DecidableEq, Repr

mutual
/-- The nesting the grammar of slyparse.py admits: top level: everything; inside `{}`: gate, `<>`, loop,
subcircuit; inside `<>`: gate, `{}`. -/
def Stmt.legal : Ctx → Stmt → Bool
  | _, .gate _ _ => true
  | c, .seq body => c != .inSeq && legals .inSeq body
  | c, .par body => c != .inPar && legals .inPar body
  | c, .loop _ body => c != .inPar && legals .inSeq body
  | c, .sub _ body => c != .inPar && legals .inSeq body
def legals : Ctx → List Stmt → Bool
  | _, [] => true
  | c, s :: rest => s.legal c && legals c rest
end

/-- `render p` is accepted by the parser (given names that are identifiers, not keywords):
legal nesting, and `register_statement` rejects a literal size `≤ 0`. -/
def Prog.legal (p : Prog) : Bool :=
  p.regs.all (fun r => match r.size with | .lit n => n > 0 | .ref _ => true) && legals .top p.body

mutual
/-- The statement is the prepare gate, or a subcircuit, or a sequential / parallel block or loop whose
body begins so. -/
def Stmt.beginsPrepOrSub : Stmt → Bool
  | .gate n _ => n == prepareName
  | .sub _ _ => true
  | .seq body => beginsPrepOrSub body
  | .par body => beginsPrepOrSub body
  | .loop _ body => beginsPrepOrSub body
/-- SPECIFICATION of "the body begins with a prepare or a subcircuit": its first statement does. -/
def beginsPrepOrSub : List Stmt → Bool
  | [] => false
  | s :: _ => s.beginsPrepOrSub
end

def wraps (p : Prog) : Bool := !beginsPrepOrSub p.body

/-- The program with an explicit `prepare_all` … `measure_all` around the body. -/
def wrap (p : Prog) : Prog :=
  { p with body := .gate prepareName [] :: (p.body ++ [.gate measureName []]) }

/-! ## What `build` cannot tell apart -/

/-- `build_subcircuit_block`: `count = args[0]; if count == "" or count is None: built_count = 1 else
built_count = self.build(count, …)`, and `self.build(1)` is `1` (not a `str`, not convertible).  So a
first argument `""` (parser), `None` (`CircuitBuilder.subcircuit()`) or `1` (`Q.subcircuit()`) of a
list headed `"subcircuit_block"` give the same `BlockStatement(…, iterations=1)`.  Every list inside an
S-expression reaches `Builder.build` (statements of blocks and circuits, gate arguments), which
dispatches on the head string, so the rewrite is applied to every list with that head. -/
def normCount : Sx → Sx
  | .str "" => .int 1
  | .none => .int 1
  | x => x

mutual
def norm : Sx → Sx
  | .list (.str "subcircuit_block" :: c :: rest) =>
      .list (.str "subcircuit_block" :: normCount (norm c) :: normList rest)
  | .list l => .list (normList l)
  | x => x
def normList : List Sx → List Sx
  | [] => []
  | x :: xs => norm x :: normList xs
end

end Jaqal.FrontEnds
