import JaqalModel.Base.Sx
import JaqalModel.Base.Err
import JaqalModel.Model.Ir
import JaqalModel.Model.GateDef
import JaqalModel.Model.Resolve
/-!
The circuit builder `jaqalpaq.core.circuitbuilder.Builder` (S-expression → IR), by value, together with the
constructors it calls (`Register.__init__`, `NamedQubit.__init__`, `Register.__getitem__` / `Parameter.__getitem__`,
`Constant.__init__`, `AbstractGate.call`, `UsePulsesStatement.update_gates`, `normalize_native_gates`) and the
"too many registers" check of `parse_jaqal_string`.

## What is modelled exactly and what is not

The Python is dynamically typed: `Builder.build` puts whatever a sub-expression evaluates to into whatever slot it
is building (`["sequential_block", 3]` is a `BlockStatement` holding an `int`; `["register", "r", ["gate", "g"]]`
is a register whose size is a `GateStatement`).  The IR (`Val`, `Stmt`) has typed slots.  The model is exact on every
S-expression in which each slot holds the syntactic category the parser and the passes can put there
(a *value* — atom, `register`, `map`, `let`, `array_item` — where a value is expected; a statement where a
statement is expected) including all wrong arities, unknown commands, undefined names, wrong kinds of values
(a register used as an index, …).  Where an input would make the Python build an object the IR cannot hold, the
model answers `Err.other "Unmodelled:<why>"`; the differential test checks that on those inputs the Python either
raises or returns an object `dump.circuit` cannot dump, and tabulates what it did.

Recursion is on explicit fuel (`BSx.depth e + 1` suffices; exhausted fuel is `Err.hang` and never happens from
`build`), which makes every theorem about the builder a plain induction on the fuel.

## State

`Builder.gate_memo` and the shared, mutated `gate_context` dictionary are threaded as explicit state `St`.
`context` is passed functionally: the only in-place changes the Python makes to it below circuit level are the
block-context markers, which `in_block_context` restores on exit (they are the three Booleans of `Ctx`), and
`build_macro` works on a copy.  The memo table can be keyed as the code does now (`KeyMode.new`), as it did before
the repairs (`KeyMode.oldNum`: numbers compared by value; `KeyMode.old`: moreover context entries of top-level string
arguments only) or switched off (`KeyMode.off`).
-/
namespace Jaqal.Builder
open Jaqal

/-! ### Input: S-expressions that may contain already-built core objects -/

inductive BSx where
  | str (s : String)
  | int (v : Int)
  | flt (d : Dec)
  | none
  | list (l : List BSx)
  /-- an already-built `Constant`, `Register`, `NamedQubit`, `Parameter` (or number) handed in by a pass -/
  | val (v : Val)
  deriving Repr, Inhabited

mutual
def BSx.ofSx : Sx → BSx
  | .str s => .str s
  | .int v => .int v
  | .flt d => .flt d
  | .none => .none
  | .list l => .list (BSx.ofSxList l)
def BSx.ofSxList : List Sx → List BSx
  | [] => []
  | x :: xs => BSx.ofSx x :: BSx.ofSxList xs
end

mutual
/-- nesting depth of lists -/
def BSx.depth : BSx → Nat
  | .list l => BSx.depthList l + 1
  | _ => 0
def BSx.depthList : List BSx → Nat
  | [] => 0
  | x :: xs => max (BSx.depth x) (BSx.depthList xs)
end

def unmodelled (why : String) : Err := .other ("Unmodelled:" ++ why)

/-- the Python goes on with a name that is the `str()` of a float or of an object (`p[0.5]`, `p[Register('r', 2)]`,
`usepulses 3`); the model does not compute such names (the Python may accept or reject what follows) -/
def unmodelledName (why : String) : Err := .other ("UnmodelledName:" ++ why)

/-! ### Python number comparisons -/

/-- the integer `value · 10^(-e)` for `e ≤` the number's exponent (`e ≤ 0` for an int) -/
def numScaled (n : Num) (e : Int) : Int :=
  match n with
  | .int v => v * (10 ^ (0 - e).toNat : Nat)
  | .flt d =>
    let m : Int := (d.mant * 10 ^ (d.exp - e).toNat : Nat)
    if d.neg then -m else m

def numExp : Num → Int
  | .int _ => 0
  | .flt d => d.exp

/-- Python `a < b` on ints/floats (exact on the decimal values, see `Base/Num.lean`) -/
def numLt (a b : Num) : Bool :=
  match a, b with
  | .int x, .int y => decide (x < y)
  | _, _ => let e := min (numExp a) (numExp b); decide (numScaled a e < numScaled b e)

/-- Python `a <= b` -/
def numLe (a b : Num) : Bool := !numLt b a

/-- `a < b`; `TypeError` unless both are numbers (`Register < int`, `None < int`, …) -/
def pyLt (a b : Val) : M Bool :=
  match a.toNum?, b.toNum? with
  | some x, some y => pure (numLt x y)
  | _, _ => throw (.other "TypeError")

def pyLe (a b : Val) : M Bool :=
  match a.toNum?, b.toNum? with
  | some x, some y => pure (numLe x y)
  | _, _ => throw (.other "TypeError")

/-- `v == 0` (the `__eq__` of every core class answers `False` for an int) -/
def pyEq0 (v : Val) : Bool :=
  match v.toNum? with
  | some x => Num.veq x (.int 0)
  | Option.none => false

/-- an argument of `range(...)`: only a Python int will do -/
def pyRangeArg : Val → M Int
  | .int v => pure v
  | _ => throw (.other "TypeError")

/-- `int(x)` truncation of a decimal -/
def decTrunc (d : Dec) : Int :=
  if d.exp ≥ 0 then d.toInt
  else
    let q : Int := (d.mant / 10 ^ (-d.exp).toNat : Nat)
    if d.neg then -q else q

/-- `int(size)` for whatever `Register.size` returned: an int, an integral float, a `Constant`
(`Constant.__int__`: JaqalError unless its value is a Python int), anything else `TypeError` -/
def pyIntOfSize : Val → M Int
  | .int v => pure v
  | .flt d => pure (decTrunc d)
  | .const _ (.int v) => pure v
  | .const _ _ => throw (.jaqal "constant-not-int")
  | _ => throw (.other "TypeError")

/-- `circuitbuilder.as_integer`: an integral float becomes an int, everything else is returned unchanged
(`int(Constant) == Constant` is `False`; `int(…)` of other objects raises and is swallowed) -/
def asIntegerV : Val → Val
  | .flt d => Val.ofNum (Num.asInteger (.flt d))
  | v => v

/-! ### `AnnotatedValue`s -/

def isAV : Val → Bool
  | .const _ _ => true
  | .param _ _ => true
  | _ => false

def avKind : Val → Kind
  | .param _ k => k
  | v => GateDef.constKind v

def isRegister : Val → Bool
  | .regF _ _ => true
  | .regA _ _ => true
  | .regS _ _ _ _ _ => true
  | _ => false

def isParam : Val → Bool
  | .param _ _ => true
  | _ => false

def kindIntOrNone (k : Kind) : Bool := k == .int || k == .none
def kindRegOrNone (k : Kind) : Bool := k == .register || k == .none

/-- `block._validate_count`: a loop or iteration count must be a Python int, or a constant or parameter of kind INT
or NONE -/
def validateCount (v : Val) : M Unit :=
  match v with
  | .int _ => pure ()
  | _ =>
    if isAV v && kindIntOrNone (avKind v) then pure () else throw (.jaqal "count-not-an-integer")

/-! ### `Register.__init__`, `NamedQubit.__init__` -/

/-- `Register(name, size)` -/
def mkRegister (name : String) (size : Val) : M Val :=
  match size with
  | .none => throw (.jaqal "invalid-register-declaration")
  | .int k => if k < 1 then throw (.jaqal "invalid-size") else pure (.regF name size)
  | .flt d => if !d.isIntegral || d.toInt < 1 then throw (.jaqal "invalid-size") else pure (.regF name size)
  | _ =>
    -- `not isinstance(size, (int, float, AnnotatedValue))`: a register, a qubit, … cannot size a register;
    -- nor can a constant or parameter of kind FLOAT
    if !isAV size then throw (.jaqal "invalid-size")
    else if avKind size == .float then throw (.jaqal "size-kind") else pure (.regF name size)

def isIntLit : Val → Bool
  | .int _ => true
  | _ => false

/-- `reg.size` (`Register.resolve_size({})`); a resolved slice step of zero is a JaqalError there -/
def regSize (src : Val) : M Val :=
  match Resolve.resolveSize [] src with
  | .error (.other "ValueError") => .error (.jaqal "zero-step")
  | r => r

/-- the branch of `Register.__init__` for a slice none of whose parts is an annotated value -/
def sliceKnownCheck (src start stop step : Val) : M Unit := do
  if ← pyLt start (.int 0) then throw (.jaqal "index-out-of-range")
  let size ← regSize src            -- `alias_from.size`
  if size == .none || isAV size then
    pure ()
  else
    if ← pyLt size stop then throw (.jaqal "index-out-of-range")      -- `stop > alias_from.size`
    let a ← pyRangeArg (Resolve.startOr0 start)
    let b ← pyRangeArg stop
    let s ← pyRangeArg (Resolve.stepOr1 step)
    let len ← Resolve.rangeLen a b s
    if len > 0 then
      -- `indices[0] >= alias_from.size or indices[-1] < 0`
      if (← pyLe size (.int a)) || a + (len - 1) * s < 0 then throw (.jaqal "index-out-of-range")

/-- the checks of `Register(name, alias_from=src, alias_slice=slice(start, stop, step))`; none of the bounds is
`None` (the builder has filled in the defaults). `src` is a register or a parameter. -/
def sliceCheck (src start stop step : Val) : M Unit := do
  -- every bound must be a Python int or an annotated value
  if !((isIntLit start || isAV start) && (isIntLit stop || isAV stop) && (isIntLit step || isAV step)) then
    throw (.jaqal "slice-bound-not-an-integer")
  -- `isinstance(step, int) and step == 0`
  if isIntLit step && pyEq0 step then throw (.jaqal "zero-step")
  if isAV start || isAV stop || isAV step || isAV src then
    if isAV start && !kindIntOrNone (avKind start) then throw (.jaqal "slice-start-kind")
    if isAV stop && !kindIntOrNone (avKind stop) then throw (.jaqal "slice-stop-kind")
    if isAV step && !kindIntOrNone (avKind step) then throw (.jaqal "slice-step-kind")
    if isAV src && !kindRegOrNone (avKind src) then throw (.jaqal "slice-source-kind")
  else sliceKnownCheck src start stop step

def mkSlice (name : String) (src start stop step : Val) : M Val := do
  sliceCheck src start stop step
  pure (.regS name src start stop step)

/-- the range check of `NamedQubit.__init__` against `int(alias_from.size)`;
`try: from_size = int(alias_from.size) except JaqalError: return` -/
def indexRangeCheck (src idx : Val) : M Unit :=
  match (regSize src >>= pyIntOfSize) with
  | .error (.jaqal _) => pure ()
  | .error e => throw e
  | .ok k => do
    if (← pyLt idx (.int 0)) || (← pyLe (.int k) idx) then throw (.jaqal "index-out-of-range")

/-- `not isinstance(alias_index, (int, float)) or alias_index != int(alias_index)` -/
def indexIntegralCheck : Val → M Unit
  | .int _ => pure ()
  | .flt d => if !d.isIntegral then throw (.jaqal "index-not-integer") else pure ()
  | _ => throw (.jaqal "index-not-integer")

/-- `isinstance(v, float) and not v.is_integer()` -/
def isFractional : Val → Bool
  | .flt d => !d.isIntegral
  | _ => false

/-- the checks of `NamedQubit(name, src, idx)` -/
def qubitCheck (src idx : Val) : M Unit := do
  if idx == .none || src == .none then throw (.jaqal "invalid-map")
  if isAV idx || isAV src then
    -- `not isinstance(alias_index, (int, float, AnnotatedValue))`
    if !(idx.isNum || isAV idx) || isFractional idx then throw (.jaqal "index-not-integer")
    if isAV idx && !kindIntOrNone (avKind idx) then throw (.jaqal "index-kind")
    if isAV src && !kindRegOrNone (avKind src) then throw (.jaqal "source-kind")
  else do
    indexIntegralCheck idx
    indexRangeCheck src idx

/-- `NamedQubit(name, src, idx)`. -/
def mkQubit (name : String) (src idx : Val) : M Val := do
  qubitCheck src idx
  pure (.qubit name src idx)

/-- `make_item_name(array, index)` when the index prints as in the model (an int or a name) -/
def itemName (arr : String) : Val → Option String
  | .int v => some s!"{arr}[{v}]"
  | .const n _ => some s!"{arr}[{n}]"
  | .param n _ => some s!"{arr}[{n}]"
  | _ => Option.none

/-- `Register.__getitem__(key)` / `Parameter.__getitem__(key)` for a non-slice key -/
def getItem (arr idx : Val) : M Val :=
  match arr.name? with
  | Option.none => throw (.other "AttributeError")
  | some an =>
    match itemName an idx with
    | some n => mkQubit n arr idx
    | Option.none => do
      -- the name would be `str()` of a float or of an object; everything that then still constructs is outside the IR
      let _ ← mkQubit an arr idx
      throw (unmodelledName "qubit-name")

/-! ### Contexts -/

structure Ctx where
  vars : List (String × Val) := []
  inSeq : Bool := false
  inPar : Bool := false
  inSub : Bool := false
  deriving Repr, Inhabited

def Ctx.get (c : Ctx) (n : String) : Option Val := c.vars.lookup n

inductive GEntry where
  | gdef (g : GateDef)
  | macro (m : Macro)
  deriving Repr, Inhabited

/-- what a gate statement keeps of its definition -/
def GEntry.toDef : GEntry → GateDef
  | .gdef g => g
  | .macro m => { name := m.name, tag := .macro, params := m.params, hasUnitary := false }

abbrev GCtx := List (String × GEntry)

/-- `d[k] = v` on an insertion-ordered dictionary -/
def dictSet {β : Type} (k : String) (v : β) : List (String × β) → List (String × β)
  | [] => [(k, v)]
  | (k', v') :: r => if k' == k then (k, v) :: r else (k', v') :: dictSet k v r

/-! ### The gate memo table -/

/-- how the memo table is keyed: as the code does today (`new`); as it did before numbers were typed in the key
(`oldNum`: numbers compared with Python `==`, so `1` and `1.0` collide); as it did before that and before the key
covered names inside array items (`old`); or not at all (`off`). `noReset` is today's key with `usepulses`
handled as it was before two repairs: no reset of the table when a `usepulses` statement loads gates, and no rejection
of a `usepulses` statement that comes after the first gate or macro. -/
inductive KeyMode where
  | new | noReset | oldNum | old | off
  deriving DecidableEq, Repr, Inhabited

/-- are numbers in the argument tuple compared with Python `==` (the keys before `_make_hashable` typed them)? -/
def KeyMode.numByValue : KeyMode → Bool
  | .old => true
  | .oldNum => true
  | _ => false

mutual
/-- `make_context_entry` of today's `_make_gate_memo_key`, flattened in traversal order (the nesting of the
Python tuple repeats the nesting of the argument, which is part of the key anyway) -/
def entsOf (ctx : Ctx) : BSx → List (Option Val)
  | .str s => [ctx.get s]
  | .list l => entsOfList ctx l
  | _ => [Option.none]
def entsOfList (ctx : Ctx) : List BSx → List (Option Val)
  | [] => []
  | x :: xs => entsOf ctx x ++ entsOfList ctx xs
end

/-- the key before the repair: `context.get(arg)` for top-level string arguments, `None` otherwise -/
def entsOld (ctx : Ctx) : List BSx → List (Option Val)
  | [] => []
  | .str s :: xs => ctx.get s :: entsOld ctx xs
  | _ :: xs => Option.none :: entsOld ctx xs

structure Key where
  name : String
  args : List BSx
  ents : List (Option Val)
  deriving Repr, Inhabited

def mkKey (mode : KeyMode) (ctx : Ctx) (name : String) (args : List BSx) : Key :=
  { name := name, args := args, ents := if mode = .old then entsOld ctx args else entsOfList ctx args }

mutual
/-- `==` of the hashable argument tuples as `_make_hashable` builds them today: a number is the pair of its type name
and its `repr`, so ints and floats never collide and `0.0 ≠ -0.0`; strings, `None` and nesting compare structurally.
Built objects inside arguments are compared structurally. -/
def BSx.keyEq : BSx → BSx → Bool
  | .str a, .str b => a == b
  | .int a, .int b => a == b
  | .flt a, .flt b => decide (a = b)
  | .none, .none => true
  | .list a, .list b => BSx.keyEqList a b
  | .val a, .val b => decide (a = b)
  | _, _ => false
def BSx.keyEqList : List BSx → List BSx → Bool
  | [], [] => true
  | a :: as, b :: bs => BSx.keyEq a b && BSx.keyEqList as bs
  | _, _ => false
end

mutual
/-- the same before numbers were typed in the key: Python `==` on numbers (`1 == 1.0`, `hash(1) == hash(1.0)`) -/
def BSx.keyEqV : BSx → BSx → Bool
  | .str a, .str b => a == b
  | .int a, .int b => a == b
  | .int a, .flt b => Num.veq (.int a) (.flt b)
  | .flt a, .int b => Num.veq (.flt a) (.int b)
  | .flt a, .flt b => Num.veq (.flt a) (.flt b)
  | .none, .none => true
  | .list a, .list b => BSx.keyEqVList a b
  | .val a, .val b => decide (a = b)
  | _, _ => false
def BSx.keyEqVList : List BSx → List BSx → Bool
  | [], [] => true
  | a :: as, b :: bs => BSx.keyEqV a b && BSx.keyEqVList as bs
  | _, _ => false
end

def Key.eqv (byValue : Bool) (a b : Key) : Bool :=
  a.name == b.name && (if byValue then BSx.keyEqVList a.args b.args else BSx.keyEqList a.args b.args) &&
    decide (a.ents = b.ents)

abbrev Memo := List (Key × Stmt)

def Memo.find (byValue : Bool) (m : Memo) (k : Key) : Option Stmt :=
  match m with
  | [] => Option.none
  | (k', g) :: r => if Key.eqv byValue k' k then some g else Memo.find byValue r k

structure St where
  memo : Memo := []
  gctx : GCtx := []
  deriving Repr, Inhabited

/-! ### Configuration -/

structure Config where
  /-- `inject_pulses` (a list, or the values of a dict whose keys are the gate names) -/
  natives : Option (List GateDef) := Option.none
  autoload : Bool := false
  /-- `get_jaqal_gates(module)`: `none` = `ImportError` -/
  imports : String → Option (List GateDef) := fun _ => Option.none

/-- `normalize_native_gates` -/
def normNatives (gs : List GateDef) : M (List (String × GateDef)) :=
  let d := gs.foldl (fun acc g => dictSet g.name g acc) []
  if d.any (fun p => p.2.tag == .macro) then throw (.jaqal "native-gates-must-be-gate-definitions") else pure d

/-- `self.inject_pulses` after `Builder.__init__` -/
def Config.inject (cfg : Config) : M (Option (List (String × GateDef))) :=
  match cfg.natives with
  | Option.none => pure Option.none
  | some gs => do pure (some (← normNatives gs))

/-! ### Values: atoms, `register`, `map`, `let`, `array_item` (no state involved) -/

def lookupId (ctx : Ctx) (s : String) : M Val :=
  match ctx.get s with
  | some v => pure v
  | Option.none => throw (.jaqal "identifier-not-found")

/-- commands that exist as `build_<command>` methods and yield statements, macros, circuits, … -/
def statefulCmds : List String :=
  ["circuit", "macro", "gate", "loop", "branch", "case", "sequential_block", "parallel_block",
   "subcircuit_block", "unscheduled_block", "block", "usepulses"]

def valueCmds : List String := ["register", "map", "let", "array_item"]

def strOf : BSx → M String
  | .str s => pure s
  | _ => throw (unmodelled "name-not-a-string")

/-- `Constant(name, as_integer(value))` on the raw (unbuilt) second argument of `let` -/
def mkConstant (name : String) : BSx → M Val
  | .int v => pure (.const name (.int v))
  | .flt d => pure (.const name (asIntegerV (.flt d)))
  | .val (.int v) => pure (.const name (.int v))
  | .val (.flt d) => pure (.const name (asIntegerV (.flt d)))
  | .val (.const n v) => pure (.const name (.const n v))
  | _ => throw (.jaqal "non-numeric-constant")

/-- the source of a `map`: `args[1]` itself if `isinstance(args[1], Register)`, else `context[src_name]`, which
must be a register or a parameter -/
def mapSource (get : String → Option Val) : BSx → M Val
  | .val v => if isRegister v then pure v else throw (.jaqal "map-source-does-not-exist")
  | .str s =>
    match get s with
    | some v => if isRegister v || isParam v then pure v else throw (.jaqal "map-source-not-a-register")
    | Option.none => throw (.jaqal "map-source-does-not-exist")
  | .list _ => throw (.other "TypeError")         -- unhashable dictionary key
  | _ => throw (.jaqal "map-source-does-not-exist")

/-- `if stop is None: stop = src.size` -/
def defaultStop (src stop0 : Val) : M Val :=
  if stop0 == .none then
    match src with
    | .param _ _ => throw (.other "AttributeError")      -- a `Parameter` has no `.size`
    | _ => regSize src
  else pure stop0

/-- One `build_<command>` step for the value commands: `get` is `context.get`, `rec` is `self.build` on a
sub-expression (one level of fuel less). -/
def valStep (get : String → Option Val) (rec : BSx → M Val) (l : List BSx) : M Val :=
  match l with
  | [] => throw (.jaqal "sexpression-first-element")
  | .str cmd :: args =>
    if cmd = "register" then
      match args with
      | [name, size] => do
        let n ← strOf name
        let sz ← rec size
        mkRegister n (asIntegerV sz)
      | _ => throw (.other "ValueError")
    else if cmd = "let" then
      match args with
      | [name, value] => do
        let n ← strOf name
        mkConstant n value
      | _ => throw (.jaqal "let-requires-two-arguments")
    else if cmd = "array_item" then
      match args with
      | [ident, index] => do
        let arr ← rec ident
        let idx := asIntegerV (← rec index)
        if !(isRegister arr || isParam arr) then throw (.jaqal "not-a-register")
        getItem arr idx
      | _ => throw (.other "ValueError")
    else if cmd = "map" then
      match args with
      | name :: srcE :: rest => do
        let src ← mapSource get srcE
        match rest with
        | [] => do
          let n ← strOf name
          pure (.regA n src)
        | [idxE] => do
          let n ← strOf name
          let idx ← rec idxE
          mkQubit n src (asIntegerV idx)
        | [startE, stopE, stepE] => do
          let n ← strOf name
          let start0 ← rec startE
          let start := if asIntegerV start0 == .none then .int 0 else asIntegerV start0
          let stop0 ← rec stopE
          let stop ← defaultStop src (asIntegerV stop0)
          let step0 ← rec stepE
          let step := if asIntegerV step0 == .none then .int 1 else asIntegerV step0
          mkSlice n src start stop step
        | _ => throw (.jaqal "map-wrong-number-of-arguments")
      | _ => throw (.jaqal "map-wrong-number-of-arguments")
    else if cmd ∈ statefulCmds then throw (unmodelled "statement-in-value-position")
    else throw (.jaqal "cannot-handle-object")
  | _ => throw (.jaqal "sexpression-first-element")

/-- `self.build(expression, context, …)` for an expression in a value position. -/
def buildVal (ctx : Ctx) : Nat → BSx → M Val
  | _, .str s => lookupId ctx s
  | _, .int v => pure (.int v)
  | _, .flt d => pure (.flt d)
  | _, .none => pure .none
  | _, .val (.str _) => throw (unmodelled "string-object")
  | _, .val v => pure v
  | 0, .list _ => throw .hang
  | f+1, .list l => valStep ctx.get (buildVal ctx f) l

/-! ### `AbstractGate.call` with `OrderedDict` semantics for repeated parameter names -/

/-- `params[name] = arg` on an `OrderedDict` -/
def odSet (k : String) (v : Val) : List (String × Val) → List (String × Val)
  | [] => [(k, v)]
  | (k', v') :: r => if k' == k then (k', v) :: r else (k', v') :: odSet k v r

/-- `gate_def(*args)` (same computation as the shared `GateDef.callPos`; kept here with its own lemmas) -/
def callDef (gd : GateDef) (args : List Val) : M Stmt := do
  if args.length > gd.params.length then throw (.jaqal "too-many-parameters")
  let bound := ((gd.params.map (·.1)).zip args).foldl (fun acc p => odSet p.1 p.2 acc) []
  if gd.params.length ≠ bound.length then throw (.jaqal "bad-argument-count")
  GateDef.validateAll gd.params bound
  pure (.gate gd.name gd bound)

/-! ### Gate statements -/

def anonDef (name : String) (n : Nat) : GateDef :=
  { name := name, tag := .native, params := (List.range n).map (fun i => (s!"p{i}", Kind.none)), hasUnitary := false }

/-- is an unknown gate name given an anonymous definition? -/
def Config.anonymousAllowed (cfg : Config) : Bool := cfg.natives.isNone && !cfg.autoload

/-- `get_gate_definition` -/
def getGateDef (cfg : Config) (name : String) (argc : Nat) (g : GCtx) : M (GateDef × GCtx) :=
  match g.lookup name with
  | some e => pure (e.toDef, g)
  | Option.none =>
    if cfg.anonymousAllowed then
      let gd := anonDef name argc
      pure (gd, (name, .gdef gd) :: g)
    else throw (.jaqal "no-such-gate")

/-- the body of `build_gate` after a memo miss -/
def buildGateFresh (cfg : Config) (recV : BSx → M Val) (name : String) (args : List BSx) (g : GCtx) :
    M (Stmt × GCtx) := do
  let (gd, g') ← getGateDef cfg name args.length g
  let vals ← args.mapM recV
  let s ← callDef gd vals
  pure (s, g')

mutual
/-- `contains_subcircuit` on a statement, given (`look`) which macros contain a subcircuit block -/
def stmtHasSub (look : String → Bool) : Stmt → Bool
  | .gate _ gd _ => gd.tag == .macro && look gd.name       -- `contains_subcircuit(gate.gate_def)`
  | .block _ sub _ body => sub || stmtsHaveSub look body
  | .loop _ b => stmtHasSub look b
def stmtsHaveSub (look : String → Bool) : List Stmt → Bool
  | [] => false
  | s :: ss => stmtHasSub look s || stmtsHaveSub look ss
end

/-- `contains_subcircuit(gate_context.get(name))`, by value: the Python follows the `gate_def` pointers of the gate
statements in a macro body; here the called macro is looked up by name in the gate table (a macro's entry never
changes once made, and a macro body can only call macros defined before it, so `fuel` = size of the table suffices) -/
def macroHasSub (g : GCtx) : Nat → String → Bool
  | 0, _ => false
  | f+1, name =>
    match g.lookup name with
    | some (.macro m) => stmtHasSub (macroHasSub g f) m.body
    | _ => false

/-- the nesting check of `build_gate`: calling, inside a parallel or subcircuit block, a macro whose expansion would
put a subcircuit block there -/
def nestingCheck (ctx : Ctx) (g : GCtx) (name : String) : M Unit :=
  if (ctx.inSub || ctx.inPar) && macroHasSub g (g.length + 1) name then
    throw (.jaqal "nesting-subcircuit")
  else pure ()

/-- `build_gate` from the memo lookup on -/
def buildGateMemo (cfg : Config) (mode : KeyMode) (ctx : Ctx) (recV : BSx → M Val) (name : String) (gargs : List BSx)
    (st : St) : M (Stmt × St) :=
  let key := mkKey mode ctx name gargs
  match (if mode = .off then Option.none else Memo.find mode.numByValue st.memo key) with
  | some g => pure (g, st)
  | Option.none => do
    let (s, g') ← buildGateFresh cfg recV name gargs st.gctx
    pure (s, { memo := if mode = .off then st.memo else (key, s) :: st.memo, gctx := g' })

/-- `build_gate` -/
def buildGate (cfg : Config) (mode : KeyMode) (ctx : Ctx) (recV : BSx → M Val) (args : List BSx) (st : St) :
    M (Stmt × St) :=
  match args with
  | [] => throw (.other "ValueError")
  | .str name :: gargs => do
    nestingCheck ctx st.gctx name
    buildGateMemo cfg mode ctx recV name gargs st
  | _ :: _ => throw (unmodelled "gate-name-not-a-string")

/-! ### Statements, macros -/

inductive Obj where
  | val (v : Val)
  | stmt (s : Stmt)
  | macro (m : Macro)
  | usepulses (module : String)
  /-- a `CaseStatement` (its content never matters: `BranchStatement` refuses to be constructed) -/
  | case
  deriving Repr, Inhabited

/-- `[self.build(arg, …) for arg in args]` with the state threaded -/
def mapMSt (f : BSx → St → M (Obj × St)) : List BSx → St → M (List Obj × St)
  | [], st => pure ([], st)
  | x :: xs, st => do
    let (o, st1) ← f x st
    let (os, st2) ← mapMSt f xs st1
    pure (o :: os, st2)

/-- the members of a block must be statements for the IR to hold the block -/
def asStmts : List Obj → M (List Stmt)
  | [] => pure []
  | .stmt s :: r => do pure (s :: (← asStmts r))
  | _ :: _ => throw (unmodelled "non-statement-in-block")

def isStar : BSx → Bool
  | .str s => s == "*"
  | _ => false

def macroParam : BSx → M (String × Kind)
  | .str s => pure (s, Kind.none)
  | .val (.param n k) => pure (n, k)
  | _ => throw (unmodelled "macro-parameter")

/-- `{**context, **parameter_dict}` -/
def Ctx.withParams (ctx : Ctx) (ps : List (String × Kind)) : Ctx :=
  { ctx with vars := (ps.reverse.map (fun p => (p.1, Val.param p.1 p.2))) ++ ctx.vars }

/-- the iteration count of a subcircuit block: `""` and `None` read as 1 -/
def subCount (recV : BSx → M Val) : BSx → M Val
  | .str "" => pure (.int 1)
  | .none => pure (.int 1)
  | e => recV e

/-- One `build_<command>` step in general position: `recA` is `self.build` on a sub-expression in a given context,
`recV` the same for sub-expressions in value positions. -/
def anyStep (cfg : Config) (mode : KeyMode) (recA : Ctx → BSx → St → M (Obj × St)) (recV : BSx → M Val)
    (ctx : Ctx) (l : List BSx) (st : St) : M (Obj × St) :=
  match l with
  | [] => throw (.jaqal "sexpression-first-element")
  | .str cmd :: args =>
    if cmd = "gate" then do
      let (s, st') ← buildGate cfg mode ctx recV args st
      pure (.stmt s, st')
    else if cmd = "sequential_block" ∨ cmd = "block" then do
      let (os, st') ← mapMSt (recA { ctx with inSeq := true }) args st
      pure (.stmt (.block false false (.int 1) (← asStmts os)), st')
    else if cmd = "parallel_block" then do
      let (os, st') ← mapMSt (recA { ctx with inPar := true }) args st
      pure (.stmt (.block true false (.int 1) (← asStmts os)), st')
    else if cmd = "unscheduled_block" then do
      let (os, st') ← mapMSt (recA ctx) args st
      pure (.stmt (.block false false (.int 1) (← asStmts os)), st')
    else if cmd = "subcircuit_block" then
      if ctx.inSub || ctx.inPar then throw (.jaqal "nesting-subcircuit")
      else do
        let (os, st') ← mapMSt (recA { ctx with inSub := true }) args.tail st
        match args with
        | [] => throw (.other "IndexError")
        | countE :: _ => do
          let count ← subCount recV countE
          validateCount count
          pure (.stmt (.block false true count (← asStmts os)), st')
    else if cmd = "loop" then
      match args with
      | [countE, blockE] => do
        let count ← recV countE
        let (b, st') ← recA ctx blockE st
        match b with
        | .stmt s => do
          validateCount count
          pure (.stmt (.loop count s), st')
        | .val .none => do
          -- `LoopStatement(iterations, None)`: the body defaults to an empty sequential block
          validateCount count
          pure (.stmt (.loop count (.block false false (.int 1) [])), st')
        | _ => throw (unmodelled "loop-body-not-a-statement")
      | _ => throw (.other "ValueError")
    else if cmd = "case" then
      match args with
      | [stateE, blockE] => do
        let _ ← recV stateE
        let (_, st') ← recA ctx blockE st
        pure (.case, st')
      | _ => throw (.other "ValueError")
    else if cmd = "branch" then do
      let _ ← mapMSt (recA ctx) args st
      -- `BranchStatement.__init__`: `USE_EXPERIMENTAL_BRANCH` is off
      throw (.jaqal "branches-are-experimental")
    else if cmd = "macro" then
      if args.length < 2 then throw (.jaqal "macro-needs-two-arguments")
      else
        match args with
        | nameE :: rest => do
          let name ← strOf nameE
          if (st.gctx.lookup name).isSome then throw (.jaqal "redefine-gate")
          let params ← rest.dropLast.mapM macroParam
          match rest.getLast? with
          | Option.none => throw (.jaqal "macro-needs-two-arguments")
          | some blockE => do
            let (b, st') ← recA (ctx.withParams params) blockE st
            match b with
            | .stmt (.block par sub it body) =>
              pure (.macro { name := name, params := params, body := .block par sub it body }, st')
            | _ => throw (.jaqal "macro-body-must-be-a-block")
        | [] => throw (.jaqal "macro-needs-two-arguments")
    else if cmd = "usepulses" then
      match args with
      | [nameE, filt] => do
        -- `(filt is not all) and (filt != "*")`
        if !isStar filt then throw (.jaqal "only-usepulses-star")
        -- `name = str(name)`
        match nameE with
        | .str name => pure (.usepulses name, st)
        | _ => throw (unmodelledName "usepulses-module")
      | _ => throw (.other "ValueError")
    else if cmd = "circuit" then throw (unmodelled "nested-circuit")
    else do
      let v ← valStep ctx.get recV l
      pure (.val v, st)
  | _ => throw (.jaqal "sexpression-first-element")

/-- `self.build(expression, context, gate_context)` in general position. -/
def buildAny (cfg : Config) (mode : KeyMode) : Nat → Ctx → BSx → St → M (Obj × St)
  | 0, _, .list _, _ => throw .hang
  | f+1, ctx, .list l, st => anyStep cfg mode (buildAny cfg mode f) (buildVal ctx f) ctx l st
  | f, ctx, e, st => do
    let v ← buildVal ctx f e
    pure (.val v, st)

/-! ### `rebuild_macro_in_context` -/

mutual
def rebuildStmt (g : GCtx) : Stmt → M (Bool × Stmt)
  | .gate name gd args =>
    match g.lookup name with
    | some (.macro m) =>
      -- `gate_def == gate.gate_def` (`Macro.__eq__`; by value the bodies are not available: a definition
      -- that is not a macro has no `.body`)
      if m.name == gd.name && decide (m.params = gd.params) then
        if gd.tag == .macro then pure (false, .gate name gd args) else throw (.other "AttributeError")
      else do
        let s ← callDef (GEntry.toDef (.macro m)) (args.map (·.2))
        pure (true, s)
    | _ => pure (false, .gate name gd args)
  | .block par sub it body => do
    let (ch, body') ← rebuildList g body
    -- the rebuilt block keeps only the `parallel` flag
    if ch then pure (true, .block par false (.int 1) body') else pure (false, .block par sub it body)
  | .loop c b => do
    let (ch, b') ← rebuildStmt g b
    if ch then pure (true, .loop c b') else pure (false, .loop c b)
def rebuildList (g : GCtx) : List Stmt → M (Bool × List Stmt)
  | [] => pure (false, [])
  | s :: ss => do
    let (c1, s') ← rebuildStmt g s
    let (c2, ss') ← rebuildList g ss
    pure (c1 || c2, s' :: ss')
end

def rebuildMacro (g : GCtx) (m : Macro) : M Macro := do
  let (ch, b) ← rebuildStmt g m.body
  pure (if ch then { m with body := b } else m)

/-! ### `build_circuit` -/

structure Acc where
  ctx : Ctx := {}
  st : St := {}
  registers : List Val := []
  constants : List Val := []
  macros : List Macro := []
  stmts : List Stmt := []
  usepulses : List String := []
  natives : List (String × GateDef) := []
  deriving Repr, Inhabited

/-- `add_to_context` -/
def addVar (ctx : Ctx) (name : String) (v : Val) : M Ctx :=
  if (ctx.get name).isSome then throw (.jaqal "already-exists-in-context")
  else pure { ctx with vars := (name, v) :: ctx.vars }

/-- `UsePulsesStatement.update_gates(gates, inject_pulses)` -/
def updateGates {β : Type} (wrap : GateDef → β) (inject : Option (List (String × GateDef))) (imported : List GateDef)
    (gates : List (String × β)) : List (String × β) :=
  imported.foldl (fun acc g =>
    match inject with
    | some (i :: is) => if ((i :: is).lookup g.name).isSome then acc else dictSet g.name (wrap g) acc
    | _ => dictSet g.name (wrap g) acc) gates

/-- the `isinstance` dispatch of `build_circuit` on the object a child was built to -/
def stepTail (cfg : Config) (mode : KeyMode) (inject : Option (List (String × GateDef))) (acc : Acc) (obj : Obj)
    (st : St) : M Acc :=
  match obj with
  | .val v =>
    match v with
    | .regF n _ | .regA n _ | .regS n _ _ _ _ | .qubit n _ _ => do
      let ctx ← addVar acc.ctx n v
      pure { acc with ctx := ctx, st := st, registers := acc.registers ++ [v] }
    | .const n _ => do
      let ctx ← addVar acc.ctx n v
      pure { acc with ctx := ctx, st := st, constants := acc.constants ++ [v] }
    | _ => throw (.jaqal "cannot-process-object-at-circuit-level")
  | .macro m => do
    let m' ← rebuildMacro st.gctx m
    if (st.gctx.lookup m'.name).isSome then throw (.jaqal "already-exists-in-context")
    pure { acc with st := { st with gctx := (m'.name, .macro m') :: st.gctx }, macros := acc.macros ++ [m'] }
  | .stmt s => pure { acc with st := st, stmts := acc.stmts ++ [s] }
  | .case => throw (unmodelled "case-statement-at-circuit-level")
  | .usepulses name =>
    if cfg.autoload then
      -- statements already built are bound to the gate definitions known so far, which this import could replace
      if mode != .noReset && (!acc.stmts.isEmpty || !acc.macros.isEmpty) then
        throw (.jaqal "pulses-after-first-gate-or-macro")
      else
      match cfg.imports name with
      | Option.none => throw .importErr
      | some gs =>
        -- `self.gate_memo = GateMemoizer()`: the gates just loaded may replace definitions memoised statements use
        pure { acc with st := { memo := if mode = .noReset then st.memo else [],
                                gctx := updateGates GEntry.gdef inject gs st.gctx },
                        usepulses := acc.usepulses ++ [name],
                        natives := updateGates id inject gs acc.natives }
    else pure { acc with st := st, usepulses := acc.usepulses ++ [name] }

/-- one iteration of the loop of `build_circuit` -/
def circuitStep (cfg : Config) (mode : KeyMode) (inject : Option (List (String × GateDef))) (fuel : Nat)
    (acc : Acc) (child : BSx) : M Acc := do
  let (obj, st) ← buildAny cfg mode fuel acc.ctx child acc.st
  stepTail cfg mode inject acc obj st

def circuitLoop (cfg : Config) (mode : KeyMode) (inject : Option (List (String × GateDef))) (fuel : Nat) :
    Acc → List BSx → M Acc
  | acc, [] => pure acc
  | acc, c :: cs => do
    let acc' ← circuitStep cfg mode inject fuel acc c
    circuitLoop cfg mode inject fuel acc' cs

def Acc.toCircuit (acc : Acc) : Circuit :=
  { usepulses := acc.usepulses.map (fun n => (n, "*")),
    constants := acc.constants, registers := acc.registers, macros := acc.macros,
    natives := acc.natives.map (·.2),
    body := .block false false (.int 1) acc.stmts }

/-- `Builder.build(expression)` once `self.inject_pulses` is normalised -/
def buildCore (mode : KeyMode) (cfg : Config) (inject : Option (List (String × GateDef))) (e : BSx) : M Circuit :=
  let g0 : List (String × GateDef) := inject.getD []
  let fuel := e.depth + 1
  match e with
  | .list (.str "circuit" :: children) => do
    let acc0 : Acc := { st := { gctx := g0.map (fun p => (p.1, GEntry.gdef p.2)) }, natives := g0 }
    let acc ← circuitLoop cfg mode inject fuel acc0 children
    pure acc.toCircuit
  | _ => do
    let _ ← buildAny cfg mode fuel {} e { gctx := g0.map (fun p => (p.1, GEntry.gdef p.2)) }
    throw (unmodelled "not-a-circuit")

/-- `Builder(inject_pulses, autoload_pulses).build(expression)` with the memo table keyed by `mode`. -/
def buildWith (mode : KeyMode) (cfg : Config) (e : BSx) : M Circuit := do
  let inject ← cfg.inject
  buildCore mode cfg inject e

def build (cfg : Config) (e : BSx) : M Circuit := buildWith .new cfg e
def buildNoMemo (cfg : Config) (e : BSx) : M Circuit := buildWith .off cfg e
def buildOldKey (cfg : Config) (e : BSx) : M Circuit := buildWith .old cfg e
def buildOldNumKey (cfg : Config) (e : BSx) : M Circuit := buildWith .oldNum cfg e
def buildNoReset (cfg : Config) (e : BSx) : M Circuit := buildWith .noReset cfg e

/-- `reg.fundamental` over `circuit.registers.values()` (a `NamedQubit` is never fundamental) -/
def isFundamental : Val → Bool
  | .regF _ _ => true
  | _ => false

/-- the tail of `parse_jaqal_string` (no pass requested) -/
def tooManyRegisters (c : Circuit) : M Circuit :=
  if (c.registers.filter isFundamental).length > 1 then throw (.jaqal "too-many-registers") else pure c

def parseBuild (cfg : Config) (sx : Sx) : M Circuit := do
  let c ← build cfg (BSx.ofSx sx)
  tooManyRegisters c

end Jaqal.Builder
