import JaqalModel.Model.Ir
import JaqalModel.Base.Err
import JaqalModel.Model.GateDef
/-!
`expand_subcircuits` (`/repo/src/jaqalpaq/core/algorithm/expand_subcircuits.py`), by value on the shared IR.

* `_choose_bounding_gate`: a definition object supplied by the caller is used as it is; a name supplied
  by the caller, or else the default name, must not be the name of a macro of the circuit (`JaqalError`, raised
  before anything else: first for prepare, then for measure); it is looked up in the circuit's native gates; when
  the lookup fails a fresh `GateDefinition(name)` without parameters is made.
* `SubcircuitExpander`: macros are rebuilt first (in order), then the body.  A subcircuit block becomes
  `BlockStatement(parallel=block.parallel, statements=[prepare_def(), *visited, measure_def()])`
  — the subcircuit flag and the iteration count are NOT passed on (defaults `False`, `1`); any other
  block becomes `BlockStatement(parallel=block.parallel, statements=visited)`; loops keep their count (the rebuilt
  `LoopStatement` re-runs `_validate_count`: a float count → `JaqalError`).
* `prepare_def()` is `AbstractGate.call` without arguments: a definition that has parameters raises
  `JaqalError` ("Bad argument count").  `prepare_def()` is evaluated before the statements of the block
  are visited and `measure_def()` after.
-/
namespace Jaqal.ExpandSubcircuits
open Jaqal

/-- what the caller may pass as `prepare_def` / `measure_def` -/
inductive GateDefChoice where
  | name (n : String)
  | defn (g : GateDef)
  deriving Repr, Inhabited

/-- `GateDefinition(name)` -/
def freshDef (name : String) : GateDef := { name := name, tag := .native, params := [], hasUnitary := false }

/-- `circuit.native_gates[name]` -/
def findNative (c : Circuit) (name : String) : Option GateDef := c.natives.find? (·.name == name)

/-- the definition `_choose_bounding_gate(user_def, default_name, circuit)` returns when it returns -/
def chooseBounding (user : Option GateDefChoice) (dflt : String) (c : Circuit) : GateDef :=
  match user with
  | some (.defn g) => g
  | some (.name n) => (findNative c n).getD (freshDef n)
  | none => (findNative c dflt).getD (freshDef dflt)

/-- the `name` `_choose_bounding_gate` looks up: the caller's string or the default; none when the caller supplied a
definition object (returned at once) -/
def boundingName (user : Option GateDefChoice) (dflt : String) : Option String :=
  match user with
  | some (.defn _) => none
  | some (.name n) => some n
  | none => some dflt

/-- `name in circuit.macros` -/
def boundingClash (user : Option GateDefChoice) (dflt : String) (c : Circuit) : Bool :=
  match boundingName user dflt with
  | some n => c.macros.any (·.name == n)
  | none => false

/-- `_choose_bounding_gate(user_def, default_name, circuit)`: `JaqalError` when the looked-up name is defined as a
macro of the circuit (checked before the native-gates lookup, whether or not a subcircuit block occurs) -/
def chooseBoundingM (user : Option GateDefChoice) (dflt : String) (c : Circuit) : M GateDef :=
  if boundingClash user dflt c then .error (.jaqal "bounding-name-is-a-macro") else pure (chooseBounding user dflt c)

/-- `_validate_count(count, …)` raises: the count is neither an `int` nor a constant / parameter of kind INT or
NONE (a float, a FLOAT constant, a qubit or register parameter kind, a register, a qubit, `None` are all rejected) -/
def badCount : Val → Bool
  | .int _ => false
  | .const _ v => !(GateDef.constKind v == .int || GateDef.constKind v == .none)
  | .param _ k => !(k == .int || k == .none)
  | _ => true

/-- `LoopStatement(iterations, statements)` -/
def mkLoop (count : Val) (body : Stmt) : M Stmt :=
  if badCount count then .error (.jaqal "count-not-integer") else pure (.loop count body)

mutual
  /-- `SubcircuitExpander(prep, meas).visit(stmt)` -/
  def visitStmt (prep meas : GateDef) : Stmt → M Stmt
    | .gate n gd a => pure (.gate n gd a)
    | .loop count body => do
      let b' ← visitStmt prep meas body
      mkLoop count b'
    | .block par sub _ body =>
      if sub then do
        let p ← GateDef.callPos prep []
        let stmts ← visitList prep meas body
        let m ← GateDef.callPos meas []
        pure (.block par false (.int 1) (p :: stmts ++ [m]))
      else do
        let stmts ← visitList prep meas body
        pure (.block par false (.int 1) stmts)
  def visitList (prep meas : GateDef) : List Stmt → M (List Stmt)
    | [] => pure []
    | s :: rest => do
      let s' ← visitStmt prep meas s
      let rest' ← visitList prep meas rest
      pure (s' :: rest')
end

def visitMacros (prep meas : GateDef) : List Macro → M (List Macro)
  | [] => pure []
  | m :: rest => do
    let b ← visitStmt prep meas m.body
    let rest' ← visitMacros prep meas rest
    pure ({ name := m.name, params := m.params, body := b } :: rest')

/-- iterating over a statement (`BlockStatement.__iter__`, `LoopStatement.__iter__`) -/
def iterStmts : Stmt → M (List Stmt)
  | .block _ _ _ b => pure b
  | .loop _ b => iterStmts b
  | .gate _ _ _ => .error (.other "TypeError")

/-- `new_circuit.body.statements.extend(x.statements)` -/
def statementsOf : Stmt → M (List Stmt)
  | .block _ _ _ b => pure b
  | .loop _ b => iterStmts b
  | .gate _ _ _ => .error (.other "AttributeError")

/-- `expand_subcircuits(circuit, prepare_def, measure_def)` -/
def expandSubcircuits (prep meas : Option GateDefChoice) (c : Circuit) : M Circuit := do
  let p ← chooseBoundingM prep "prepare_all" c
  let m ← chooseBoundingM meas "measure_all" c
  let macros ← visitMacros p m c.macros
  let body ← visitStmt p m c.body
  let stmts ← statementsOf body
  pure { usepulses := c.usepulses, constants := c.constants, registers := c.registers,
         macros := macros, natives := c.natives, body := .block false false (.int 1) stmts }

end Jaqal.ExpandSubcircuits
