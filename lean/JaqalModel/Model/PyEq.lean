import JaqalModel.Model.Ir
import JaqalModel.Model.Resolve
/-!
# Python `==` on the circuit IR, exactly as the `__eq__` methods of `jaqalpaq.core` evaluate it

Transcribed from `/repo/src/jaqalpaq/core/`: `circuit.py` (`Circuit.__eq__`), `block.py`
(`BlockStatement.__eq__`, `LoopStatement.__eq__`), `gate.py` (`GateStatement.__eq__`: `zip_longest`
over the argument VALUES, keys ignored; the NaN rule is vacuous, every float of the model is finite),
`register.py` (`Register.__eq__`, `NamedQubit.__eq__`), `constant.py`, `parameter.py`
(`AnnotatedValue.__eq__`, inherited by `Parameter`), `macro.py`, `gatedef.py` (`AbstractGate.__eq__`),
`usepulses.py`; Python's `dict`/`list`/`slice` (tuple) equality.

How Python evaluates `a == b` here:

* every `__eq__` above returns a `bool` (never `NotImplemented`) and wraps its body in
  `try … except AttributeError: return False` (except `Macro.__eq__`, which is only ever applied to two macros);
* none of the classes is a subclass of another one that it is compared with, so `a.__eq__(b)` is tried
  first; only for `a` an `int`/`float`/`None`/`str` and `b` an object does `a.__eq__(b)` return
  `NotImplemented`, and then the reflected `b.__eq__(a)` runs: it reads `a.name` first, `AttributeError`,
  `False`;
* `and` short-circuits; `list`/`tuple`/`dict` comparisons stop at the first unequal element;
* a comparison can RAISE: `Register.__eq__` of a fundamental register reads `other.size`, a property that
  runs `resolve_size({})` on the other register — `JaqalError` for an alias of a parameter, `TypeError` /
  `ValueError` from `range`, and an endless loop for an alias whose source is a `Constant`. Only
  `AttributeError` is caught. So the result type is `M Bool`.

Not modelled (cannot be, by value): the identity shortcut of `list`/`tuple`/`dict` element comparison
(`x is y or x == y`). It agrees with `==` whenever `==` is reflexive on the element, which `C20_refl` shows
for every constructible value.
-/
namespace Jaqal.PyEq

/-- `a and b` with exceptions: `b` is not evaluated when `a` is false -/
@[inline] def andM (a : M Bool) (b : M Bool) : M Bool := do
  if ← a then b else pure false

/-- `.kind` of a `Constant`: fixed by the constructor from the value (`INT` / `FLOAT` / the kind of the
constant it renames). A constant with any other value cannot be constructed. -/
def constKind : Val → Kind
  | .int _ => .int
  | .flt _ => .float
  | .const _ v => constKind v
  | _ => .none

/-- does the Python object have a `.name` attribute (everything except numbers, `None`, `str`) -/
def hasName (v : Val) : Bool := v.name?.isSome

/-- `other.size` inside `Register.__eq__`: `AttributeError` is caught there (the comparison is `False`),
every other exception escapes. `none` = AttributeError. -/
def sizeAttr (b : Val) : M (Option Val) :=
  match Resolve.resolveSize [] b with
  | .ok s => pure (some s)
  | .error (.other cls) => if cls == "AttributeError" then pure none else .error (.other cls)
  | .error e => .error e

/-- Python `a == b` for any two values that can be an argument / index / size / bound / count. -/
def valEq : Val → Val → M Bool
  -- int.__eq__ / float.__eq__; NotImplemented for anything else, reflected `b.__eq__(a)`: `a.name` → False
  | .int x, b => pure (match b with
      | .int y => Num.veq (.int x) (.int y)
      | .flt y => Num.veq (.int x) (.flt y)
      | _ => false)
  | .flt x, b => pure (match b with
      | .int y => Num.veq (.flt x) (.int y)
      | .flt y => Num.veq (.flt x) (.flt y)
      | _ => false)
  | .none, b => pure (match b with | .none => true | _ => false)
  | .str s, b => pure (match b with | .str t => s == t | _ => false)
  -- Constant.__eq__: self.name == other.name and self.value == other.value
  | .const n v, b =>
    match b with
    | .const n' v' => if n == n' then valEq v v' else pure false
    | _ => pure false            -- no `.name`, or a different name, or no `.value`
  -- AnnotatedValue.__eq__: self.name == other.name and self.kind == other.kind
  | .param n k, b => pure (match b with
      | .param n' k' => n == n' && k == k'
      | .const n' v' => n == n' && k == constKind v'     -- a Constant HAS a kind
      | _ => false)
  -- NamedQubit.__eq__: name, alias_from.name, alias_index; anything but a NamedQubit lacks one of them
  | .qubit n src idx, b =>
    match b with
    | .qubit n' src' idx' =>
      if n == n' then
        match src.name?, src'.name? with
        | some s, some s' => if s == s' then valEq idx idx' else pure false
        | _, _ => pure false
      else pure false
    | _ => pure false
  -- Register.__eq__, fundamental: self.size == other.size
  | .regF n size, b =>
    match b.name? with
    | Option.none => pure false
    | some n' =>
      if n == n' then do
        match ← sizeAttr b with
        | Option.none => pure false
        | some s => valEq size s
      else pure false
  -- Register.__eq__, alias: self.alias_from == other.alias_from and self.alias_slice == other.alias_slice
  | .regA n src, b =>
    match b with
    | .qubit n' src' _ => if n == n' then do let _ ← valEq src src'; pure false else pure false   -- no alias_slice
    | .regF n' _ => if n == n' then valEq src .none else pure false     -- None == None for the slices
    | .regA n' src' => if n == n' then valEq src src' else pure false
    | .regS n' src' _ _ _ => if n == n' then do let _ ← valEq src src'; pure false else pure false   -- None == slice
    | _ => pure false
  | .regS n src st sp se, b =>
    match b with
    | .qubit n' src' _ => if n == n' then do let _ ← valEq src src'; pure false else pure false
    | .regF n' _ => if n == n' then do let _ ← valEq src .none; pure false else pure false   -- slice == None
    | .regA n' src' => if n == n' then do let _ ← valEq src src'; pure false else pure false
    | .regS n' src' st' sp' se' =>
      if n == n' then
        andM (valEq src src') (andM (valEq st st') (andM (valEq sp sp') (valEq se se')))
      else pure false
    | _ => pure false

/-- `all(are_equal(s, o) for s, o in zip_longest(self.parameters.values(), other.parameters.values()))` -/
def argsEq : List (String × Val) → List (String × Val) → M Bool
  | [], [] => pure true
  | a :: as, [] => andM (valEq a.2 .none) (argsEq as [])
  | [], b :: bs => andM (valEq .none b.2) (argsEq [] bs)
  | a :: as, b :: bs => andM (valEq a.2 b.2) (argsEq as bs)

/-- `list.__eq__` of two parameter lists (`Parameter == Parameter`: name and kind) -/
def paramsEq (a b : List (String × Kind)) : Bool := a == b

mutual
  /-- `a == b` for statements -/
  def stmtEq : Stmt → Stmt → M Bool
    -- GateStatement.__eq__: other.name, other.parameters
    | .gate n _ args, b =>
      match b with
      | .gate n' _ args' => if n == n' then argsEq args args' else pure false
      | _ => pure false
    -- BlockStatement.__eq__: parallel, subcircuit, iterations, statements
    | .block par sub it body, b =>
      match b with
      | .block par' sub' it' body' =>
        if par == par' && sub == sub' then
          andM (valEq it it') (if body.length == body'.length then stmtsEq body body' else pure false)
        else pure false
      | _ => pure false
    -- LoopStatement.__eq__: iterations, statements (a BlockStatement has both attributes)
    | .loop cnt body, b =>
      match b with
      | .loop cnt' body' => andM (valEq cnt cnt') (stmtEq body body')
      | .block _ _ it' _ => do let _ ← valEq cnt it'; pure false     -- statement == list → False
      | .gate .. => pure false
  /-- `list.__eq__` on two statement lists of the same length (the lengths are compared first, in
  `stmtEq`): element by element, stopping at the first unequal pair -/
  def stmtsEq : List Stmt → List Stmt → M Bool
    | [], _ => pure true
    | _ :: _, [] => pure true
    | a :: as, b :: bs => andM (stmtEq a b) (stmtsEq as bs)
end

/-- `Macro.__eq__` -/
def macroEq (a b : Macro) : M Bool :=
  if a.name == b.name && paramsEq a.params b.params then stmtEq a.body b.body else pure false

/-- `AbstractGate.__eq__`: name and parameters; the unitary and the class are not compared -/
def gateDefEq (a b : GateDef) : Bool := a.name == b.name && paramsEq a.params b.params

/-- `dict.__eq__`: same number of entries and, in `a`'s insertion order, every key of `a` is in `b`
with an equal value. -/
def dictEq {α} (key : α → Option String) (eq : α → α → M Bool) (a b : List α) : M Bool :=
  if a.length != b.length then pure false else
  let rec go : List α → M Bool
    | [] => pure true
    | x :: xs =>
      match b.find? (fun y => key y == key x) with
      | Option.none => pure false
      | some y => andM (eq x y) (go xs)
  go a

/-- `list.__eq__` with an element equality that cannot raise -/
def listEqB {α} (eq : α → α → Bool) : List α → List α → Bool
  | [], [] => true
  | a :: as, b :: bs => eq a b && listEqB eq as bs
  | _, _ => false

/-- `UsePulsesStatement.__eq__`: `_module` and `_names` -/
def usepulsesEq (a b : String × String) : Bool := a.1 == b.1 && a.2 == b.2

/-- `Circuit.__eq__`: constants, macros, native_gates, registers, body, usepulses — in this order. -/
def circuitEq (a b : Circuit) : M Bool :=
  andM (dictEq Val.name? valEq a.constants b.constants) <|
  andM (dictEq (fun m => some m.name) macroEq a.macros b.macros) <|
  andM (dictEq (fun g => some g.name) (fun x y => pure (gateDefEq x y)) a.natives b.natives) <|
  andM (dictEq Val.name? valEq a.registers b.registers) <|
  andM (stmtEq a.body b.body) <|
  pure (listEqB usepulsesEq a.usepulses b.usepulses)

end Jaqal.PyEq
