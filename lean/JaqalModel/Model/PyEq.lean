import JaqalModel.Model.Ir
/-!
# Python `==` on the circuit IR, exactly as the `__eq__` methods of `jaqalpaq.core` evaluate it

Transcribed from `/repo/src/jaqalpaq/core/` (after the repairs `042b591`, `dd507cc`): `circuit.py`
(`Circuit.__eq__`), `block.py` (`BlockStatement.__eq__`, `LoopStatement.__eq__`), `gate.py`
(`GateStatement.__eq__`: `zip_longest` over the argument VALUES, keys ignored; the NaN rule is vacuous, every
float of the model is finite), `register.py` (`Register.__eq__`, `NamedQubit.__eq__`), `constant.py`,
`parameter.py` (`AnnotatedValue.__eq__`, inherited by `Parameter`), `macro.py`, `gatedef.py`
(`AbstractGate.__eq__`), `usepulses.py`; Python's `dict`/`list`/`slice` (tuple) equality.

How Python evaluates `a == b` here:

* every `__eq__` above returns a `bool` (never `NotImplemented`) and wraps its attribute reads in
  `try … except AttributeError: return False` (except `Macro.__eq__`, which is only ever applied to two macros);
* none of the classes is a subclass of another one that it is compared with, so `a.__eq__(b)` is tried
  first; only for `a` an `int`/`float`/`None`/`str` and `b` an object does `a.__eq__(b)` return
  `NotImplemented`, and then the reflected `b.__eq__(a)` runs: it reads `a.name` first, `AttributeError`, `False`
  (`AnnotatedValue.__eq__`: `isinstance(a, AnnotatedValue)` is false, then `a.name`);
* NOTHING CAN RAISE any more: the only attribute reads are plain stored attributes (`name`, `kind`, `value`,
  `fundamental`, `_size`, `alias_from`, `alias_slice`, `alias_index`, `parallel`, …) — `Register.__eq__` used to
  read the computed property `other.size` (JaqalError / ValueError / endless loop); it now tests
  `self.fundamental != other.fundamental` and compares the stored `_size`. So the result type is `Bool`;
  `and`-short-circuiting and the order of comparisons are therefore unobservable and `&&` is used.

Not modelled (cannot be, by value): the identity shortcut of `list`/`tuple`/`dict` element comparison
(`x is y or x == y`). It agrees with `==` whenever `==` is reflexive on the element, which `C20_refl` shows
for every constructible value.
-/
namespace Jaqal.PyEq

/-- Python `a == b` for any two values that can be an argument / index / size / bound / count. -/
def valEq : Val → Val → Bool
  -- int.__eq__ / float.__eq__; NotImplemented for anything else, reflected `b.__eq__(a)`: `a.name` → False
  | .int x, .int y => Num.veq (.int x) (.int y)
  | .int x, .flt y => Num.veq (.int x) (.flt y)
  | .flt x, .int y => Num.veq (.flt x) (.int y)
  | .flt x, .flt y => Num.veq (.flt x) (.flt y)
  | .none, .none => true
  | .str s, .str t => s == t
  -- Constant.__eq__: self.name == other.name and self.value == other.value (only a Constant has `.value`)
  | .const n v, .const n' v' => n == n' && valEq v v'
  -- AnnotatedValue.__eq__: an annotated value of another class → False; then name and kind
  | .param n k, .param n' k' => n == n' && k == k'
  -- NamedQubit.__eq__: name, alias_from.name, alias_index; anything but a NamedQubit lacks one of them
  | .qubit n src idx, .qubit n' src' idx' =>
    n == n' && (match src.name?, src'.name? with
                | some s, some s' => s == s'
                | _, _ => false) && valEq idx idx'
  -- Register.__eq__: name; `fundamental` must agree; fundamental: the stored sizes
  | .regF n size, .regF n' size' => n == n' && valEq size size'
  -- alias: alias_from and alias_slice (`None == None`, `None == slice(..)` is False, slices compare as tuples)
  | .regA n src, .regA n' src' => n == n' && valEq src src'
  | .regS n src st sp se, .regS n' src' st' sp' se' =>
    n == n' && valEq src src' && valEq st st' && valEq sp sp' && valEq se se'
  | _, _ => false

/-- `all(are_equal(s, o) for s, o in zip_longest(self.parameters.values(), other.parameters.values()))` -/
def argsEq : List (String × Val) → List (String × Val) → Bool
  | [], [] => true
  | a :: as, [] => valEq a.2 .none && argsEq as []
  | [], b :: bs => valEq .none b.2 && argsEq [] bs
  | a :: as, b :: bs => valEq a.2 b.2 && argsEq as bs

/-- `list.__eq__` of two parameter lists (`Parameter == Parameter`: name and kind) -/
def paramsEq (a b : List (String × Kind)) : Bool := a == b

mutual
  /-- `a == b` for statements -/
  def stmtEq : Stmt → Stmt → Bool
    -- GateStatement.__eq__: other.name, other.parameters
    | .gate n _ args, .gate n' _ args' => n == n' && argsEq args args'
    -- BlockStatement.__eq__: parallel, subcircuit, iterations, statements (list: lengths first)
    | .block par sub it body, .block par' sub' it' body' =>
      par == par' && sub == sub' && valEq it it' && body.length == body'.length && stmtsEq body body'
    -- LoopStatement.__eq__: iterations, statements. (Against a BlockStatement, which has both attributes, the
    -- second comparison is statement == list → False.)
    | .loop cnt body, .loop cnt' body' => valEq cnt cnt' && stmtEq body body'
    | _, _ => false
  /-- `list.__eq__` on two statement lists of the same length (the lengths are compared first, in `stmtEq`) -/
  def stmtsEq : List Stmt → List Stmt → Bool
    | a :: as, b :: bs => stmtEq a b && stmtsEq as bs
    | _, _ => true
end

/-- `Macro.__eq__` -/
def macroEq (a b : Macro) : Bool :=
  a.name == b.name && paramsEq a.params b.params && stmtEq a.body b.body

/-- `AbstractGate.__eq__`: name and parameters; the unitary and the class are not compared -/
def gateDefEq (a b : GateDef) : Bool := a.name == b.name && paramsEq a.params b.params

/-- `dict.__eq__`: same number of entries and every key of `a` is in `b` with an equal value. -/
def dictEq {α} (key : α → Option String) (eq : α → α → Bool) (a b : List α) : Bool :=
  a.length == b.length &&
  a.all (fun x => match b.find? (fun y => key y == key x) with
                  | Option.none => false
                  | some y => eq x y)

/-- `list.__eq__` -/
def listEqB {α} (eq : α → α → Bool) : List α → List α → Bool
  | [], [] => true
  | a :: as, b :: bs => eq a b && listEqB eq as bs
  | _, _ => false

/-- `UsePulsesStatement.__eq__`: `_module` and `_names` -/
def usepulsesEq (a b : String × String) : Bool := a.1 == b.1 && a.2 == b.2

/-- `Circuit.__eq__`: constants, macros, native_gates, registers, body, usepulses. -/
def circuitEq (a b : Circuit) : Bool :=
  dictEq Val.name? valEq a.constants b.constants &&
  dictEq (fun m => some m.name) macroEq a.macros b.macros &&
  dictEq (fun g => some g.name) gateDefEq a.natives b.natives &&
  dictEq Val.name? valEq a.registers b.registers &&
  stmtEq a.body b.body &&
  listEqB usepulsesEq a.usepulses b.usepulses

end Jaqal.PyEq
