import JaqalModel.Base.Num
/-!
S-expressions exactly as `parse_to_sexpression` returns them and `circuitbuilder.build` consumes them:
nested Python lists/tuples of strings, ints, floats and `None`.

Shapes produced by the parser (see slyparse.py):
`["circuit", stmt…]`, `["register", name, size]`, `["let", name, number]`,
`["map", name, src]` / `["map", name, src, idx]` / `["map", name, src, start|None, stop|None, step|None]`,
`["usepulses", "<dotted name>", "*"]` (the parser's `Identifier` object is rendered with `str`),
`["gate", name, arg…]` with arg = string | int | float | `("array_item", name, idx)`,
`["loop", count, block]`, `["macro", name, param…, block]`,
`["sequential_block", stmt…]`, `["parallel_block", stmt…]`, `["subcircuit_block", count | "", stmt…]`,
`["branch", case…]`, `["case", int, block]`.
-/
namespace Jaqal
open Lean

inductive Sx where
  | str (s : String)
  | int (v : Int)
  | flt (d : Dec)
  | none
  | list (l : List Sx)
  deriving Repr, Inhabited, BEq

namespace Sx

partial def toJson : Sx → Json
  | .str s => .str s
  | .int v => jobj [("i", jofInt v)]
  | .flt d => jobj [("f", d.toJson)]
  | .none => .null
  | .list l => .arr (l.map toJson).toArray

partial def fromJson (j : Json) : R Sx :=
  match j with
  | .str s => pure (.str s)
  | .null => pure .none
  | .arr a => do pure (.list (← a.toList.mapM fromJson))
  | _ => match j.getObjVal? "i" with
    | .ok v => do pure (.int (← jint v))
    | .error _ => do pure (.flt (← Dec.fromJson (← jget j "f")))

end Sx
end Jaqal
