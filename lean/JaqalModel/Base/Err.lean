/-! Error classes of the library as the correspondence sees them (messages are not compared). -/
namespace Jaqal

inductive Err where
  /-- `JaqalParseError(line, column)`; `line = none` is "EOF" -/
  | parse (line : Option Nat) (col : Nat)
  /-- `JaqalError` (any message); the tag names the rule, for diagnostics only -/
  | jaqal (rule : String)
  | importErr
  /-- any other exception class escaping (TypeError, AttributeError, ValueError, …) -/
  | other (cls : String)
  /-- the Python does not terminate (model fuel exhausted on a cyclic structure) -/
  | hang
  deriving Repr, DecidableEq, Inhabited

def Err.cls : Err → String
  | .parse _ _ => "JaqalParseError"
  | .jaqal _ => "JaqalError"
  | .importErr => "ImportError"
  | .other c => c
  | .hang => "hang"

abbrev M := Except Err

end Jaqal
