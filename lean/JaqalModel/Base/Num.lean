import JaqalModel.Base.Json
/-!
Numbers as the library sees them.

The library never does arithmetic on Jaqal numbers (numpy aside): it parses them, compares them
(`==`, `int(x) == x`), stores them and prints them. A float literal is therefore modelled by its
exact decimal value `Dec`; see DESIGN.md §3.3 for the transfer to IEEE doubles (literals with at
most 15 significant digits in the normal range; integral floats below 2^53).
-/
namespace Jaqal
open Lean

/-- A finite decimal value `(-1)^neg · mant · 10^exp`. Canonical form: `mant % 10 ≠ 0`, or
`mant = 0 ∧ exp = 0` (the sign of zero is kept: Python distinguishes `-0.0` when printing). -/
structure Dec where
  neg : Bool
  mant : Nat
  exp : Int
  deriving DecidableEq, Repr, Inhabited

namespace Dec

/-- Strip trailing decimal zeros of the mantissa (fuel = mantissa is always enough). -/
def stripZeros : Nat → Nat → Int → Nat × Int
  | 0, m, e => (m, e)
  | fuel+1, m, e => if m ≠ 0 ∧ m % 10 = 0 then stripZeros fuel (m / 10) (e + 1) else (m, e)

def normalize (d : Dec) : Dec :=
  if d.mant = 0 then { neg := d.neg, mant := 0, exp := 0 }
  else let (m, e) := stripZeros d.mant d.mant d.exp; { neg := d.neg, mant := m, exp := e }

def Canonical (d : Dec) : Prop := (d.mant = 0 ∧ d.exp = 0) ∨ d.mant % 10 ≠ 0

instance (d : Dec) : Decidable d.Canonical := by unfold Canonical; exact inferInstance

/-- Is the value an integer (`int(x) == x`)? For canonical decimals: exponent ≥ 0. -/
def isIntegral (d : Dec) : Bool := d.mant = 0 || d.exp ≥ 0

/-- The integer value of an integral canonical decimal (`int(x)`). -/
def toInt (d : Dec) : Int :=
  let v : Int := (d.mant * 10 ^ d.exp.toNat : Nat)
  if d.neg then -v else v

def ofInt (i : Int) : Dec := normalize { neg := i < 0, mant := i.natAbs, exp := 0 }

def toJson (d : Dec) : Json := .arr #[.bool d.neg, jofNat d.mant, jofInt d.exp]

def fromJson (j : Json) : R Dec := do
  match ← jarr j with
  | [n, m, e] => pure { neg := ← jbool n, mant := ← jnat m, exp := ← jint e }
  | _ => .error s!"bad Dec {j.compress}"

end Dec

/-- A Jaqal/Python number: `int` or (finite) `float`. -/
inductive Num where
  | int (v : Int)
  | flt (d : Dec)
  deriving DecidableEq, Repr, Inhabited

namespace Num

/-- Python `==` on numbers: by value across int/float (`1 == 1.0`, `0 == -0.0`). -/
def veq : Num → Num → Bool
  | .int a, .int b => a == b
  | .flt a, .flt b => (a.mant == 0 && b.mant == 0) || a == b
  | .int a, .flt b => b.isIntegral && b.toInt == a
  | .flt a, .int b => a.isIntegral && a.toInt == b

/-- `circuitbuilder.as_integer` restricted to numbers: an integral float becomes an int. -/
def asInteger : Num → Num
  | .int a => .int a
  | .flt d => if d.isIntegral then .int d.toInt else .flt d

def toJson : Num → Json
  | .int v => jobj [("i", jofInt v)]
  | .flt d => jobj [("f", d.toJson)]

def fromJson (j : Json) : R Num :=
  match j.getObjVal? "i" with
  | .ok v => do pure (.int (← jint v))
  | .error _ => do pure (.flt (← Dec.fromJson (← jget j "f")))

end Num
end Jaqal
