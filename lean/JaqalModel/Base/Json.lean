import Lean.Data.Json
/-! Line-protocol helpers (core Lean only). -/
namespace Jaqal
open Lean

abbrev R := Except String

def jget (j : Json) (k : String) : R Json :=
  match j.getObjVal? k with
  | .ok v => .ok v
  | .error e => .error s!"missing field {k}: {e}"

def jgetD (j : Json) (k : String) (d : Json) : Json :=
  match j.getObjVal? k with
  | .ok v => v
  | .error _ => d

def jstr (j : Json) : R String :=
  match j with
  | .str s => .ok s
  | _ => .error s!"expected string, got {j.compress}"

def jbool (j : Json) : R Bool :=
  match j with
  | .bool b => .ok b
  | _ => .error s!"expected bool, got {j.compress}"

def jarr (j : Json) : R (List Json) :=
  match j with
  | .arr a => .ok a.toList
  | _ => .error s!"expected array, got {j.compress}"

/-- Integers travel as JSON numbers when small and as decimal strings otherwise. -/
def jint (j : Json) : R Int :=
  match j with
  | .num n => if n.exponent == 0 then .ok n.mantissa else .error s!"expected integer, got {j.compress}"
  | .str s => match s.toInt? with
    | some i => .ok i
    | none => .error s!"expected integer string, got {s}"
  | _ => .error s!"expected integer, got {j.compress}"

def jnat (j : Json) : R Nat := do
  let i ← jint j
  if i < 0 then .error s!"expected nat, got {i}" else .ok i.toNat

def jisNull (j : Json) : Bool := match j with | .null => true | _ => false

def jopt {α} (f : Json → R α) (j : Json) : R (Option α) :=
  if jisNull j then .ok none else (f j).map some

def jlist {α} (f : Json → R α) (j : Json) : R (List α) := do
  (← jarr j).mapM f

def jofInt (i : Int) : Json := .str (toString i)
def jofNat (n : Nat) : Json := .str (toString n)
def jobj (kvs : List (String × Json)) : Json := Json.mkObj kvs
def jofList {α} (f : α → Json) (l : List α) : Json := .arr (l.map f).toArray
def jofOpt {α} (f : α → Json) : Option α → Json
  | none => .null
  | some a => f a

end Jaqal
