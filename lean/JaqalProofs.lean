import JaqalProofs.Props.C15
import JaqalProofs.Props.C03
