import JaqalProofs.Props.C15
import JaqalProofs.Props.C03
import JaqalProofs.Props.C01Literals
import JaqalProofs.Props.C19
import JaqalProofs.Props.C12
import JaqalProofs.Props.C08
import JaqalProofs.Lemmas.WalkSerialize
