import JaqalProofs.Props.C15
