import JaqalProofs.Props.C19Circuit
import JaqalProofs.Props.ParsedC10
import JaqalProofs.Lemmas.ParsedUnitTiming
import JaqalProofs.Lemmas.PassesCountsOK
import JaqalProofs.Lemmas.PassesNoSub
/-!
# C19 from texts — `normalize_blocks_with_unitary_timing` on the circuits the PARSER builds

`Props/C19Circuit.lean` proves the unit-timing pass on the real IR under `SeqBody c` (success direction) and `WF c` (failure / iff
direction).  Here these hypotheses are DISCHARGED for every circuit `Pipeline.parseProgram cfg txt` returns; `parseProgram … = .ok c`
is the only premise about the circuit.

## What the builder gives (`Lemmas/ParsedUnitTiming.lean`, two new inductions over `Builder.build`)

* `parsed_seqBody` — the body is a sequential block (any configuration, any text).
* `parsed_countsOK` — every block of the body outside loops passes the `BlockStatement` constructor checks (any configuration).
* `parsed_noSubInPar` — **no subcircuit block stands inside a parallel block of a parsed circuit** (`build_subcircuit_block` raises
  when `in_parallel or in_subcircuit`; the flags go through sequential blocks and loops): so the `AssertionError` of
  `assert stmt.parallel` CANNOT happen on a parsed circuit, and the success condition reduces to "no loop in a parallel block".
* `parsed_goodNatives` / `parsed_wf` — the native gates are gate definitions, hence `WF c` — PROVIDED `ImportsOK cfg`: with
  `autoload_pulses` on, the modules named by `usepulses` export gate definitions only (automatic when `cfg.autoload = false`:
  `importsOK_of_noAutoload`).  For the MODEL this hypothesis cannot be dropped: `UsePulsesStatement.update_gates` copies whatever
  the module's `ALL_GATES` holds into `native_gates` unchecked (only `inject_pulses` goes through `normalize_native_gates`), and
  `ex_import_macro` below evaluates such a case: the model's parse succeeds, the pass raises `JaqalError` at
  `Circuit(native_gates=…)`.  MODEL GAP: the REAL `build_circuit` ends with `Circuit(native_gates=native_gates)`, which re-runs
  `normalize_native_gates` and makes the PARSE fail with `JaqalError` (checked on the real code: a module whose `ALL_GATES` holds a
  `Macro`, `autoload_pulses=True` → `JaqalError: Native gates must be GateDefinition instances` from `parse_jaqal_string`);
  `Builder.Acc.toCircuit` lacks that check.  So on the real parser `ImportsOK` costs nothing.  Either way the failure is a
  `JaqalError`, so the CLASS theorems (`C19_total_class_parsed`, `C19_loop_parsed`, `C19_ok_iff_parsed`) are stated for EVERY
  configuration, with `badNatives c` spelled out.

## The corollaries (premise: `parseProgram cfg txt = .ok c`; for the success theorems also `normalizeCircuit c = .ok c'`)

`C19_schedule_parsed`, `C19_schedule_order_parsed`, `C19_duration_parsed`, `C19_flat_parsed`, `C19_subcircuits_parsed`, `C19_frame_parsed`,
`C19_meaning_parsed`, `C19_idempotent_parsed`, `C19_wf_parsed` (the result is `WF` again);
`C19_ok_iff_parsed` (success ⇔ native gates fine ∧ no loop in a parallel block), `C19_ok_iff_parsed_imports` (under `ImportsOK`:
success ⇔ no loop in a parallel block), `C19_loop_parsed` (a loop in a parallel block ⇒ `JaqalError`; exactly `errLoop` when the
native gates are fine), `C19_total_class_parsed` (only `JaqalError` can come out, with its reason).

## After the other passes

`C19_seqBody_passes`: after any sequence of the four passes (`Passes.applySeq π`) on a parsed circuit the body is still a sequential
block (`C10_legal_seq_parsed`), so every SUCCESS theorem holds there as well: `C19_schedule_passes`, `C19_flat_passes`,
`C19_frame_passes`, `C19_meaning_passes`, `C19_idempotent_passes`.

Failure side there: `C19_circuit_error_classes` (ANY circuit with a sequential body block: only `JaqalError` or the `AssertionError`
of `assert stmt.parallel` can come out — the constructor checks and the native-gates check raise `JaqalError`), hence
`C19_error_classes_passes`.

**`C19_wf_passes`** (`= C19_wf_passes_full_holds`): `WF` after any sequence of the four passes on a parsed circuit (under `ImportsOK`).
`Passes.Legal` does not give it (it knows `isIndexLike it` of a subcircuit count — a float passes — where `countsOK` needs
`¬ badCount it`, and nothing about `native_gates`); it comes from `C19_goodNatives_passes` (the native gates stay gate definitions:
copied by `expand_macros` / `expand_subcircuits`, re-normalised by the rebuilds of the fill-in passes) and `C19_countsOK_passes`
(every block a pass puts out is made by the `BlockStatement` constructor — `mkBlock` in `expand_macros`, literal `(false, 1)`
blocks in `expand_subcircuits`, the builder in `fill_in_let` / `fill_in_map`: `Lemmas/PassesCountsOK.lean`, with a new induction
over `Builder.build` for ARBITRARY S-expressions, `Lemmas/BuiltCountsOK.lean: built_countsOK`).  Hence `C19_ok_iff_passes`,
`C19_fails_only_passes`, `C19_loop_passes`: the iff / the reasons of a failure after the passes, unconditionally.

When the subcircuit blocks are gone (`SubsGone π c`: the sequence contains `expand_subcircuits`, or the text had none) they stay
gone (`Lemmas/PassesNoSub.lean`) and the sharp statements hold after the passes too: `C19_noSubInPar_passes`,
`C19_ok_iff_passes_subs` (success ⇔ no loop in a parallel block), `C19_total_class_passes_subs` (only `errLoop`).

## OPEN

`C19_noSubInPar_passes_full` (a `def`, not proved): that no subcircuit block stands inside a parallel block after EVERY sequence of
passes — open for the sequences WITHOUT `expand_subcircuits` on texts WITH subcircuit blocks (proved for the parsed circuit itself,
`parsed_noSubInPar`, and under `SubsGone`, `C19_noSubInPar_passes`).  Only `expand_macros` can break it, and the builder refuses the
call of a macro containing a subcircuit block inside `< >` / `subcircuit { }` (`Builder.nestingCheck`, `macroHasSub`), so it should
hold; carrying that through the expansion (and through the rebuilds) is a separate induction.  Until then the `AssertionError` is
not excluded there (`C19_error_classes_passes`, `C19_fails_only_passes` name it).
-/
set_option linter.unusedVariables false
namespace Jaqal.UnitTimingCircuit
open Jaqal Jaqal.Builder

variable {cfg : Config} {txt : String} {c : Circuit}

/-! ## the hypotheses, discharged -/

/-- the body of a parsed circuit is a sequential block -/
theorem parsed_seqBody (h : Pipeline.parseProgram cfg txt = .ok c) : SeqBody c := by
  obtain ⟨b, hb⟩ := RunModel.parseProgram_body h
  exact ⟨false, .int 1, b, hb⟩

/-- every block of the body outside loops passes the constructor checks -/
theorem parsed_countsOK (h : Pipeline.parseProgram cfg txt = .ok c) : countsOK c.body = true := by
  obtain ⟨e, hg, hb⟩ := parseProgram_build h
  exact (built_unitOK cfg e c hg hb).1

/-- **no subcircuit block stands inside a parallel block of a parsed circuit** — for every labelling -/
theorem parsed_noSubInPar (L : Labelling) (h : Pipeline.parseProgram cfg txt = .ok c) :
    UnitTiming.anySubInPar false (skelBody L c) = false := by
  obtain ⟨e, hg, hb⟩ := parseProgram_build h
  rw [skelBody, anySubInPar_skel]
  exact (built_unitOK cfg e c hg hb).2

/-- the native gates of a parsed circuit are gate definitions, when the imported pulse modules export nothing else -/
theorem parsed_goodNatives (hi : ImportsOK cfg) (h : Pipeline.parseProgram cfg txt = .ok c) : badNatives c = false := by
  obtain ⟨e, _, hb⟩ := parseProgram_build h
  exact built_natives_tags cfg hi e c hb

/-- `WF` of a parsed circuit whose native gates are fine -/
theorem parsed_wf_of (h : Pipeline.parseProgram cfg txt = .ok c) (hn : badNatives c = false) : WF c :=
  ⟨hn, parsed_seqBody h, parsed_countsOK h⟩

/-- **`WF` of every parsed circuit** (under `ImportsOK cfg`, in particular whenever `autoload_pulses` is off) -/
theorem parsed_wf (hi : ImportsOK cfg) (h : Pipeline.parseProgram cfg txt = .ok c) : WF c :=
  parsed_wf_of h (parsed_goodNatives hi h)

theorem parsed_seqBody_wf (hi : ImportsOK cfg) (h : Pipeline.parseProgram cfg txt = .ok c) : SeqBody c ∧ WF c :=
  ⟨parsed_seqBody h, parsed_wf hi h⟩

/-- after any sequence of the four passes the body is still a sequential block -/
theorem C19_seqBody_passes (π : List Passes.Pass) {c1 : Circuit} (h : Pipeline.parseProgram cfg txt = .ok c)
    (hπ : Passes.applySeq π c = .ok c1) : SeqBody c1 := by
  obtain ⟨b, hb⟩ := (Passes.C10_legal_seq_parsed cfg txt π c c1 h hπ).wf2.body
  exact ⟨false, .int 1, b, hb⟩

/-- `WF` after a sequence of passes — PROVED below: `C19_wf_passes_full_holds`. -/
def C19_wf_passes_full : Prop :=
  ∀ (cfg : Config) (txt : String) (π : List Passes.Pass) (c c1 : Circuit), ImportsOK cfg →
    Pipeline.parseProgram cfg txt = .ok c → Passes.applySeq π c = .ok c1 → WF c1

/-! ## the success theorems -/

/-- every gate instance keeps its time step; none is lost or duplicated (every labelling, every start step) -/
theorem C19_schedule_parsed (L : Labelling) {c' : Circuit} (h : Pipeline.parseProgram cfg txt = .ok c)
    (hn : normalizeCircuit c = .ok c') (t : Nat) :
    (UnitTiming.timesSeq t (skelBody L c')).Perm (UnitTiming.timesSeq t (skelBody L c)) :=
  C19_circuit_schedule L (parsed_seqBody h) hn t

/-- the gates of any one step keep their program order -/
theorem C19_schedule_order_parsed (L : Labelling) {c' : Circuit} (h : Pipeline.parseProgram cfg txt = .ok c)
    (hn : normalizeCircuit c = .ok c') (t k : Nat) :
    (UnitTiming.timesSeq t (skelBody L c')).filter (fun p => p.2 == k)
      = (UnitTiming.timesSeq t (skelBody L c)).filter (fun p => p.2 == k) :=
  C19_circuit_schedule_order L (parsed_seqBody h) hn t k

/-- multiset form on the gate statements themselves -/
theorem C19_schedule_count_parsed (cnt : Val → Nat) (h1 : cnt (.int 1) = 1) {c' : Circuit}
    (h : Pipeline.parseProgram cfg txt = .ok c) (hn : normalizeCircuit c = .ok c') (g : GateStmt) (k : Nat) :
    execCount cnt h1 c' g k = execCount cnt h1 c g k :=
  C19_circuit_schedule_count cnt h1 (parsed_seqBody h) hn g k

theorem C19_duration_parsed (L : Labelling) {c' : Circuit} (h : Pipeline.parseProgram cfg txt = .ok c)
    (hn : normalizeCircuit c = .ok c') : UnitTiming.durSum (skelBody L c') = UnitTiming.durSum (skelBody L c) :=
  C19_circuit_duration L (parsed_seqBody h) hn

/-- the result is a flat sequence in a plain sequential body block -/
theorem C19_flat_parsed (L : Labelling) {c' : Circuit} (h : Pipeline.parseProgram cfg txt = .ok c)
    (hn : normalizeCircuit c = .ok c') :
    UnitTiming.isFlatList (skelBody L c') = true ∧ ∃ b', c'.body = .block false false (.int 1) b' :=
  C19_circuit_flat L (parsed_seqBody h) hn

/-- subcircuit blocks: same list (depth, count), same time slots -/
theorem C19_subcircuits_parsed (L : Labelling) {c' : Circuit} (h : Pipeline.parseProgram cfg txt = .ok c)
    (hn : normalizeCircuit c = .ok c') (d t : Nat) :
    UnitTiming.subsList d (skelBody L c') = UnitTiming.subsList d (skelBody L c) ∧
    UnitTiming.slotsSeq t (skelBody L c') = UnitTiming.slotsSeq t (skelBody L c) :=
  ⟨C19_circuit_subcircuits L (parsed_seqBody h) hn d, C19_circuit_subcircuit_slots L (parsed_seqBody h) hn t⟩

/-- header data copied; the gate statements of the result are a permutation of those of the source -/
theorem C19_frame_parsed {c' : Circuit} (h : Pipeline.parseProgram cfg txt = .ok c) (hn : normalizeCircuit c = .ok c') :
    c'.constants = c.constants ∧ c'.registers = c.registers ∧ c'.macros = c.macros ∧ c'.natives = c.natives ∧
    c'.usepulses = c.usepulses ∧ (gates c'.body).Perm (gates c.body) :=
  C19_circuit_frame (parsed_seqBody h) hn

/-- for every override environment the unrolled gate applications of the normalised circuit's meaning are a permutation of the
source's -/
theorem C19_meaning_parsed (ρ : Sem.Env) {c' : Circuit} (h : Pipeline.parseProgram cfg txt = .ok c)
    (hn : normalizeCircuit c = .ok c') {m : Sem.Sem} (hm : Sem.meaning ρ c = .ok m) :
    ∃ m', Sem.meaning ρ c' = .ok m' ∧ m'.unroll.Perm m.unroll :=
  C19_circuit_meaning ρ (parsed_seqBody h) hn hm

/-- normalising twice is normalising once, exactly -/
theorem C19_idempotent_parsed {c' : Circuit} (h : Pipeline.parseProgram cfg txt = .ok c) (hn : normalizeCircuit c = .ok c') :
    normalizeCircuit c' = .ok c' :=
  C19_circuit_idempotent (parsed_seqBody h) hn

/-- the result is well formed again (no hypothesis on the configuration: success already says the native gates are fine) -/
theorem C19_wf_parsed {c' : Circuit} (h : Pipeline.parseProgram cfg txt = .ok c) (hn : normalizeCircuit c = .ok c') : WF c' :=
  C19_circuit_wf (parsed_seqBody h) hn

/-! ## success ⇔ no loop in a parallel block; the exception class -/

theorem normalizeCircuit_badNatives {c : Circuit} (hb : badNatives c = true) :
    normalizeCircuit c = .error (.jaqal "native-gates-must-be-GateDefinition") := by
  unfold normalizeCircuit
  rw [if_pos hb]

theorem normalizeCircuit_ok_goodNatives {c c' : Circuit} (h : normalizeCircuit c = .ok c') : badNatives c = false := by
  cases hb : badNatives c with
  | false => rfl
  | true => rw [normalizeCircuit_badNatives hb] at h; cases h

/-- **The pass succeeds on a parsed circuit exactly when its native gates are gate definitions and no loop stands inside a parallel
block** — any configuration, any labelling.  (The other defect of `C19_circuit_ok_iff`, a subcircuit block inside a parallel
block, cannot occur: `parsed_noSubInPar`.) -/
theorem C19_ok_iff_parsed (L : Labelling) (h : Pipeline.parseProgram cfg txt = .ok c) :
    (∃ c', normalizeCircuit c = .ok c') ↔
      (badNatives c = false ∧ UnitTiming.anyLoopInPar false (skelBody L c) = false) := by
  constructor
  · rintro ⟨c', hn⟩
    have hb := normalizeCircuit_ok_goodNatives hn
    exact ⟨hb, ((C19_circuit_ok_iff L (parsed_wf_of h hb)).1 ⟨c', hn⟩).1⟩
  · rintro ⟨hb, hl⟩
    exact (C19_circuit_ok_iff L (parsed_wf_of h hb)).2 ⟨hl, parsed_noSubInPar L h⟩

/-- … and when the imported pulse modules export gate definitions only (e.g. `autoload_pulses` off): exactly when no loop stands
inside a parallel block. -/
theorem C19_ok_iff_parsed_imports (L : Labelling) (hi : ImportsOK cfg) (h : Pipeline.parseProgram cfg txt = .ok c) :
    (∃ c', normalizeCircuit c = .ok c') ↔ UnitTiming.anyLoopInPar false (skelBody L c) = false := by
  rw [C19_ok_iff_parsed L h]
  exact ⟨fun x => x.2, fun x => ⟨parsed_goodNatives hi h, x⟩⟩

/-- the same on the IR, no labelling involved -/
theorem C19_ok_iff_parsed_ir (hi : ImportsOK cfg) (h : Pipeline.parseProgram cfg txt = .ok c) :
    (∃ c', normalizeCircuit c = .ok c') ↔ loopInParL false c.body.stmts = false := by
  rw [C19_ok_iff_parsed_imports selfLabellingDefault hi h, skelBody, anyLoopInPar_skel]
where
  selfLabellingDefault : Labelling := { gate := fun _ _ _ => 0, cnt := fun v => match v with | .int 1 => 1 | _ => 0, cnt_one := rfl }

/-- **Only `JaqalError` can come out of the pass on a parsed circuit**, with its reason: the native-gates check of
`Circuit(native_gates=…)` or a loop inside a parallel block.  No `AssertionError`, no constructor failure. -/
theorem C19_total_class_parsed (L : Labelling) {e : Err} (h : Pipeline.parseProgram cfg txt = .ok c)
    (hn : normalizeCircuit c = .error e) :
    e.cls = "JaqalError" ∧
    ((e = .jaqal "native-gates-must-be-GateDefinition" ∧ badNatives c = true) ∨
     (e = errLoop ∧ badNatives c = false ∧ UnitTiming.anyLoopInPar false (skelBody L c) = true)) := by
  cases hb : badNatives c with
  | true =>
    rw [normalizeCircuit_badNatives hb] at hn
    cases hn
    exact ⟨rfl, .inl ⟨rfl, rfl⟩⟩
  | false =>
    rcases C19_circuit_fails_only L (parsed_wf_of h hb) hn with ⟨rfl, hl⟩ | ⟨_, hs⟩
    · exact ⟨rfl, .inr ⟨rfl, rfl, hl⟩⟩
    · rw [parsed_noSubInPar L h] at hs; cases hs

/-- under `ImportsOK` the only failure is `errLoop` -/
theorem C19_total_class_parsed_imports (L : Labelling) {e : Err} (hi : ImportsOK cfg)
    (h : Pipeline.parseProgram cfg txt = .ok c) (hn : normalizeCircuit c = .error e) :
    e = errLoop ∧ UnitTiming.anyLoopInPar false (skelBody L c) = true := by
  rcases (C19_total_class_parsed L h hn).2 with ⟨_, hb⟩ | ⟨he, _, hl⟩
  · rw [parsed_goodNatives hi h] at hb; cases hb
  · exact ⟨he, hl⟩

/-- **A loop inside a parallel block of a parsed circuit is rejected with a `JaqalError`, never an `AssertionError`, never
mis-scheduled** — any configuration; and it is exactly `errLoop` when the native gates are fine. -/
theorem C19_loop_parsed (L : Labelling) (h : Pipeline.parseProgram cfg txt = .ok c)
    (hl : UnitTiming.anyLoopInPar false (skelBody L c) = true) :
    (∃ e, normalizeCircuit c = .error e ∧ e.cls = "JaqalError") ∧
    (badNatives c = false → normalizeCircuit c = .error errLoop) := by
  have h2 : badNatives c = false → normalizeCircuit c = .error errLoop := fun hb =>
    (C19_circuit_loop L (parsed_wf_of h hb) hl).2 (parsed_noSubInPar L h)
  refine ⟨?_, h2⟩
  cases hb : badNatives c with
  | true => exact ⟨_, normalizeCircuit_badNatives hb, rfl⟩
  | false => exact ⟨_, h2 hb, rfl⟩

/-- under `ImportsOK`: exactly `errLoop` -/
theorem C19_loop_parsed_imports (L : Labelling) (hi : ImportsOK cfg) (h : Pipeline.parseProgram cfg txt = .ok c)
    (hl : UnitTiming.anyLoopInPar false (skelBody L c) = true) : normalizeCircuit c = .error errLoop :=
  (C19_loop_parsed L h hl).2 (parsed_goodNatives hi h)

/-! ## after the other passes (success theorems) -/

section Passes
variable {c1 c' : Circuit} (π : List Passes.Pass)

theorem C19_schedule_passes (L : Labelling) (h : Pipeline.parseProgram cfg txt = .ok c) (hπ : Passes.applySeq π c = .ok c1)
    (hn : normalizeCircuit c1 = .ok c') (t : Nat) :
    (UnitTiming.timesSeq t (skelBody L c')).Perm (UnitTiming.timesSeq t (skelBody L c1)) :=
  C19_circuit_schedule L (C19_seqBody_passes π h hπ) hn t

theorem C19_flat_passes (L : Labelling) (h : Pipeline.parseProgram cfg txt = .ok c) (hπ : Passes.applySeq π c = .ok c1)
    (hn : normalizeCircuit c1 = .ok c') :
    UnitTiming.isFlatList (skelBody L c') = true ∧ ∃ b', c'.body = .block false false (.int 1) b' :=
  C19_circuit_flat L (C19_seqBody_passes π h hπ) hn

theorem C19_frame_passes (h : Pipeline.parseProgram cfg txt = .ok c) (hπ : Passes.applySeq π c = .ok c1)
    (hn : normalizeCircuit c1 = .ok c') :
    c'.constants = c1.constants ∧ c'.registers = c1.registers ∧ c'.macros = c1.macros ∧ c'.natives = c1.natives ∧
    c'.usepulses = c1.usepulses ∧ (gates c'.body).Perm (gates c1.body) :=
  C19_circuit_frame (C19_seqBody_passes π h hπ) hn

theorem C19_meaning_passes (ρ : Sem.Env) (h : Pipeline.parseProgram cfg txt = .ok c) (hπ : Passes.applySeq π c = .ok c1)
    (hn : normalizeCircuit c1 = .ok c') {m : Sem.Sem} (hm : Sem.meaning ρ c1 = .ok m) :
    ∃ m', Sem.meaning ρ c' = .ok m' ∧ m'.unroll.Perm m.unroll :=
  C19_circuit_meaning ρ (C19_seqBody_passes π h hπ) hn hm

theorem C19_idempotent_passes (h : Pipeline.parseProgram cfg txt = .ok c) (hπ : Passes.applySeq π c = .ok c1)
    (hn : normalizeCircuit c1 = .ok c') : normalizeCircuit c' = .ok c' :=
  C19_circuit_idempotent (C19_seqBody_passes π h hπ) hn

theorem C19_wf_result_passes (h : Pipeline.parseProgram cfg txt = .ok c) (hπ : Passes.applySeq π c = .ok c1)
    (hn : normalizeCircuit c1 = .ok c') : WF c' :=
  C19_circuit_wf (C19_seqBody_passes π h hπ) hn

end Passes

/-! ## the class of a failure on ANY circuit whose body is a sequential block (so: after the other passes too) -/

/-- `JaqalError`, or the `AssertionError` of `assert stmt.parallel` -/
def ErrOK (e : Err) : Prop := e.cls = "JaqalError" ∨ e = errAssert

theorem chunkOf_errOK : ∀ (l : List Stmt) {e : Err}, chunkOf l = .error e → ErrOK e
  | [], e, h => by simp [chunkOf] at h
  | .block par sub it body :: rest, e, h => by
    simp only [chunkOf] at h
    split at h
    · split at h
      · rename_i e' he; cases h; exact chunkOf_errOK rest he
      · cases h
    · cases h; exact .inr rfl
  | .loop _ _ :: _, e, h => by simp only [chunkOf] at h; cases h; exact .inl rfl
  | .gate n gd a :: rest, e, h => by
    simp only [chunkOf] at h
    split at h
    · rename_i e' he; cases h; exact chunkOf_errOK rest he
    · cases h

theorem chunkRows_errOK : ∀ (l : List (List Stmt)) {e : Err}, chunkRows l = .error e → ErrOK e
  | [], e, h => by simp [chunkRows] at h
  | r :: rs, e, h => by
    simp only [chunkRows] at h
    split at h
    · rename_i e' he; cases h; exact chunkOf_errOK r he
    · split at h
      · rename_i e' he; cases h; exact chunkRows_errOK rs he
      · cases h

theorem mkSeqBlock_err {sub : Bool} {it : Val} {body : List Stmt} {e : Err} (h : mkSeqBlock sub it body = .error e) :
    e.cls = "JaqalError" := by
  rw [mkSeqBlock_eq] at h
  split at h
  · cases h
  · split at h <;> cases h <;> rfl

mutual
  theorem normalizeStmt_errOK : ∀ (s : Stmt) {e : Err}, normalizeStmt s = .error e → ErrOK e
    | .gate _ _ _, e, h => by simp [normalizeStmt] at h
    | .loop _ _, e, h => by simp [normalizeStmt] at h
    | .block par sub it body, e, h => by
      simp only [normalizeStmt] at h
      split at h
      · rename_i e' he; cases h; exact normalizeList_errOK body he
      · split at h
        · split at h
          · rename_i e' he; cases h; exact chunkRows_errOK _ he
          · exact .inl (mkSeqBlock_err h)
        · exact .inl (mkSeqBlock_err h)
  theorem normalizeList_errOK : ∀ (l : List Stmt) {e : Err}, normalizeList l = .error e → ErrOK e
    | [], e, h => by simp [normalizeList] at h
    | s :: ss, e, h => by
      simp only [normalizeList] at h
      split at h
      · rename_i e' he; cases h; exact normalizeStmt_errOK s he
      · split at h
        · rename_i e' he; cases h; exact normalizeList_errOK ss he
        · cases h
end

/-- **On every circuit whose body is a sequential block the pass raises nothing but `JaqalError` or the `AssertionError` of
`assert stmt.parallel`** (no `WF` needed: the constructor checks and the native-gates check raise `JaqalError`). -/
theorem C19_circuit_error_classes {c : Circuit} {e : Err} (hs : SeqBody c) (h : normalizeCircuit c = .error e) : ErrOK e := by
  obtain ⟨sub, it, b, hb⟩ := hs
  cases hn : badNatives c with
  | true => rw [normalizeCircuit_badNatives hn] at h; cases h; exact .inl rfl
  | false =>
    cases hvs : normalizeList b with
    | error e' =>
      rw [normalizeCircuit_of_list_error hb hn hvs] at h
      cases h
      exact normalizeList_errOK b hvs
    | ok vs =>
      unfold normalizeCircuit at h
      simp only [hn, Bool.false_eq_true, if_false, hb, normalizeStmt, hvs] at h
      split at h
      · rename_i e' he; cases h; exact .inl (mkSeqBlock_err he)
      · rename_i body hbody
        rw [mkSeqBlock_eq] at hbody
        split at hbody
        · cases hbody; simp [ExpandMacros.statementsOf, pure, Except.pure] at h
        · split at hbody <;> cases hbody

/-- … in particular after any sequence of the four passes on a parsed circuit.  (Whether the `AssertionError` can really occur
there is part of the open `C19_wf_passes_full`.) -/
theorem C19_error_classes_passes (π : List Passes.Pass) {c1 : Circuit} {e : Err} (h : Pipeline.parseProgram cfg txt = .ok c)
    (hπ : Passes.applySeq π c = .ok c1) (hn : normalizeCircuit c1 = .error e) :
    e.cls = "JaqalError" ∨ e = errAssert :=
  C19_circuit_error_classes (C19_seqBody_passes π h hπ) hn

/-! ## towards `WF` after the passes: the native gates stay gate definitions; the rest as a decidable side condition -/

/-- each of the four passes keeps (`expand_macros`, `expand_subcircuits`: copies) or re-establishes (`fill_in_let`, `fill_in_map`:
the rebuild goes through `normalize_native_gates`, autoload off) the native-gates condition -/
theorem apply_goodNatives (p : Passes.Pass) {c c1 : Circuit} (hn : badNatives c = false) (h : Passes.apply p c = .ok c1) :
    badNatives c1 = false := by
  cases p with
  | let_ ov =>
    simp only [Passes.apply] at h
    unfold FillIn.fillInLet at h
    obtain ⟨e, _, hb⟩ := bind_ok h
    exact built_natives_tags _ (importsOK_of_noAutoload rfl) e c1 hb
  | macros pr =>
    obtain ⟨_, _, _, _, rfl⟩ := ExpandMacros.expand_ok h
    exact hn
  | subs =>
    obtain ⟨_, _, _, _, _, _, rfl⟩ := ExpandSubcircuits.expand_ok h
    exact hn
  | map =>
    simp only [Passes.apply] at h
    unfold FillIn.fillInMap at h
    obtain ⟨e, _, hb⟩ := bind_ok h
    exact built_natives_tags _ (importsOK_of_noAutoload rfl) e c1 hb

theorem applySeq_goodNatives : ∀ (π : List Passes.Pass) {c c1 : Circuit}, badNatives c = false →
    Passes.applySeq π c = .ok c1 → badNatives c1 = false
  | [], c, c1, hn, h => by simp only [Passes.applySeq, pure, Except.pure, Except.ok.injEq] at h; subst h; exact hn
  | p :: ps, c, c1, hn, h => by
    simp only [Passes.applySeq] at h
    cases h1 : Passes.apply p c with
    | error e => rw [h1] at h; cases h
    | ok c2 =>
      rw [h1] at h
      exact applySeq_goodNatives ps (apply_goodNatives p hn h1) h

/-- after any sequence of passes on a parsed circuit the native gates are still gate definitions -/
theorem C19_goodNatives_passes (π : List Passes.Pass) {c1 : Circuit} (hi : ImportsOK cfg)
    (h : Pipeline.parseProgram cfg txt = .ok c) (hπ : Passes.applySeq π c = .ok c1) : badNatives c1 = false :=
  applySeq_goodNatives π (parsed_goodNatives hi h) hπ

/-- after any sequence of passes on a parsed circuit the blocks of the body outside loops pass the constructor checks (each pass
makes its blocks through the `BlockStatement` constructor: `Lemmas/PassesCountsOK.lean`, `Lemmas/BuiltCountsOK.lean`) -/
theorem C19_countsOK_passes (π : List Passes.Pass) {c1 : Circuit} (h : Pipeline.parseProgram cfg txt = .ok c)
    (hπ : Passes.applySeq π c = .ok c1) : countsOK c1.body = true :=
  applySeq_countsOK π (Passes.parsed_legal cfg txt c h) (parsed_countsOK h) hπ

/-- **`WF` after any sequence of the four passes on a parsed circuit** -/
theorem C19_wf_passes (π : List Passes.Pass) {c1 : Circuit} (hi : ImportsOK cfg)
    (h : Pipeline.parseProgram cfg txt = .ok c) (hπ : Passes.applySeq π c = .ok c1) : WF c1 :=
  ⟨C19_goodNatives_passes π hi h hπ, C19_seqBody_passes π h hπ, C19_countsOK_passes π h hπ⟩

theorem C19_wf_passes_full_holds : C19_wf_passes_full :=
  fun _ _ π _ _ hi h hπ => C19_wf_passes π hi h hπ

/-- success ⇔ neither defect, after the passes (whether a subcircuit block can stand inside a parallel block after
`expand_macros` is not settled here — the builder refuses the CALL of such a macro there, `nestingCheck`) -/
theorem C19_ok_iff_passes (L : Labelling) (π : List Passes.Pass) {c1 : Circuit} (hi : ImportsOK cfg)
    (h : Pipeline.parseProgram cfg txt = .ok c) (hπ : Passes.applySeq π c = .ok c1) :
    (∃ c', normalizeCircuit c1 = .ok c') ↔
      (UnitTiming.anyLoopInPar false (skelBody L c1) = false ∧ UnitTiming.anySubInPar false (skelBody L c1) = false) :=
  C19_circuit_ok_iff L (C19_wf_passes π hi h hπ)

/-- a failure after the passes always has its reason -/
theorem C19_fails_only_passes (L : Labelling) (π : List Passes.Pass) {c1 : Circuit} {e : Err} (hi : ImportsOK cfg)
    (h : Pipeline.parseProgram cfg txt = .ok c) (hπ : Passes.applySeq π c = .ok c1)
    (hn : normalizeCircuit c1 = .error e) :
    (e = errLoop ∧ UnitTiming.anyLoopInPar false (skelBody L c1) = true) ∨
    (e = errAssert ∧ UnitTiming.anySubInPar false (skelBody L c1) = true) :=
  C19_circuit_fails_only L (C19_wf_passes π hi h hπ) hn

/-- a loop inside a parallel block after the passes is rejected; with `JaqalError` unless a subcircuit block stands inside a
parallel block too -/
theorem C19_loop_passes (L : Labelling) (π : List Passes.Pass) {c1 : Circuit} (hi : ImportsOK cfg)
    (h : Pipeline.parseProgram cfg txt = .ok c) (hπ : Passes.applySeq π c = .ok c1)
    (hl : UnitTiming.anyLoopInPar false (skelBody L c1) = true) :
    (∃ e, normalizeCircuit c1 = .error e) ∧
    (UnitTiming.anySubInPar false (skelBody L c1) = false → normalizeCircuit c1 = .error errLoop) :=
  C19_circuit_loop L (C19_wf_passes π hi h hπ) hl

/-- OPEN (see the header): no subcircuit block inside a parallel block after a sequence of passes; with it `C19_ok_iff_passes` would
reduce to "no loop in a parallel block" and `C19_fails_only_passes` to `errLoop`, as on the parsed circuit itself. -/
def C19_noSubInPar_passes_full : Prop :=
  ∀ (cfg : Config) (txt : String) (π : List Passes.Pass) (c c1 : Circuit) (L : Labelling),
    Pipeline.parseProgram cfg txt = .ok c → Passes.applySeq π c = .ok c1 →
    UnitTiming.anySubInPar false (skelBody L c1) = false

/-! ## the sharp statements after the passes, when the subcircuit blocks are gone -/

/-- the subcircuit blocks are gone after the sequence: it contains `expand_subcircuits`, or the parsed circuit had none (body and
macro bodies; `NoSubC`, decidable) -/
def SubsGone (π : List Passes.Pass) (c : Circuit) : Prop := Passes.Pass.subs ∈ π ∨ NoSubC c

theorem C19_noSubC_passes (π : List Passes.Pass) {c1 : Circuit} (h : Pipeline.parseProgram cfg txt = .ok c)
    (hπ : Passes.applySeq π c = .ok c1) (hg : SubsGone π c) : NoSubC c1 := by
  rcases hg with hs | hn
  · exact applySeq_subs_noSub π (Passes.parsed_legal cfg txt c h) hs hπ
  · exact applySeq_noSub π (Passes.parsed_legal cfg txt c h) hn hπ

/-- `C19_noSubInPar_passes_full` for the sequences that contain `expand_subcircuits` / the texts without subcircuit blocks -/
theorem C19_noSubInPar_passes (L : Labelling) (π : List Passes.Pass) {c1 : Circuit} (h : Pipeline.parseProgram cfg txt = .ok c)
    (hπ : Passes.applySeq π c = .ok c1) (hg : SubsGone π c) : UnitTiming.anySubInPar false (skelBody L c1) = false :=
  noSubC_noSubInPar L (C19_noSubC_passes π h hπ hg)

/-- then: success ⇔ no loop in a parallel block -/
theorem C19_ok_iff_passes_subs (L : Labelling) (π : List Passes.Pass) {c1 : Circuit} (hi : ImportsOK cfg)
    (h : Pipeline.parseProgram cfg txt = .ok c) (hπ : Passes.applySeq π c = .ok c1) (hg : SubsGone π c) :
    (∃ c', normalizeCircuit c1 = .ok c') ↔ UnitTiming.anyLoopInPar false (skelBody L c1) = false := by
  rw [C19_ok_iff_passes L π hi h hπ]
  exact ⟨fun x => x.1, fun x => ⟨x, C19_noSubInPar_passes L π h hπ hg⟩⟩

/-- … and only `errLoop` (`JaqalError`) can come out -/
theorem C19_total_class_passes_subs (L : Labelling) (π : List Passes.Pass) {c1 : Circuit} {e : Err} (hi : ImportsOK cfg)
    (h : Pipeline.parseProgram cfg txt = .ok c) (hπ : Passes.applySeq π c = .ok c1) (hg : SubsGone π c)
    (hn : normalizeCircuit c1 = .error e) :
    e = errLoop ∧ e.cls = "JaqalError" ∧ UnitTiming.anyLoopInPar false (skelBody L c1) = true := by
  rcases C19_fails_only_passes L π hi h hπ hn with ⟨rfl, hl⟩ | ⟨_, hs⟩
  · exact ⟨rfl, rfl, hl⟩
  · rw [C19_noSubInPar_passes L π h hπ hg] at hs; cases hs

/-! ## non-vacuity: the evaluated examples of `Props/C19Circuit.lean` -/

section Examples

theorem importsOK_default : ImportsOK ({} : Config) := importsOK_of_noAutoload rfl

/-- `exTxt` (a macro, a subcircuit block with a let count, a loop, parallel blocks with sequential sub-blocks): parsed, the pass
succeeds, and the new theorems apply with the parse as the only premise -/
example : ∃ c c', Pipeline.parseProgram {} exTxt = .ok c ∧ normalizeCircuit c = .ok c' ∧ WF c ∧ c.macros ≠ [] ∧
    (UnitTiming.timesSeq 0 (skelBody exL c')).Perm (UnitTiming.timesSeq 0 (skelBody exL c)) ∧
    (UnitTiming.timesSeq 0 (skelBody exL c)).length = 14 ∧
    UnitTiming.isFlatList (skelBody exL c') = true ∧ (gates c'.body).Perm (gates c.body) ∧
    normalizeCircuit c' = .ok c' ∧ UnitTiming.anyLoopInPar false (skelBody exL c) = false ∧
    UnitTiming.anySubInPar false (skelBody exL c) = false := by
  obtain ⟨c, hc, h⟩ := chk_ok ex_run
  simp only [Bool.and_eq_true] at h
  obtain ⟨⟨⟨⟨_, _⟩, _⟩, hm⟩, hrun⟩ := h
  obtain ⟨c', hc', hrest⟩ := chk_ok hrun
  simp only [Bool.and_eq_true, decide_eq_true_eq] at hrest
  refine ⟨c, c', hc, hc', parsed_wf importsOK_default hc, ?_, C19_schedule_parsed exL hc hc' 0, hrest.2,
    (C19_flat_parsed exL hc hc').1, (C19_frame_parsed hc hc').2.2.2.2.2, C19_idempotent_parsed hc hc',
    (C19_ok_iff_parsed_imports exL importsOK_default hc).1 ⟨c', hc'⟩, parsed_noSubInPar exL hc⟩
  intro h0; rw [h0] at hm; simp at hm

/-- `exTxt` has a meaning with 16 gate applications; `C19_meaning_parsed` applies -/
example : ∃ c c' m m', Pipeline.parseProgram {} exTxt = .ok c ∧ normalizeCircuit c = .ok c' ∧ Sem.meaning [] c = .ok m ∧
    m.unroll.length = 16 ∧ Sem.meaning [] c' = .ok m' ∧ m'.unroll.Perm m.unroll := by
  obtain ⟨c, hc, h⟩ := chk_ok ex_run
  simp only [Bool.and_eq_true] at h
  obtain ⟨c', hc', _⟩ := chk_ok h.2
  obtain ⟨c2, hc2, hm⟩ := chk_ok ex_meaning
  rw [hc] at hc2; cases hc2
  cases hmm : Sem.meaning [] c with
  | error e => rw [hmm] at hm; cases hm
  | ok m =>
    rw [hmm] at hm
    simp only [Bool.and_eq_true, decide_eq_true_eq] at hm
    obtain ⟨m', h1, h2⟩ := C19_meaning_parsed [] hc hc' hmm
    exact ⟨c, c', m, m', hc, hc', hmm, hm.1, h1, h2⟩

/-- `exBad` (a loop inside a parallel block): parsed, the defect is there, and `C19_loop_parsed_imports` gives the `JaqalError` -/
example : ∃ c, Pipeline.parseProgram {} exBad = .ok c ∧ UnitTiming.anyLoopInPar false (skelBody exL c) = true ∧
    normalizeCircuit c = .error errLoop ∧ errLoop.cls = "JaqalError" ∧ ¬ ∃ c', normalizeCircuit c = .ok c' := by
  obtain ⟨c, hc, h⟩ := chk_ok ex_bad
  simp only [Bool.and_eq_true] at h
  have hl := h.1.2
  have he := C19_loop_parsed_imports exL importsOK_default hc hl
  refine ⟨c, hc, hl, he, rfl, ?_⟩
  rintro ⟨c', hc'⟩
  rw [he] at hc'; cases hc'

/-- `exTxt` through `expand_macros ; fill_in_let` (the macro call inside the parallel block is replaced by the macro's body, the let
count by `2`), then the unit-timing pass: 16 gate instances -/
theorem ex_passes : chk (Pipeline.parseProgram {} exTxt) (fun c =>
    chk (Passes.applySeq [.macros false, .let_ []] c) (fun c1 =>
      c1.macros.isEmpty && countsOK c1.body && !badNatives c1 &&
      chk (normalizeCircuit c1) (fun c' => decide ((UnitTiming.timesSeq 0 (skelBody exL c')).length = 16)))) = true := by
  decide +kernel

/-- the `_passes` theorems apply to it, non-trivially -/
example : ∃ c c1 c', Pipeline.parseProgram {} exTxt = .ok c ∧ Passes.applySeq [.macros false, .let_ []] c = .ok c1 ∧
    normalizeCircuit c1 = .ok c' ∧ WF c1 ∧ (UnitTiming.timesSeq 0 (skelBody exL c')).length = 16 ∧
    (UnitTiming.timesSeq 0 (skelBody exL c')).Perm (UnitTiming.timesSeq 0 (skelBody exL c1)) ∧
    normalizeCircuit c' = .ok c' ∧
    (UnitTiming.anyLoopInPar false (skelBody exL c1) = false ∧ UnitTiming.anySubInPar false (skelBody exL c1) = false) := by
  obtain ⟨c, hc, h⟩ := chk_ok ex_passes
  obtain ⟨c1, hc1, h1⟩ := chk_ok h
  simp only [Bool.and_eq_true] at h1
  obtain ⟨c', hc', h2⟩ := chk_ok h1.2
  simp only [decide_eq_true_eq] at h2
  exact ⟨c, c1, c', hc, hc1, hc', C19_wf_passes _ importsOK_default hc hc1, h2, C19_schedule_passes _ exL hc hc1 hc' 0,
    C19_idempotent_passes _ hc hc1 hc', (C19_ok_iff_passes exL _ importsOK_default hc hc1).1 ⟨c', hc'⟩⟩

/-- `exTxt` through `expand_subcircuits ; expand_macros`, then the unit-timing pass: 18 gate instances (the subcircuit block now
bracketed by `prepare_all` / `measure_all`) -/
theorem ex_passes_subs : chk (Pipeline.parseProgram {} exTxt) (fun c =>
    chk (Passes.applySeq [.subs, .macros false] c) (fun c1 =>
      chk (normalizeCircuit c1) (fun c' => decide ((UnitTiming.timesSeq 0 (skelBody exL c')).length = 18)))) = true := by
  decide +kernel

/-- `SubsGone` holds of it; `C19_ok_iff_passes_subs` applies -/
example : ∃ c c1 c', Pipeline.parseProgram {} exTxt = .ok c ∧ Passes.applySeq [.subs, .macros false] c = .ok c1 ∧
    normalizeCircuit c1 = .ok c' ∧ SubsGone [.subs, .macros false] c ∧
    UnitTiming.anySubInPar false (skelBody exL c1) = false ∧ UnitTiming.anyLoopInPar false (skelBody exL c1) = false := by
  obtain ⟨c, hc, h⟩ := chk_ok ex_passes_subs
  obtain ⟨c1, hc1, h1⟩ := chk_ok h
  obtain ⟨c', hc', _⟩ := chk_ok h1
  have hg : SubsGone [.subs, .macros false] c := .inl (by simp)
  exact ⟨c, c1, c', hc, hc1, hc', hg, C19_noSubInPar_passes exL _ hc hc1 hg,
    (C19_ok_iff_passes_subs exL _ importsOK_default hc hc1 hg).1 ⟨c', hc'⟩⟩

/-- a pulse module whose `ALL_GATES` holds a macro (only possible with `autoload_pulses`) -/
def cfgMacroImport : Config :=
  { autoload := true,
    imports := fun n => if n = "m" then some [{ name := "A", tag := .macro, params := [("p0", Kind.none)], hasUnitary := false }]
                        else none }

/-- `ImportsOK` cannot be dropped from `parsed_wf` (for the MODEL; the real `build_circuit` refuses this text, see the header):
with such a module the model's parse succeeds, `native_gates` holds the macro, and the pass raises `JaqalError` at
`Circuit(native_gates=…)` (as `C19_total_class_parsed` says) -/
theorem ex_import_macro : chk (Pipeline.parseProgram cfgMacroImport "from m usepulses *\nregister r[2]\n") (fun c =>
    badNatives c &&
    (match normalizeCircuit c with
     | .error e => decide (e = .jaqal "native-gates-must-be-GateDefinition") && decide (e.cls = "JaqalError")
     | .ok _ => false)) = true := by decide +kernel

example : ¬ ImportsOK cfgMacroImport := by
  intro h
  exact h rfl "m" _ rfl _ (List.mem_singleton.2 rfl) rfl

example : ∃ c, Pipeline.parseProgram cfgMacroImport "from m usepulses *\nregister r[2]\n" = .ok c ∧ ¬ WF c := by
  obtain ⟨c, hc, h⟩ := chk_ok ex_import_macro
  simp only [Bool.and_eq_true] at h
  refine ⟨c, hc, fun hw => ?_⟩
  rw [hw.1] at h
  exact absurd h.1 (by simp)

end Examples

end Jaqal.UnitTimingCircuit

open Jaqal.UnitTimingCircuit in
#print axioms parsed_seqBody
open Jaqal.UnitTimingCircuit in
#print axioms parsed_countsOK
open Jaqal.UnitTimingCircuit in
#print axioms parsed_noSubInPar
open Jaqal.UnitTimingCircuit in
#print axioms parsed_goodNatives
open Jaqal.UnitTimingCircuit in
#print axioms parsed_wf
open Jaqal.UnitTimingCircuit in
#print axioms C19_seqBody_passes
open Jaqal.UnitTimingCircuit in
#print axioms C19_schedule_parsed
open Jaqal.UnitTimingCircuit in
#print axioms C19_schedule_order_parsed
open Jaqal.UnitTimingCircuit in
#print axioms C19_schedule_count_parsed
open Jaqal.UnitTimingCircuit in
#print axioms C19_duration_parsed
open Jaqal.UnitTimingCircuit in
#print axioms C19_flat_parsed
open Jaqal.UnitTimingCircuit in
#print axioms C19_subcircuits_parsed
open Jaqal.UnitTimingCircuit in
#print axioms C19_frame_parsed
open Jaqal.UnitTimingCircuit in
#print axioms C19_meaning_parsed
open Jaqal.UnitTimingCircuit in
#print axioms C19_idempotent_parsed
open Jaqal.UnitTimingCircuit in
#print axioms C19_wf_parsed
open Jaqal.UnitTimingCircuit in
#print axioms C19_ok_iff_parsed
open Jaqal.UnitTimingCircuit in
#print axioms C19_ok_iff_parsed_imports
open Jaqal.UnitTimingCircuit in
#print axioms C19_ok_iff_parsed_ir
open Jaqal.UnitTimingCircuit in
#print axioms C19_total_class_parsed
open Jaqal.UnitTimingCircuit in
#print axioms C19_total_class_parsed_imports
open Jaqal.UnitTimingCircuit in
#print axioms C19_loop_parsed
open Jaqal.UnitTimingCircuit in
#print axioms C19_loop_parsed_imports
open Jaqal.UnitTimingCircuit in
#print axioms C19_schedule_passes
open Jaqal.UnitTimingCircuit in
#print axioms C19_flat_passes
open Jaqal.UnitTimingCircuit in
#print axioms C19_frame_passes
open Jaqal.UnitTimingCircuit in
#print axioms C19_meaning_passes
open Jaqal.UnitTimingCircuit in
#print axioms C19_idempotent_passes
open Jaqal.UnitTimingCircuit in
#print axioms C19_wf_result_passes
open Jaqal.UnitTimingCircuit in
#print axioms C19_circuit_error_classes
open Jaqal.UnitTimingCircuit in
#print axioms C19_error_classes_passes
open Jaqal.UnitTimingCircuit in
#print axioms C19_goodNatives_passes
open Jaqal.UnitTimingCircuit in
#print axioms C19_countsOK_passes
open Jaqal.UnitTimingCircuit in
#print axioms C19_wf_passes
open Jaqal.UnitTimingCircuit in
#print axioms C19_wf_passes_full_holds
open Jaqal.UnitTimingCircuit in
#print axioms C19_loop_passes
open Jaqal.UnitTimingCircuit in
#print axioms C19_ok_iff_passes
open Jaqal.UnitTimingCircuit in
#print axioms C19_fails_only_passes
open Jaqal.UnitTimingCircuit in
#print axioms C19_noSubInPar_passes
open Jaqal.UnitTimingCircuit in
#print axioms C19_ok_iff_passes_subs
open Jaqal.UnitTimingCircuit in
#print axioms C19_total_class_passes_subs
open Jaqal.UnitTimingCircuit in
#print axioms ex_passes
open Jaqal.UnitTimingCircuit in
#print axioms ex_import_macro
