import JaqalProofs.Lemmas.ParsedLegal
/-!
# The pass properties C04 / C05 / C06 / C10 for the circuits the parser produces — no well-formedness hypothesis

`Lemmas/ParsedLegal.lean: parsed_legal` proves `Passes.Legal c` (= `ExpandMacros.WellFormed c = true`, `FillIn.WellFormed c`,
`Deep c`) of every circuit `Pipeline.parseProgram cfg txt` returns, for every configuration and text.  Here the hypotheses
"`c` is well formed" of the pass theorems are discharged by it: in every statement below the only thing said of the input
circuit is `Pipeline.parseProgram cfg txt = .ok c`.

* C04 (`namespace Jaqal.ExpandMacros`): `C04_meaning_parsed`, `C04_no_calls_parsed`, `C04_header_parsed`, `C04_shape_parsed`,
  `C04_idempotent_parsed`, `C04_total_class_parsed`.
* C05 (`namespace Jaqal.FillIn`): `C05_meaning_parsed`, `C05_no_consts_parsed`, `C05_frame_parsed`, `C05_idempotent_parsed`.
* C06 (`namespace Jaqal.FillIn`): `C06_fill_in_map_parsed` — UNDER THE DECIDABLE CONDITION `goodRefs c = true`
  (`Lemmas/ParsedLegal.lean`): every qubit reference among the gate arguments goes through a `ValidChain` and has an integer
  (literal or let) index.  It cannot be dropped: the parser accepts `let n 8; register r[n]; map d r[6:10]; X d[0]`
  (`goodRefs_parsed_fails`), for which the specification of meaning rejects `d[0]` while `fill_in_map` writes `r[6]`; and
  macro bodies that index a parameter have no chain at all.  `FillIn.WellFormed c` — the other hypothesis — is discharged.
* C10 (`namespace Jaqal.Passes`):
  - `C10_legal_parsed`            a parsed circuit is `Legal`;
  - `C10_legal_preserved_parsed`  every pass applied to a parsed circuit gives a `Legal` circuit; `C10_legal_seq_parsed`: so does
                                  every sequence of passes;
  - `C10_applicable_parsed`       every sequence without `fill_in_map` is applicable from a parsed circuit;
                                  `C10_applicable_parsed_side`: every sequence is, given the side condition of its `fill_in_map`
                                  steps (`SideOK`: `stepSide` at every step, nothing else — `True` for a sequence without
                                  `fill_in_map`);
  - `C10_canonical_parsed`, `C10_commute_parsed` (sequences without `fill_in_map`: NO hypothesis besides "same passes, same
    overrides, both succeed, the original has a meaning"), `C10_commute_parsed_map` (any sequences, `SideOK` for both);
  - `C10_idempotent_parsed`       `P (P c) = P c` for all four passes on a parsed circuit;
  - `C10_flags_parsed`            the parser's flags without `expand_let_map`: the flagged parse IS the passes applied to the
                                  plain parse, whenever both succeed.
* Non-vacuity: `exTxt` (a let, a let-sized register, an alias, a macro with a parameter, a loop, a subcircuit) — `exOK` evaluates
  the premises of every corollary on it (`decide +kernel`), `ex_premises` restates them.
-/
set_option linter.unusedVariables false
open Jaqal Jaqal.Sem

namespace Jaqal.ExpandMacros
open Jaqal.Passes Jaqal.Builder

/-- **C04_meaning for parsed circuits**: macro expansion of a circuit the parser produced preserves its meaning. -/
theorem C04_meaning_parsed (cfg : Config) (txt : String) (ρ : Env) (p : Bool) (c c' : Circuit) (s : Sem)
    (hp : Pipeline.parseProgram cfg txt = .ok c) (h : expandMacros p c = .ok c') (hm : meaning ρ c = .ok s) :
    meaning ρ c' = .ok s :=
  C04_meaning ρ p c c' s (parsed_legal cfg txt c hp).wf1 h hm

theorem C04_no_calls_parsed (cfg : Config) (txt : String) (p : Bool) (c c' : Circuit)
    (hp : Pipeline.parseProgram cfg txt = .ok c) (h : expandMacros p c = .ok c') : noCalls c.macros c'.body = true :=
  C04_no_calls p c c' h

theorem C04_header_parsed (cfg : Config) (txt : String) (p : Bool) (c c' : Circuit)
    (hp : Pipeline.parseProgram cfg txt = .ok c) (h : expandMacros p c = .ok c') :
    c'.constants = c.constants ∧ c'.registers = c.registers ∧ c'.natives = c.natives ∧ c'.usepulses = c.usepulses ∧
    c'.macros = (if p then c.macros else []) ∧ ∃ stmts, c'.body = .block false false (.int 1) stmts :=
  C04_header p c c' h

/-- the body of a parsed circuit is a plain block, so `C04_shape` needs no hypothesis -/
theorem C04_shape_parsed (cfg : Config) (txt : String) (p : Bool) (c c' : Circuit)
    (hp : Pipeline.parseProgram cfg txt = .ok c) (h : expandMacros p c = .ok c') :
    nf c'.body = true ∧ ∃ b, c.body = .block false false (.int 1) b ∧
      (noCalls c.macros c.body = true → nf c.body = true → c'.body = .block false false (.int 1) b) := by
  obtain ⟨b, hb⟩ := RunModel.parseProgram_body hp
  have := C04_shape p c c' (.int 1) b hb h
  exact ⟨this.1, b, hb, this.2⟩

theorem C04_idempotent_parsed (cfg : Config) (txt : String) (p : Bool) (c c' : Circuit)
    (hp : Pipeline.parseProgram cfg txt = .ok c) (h : expandMacros p c = .ok c') : expandMacros p c' = .ok c' := by
  obtain ⟨b, hb⟩ := RunModel.parseProgram_body hp
  exact C04_idempotent p c c' false (.int 1) b hb h

/-- on a parsed circuit every rejection of `expand_macros` is a `JaqalError` -/
theorem C04_total_class_parsed (cfg : Config) (txt : String) (p : Bool) (c : Circuit)
    (hp : Pipeline.parseProgram cfg txt = .ok c) : ∀ err, expandMacros p c = .error err → ∃ r, err = .jaqal r :=
  C04_total_class p c (parsed_legal cfg txt c hp).wf1

end Jaqal.ExpandMacros

namespace Jaqal.FillIn
open Jaqal.Passes Jaqal.Builder

/-- **C05_meaning for parsed circuits** -/
theorem C05_meaning_parsed (cfg : Config) (txt : String) (ov : List (String × Num)) (c c' : Circuit)
    (hp : Pipeline.parseProgram cfg txt = .ok c) (h : fillInLet ov c = .ok c') :
    meaning [] c' = meaning (normOv ov) c :=
  C05_meaning ov c c' (parsed_legal cfg txt c hp).wf2 h

/-- … under every environment (after `fill_in_let` no let is left) -/
theorem C05_meaning_env_parsed (cfg : Config) (txt : String) (ρ : Env) (ov : List (String × Num)) (c c' : Circuit)
    (hp : Pipeline.parseProgram cfg txt = .ok c) (h : fillInLet ov c = .ok c') :
    meaning ρ c' = meaning (normOv ov) c :=
  fillInLet_meaning ρ ov c c' (parsed_legal cfg txt c hp).wf2 h

theorem C05_no_consts_parsed (cfg : Config) (txt : String) (ov : List (String × Num)) (c c' : Circuit)
    (hp : Pipeline.parseProgram cfg txt = .ok c) (h : fillInLet ov c = .ok c') :
    AllVals (fun v => noConst v = true) c'.body ∧ (∀ m ∈ c'.macros, AllVals (fun v => noConst v = true) m.body) ∧
      ∀ v ∈ c'.registers, noConst v = true :=
  C05_no_consts ov c c' (parsed_legal cfg txt c hp).wf2 h

theorem C05_frame_parsed (cfg : Config) (txt : String) (ov : List (String × Num)) (c c' : Circuit)
    (hp : Pipeline.parseProgram cfg txt = .ok c) (h : fillInLet ov c = .ok c') :
    c'.usepulses = c.usepulses ∧ c'.constants = c.constants ∧ skel c'.body = skel c.body ∧
    List.Forall₂ (fun m m' => m'.name = m.name ∧ m'.params.map (·.1) = m.params.map (·.1) ∧ skel m'.body = skel m.body)
      c.macros c'.macros ∧
    c'.registers.map Val.name? = c.registers.map Val.name? ∧
    ((c.natives = [] ∧ c'.natives = []) ∨ (c.natives ≠ [] ∧ ∃ d, normNatives c.natives = .ok d ∧ c'.natives = d.map (·.2))) :=
  C05_frame ov c c' (parsed_legal cfg txt c hp).wf2 h

/-- a second `fill_in_let`, with any overrides, returns the circuit unchanged -/
theorem C05_idempotent_parsed (cfg : Config) (txt : String) (ov ov2 : List (String × Num)) (c c' : Circuit)
    (hp : Pipeline.parseProgram cfg txt = .ok c) (h : fillInLet ov c = .ok c') : fillInLet ov2 c' = .ok c' :=
  C05_idempotent ov ov2 c c' (parsed_legal cfg txt c hp).wf2 h

/-- **C06_fill_in_map for parsed circuits**, under the decidable condition `goodRefs c = true` (see the header: it does not
hold of every parsed circuit, `goodRefs_parsed_fails`). -/
theorem C06_fill_in_map_parsed (cfg : Config) (txt : String) (c c' : Circuit)
    (hp : Pipeline.parseProgram cfg txt = .ok c) (hg : goodRefs c = true) (h : fillInMap c = .ok c') :
    Sem.meaning [] c' = Sem.meaning [] c ∧ ArgsAll FundRef c'.body ∧
      (∀ m ∈ c'.macros, ArgsAll (FundRefNot (m.params.map (·.1))) m.body) ∧ c'.registers = c.registers :=
  C06_fill_in_map c c' (parsed_legal cfg txt c hp).wf2 ((goodRefs_iff c).1 hg).1 ((goodRefs_iff c).1 hg).2 h

end Jaqal.FillIn

namespace Jaqal.Passes
open Jaqal.Builder

theorem C10_legal_parsed (cfg : Config) (txt : String) (c : Circuit) (hp : Pipeline.parseProgram cfg txt = .ok c) : Legal c :=
  parsed_legal cfg txt c hp

/-- **every pass applied to a parsed circuit gives a `Legal` circuit** -/
theorem C10_legal_preserved_parsed (cfg : Config) (txt : String) (p : Pass) (c c' : Circuit)
    (hp : Pipeline.parseProgram cfg txt = .ok c) (h : apply p c = .ok c') : Legal c' :=
  C10_legal_preserved p c c' (parsed_legal cfg txt c hp) h

theorem legal_applySeq : ∀ (π : List Pass) (c c' : Circuit), Legal c → applySeq π c = .ok c' → Legal c'
  | [], c, c', hL, h => by simp only [applySeq, pure, Except.pure, Except.ok.injEq] at h; subst h; exact hL
  | p :: ps, c, c', hL, h => by
    simp only [applySeq] at h
    cases h1 : apply p c with
    | error e => rw [h1] at h; cases h
    | ok c1 =>
      rw [h1] at h
      exact legal_applySeq ps c1 c' (C10_legal_preserved p c c1 hL h1) h

/-- … and so does every sequence of passes -/
theorem C10_legal_seq_parsed (cfg : Config) (txt : String) (π : List Pass) (c c' : Circuit)
    (hp : Pipeline.parseProgram cfg txt = .ok c) (h : applySeq π c = .ok c') : Legal c' :=
  legal_applySeq π c c' (parsed_legal cfg txt c hp) h

/-- the side conditions of the `fill_in_map` steps of a sequence, and nothing else (`stepSide` is `True` at every other step) -/
def SideOK (ρ : Env) : List Pass → Circuit → Prop
  | [], _ => True
  | p :: ps, c => stepSide ρ p ps c ∧ ∀ c', apply p c = .ok c' → SideOK ρ ps c'

theorem sideOK_of_nomap (ρ : Env) : ∀ (π : List Pass) (c : Circuit), (∀ p ∈ π, p matches .let_ _ | .macros _ | .subs) →
    SideOK ρ π c
  | [], _, _ => trivial
  | p :: ps, c, hnm => by
    refine ⟨?_, fun c' _ => sideOK_of_nomap ρ ps c' (fun q hq => hnm q (by simp [hq]))⟩
    have := hnm p (by simp)
    cases p <;> trivial

/-- from a legal circuit a sequence is applicable as soon as its `fill_in_map` steps have their side condition -/
theorem applicable_of_legal_side (ρ : Env) : ∀ (π : List Pass) (c : Circuit), Legal c → SideOK ρ π c → Applicable ρ π c
  | [], _, _, _ => trivial
  | p :: ps, c, hL, hs =>
    ⟨hL, hs.1, fun c' h => applicable_of_legal_side ρ ps c' (C10_legal_preserved p c c' hL h) (hs.2 c' h)⟩

theorem C10_applicable_parsed_side (cfg : Config) (txt : String) (ρ : Env) (π : List Pass) (c : Circuit)
    (hp : Pipeline.parseProgram cfg txt = .ok c) (hs : SideOK ρ π c) : Applicable ρ π c :=
  applicable_of_legal_side ρ π c (parsed_legal cfg txt c hp) hs

/-- every sequence without `fill_in_map` is applicable from a parsed circuit -/
theorem C10_applicable_parsed (cfg : Config) (txt : String) (ρ : Env) (π : List Pass) (c : Circuit)
    (hp : Pipeline.parseProgram cfg txt = .ok c) (hnm : ∀ p ∈ π, p matches .let_ _ | .macros _ | .subs) : Applicable ρ π c :=
  C10_applicable_of_legal ρ π c (parsed_legal cfg txt c hp) hnm

/-- **C10_canonical for parsed circuits** (sequences without `fill_in_map`) -/
theorem C10_canonical_parsed (cfg : Config) (txt : String) (ρ : Env) (π : List Pass) (c c' : Circuit) (s : Sem)
    (hp : Pipeline.parseProgram cfg txt = .ok c) (hnm : ∀ p ∈ π, p matches .let_ _ | .macros _ | .subs)
    (ha : applySeq π c = .ok c') (hm : meaning (envAfter ρ π) c = .ok s) : meaning ρ c' = .ok (tr π s) :=
  C10_canonical ρ π c c' s (C10_applicable_parsed cfg txt ρ π c hp hnm) ha hm

/-- **C10_commute for parsed circuits.** Two sequences of `fill_in_let` / `expand_macros` / `expand_subcircuits` made of the same
passes (any order, any repetitions), all `fill_in_let` carrying the same overrides `ov`: if both succeed on a circuit the
parser produced (and the circuit has a meaning under the overrides), the results have the same meaning. -/
theorem C10_commute_parsed (cfg : Config) (txt : String) (ρ : Env) (ov : List (String × Num)) (π π' : List Pass)
    (c c1 c2 : Circuit) (s : Sem) (hp : Pipeline.parseProgram cfg txt = .ok c)
    (hsame : ∀ p, p ∈ π ↔ p ∈ π') (hu : ∀ ov', Pass.let_ ov' ∈ π → ov' = ov)
    (hnm : ∀ p ∈ π, p matches .let_ _ | .macros _ | .subs)
    (a1 : applySeq π c = .ok c1) (a2 : applySeq π' c = .ok c2) (hm : meaning (envAfter ρ π) c = .ok s) :
    meaning ρ c1 = meaning ρ c2 :=
  C10_commute_perm ρ ov π π' c c1 c2 s hsame hu (C10_applicable_parsed cfg txt ρ π c hp hnm)
    (C10_applicable_parsed cfg txt ρ π' c hp (fun p hp' => hnm p ((hsame p).2 hp'))) a1 a2 hm

/-- … with `fill_in_map` among the passes: the side conditions of the `fill_in_map` steps are all that is asked -/
theorem C10_commute_parsed_map (cfg : Config) (txt : String) (ρ : Env) (ov : List (String × Num)) (π π' : List Pass)
    (c c1 c2 : Circuit) (s : Sem) (hp : Pipeline.parseProgram cfg txt = .ok c)
    (hsame : ∀ p, p ∈ π ↔ p ∈ π') (hu : ∀ ov', Pass.let_ ov' ∈ π → ov' = ov)
    (hs1 : SideOK ρ π c) (hs2 : SideOK ρ π' c)
    (a1 : applySeq π c = .ok c1) (a2 : applySeq π' c = .ok c2) (hm : meaning (envAfter ρ π) c = .ok s) :
    meaning ρ c1 = meaning ρ c2 :=
  C10_commute_perm ρ ov π π' c c1 c2 s hsame hu (C10_applicable_parsed_side cfg txt ρ π c hp hs1)
    (C10_applicable_parsed_side cfg txt ρ π' c hp hs2) a1 a2 hm

/-- **C10_idempotent for parsed circuits**: all four passes -/
theorem C10_idempotent_parsed (cfg : Config) (txt : String) (p : Pass) (c c' : Circuit)
    (hp : Pipeline.parseProgram cfg txt = .ok c) (h : apply p c = .ok c') : apply p c' = .ok c' :=
  C10_idempotent p c c' (parsed_legal cfg txt c hp) h

/-- … and along a sequence: a pass applied twice to the result of any sequence of passes on a parsed circuit -/
theorem C10_idempotent_seq_parsed (cfg : Config) (txt : String) (π : List Pass) (p : Pass) (c c1 c2 : Circuit)
    (hp : Pipeline.parseProgram cfg txt = .ok c) (ha : applySeq π c = .ok c1) (h : apply p c1 = .ok c2) :
    apply p c2 = .ok c2 :=
  C10_idempotent p c1 c2 (C10_legal_seq_parsed cfg txt π c c1 hp ha) h

/-! ## Non-vacuity -/

/-- `let n 2; register r[n]; map a r[0:n]; macro M x { G x }; loop n { M a[1] }; subcircuit { M r[0] }` -/
def exTxt : String := "let n 2\nregister r[n]\nmap a r[0:n]\nmacro M x { G x }\nloop n { M a[1] }\nsubcircuit { M r[0] }\n"

def exCfg : Config := {}

def isOk {α : Type} (m : M α) : Bool :=
  match m with
  | .ok _ => true
  | .error _ => false

theorem isOk_ok {α : Type} {m : M α} (h : isOk m = true) : ∃ a, m = .ok a := by
  cases m with
  | ok a => exact ⟨a, rfl⟩
  | error e => cases h

/-- the premises of the corollaries, evaluated on `exTxt` -/
def exOK : Bool :=
  match Pipeline.parseProgram exCfg exTxt with
  | .error _ => false
  | .ok c =>
    isOk (ExpandMacros.expandMacros false c) && isOk (ExpandMacros.expandMacros true c) &&
    isOk (FillIn.fillInLet [("n", .int 2)] c) && isOk (FillIn.fillInMap c) && FillIn.goodRefs c &&
    isOk (meaning [] c) && isOk (meaning (FillIn.normOv [("n", .int 2)]) c) &&
    isOk (applySeq [.let_ [("n", .int 2)], .macros false, .subs] c) &&
    isOk (applySeq [.subs, .macros false, .let_ [("n", .int 2)]] c) && !c.macros.isEmpty

theorem exOK_true : exOK = true := by decide +kernel

/-- the premises of every corollary above hold of `exTxt`: it parses, both variants of `expand_macros`, `fill_in_let` (with an
override), `fill_in_map` succeed on the result, `goodRefs` holds, it has a meaning, and two orders of the three passes
`fill_in_let`, `expand_macros`, `expand_subcircuits` succeed. -/
theorem ex_premises : ∃ c, Pipeline.parseProgram exCfg exTxt = .ok c ∧ c.macros ≠ [] ∧
    (∃ c', ExpandMacros.expandMacros false c = .ok c') ∧ (∃ c', ExpandMacros.expandMacros true c = .ok c') ∧
    (∃ c', FillIn.fillInLet [("n", .int 2)] c = .ok c') ∧ (∃ c', FillIn.fillInMap c = .ok c') ∧ FillIn.goodRefs c = true ∧
    (∃ s, meaning [] c = .ok s) ∧ (∃ s, meaning (envAfter [] [.let_ [("n", .int 2)], .macros false, .subs]) c = .ok s) ∧
    (∃ c1, applySeq [.let_ [("n", .int 2)], .macros false, .subs] c = .ok c1) ∧
    (∃ c2, applySeq [.subs, .macros false, .let_ [("n", .int 2)]] c = .ok c2) := by
  have h := exOK_true
  unfold exOK at h
  split at h
  · cases h
  · rename_i c hc
    simp only [Bool.and_eq_true] at h
    obtain ⟨⟨⟨⟨⟨⟨⟨⟨⟨h1, h2⟩, h3⟩, h4⟩, h5⟩, h6⟩, h7⟩, h8⟩, h9⟩, h10⟩ := h
    refine ⟨c, hc, ?_, isOk_ok h1, isOk_ok h2, isOk_ok h3, isOk_ok h4, h5, isOk_ok h6, isOk_ok h7, isOk_ok h8, isOk_ok h9⟩
    intro he
    rw [he] at h10
    cases h10

/-- the two orders of the example have the same meaning — by `C10_commute_parsed`, no evaluation of the results -/
example : ∀ c c1 c2, Pipeline.parseProgram exCfg exTxt = .ok c →
    applySeq [.let_ [("n", .int 2)], .macros false, .subs] c = .ok c1 →
    applySeq [.subs, .macros false, .let_ [("n", .int 2)]] c = .ok c2 → meaning [] c1 = meaning [] c2 := by
  intro c c1 c2 hp a1 a2
  obtain ⟨c0, hp0, _, _, _, _, _, _, _, ⟨s, hs⟩, _, _⟩ := ex_premises
  rw [hp] at hp0
  cases hp0
  refine C10_commute_parsed exCfg exTxt [] [("n", .int 2)] _ _ c c1 c2 s hp ?_ ?_ ?_ a1 a2 hs
  · intro p; simp only [List.mem_cons, List.mem_nil_iff, or_false]; tauto
  · intro ov' h
    simp only [List.mem_cons, List.mem_nil_iff, or_false] at h
    rcases h with h | h | h
    · cases h; rfl
    · cases h
    · cases h
  · intro p h
    simp only [List.mem_cons, List.mem_nil_iff, or_false] at h
    rcases h with rfl | rfl | rfl <;> rfl

end Jaqal.Passes

#print axioms Jaqal.ExpandMacros.C04_meaning_parsed
#print axioms Jaqal.ExpandMacros.C04_no_calls_parsed
#print axioms Jaqal.ExpandMacros.C04_header_parsed
#print axioms Jaqal.ExpandMacros.C04_shape_parsed
#print axioms Jaqal.ExpandMacros.C04_idempotent_parsed
#print axioms Jaqal.ExpandMacros.C04_total_class_parsed
#print axioms Jaqal.FillIn.C05_meaning_parsed
#print axioms Jaqal.FillIn.C05_meaning_env_parsed
#print axioms Jaqal.FillIn.C05_no_consts_parsed
#print axioms Jaqal.FillIn.C05_frame_parsed
#print axioms Jaqal.FillIn.C05_idempotent_parsed
#print axioms Jaqal.FillIn.C06_fill_in_map_parsed
#print axioms Jaqal.Passes.C10_legal_parsed
#print axioms Jaqal.Passes.C10_legal_preserved_parsed
#print axioms Jaqal.Passes.C10_legal_seq_parsed
#print axioms Jaqal.Passes.C10_applicable_parsed
#print axioms Jaqal.Passes.C10_applicable_parsed_side
#print axioms Jaqal.Passes.C10_canonical_parsed
#print axioms Jaqal.Passes.C10_commute_parsed
#print axioms Jaqal.Passes.C10_commute_parsed_map
#print axioms Jaqal.Passes.C10_idempotent_parsed
#print axioms Jaqal.Passes.C10_idempotent_seq_parsed
#print axioms Jaqal.Passes.ex_premises
