import JaqalModel.Model.Heap
import JaqalModel.Generated.Effects
/-!
# C11 — analyses and transformations never modify the circuit they are given

Model: `JaqalModel/Model/Heap.lean` — a heap of objects with identity (records, lists, dictionaries), a
command language for the effects of a library call (`alloc`, `write`, `listAppend`, `dictSet`, reads,
`emit`), `run`, the run-time traces `writesOf` / `allocatedBy`, `call` (a library call on the shared
heap with the circuit as argument) and `history` (a sequence of calls on ONE shared heap).

What is proved here
* `C11_frame`      a run whose writes all go to addresses outside the heap it started from (i.e. to
                   objects it allocated itself: `C11_frame_alloc`) leaves every pre-existing object
                   unchanged — also when it stops with an error half-way.
* `C11_history`    for any list of such calls run one after the other on a shared heap: after every
                   step the heap restricted to the original domain is the original heap, and — for calls
                   whose result is a function of the part of the heap that existed before
                   (`ReadsOnly`) — the list of results is the list of results of each call on the
                   original heap, i.e. on a freshly parsed copy.
* `C11_static`     the link between the heap model and the generated table: if the receiver slot of
                   every mutating command of a program is bound by an `alloc` of that program (the
                   table's classes `fresh` / `selfInit` / `ownState`), the program satisfies the
                   hypothesis of `C11_frame` on every heap.
* `C11_sites_safe` the obligation over the table REGENERATED from the Python source on every check:
                   every mutation site has a receiver of class fresh / selfInit / ownState, or is in the
                   hand-kept justification list.  A pass that gains `circuit.body.statements.extend(…)`
                   produces a `param` row that is not justified, and this `decide` fails.
* `C11_globals_pinned`  the regenerated table of process-global state equals the pinned one (for C16).

What is NOT proved (trusted, and cross-checked dynamically by `/verif/harness/agents/heap_history.py`):
that the syntactic provenance classes computed by `/verif/harness/effects_scan.py` are right, i.e. that
each Python function really is one of the programs to which `C11_static` applies; and `ReadsOnly` for
the real passes (it holds by construction for the value-level Lean models of the passes, which are
functions of the circuit value).
-/
namespace Jaqal.Heap

/-! ## one step -/

theorem step_of_err (c : Cmd) (s : St) (h : s.err.isSome = true) : step c s = s := by
  simp [step, h]

/-- nothing is ever deallocated -/
theorem step_length_le (c : Cmd) (s : St) : s.heap.length ≤ (step c s).heap.length := by
  unfold step
  split
  · exact Nat.le_refl _
  · cases c <;> simp only [] <;> (repeat' split) <;> simp [St.fail]

/-- A step leaves the object at `a` alone unless `a` is its write target (or beyond the heap). -/
theorem step_frame (c : Cmd) (s : St) (n a : Nat) (hn : n ≤ s.heap.length)
    (ht : ∀ t, c.target s = some t → n ≤ t) (ha : a < n) :
    (step c s).heap[a]? = s.heap[a]? := by
  by_cases herr : s.err.isSome = true
  · rw [step_of_err c s herr]
  · have hal : a < s.heap.length := Nat.lt_of_lt_of_le ha hn
    cases c with
    | alloc k =>
        simp only [step, herr]
        simp [List.getElem?_append_left hal]
    | write r f e =>
        simp only [Cmd.target, herr] at ht
        simp only [step, herr]
        repeat' split
        all_goals (try simp [St.fail])
        rename_i a' _ hr _ _ _ _
        have := ht a' (by simp [hr])
        exact List.getElem?_set_ne (by omega)
    | listAppend r e =>
        simp only [Cmd.target, herr] at ht
        simp only [step, herr]
        repeat' split
        all_goals (try simp [St.fail])
        rename_i a' _ hr _ _ _ _
        have := ht a' (by simp [hr])
        exact List.getElem?_set_ne (by omega)
    | dictSet r k e =>
        simp only [Cmd.target, herr] at ht
        simp only [step, herr]
        repeat' split
        all_goals (try simp [St.fail])
        rename_i a' _ hr _ _ _ _
        have := ht a' (by simp [hr])
        exact List.getElem?_set_ne (by omega)
    | readField r f => simp only [step, herr]; (repeat' split) <;> simp [St.fail]
    | readItem r i => simp only [step, herr]; (repeat' split) <;> simp [St.fail]
    | readKey r k => simp only [step, herr]; (repeat' split) <;> simp [St.fail]
    | readLen r => simp only [step, herr]; (repeat' split) <;> simp [St.fail]
    | emit e => simp only [step, herr]; (repeat' split) <;> simp [St.fail]

/-! ## runs -/

theorem run_length_le (p : Prog) : ∀ s : St, s.heap.length ≤ (run p s).heap.length := by
  induction p with
  | nil => intro s; exact Nat.le_refl _
  | cons c p ih => intro s; exact Nat.le_trans (step_length_le c s) (ih (step c s))

/-- The frame lemma in the form the induction needs: `n` is any bound below the current heap size. -/
theorem run_frame (p : Prog) : ∀ (s : St) (n : Nat), n ≤ s.heap.length →
    (∀ t ∈ writesOf p s, n ≤ t) → ∀ a, a < n → (run p s).heap[a]? = s.heap[a]? := by
  induction p with
  | nil => intro s n _ _ a _; rfl
  | cons c p ih =>
      intro s n hn hw a ha
      have h1 : (step c s).heap[a]? = s.heap[a]? :=
        step_frame c s n a hn (fun t ht => hw t (by simp [writesOf, ht])) ha
      have h2 := ih (step c s) n (Nat.le_trans hn (step_length_le c s))
        (fun t ht => hw t (by simp [writesOf, ht])) a ha
      simp only [run]
      rw [h2, h1]

/-- every address a run allocates lies outside the heap the run started from -/
theorem allocatedBy_fresh (p : Prog) : ∀ (s : St), ∀ a ∈ allocatedBy p s, s.heap.length ≤ a := by
  induction p with
  | nil => intro s a h; simp [allocatedBy] at h
  | cons c p ih =>
      intro s a h
      simp only [allocatedBy, List.mem_append] at h
      rcases h with h | h
      · cases c <;> simp [Cmd.newAddr] at h
        exact Nat.le_of_eq h.2
      · exact Nat.le_trans (step_length_le c s) (ih _ a h)

/-- **Frame theorem.** If every write of the run of `p` from `s` targets an address outside `dom s.heap`,
every object of `dom s.heap` is unchanged at the end (whether or not the run ended in an error). -/
theorem C11_frame (p : Prog) (s : St) (hw : ∀ w ∈ writesOf p s, ¬ s.heap.has w) :
    ∀ a, s.heap.has a → (run p s).heap[a]? = s.heap[a]? :=
  fun a ha => run_frame p s s.heap.length (Nat.le_refl _) (fun t ht => Nat.le_of_not_lt (hw t ht)) a ha

/-- The same with the hypothesis of the design: every write targets an object the run allocated. -/
theorem C11_frame_alloc (p : Prog) (s : St) (hw : ∀ w ∈ writesOf p s, w ∈ allocatedBy p s) :
    ∀ a, s.heap.has a → (run p s).heap[a]? = s.heap[a]? :=
  C11_frame p s (fun w h => Nat.not_lt.mpr (allocatedBy_fresh p s w (hw w h)))

/-! ## histories of calls on a shared heap -/

theorem Extends.refl (h : Heap) : Extends h h := fun _ _ => rfl

theorem Extends.length_le {h h' : Heap} (e : Extends h h') : h.length ≤ h'.length := by
  cases hl : h.length with
  | zero => exact Nat.zero_le _
  | succ k =>
      have hk : k < h.length := by omega
      have := e k hk
      rw [List.getElem?_eq_getElem hk] at this
      have := (List.getElem?_eq_some_iff.mp this).1
      omega

/-- `p`, called with arguments `roots`, writes only outside the original heap `h0` — on the original
heap and on every heap that earlier calls of the history may have grown from it. -/
def OwnWrites (roots : List Val) (h0 : Heap) (p : Prog) : Prop :=
  ∀ h, Extends h0 h → ∀ w ∈ writesOf p ⟨h, roots, [], none⟩, h0.length ≤ w

/-- the result of the call is a function of the pre-existing part of the heap -/
def ReadsOnly (roots : List Val) (h0 : Heap) (p : Prog) : Prop :=
  ∀ h, Extends h0 h → (call roots p h).result = (call roots p h0).result

theorem call_extends {roots : List Val} {h0 h : Heap} {p : Prog} (e : Extends h0 h)
    (ow : OwnWrites roots h0 p) : Extends h0 (call roots p h).heap := by
  intro a ha
  have := run_frame p ⟨h, roots, [], none⟩ h0.length e.length_le (ow h e) a ha
  simp only [call]
  rw [this]
  exact e a ha

theorem history_aux (roots : List Val) (h0 : Heap) : ∀ (ps : List Prog) (h : Heap), Extends h0 h →
    (∀ p ∈ ps, OwnWrites roots h0 p) →
    Extends h0 (history roots ps h).2 ∧
    ((∀ p ∈ ps, ReadsOnly roots h0 p) →
      (history roots ps h).1 = ps.map (fun p => (call roots p h0).result)) := by
  intro ps
  induction ps with
  | nil => intro h e _; exact ⟨e, fun _ => rfl⟩
  | cons p ps ih =>
      intro h e ow
      have e' : Extends h0 (call roots p h).heap := call_extends e (ow p (by simp))
      have := ih (call roots p h).heap e' (fun q hq => ow q (by simp [hq]))
      refine ⟨this.1, fun ro => ?_⟩
      simp only [history, List.map_cons]
      rw [this.2 (fun q hq => ro q (by simp [hq])), ro p (by simp) h e]

/-- **History theorem.** Let every call of the list write only to objects it allocated (`OwnWrites`).
Run them in the given order - any order, any repetitions - on one shared heap `h0`, each with the shared
circuit `roots` as argument.  Then
1. after every step (`ps.take k`, for every `k`) the heap restricted to `dom h0` is `h0`;
2. if moreover every call's result depends only on the pre-existing part of the heap (`ReadsOnly`), the
   results are exactly the results of each call run alone on the original heap `h0` - which is what the
   call returns on a freshly parsed copy of the circuit. -/
theorem C11_history (roots : List Val) (h0 : Heap) (ps : List Prog)
    (ow : ∀ p ∈ ps, OwnWrites roots h0 p) :
    (∀ k, Extends h0 (history roots (ps.take k) h0).2) ∧
    ((∀ p ∈ ps, ReadsOnly roots h0 p) →
      (history roots ps h0).1 = ps.map (fun p => (call roots p h0).result)) :=
  ⟨fun k => (history_aux roots h0 (ps.take k) h0 (Extends.refl h0)
      (fun p hp => ow p (List.mem_of_mem_take hp))).1,
   (history_aux roots h0 ps h0 (Extends.refl h0) ow).2⟩

/-! ## non-vacuity: a pass-shaped program that satisfies the hypotheses, and one that violates the conclusion

Heap `h₀`: address 0 = the circuit `{body ↦ @1, n ↦ 7}`, address 1 = its statement list `[10, 20]`.
`roots = [@0]` (the call receives the circuit). -/

def h₀ : Heap := [.record [("body", .ref 1), ("n", .int 7)], .list [.int 10, .int 20]]
def roots₀ : List Val := [.ref 0]

/-- shaped like `visit_Circuit` of a pass: read the body, build a NEW list from its items, hang it on a
NEW circuit object, return what was read. -/
def goodPass : Prog :=
  [ .readField 0 "body",      -- slot 1 = circuit.body
    .readItem 1 0,            -- slot 2 = body[0]
    .alloc .list,             -- slot 3 = new_statements = []
    .listAppend 3 (.var 2),   -- new_statements.append(body[0])
    .alloc .record,           -- slot 4 = new_circuit
    .write 4 "body" (.var 3), -- new_circuit.body = new_statements
    .readField 0 "n",         -- slot 5
    .emit (.var 2), .emit (.var 5) ]

/-- the seeded bug: `circuit.body.append(99)` -/
def badPass : Prog := [ .readField 0 "body", .listAppend 1 (.int 99), .readLen 1, .emit (.var 2) ]

/-- `goodPass` satisfies the hypothesis of `C11_frame` (and of `C11_frame_alloc`) on `h₀` … -/
example : ∀ w ∈ writesOf goodPass ⟨h₀, roots₀, [], none⟩, ¬ h₀.has w := by decide
example : ∀ w ∈ writesOf goodPass ⟨h₀, roots₀, [], none⟩,
    w ∈ allocatedBy goodPass ⟨h₀, roots₀, [], none⟩ := by decide
/-- … does real work (two objects allocated and written, a result produced, no error) … -/
example : (call roots₀ goodPass h₀).heap.length = 4
    ∧ (call roots₀ goodPass h₀).heap[2]? = some (.list [.int 10])
    ∧ (call roots₀ goodPass h₀).result = ⟨[.int 10, .int 7], none⟩ := by decide
/-- … and `badPass` violates the CONCLUSION (so the hypothesis is what makes the theorem true): it writes
to address 1 ∈ dom h₀, the statement list of the input is different afterwards, and a second call of
the same analysis on the shared circuit returns something else than on a fresh copy. -/
example : writesOf badPass ⟨h₀, roots₀, [], none⟩ = [1] := by decide
example : (call roots₀ badPass h₀).heap[1]? ≠ h₀[1]? := by decide
example : (history roots₀ [badPass, badPass] h₀).1
    ≠ [badPass, badPass].map (fun p => (call roots₀ p h₀).result) := by decide
/-- A run that fails half-way (`IndexError` after the allocation) is covered by the frame theorem too. -/
example : (call roots₀ [.alloc .list, .readField 0 "body", .readItem 2 5, .listAppend 2 (.int 1)] h₀).err
    = some "IndexError" := by decide

/-- `tinyPass` (read an attribute of the circuit, allocate a list, append to it, return the attribute)
writes only to its own allocation on EVERY heap that extends `h₀` - the hypothesis of `C11_history` - … -/
def tinyPass : Prog := [ .readField 0 "n", .alloc .list, .listAppend 2 (.var 1), .emit (.var 1) ]

theorem tinyPass_ownWrites : OwnWrites roots₀ h₀ tinyPass := by
  intro h e w hw
  have hl := e.length_le
  have h0 : h[0]? = some (.record [("body", .ref 1), ("n", .int 7)]) := e 0 (by decide)
  have hlen : h₀.length = 2 := rfl
  simp [tinyPass, writesOf, step, Cmd.target, addrOf, roots₀, h0, assocGet] at hw
  subst hw; omega

/-- … and its result is a function of the pre-existing part of the heap. -/
theorem tinyPass_readsOnly : ReadsOnly roots₀ h₀ tinyPass := by
  intro h e
  have h0 : h[0]? = some (.record [("body", .ref 1), ("n", .int 7)]) := e 0 (by decide)
  simp [tinyPass, call, run, step, addrOf, roots₀, h0, assocGet, eval, Obj.empty,
    St.result, h₀]

/-- The history theorem applied: any number of `tinyPass` calls on the shared circuit return, every
time, what one call on a fresh copy returns. -/
example (k : Nat) :
    (history roots₀ (List.replicate k tinyPass) h₀).1 = List.replicate k ⟨[.int 7], none⟩ := by
  have := (C11_history roots₀ h₀ (List.replicate k tinyPass)
    (fun p hp => by rw [List.eq_of_mem_replicate hp]; exact tinyPass_ownWrites)).2
    (fun p hp => by rw [List.eq_of_mem_replicate hp]; exact tinyPass_readsOnly)
  rw [this, List.map_replicate]
  rfl

/-! ## the static check that corresponds to the generated table -/

/-- commands that bind a new environment slot when they succeed -/
def Cmd.binds : Cmd → Bool
  | .alloc _ | .readField _ _ | .readItem _ _ | .readKey _ _ | .readLen _ => true
  | _ => false

/-- the receiver SLOT of a mutating command (syntactic) -/
def Cmd.receiver : Cmd → Option Nat
  | .write r _ _ | .listAppend r _ | .dictSet r _ _ => some r
  | _ => none

/-- The syntactic check behind the table's classes `fresh` / `selfInit` / `ownState`: every mutating
command's receiver slot was bound by an `alloc` of this same program.  `len` is the number of slots
bound so far (the arguments first), `own` the slots bound by `alloc`. -/
def staticOwn : Prog → Nat → List Nat → Bool
  | [], _, _ => true
  | c :: p, len, own =>
      (match c.receiver with
        | some r => own.contains r
        | none => true) &&
      staticOwn p (if c.binds then len + 1 else len) (match c with | .alloc _ => len :: own | _ => own)

/-- effect of a successful step on the environment -/
theorem step_env (c : Cmd) (s : St) (h : (step c s).err = none) :
    s.err = none ∧
    ((c.binds = false ∧ (step c s).env = s.env) ∨
     (c.binds = true ∧ ∃ v, (step c s).env = s.env ++ [v] ∧ (∀ k, c = .alloc k → v = .ref s.heap.length))) := by
  by_cases herr : s.err.isSome = true
  · rw [step_of_err c s herr] at h
    simp [h] at herr
  · have hs : s.err = none := by
      cases he : s.err with
      | none => rfl
      | some _ => simp [he] at herr
    refine ⟨hs, ?_⟩
    cases c <;> simp only [step, herr, Cmd.binds] at h ⊢ <;> (repeat' split at h) <;>
      simp_all [St.fail]

def Inv (n len : Nat) (own : List Nat) (s : St) : Prop :=
  s.err = none → s.env.length = len ∧ ∀ i ∈ own, ∃ a, s.env[i]? = some (.ref a) ∧ n ≤ a

theorem step_inv (c : Cmd) (s : St) (n len : Nat) (own : List Nat) (hn : n ≤ s.heap.length)
    (inv : Inv n len own s) :
    Inv n (if c.binds then len + 1 else len) (match c with | .alloc _ => len :: own | _ => own)
      (step c s) := by
  intro herr'
  obtain ⟨hs, henv⟩ := step_env c s herr'
  obtain ⟨hlen, hown⟩ := inv hs
  have keep : ∀ v, ∀ i ∈ own, ∃ a, (s.env ++ [v])[i]? = some (.ref a) ∧ n ≤ a := by
    intro v i hi
    obtain ⟨a, ha, hna⟩ := hown i hi
    have hil : i < s.env.length := (List.getElem?_eq_some_iff.mp ha).1
    exact ⟨a, by rw [List.getElem?_append_left hil]; exact ha, hna⟩
  rcases henv with ⟨hb, he⟩ | ⟨hb, v, he, hv⟩
  · rw [he]
    cases c <;> simp [Cmd.binds] at hb <;> simp [Cmd.binds, hlen] <;> exact hown
  · rw [he]
    cases c with
    | alloc k =>
        have := hv k rfl
        subst this
        refine ⟨by simp [Cmd.binds, hlen], ?_⟩
        intro i hi
        simp only [List.mem_cons] at hi
        rcases hi with rfl | hi
        · exact ⟨s.heap.length, by simp [← hlen], hn⟩
        · exact keep _ i hi
    | write _ _ _ => simp [Cmd.binds] at hb
    | listAppend _ _ => simp [Cmd.binds] at hb
    | dictSet _ _ _ => simp [Cmd.binds] at hb
    | emit _ => simp [Cmd.binds] at hb
    | readField _ _ => exact ⟨by simp [Cmd.binds, hlen], keep v⟩
    | readItem _ _ => exact ⟨by simp [Cmd.binds, hlen], keep v⟩
    | readKey _ _ => exact ⟨by simp [Cmd.binds, hlen], keep v⟩
    | readLen _ => exact ⟨by simp [Cmd.binds, hlen], keep v⟩

theorem static_writes (n : Nat) (p : Prog) : ∀ (s : St) (len : Nat) (own : List Nat),
    n ≤ s.heap.length → Inv n len own s → staticOwn p len own = true →
    ∀ t ∈ writesOf p s, n ≤ t := by
  induction p with
  | nil => intro s len own _ _ _ t ht; simp [writesOf] at ht
  | cons c p ih =>
      intro s len own hn inv hst t ht
      simp only [staticOwn, Bool.and_eq_true] at hst
      simp only [writesOf, List.mem_append] at ht
      rcases ht with ht | ht
      · -- the head command's own target
        have htg : c.target s = some t := by
          cases hc : c.target s with
          | none => simp [hc] at ht
          | some t' => simp [hc] at ht; simp [ht]
        have hs : s.err = none := by
          cases he : s.err with
          | none => rfl
          | some _ => simp [Cmd.target, he] at htg
        obtain ⟨_, hown⟩ := inv hs
        have key : ∀ r, c.receiver = some r → addrOf s.env r = some t → n ≤ t := by
          intro r hr ha
          have hmem : r ∈ own := by
            have := hst.1
            simp [hr] at this
            exact this
          obtain ⟨a, hea, hna⟩ := hown r hmem
          simp [addrOf, hea] at ha
          subst ha
          exact hna
        cases c <;> simp [Cmd.target, hs] at htg
        · exact key _ rfl htg
        · exact key _ rfl htg
        · exact key _ rfl htg
      · exact ih (step c s) _ _ (Nat.le_trans hn (step_length_le c s)) (step_inv c s n len own hn inv)
          hst.2 t ht

/-- **The table's classes imply the hypothesis of the frame theorem.**  If the receiver slot of every
mutating command of `p` is bound by an `alloc` of `p` (what `fresh` / `selfInit` / `ownState` mean for a
Python function), then on every heap the run of `p` writes only outside that heap - whatever the
arguments, whatever the heap contains, and whether or not the run fails on the way. -/
theorem C11_static (roots : List Val) (h0 : Heap) (p : Prog)
    (hst : staticOwn p roots.length [] = true) : OwnWrites roots h0 p := by
  intro h e w hw
  exact static_writes h0.length p ⟨h, roots, [], none⟩ roots.length [] e.length_le
    (fun _ => ⟨rfl, fun i hi => by simp at hi⟩) hst w hw

/-- `goodPass` passes the static check, `badPass` (which appends to the input's list) does not -/
example : staticOwn goodPass roots₀.length [] = true := by decide
example : staticOwn badPass roots₀.length [] = false := by decide
example : OwnWrites roots₀ h₀ goodPass := C11_static roots₀ h₀ goodPass (by decide)

/-! ## the obligations over the regenerated table -/

open Jaqal.Generated.Effects in
/-- Every heap-mutation site of the anchored modules (regenerated from the Python source by
`/verif/harness/effects_scan.py` on every check) has a receiver that the function created itself
(`fresh`), is the object under construction (`selfInit`) or is the visitor's own bookkeeping (`ownState`)
- the classes that correspond to `allocatedBy` in the heap model - or is listed with its argument in
`/verif/harness/effects_justified.json`. -/
theorem C11_sites_safe : ∀ s ∈ sites, s.cls = .fresh ∨ s.cls = .selfInit ∨ s.cls = .ownState ∨ s.justified = true := by
  have h : sites.all (fun s => s.ok) = true := by decide +kernel
  intro s hs
  have := List.all_eq_true.mp h s hs
  cases hc : s.cls <;> simp_all [Site.ok, Prov.safe]

/-- the table is not empty and does contain justified rows (so the disjunction is exercised) -/
example : Jaqal.Generated.Effects.sites.length > 200
    ∧ (Jaqal.Generated.Effects.sites.filter (fun s => s.justified)).length > 10
    ∧ (Jaqal.Generated.Effects.sites.filter (fun s => s.cls.safe)).length > 200 := by decide +kernel

/-- the check is not vacuous: a table with the seeded site fails it -/
example : ¬ (∀ s ∈ [(⟨"core/algorithm/expand_macros.py", "MacroExpander.visit_Circuit",
    "circuit.body.statements.extend(x)", .param, false⟩ : Site)],
    s.cls = .fresh ∨ s.cls = .selfInit ∨ s.cls = .ownState ∨ s.justified = true) := by decide

namespace Pinned

/-- The process-global mutable state of the library (hand-kept; C16 refers to it).  Each entry with the
reason why it cannot make one call's outcome depend on an earlier call ("sticky state"). -/
def globals : List GlobalSite := [
  -- per-VISITOR state: the class attribute is the immutable default `()`; both writes go to the instance of the
  -- MapFiller that fill_in_map creates afresh for every call, and the second restores the default in a `finally`
  ⟨"core/algorithm/fill_in_map.py", "MapFiller.visit_Macro", "class_attr_shadowed_by_instance", "self.macro_parameters = [param.name for param in macro.parameters]"⟩,
  ⟨"core/algorithm/fill_in_map.py", "MapFiller.visit_Macro", "class_attr_shadowed_by_instance", "self.macro_parameters = ()"⟩,
  -- Python's once-per-location warning registry; affects only whether a warning is printed again
  ⟨"core/result.py", "ProbabilisticSubcircuit.__init__", "process_state_call", "warnings.warn(msg, category=RuntimeWarning)"⟩,
  -- per-OBJECT cache that shadows the class attribute `_gates = None`; write-once, not read by __eq__ /
  -- __hash__ / __repr__ / generator / passes; executed only while building with autoload_pulses=True
  ⟨"core/usepulses.py", "UsePulsesStatement._load", "class_attr_shadowed_by_instance", "self._gates = get_jaqal_gates(self._module, import_path=self._import_path)"⟩,
  -- the emulator draws readouts from numpy's process-global generator: the readouts of a call depend on
  -- how many draws earlier calls made unless the caller seeds it (documented in run_jaqal_circuit);
  -- probabilities / state vectors do not depend on it
  ⟨"emulator/backend.py", "IndependentSubcircuitsEmulatorWalker.process_trace", "global_rng_use", "choice(2 ** self.qubits, p=subcircuit.probability_by_int)"⟩,
  -- warning registry, as above
  ⟨"run/run.py", "run_jaqal_circuit", "process_state_call", "warnings.warn('emulator_backend is deprecated, please use backend instead.')"⟩,
  -- read-only: the environment selects emulator vs IPC; the library never writes os.environ
  ⟨"run/run.py", "_get_runner", "os_environ_read", "os.environ.get('JAQALPAQ_RUN_EMULATOR', '')"⟩,
  ⟨"run/run.py", "_get_runner", "os_environ_read", "os.environ['JAQALPAQ_RUN_PORT']"⟩,
  -- a constant flag, only read (controls a printed hint)
  ⟨"parser/slyparse.py", "<module>", "module_flag", "_SLY_TURBO_WARNING = True"⟩,
  -- once-flag: set on the first parse, never cleared; the guarded patch is idempotent by construction
  ⟨"parser/slyparse.py", "_monkeypatch_sly", "function_attr_write", "_monkeypatch_sly._called_once = True"⟩,
  -- removes a debugging guard of sly once per process; a second execution is prevented by the flag and
  -- would raise AttributeError, which is caught
  ⟨"parser/slyparse.py", "_monkeypatch_sly", "foreign_attr_delete", "del sly.yacc.YaccProduction.__setattr__"⟩,
  -- warning registry, as above
  ⟨"_import.py", "_jaqal_find_spec_in", "process_state_call", "warnings.warn('Not searching for Python eggs: \"packaging\" module not found')"⟩,
  -- gate-definition import: (re)binds sys.modules[name] to the module being executed; a reload replaces
  -- the entry, so a later call sees the module text of ITS time.  Not idempotent under failure: if
  -- exec_module raises, the half-initialised entry stays in sys.modules (C16 risk, exercised by corr `history`)
  ⟨"_import.py", "_jaqal_import_module_relative", "sys_modules_write", "sys.modules[top_level] = module"⟩,
  -- bookkeeping of which sys.modules entries the relative importer created itself: only those entries are ever
  -- removed or shadowed again (a relative name owned by someone else's module is refused), so the outcome of an
  -- import does not depend on earlier imports; a module that fails while loading is forgotten again
  ⟨"_import.py", "_jaqal_import_module_relative", "global_object_write", "_relative_modules.add(top_level)"⟩,
  -- submodules of a dotted relative name are imported through the package just loaded (process-level import
  -- machinery; everything it registers lies under `top_level.` and is forgotten together with it)
  ⟨"_import.py", "_jaqal_import_module_relative", "process_state_call", "importlib.import_module(submod_name)"⟩,
  ⟨"_import.py", "_forget_relative_module", "sys_modules_write", "sys.modules.pop(mod_name, None)"⟩,
  ⟨"_import.py", "_forget_relative_module", "sys_modules_delete", "del sys.modules[k]"⟩,
  ⟨"_import.py", "_forget_relative_module", "global_object_write", "_relative_modules.discard(mod_name)"⟩,
  -- modules of the same name that somebody else imported are set aside for the duration of a relative import
  -- and put back in a `finally`, so that the import neither depends on them nor damages them
  ⟨"_import.py", "jaqal_import", "sys_modules_write", "sys.modules.pop(k)"⟩,
  ⟨"_import.py", "jaqal_import", "sys_modules_write", "sys.modules.update(foreign)"⟩,
  ⟨"_import.py", "_jaqal_import", "sys_modules_delete", "del sys.modules[mod_name]"⟩,
  ⟨"_import.py", "_jaqal_import", "sys_modules_delete", "del sys.modules[k]"⟩,
  ⟨"_import.py", "_jaqal_import", "process_state_call", "importlib.reload(module)"⟩,
  ⟨"_import.py", "_jaqal_import", "process_state_call", "importlib.import_module(mod_name)"⟩,
  ⟨"_import.py", "_jaqal_import", "process_state_call", "importlib.reload(ret)"⟩,
  ⟨"_import.py", "_jaqal_import", "process_state_call", "importlib.import_module(submod_name)"⟩,
  -- constant flag, only read by BranchStatement.__init__; users may set it, the library never does
  ⟨"core/branch.py", "<module>", "module_flag", "USE_EXPERIMENTAL_BRANCH = False"⟩,
  -- constant list, only read (membership tests)
  ⟨"utilities.py", "<module>", "module_container", "RESERVED_WORDS = <list literal>"⟩
]

end Pinned

/-- The regenerated table of process-global state is the pinned one: no new module-level mutable,
function attribute, class attribute written at run time, `sys.modules` / `os.environ` write has appeared. -/
theorem C11_globals_pinned : Jaqal.Generated.Effects.globals = Pinned.globals := by decide +kernel

end Jaqal.Heap

#print axioms Jaqal.Heap.C11_frame
#print axioms Jaqal.Heap.C11_frame_alloc
#print axioms Jaqal.Heap.C11_history
#print axioms Jaqal.Heap.C11_static
#print axioms Jaqal.Heap.C11_sites_safe
#print axioms Jaqal.Heap.C11_globals_pinned
