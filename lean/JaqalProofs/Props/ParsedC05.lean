import JaqalProofs.Lemmas.ParsedLegal
/-!
# C05 for the circuits the parser produces — no well-formedness hypothesis

Split out of the former `Props/ParsedPasses.lean`; see `Props/ParsedEx.lean` for the overview and the non-vacuity example.
-/
set_option linter.unusedVariables false
open Jaqal Jaqal.Sem

namespace Jaqal.FillIn
open Jaqal.Passes Jaqal.Builder

/-- **C05_meaning for parsed circuits** -/
theorem C05_meaning_parsed (cfg : Config) (txt : String) (ov : List (String × Num)) (c c' : Circuit)
    (hp : Pipeline.parseProgram cfg txt = .ok c) (h : fillInLet ov c = .ok c') :
    meaning [] c' = meaning (normOv ov) c :=
  C05_meaning ov c c' (parsed_legal cfg txt c hp).wf2 h

/-- … under every environment (after `fill_in_let` no let is left) -/
theorem C05_meaning_env_parsed (cfg : Config) (txt : String) (ρ : Env) (ov : List (String × Num)) (c c' : Circuit)
    (hp : Pipeline.parseProgram cfg txt = .ok c) (h : fillInLet ov c = .ok c') :
    meaning ρ c' = meaning (normOv ov) c :=
  fillInLet_meaning ρ ov c c' (parsed_legal cfg txt c hp).wf2 h

theorem C05_no_consts_parsed (cfg : Config) (txt : String) (ov : List (String × Num)) (c c' : Circuit)
    (hp : Pipeline.parseProgram cfg txt = .ok c) (h : fillInLet ov c = .ok c') :
    AllVals (fun v => noConst v = true) c'.body ∧ (∀ m ∈ c'.macros, AllVals (fun v => noConst v = true) m.body) ∧
      ∀ v ∈ c'.registers, noConst v = true :=
  C05_no_consts ov c c' (parsed_legal cfg txt c hp).wf2 h

theorem C05_frame_parsed (cfg : Config) (txt : String) (ov : List (String × Num)) (c c' : Circuit)
    (hp : Pipeline.parseProgram cfg txt = .ok c) (h : fillInLet ov c = .ok c') :
    c'.usepulses = c.usepulses ∧ c'.constants = c.constants ∧ skel c'.body = skel c.body ∧
    List.Forall₂ (fun m m' => m'.name = m.name ∧ m'.params.map (·.1) = m.params.map (·.1) ∧ skel m'.body = skel m.body)
      c.macros c'.macros ∧
    c'.registers.map Val.name? = c.registers.map Val.name? ∧
    ((c.natives = [] ∧ c'.natives = []) ∨ (c.natives ≠ [] ∧ ∃ d, normNatives c.natives = .ok d ∧ c'.natives = d.map (·.2))) :=
  C05_frame ov c c' (parsed_legal cfg txt c hp).wf2 h

/-- a second `fill_in_let`, with any overrides, returns the circuit unchanged -/
theorem C05_idempotent_parsed (cfg : Config) (txt : String) (ov ov2 : List (String × Num)) (c c' : Circuit)
    (hp : Pipeline.parseProgram cfg txt = .ok c) (h : fillInLet ov c = .ok c') : fillInLet ov2 c' = .ok c' :=
  C05_idempotent ov ov2 c c' (parsed_legal cfg txt c hp).wf2 h

/-! ### `C05_revalidate`: what the builder checked (C14's `RefsValid`) is the hypothesis of `C05_revalidate` -/

mutual
  theorem allVals_of_stmtOK : ∀ s : Stmt, StmtOK s → AllVals ValOK s
    | .gate n gd args, h => by
      simp only [StmtOK] at h
      simp only [AllVals]
      exact h.2.2
    | .block par sub it body, h => by
      simp only [StmtOK] at h
      simp only [AllVals]
      exact ⟨fun _ => h.1, allValsList_of_stmtsOK body h.2⟩
    | .loop c b, h => by
      simp only [StmtOK] at h
      simp only [AllVals]
      exact ⟨h.1, allVals_of_stmtOK b h.2⟩
  theorem allValsList_of_stmtsOK : ∀ l : List Stmt, StmtsOK l → AllValsList ValOK l
    | [], _ => by simp only [AllValsList]
    | s :: ss, h => by
      simp only [StmtsOK] at h
      simp only [AllValsList]
      exact ⟨allVals_of_stmtOK s h.1, allValsList_of_stmtsOK ss h.2⟩
end

/-- every parsed circuit satisfies C14's `RefsValid` (`C14_sound_all`, through `parseProgram`) -/
theorem parsed_refsValid (cfg : Config) (txt : String) (c : Circuit) (hp : Pipeline.parseProgram cfg txt = .ok c) :
    RefsValid c := by
  unfold Pipeline.parseProgram Pipeline.parseSx at hp
  cases ht : Parser.parseText txt with
  | error pe => rw [ht] at hp; cases hp
  | ok sx =>
    rw [ht] at hp
    have hpb : parseBuild cfg sx = .ok c := hp
    exact (C14_sound_all cfg sx c hpb).1

/-- the hypotheses of `C05_revalidate` hold of every parsed circuit -/
theorem parsed_valOK (cfg : Config) (txt : String) (c : Circuit) (hp : Pipeline.parseProgram cfg txt = .ok c) :
    AllVals ValOK c.body ∧ (∀ m ∈ c.macros, AllVals ValOK m.body) ∧ ∀ v ∈ c.registers, ValOK v := by
  have hr := parsed_refsValid cfg txt c hp
  exact ⟨allVals_of_stmtOK _ hr.body, fun m hm => allVals_of_stmtOK _ (hr.macros m hm), hr.registers⟩

/-- **C05_revalidate for parsed circuits**: after `fill_in_let` (any overrides) of a parsed circuit every value — gate
arguments, counts, registers — again satisfies what the constructors check (`ValOK`: sources are registers or parameters,
literal indices inside literal sizes, literal slices inside their source, literal sizes ≥ 1). -/
theorem C05_revalidate_parsed (cfg : Config) (txt : String) (ov : List (String × Num)) (c c' : Circuit)
    (hp : Pipeline.parseProgram cfg txt = .ok c) (h : fillInLet ov c = .ok c') :
    AllVals ValOK c'.body ∧ (∀ m ∈ c'.macros, AllVals ValOK m.body) ∧ ∀ v ∈ c'.registers, ValOK v := by
  obtain ⟨hb, hm, hr⟩ := parsed_valOK cfg txt c hp
  exact C05_revalidate ov c c' (parsed_legal cfg txt c hp).wf2 h hb hm hr

end Jaqal.FillIn
