import JaqalProofs.Lemmas.ParsedLegal
/-!
# C05 for the circuits the parser produces — no well-formedness hypothesis

Split out of the former `Props/ParsedPasses.lean`; see `Props/ParsedEx.lean` for the overview and the non-vacuity example.
-/
set_option linter.unusedVariables false
open Jaqal Jaqal.Sem

namespace Jaqal.FillIn
open Jaqal.Passes Jaqal.Builder

/-- **C05_meaning for parsed circuits** -/
theorem C05_meaning_parsed (cfg : Config) (txt : String) (ov : List (String × Num)) (c c' : Circuit)
    (hp : Pipeline.parseProgram cfg txt = .ok c) (h : fillInLet ov c = .ok c') :
    meaning [] c' = meaning (normOv ov) c :=
  C05_meaning ov c c' (parsed_legal cfg txt c hp).wf2 h

/-- … under every environment (after `fill_in_let` no let is left) -/
theorem C05_meaning_env_parsed (cfg : Config) (txt : String) (ρ : Env) (ov : List (String × Num)) (c c' : Circuit)
    (hp : Pipeline.parseProgram cfg txt = .ok c) (h : fillInLet ov c = .ok c') :
    meaning ρ c' = meaning (normOv ov) c :=
  fillInLet_meaning ρ ov c c' (parsed_legal cfg txt c hp).wf2 h

theorem C05_no_consts_parsed (cfg : Config) (txt : String) (ov : List (String × Num)) (c c' : Circuit)
    (hp : Pipeline.parseProgram cfg txt = .ok c) (h : fillInLet ov c = .ok c') :
    AllVals (fun v => noConst v = true) c'.body ∧ (∀ m ∈ c'.macros, AllVals (fun v => noConst v = true) m.body) ∧
      ∀ v ∈ c'.registers, noConst v = true :=
  C05_no_consts ov c c' (parsed_legal cfg txt c hp).wf2 h

theorem C05_frame_parsed (cfg : Config) (txt : String) (ov : List (String × Num)) (c c' : Circuit)
    (hp : Pipeline.parseProgram cfg txt = .ok c) (h : fillInLet ov c = .ok c') :
    c'.usepulses = c.usepulses ∧ c'.constants = c.constants ∧ skel c'.body = skel c.body ∧
    List.Forall₂ (fun m m' => m'.name = m.name ∧ m'.params.map (·.1) = m.params.map (·.1) ∧ skel m'.body = skel m.body)
      c.macros c'.macros ∧
    c'.registers.map Val.name? = c.registers.map Val.name? ∧
    ((c.natives = [] ∧ c'.natives = []) ∨ (c.natives ≠ [] ∧ ∃ d, normNatives c.natives = .ok d ∧ c'.natives = d.map (·.2))) :=
  C05_frame ov c c' (parsed_legal cfg txt c hp).wf2 h

/-- a second `fill_in_let`, with any overrides, returns the circuit unchanged -/
theorem C05_idempotent_parsed (cfg : Config) (txt : String) (ov ov2 : List (String × Num)) (c c' : Circuit)
    (hp : Pipeline.parseProgram cfg txt = .ok c) (h : fillInLet ov c = .ok c') : fillInLet ov2 c' = .ok c' :=
  C05_idempotent ov ov2 c c' (parsed_legal cfg txt c hp).wf2 h

end Jaqal.FillIn
