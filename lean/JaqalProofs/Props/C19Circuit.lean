import JaqalModel.Model.UnitTimingCircuit
import JaqalModel.Model.Pipeline
import JaqalModel.Spec.Schedule
import JaqalProofs.Lemmas.UnitTimingCircuit
import JaqalProofs.Props.C19
/-!
# C19 on real circuits — `normalize_blocks_with_unitary_timing` on the IR refines the skeleton pass

`Props/C19.lean` proves C19 for the SKELETON pass `Jaqal.UnitTiming.normalizeBody` (gate ids, natural-number counts); there the
translation of a circuit into a skeleton, the header copying of `visit_Circuit` and the fact that gate statements are carried over
verbatim were outside the model.  Here the model is `Jaqal.UnitTimingCircuit.normalizeCircuit : Circuit → M Circuit`
(`JaqalModel/Model/UnitTimingCircuit.lean`), the pass on the shared circuit IR with `Val` arguments and counts, the BlockStatement
constructor checks and the `Circuit(native_gates=…)` check, validated against the real code on whole circuit dumps by
`harness/agents/c19_circuit_diff.py`.

* A `Labelling` `L` reads a circuit as a skeleton: `L.gate` numbers gate statements (name, definition, arguments), `L.cnt` gives
  every count a natural number, `L.cnt (.int 1) = 1`.  EVERY theorem holds for EVERY labelling — the injective ones (every gate
  statement its own id; `selfLabelling`, `C19_circuit_skel_injective`), the indicator of one gate statement
  (`C19_circuit_schedule_count`: multiset form on gate statements themselves), any valuation of let constants / macro
  parameters used as counts.
* REFINEMENT: `C19_circuit_refines` (success ↦ success with the skeleton of the result), `C19_circuit_refines_error` (failure ↦
  the same failure: `JaqalError` ↔ `loopInParallel`, `AssertionError` ↔ `assertion`), `C19_circuit_complete_ok` /
  `C19_circuit_complete_error` (conversely).  The success direction needs only that the body is a sequential block (`SeqBody`,
  true of every `Circuit` object); the failure direction needs `WF c` (native gates are gate definitions, every block outside loops
  passes the `BlockStatement` constructor checks — true of everything built through the public constructors), because the real
  pass has three more failure points (the constructor checks; `normalize_native_gates`) that the skeleton does not have.
* TRANSFERRED: `C19_circuit_schedule`, `C19_circuit_schedule_order`, `C19_circuit_schedule_count`, `C19_circuit_duration`,
  `C19_circuit_flat`, `C19_circuit_subcircuits`, `C19_circuit_subcircuit_slots`, `C19_circuit_ok_iff`, `C19_circuit_loop`,
  `C19_circuit_fails_only`, `C19_circuit_idempotent` (exact: `normalizeCircuit c' = .ok c'`).
* MEANING: `C19_circuit_meaning` — for every override environment, the unrolled gate applications (`Sem.unroll` of `Sem.meaning`)
  of the result are a permutation of those of the input.
* FRAME: `C19_circuit_frame` — constants, registers, macros (definitions unvisited), native gates, usepulses are those of the
  input, and the gate statements of the result (name, definition, arguments) are a permutation of those of the input.
-/
namespace Jaqal.UnitTimingCircuit
open Jaqal

/-! ## refinement -/

/-- Success of the real pass is success of the skeleton pass on the skeleton of the circuit, and the skeleton of the returned
circuit is what the skeleton pass returns — for every labelling. -/
theorem C19_circuit_refines (L : Labelling) {c c' : Circuit} (hs : SeqBody c) (h : normalizeCircuit c = .ok c') :
    UnitTiming.normalizeBody (skelBody L c) = .ok (skelBody L c') := by
  obtain ⟨sub, it, b, hb⟩ := hs
  obtain ⟨_, _, vs, hvs, rfl⟩ := normalizeCircuit_ok hb h
  rw [skelBody_rebuilt]
  simp only [skelBody, hb, Stmt.stmts]
  exact normalizeBody_skel_ok L hvs

/-- A failure of the real pass on a well-formed circuit is the corresponding failure of the skeleton pass:
`JaqalError` (`errLoop`) ↔ `loopInParallel`, `AssertionError` (`errAssert`) ↔ `assertion`. -/
theorem C19_circuit_refines_error (L : Labelling) {c : Circuit} {e : Err} (hw : WF c) (h : normalizeCircuit c = .error e) :
    ∃ e', UnitTiming.normalizeBody (skelBody L c) = .error e' ∧ e = toErr e' := by
  obtain ⟨hn, ⟨sub, it, b, hb⟩, hok⟩ := hw
  rw [hb] at hok
  simp only [countsOK, Bool.and_eq_true] at hok
  have hl := normalizeCircuit_error hb hn hok.1 h
  obtain ⟨e', he', rfl⟩ := normalizeList_error_refines L hl hok.2
  refine ⟨e', ?_, rfl⟩
  simp only [skelBody, hb, Stmt.stmts]
  exact UnitTiming.normalizeBody_error_iff.2 he'

/-- Conversely: when the skeleton pass succeeds on (the skeleton of) a well-formed circuit, so does the real pass, with that
skeleton. -/
theorem C19_circuit_complete_ok (L : Labelling) {c : Circuit} {b' : List UnitTiming.Stmt} (hw : WF c)
    (h : UnitTiming.normalizeBody (skelBody L c) = .ok b') : ∃ c', normalizeCircuit c = .ok c' ∧ b' = skelBody L c' := by
  cases hc : normalizeCircuit c with
  | ok c' =>
    refine ⟨c', rfl, ?_⟩
    have := C19_circuit_refines L hw.2.1 hc
    rw [h] at this
    exact Except.ok.inj this
  | error e =>
    obtain ⟨e', he', _⟩ := C19_circuit_refines_error L hw hc
    rw [h] at he'; cases he'

/-- … and when the skeleton pass fails, the real pass raises the corresponding exception. -/
theorem C19_circuit_complete_error (L : Labelling) {c : Circuit} {e' : UnitTiming.Err} (hw : WF c)
    (h : UnitTiming.normalizeBody (skelBody L c) = .error e') : normalizeCircuit c = .error (toErr e') := by
  cases hc : normalizeCircuit c with
  | ok c' =>
    have := C19_circuit_refines L hw.2.1 hc
    rw [h] at this; cases this
  | error e =>
    obtain ⟨e'', he'', rfl⟩ := C19_circuit_refines_error L hw hc
    rw [h] at he''
    cases he''; rfl

/-- The exception classes: `JaqalError` for a loop inside a parallel block, `AssertionError` for `assert stmt.parallel`. -/
theorem C19_circuit_error_class (e' : UnitTiming.Err) :
    (toErr e').cls = match e' with | .loopInParallel => "JaqalError" | .assertion => "AssertionError" := toErr_cls e'

/-- The result is again well formed (so the pass can be applied to it, and the theorems with `WF` apply to it). -/
theorem C19_circuit_wf {c c' : Circuit} (hs : SeqBody c) (h : normalizeCircuit c = .ok c') : WF c' := by
  obtain ⟨sub, it, b, hb⟩ := hs
  obtain ⟨hn, _, vs, hvs, rfl⟩ := normalizeCircuit_ok hb h
  refine ⟨hn, ⟨false, .int 1, _, rfl⟩, ?_⟩
  have hall := (normalize_inv.2 b vs hvs).1
  simp only [rebuilt, countsOK, Bool.and_eq_true]
  refine ⟨rfl, (countsOKList_iff _).2 ?_⟩
  rw [unrollAll_eq_flatten]
  intro x hx
  obtain ⟨l, hl, hxl⟩ := List.mem_flatten.1 hx
  obtain ⟨v, hv, rfl⟩ := List.mem_map.1 hl
  exact countsOK_unroll (hall v hv) x hxl

/-- Skeletons lose nothing when the labelling is chosen for the circuit: under the labelling by position in the lists of its
gate statements and counts, a statement list with the skeleton of `l` IS `l`. -/
theorem C19_circuit_skel_injective (l l' : List Stmt)
    (h : skelList (selfLabelling l) l' = skelList (selfLabelling l) l) : l' = l := skelList_inj_self l l' h

/-! ## the transferred theorems -/

/-- Every gate instance executes at the same time step as in the input; none is lost or duplicated: the schedules
`(gate label, step)` are permutations of each other, whatever the labelling of gate statements, whatever the values of the
counts, whatever step the circuit starts at. -/
theorem C19_circuit_schedule (L : Labelling) {c c' : Circuit} (hs : SeqBody c) (h : normalizeCircuit c = .ok c') (t : Nat) :
    (UnitTiming.timesSeq t (skelBody L c')).Perm (UnitTiming.timesSeq t (skelBody L c)) :=
  UnitTiming.C19_schedule (C19_circuit_refines L hs h) t

/-- the gates of any one step keep their program order -/
theorem C19_circuit_schedule_order (L : Labelling) {c c' : Circuit} (hs : SeqBody c) (h : normalizeCircuit c = .ok c')
    (t k : Nat) :
    (UnitTiming.timesSeq t (skelBody L c')).filter (fun p => p.2 == k)
      = (UnitTiming.timesSeq t (skelBody L c)).filter (fun p => p.2 == k) :=
  UnitTiming.C19_schedule_order (C19_circuit_refines L hs h) t k

/-- the labelling that marks the gate statement `g` (label 1) and nothing else, with the count valuation `cnt` -/
def indicator (g : GateStmt) (cnt : Val → Nat) (h1 : cnt (.int 1) = 1) : Labelling :=
  { gate := fun n gd a => if (n, gd, a) = g then 1 else 0, cnt := cnt, cnt_one := h1 }

/-- number of executions of the gate statement `g` at time step `k` (circuit started at step 0), loop and subcircuit counts
valued by `cnt` -/
def execCount (cnt : Val → Nat) (h1 : cnt (.int 1) = 1) (c : Circuit) (g : GateStmt) (k : Nat) : Nat :=
  (UnitTiming.timesSeq 0 (skelBody (indicator g cnt h1) c)).count (1, k)

/-- The schedule as a multiset of (gate STATEMENT, step), no labelling involved: for every gate statement (name, definition,
arguments) and every step, the number of executions of that statement at that step is unchanged. -/
theorem C19_circuit_schedule_count (cnt : Val → Nat) (h1 : cnt (.int 1) = 1) {c c' : Circuit} (hs : SeqBody c)
    (h : normalizeCircuit c = .ok c') (g : GateStmt) (k : Nat) : execCount cnt h1 c' g k = execCount cnt h1 c g k :=
  (C19_circuit_schedule (indicator g cnt h1) hs h 0).count_eq _

theorem C19_circuit_duration (L : Labelling) {c c' : Circuit} (hs : SeqBody c) (h : normalizeCircuit c = .ok c') :
    UnitTiming.durSum (skelBody L c') = UnitTiming.durSum (skelBody L c) :=
  UnitTiming.C19_duration (C19_circuit_refines L hs h)

/-- The body of the result is a flat sequence: gates, loops (untouched), parallel groups of ≥ 2 gates (non-subcircuit,
iterations 1), sequential subcircuit blocks whose bodies are again flat. -/
theorem C19_circuit_flat (L : Labelling) {c c' : Circuit} (hs : SeqBody c) (h : normalizeCircuit c = .ok c') :
    UnitTiming.isFlatList (skelBody L c') = true ∧ ∃ b', c'.body = .block false false (.int 1) b' := by
  refine ⟨UnitTiming.C19_flat (C19_circuit_refines L hs h), ?_⟩
  obtain ⟨sub, it, b, hb⟩ := hs
  obtain ⟨_, _, vs, _, rfl⟩ := normalizeCircuit_ok hb h
  exact ⟨_, rfl⟩

/-- Subcircuit annotations: the list (nesting depth, iteration count) of the subcircuit blocks in program order is unchanged
(for every valuation `L.cnt` of the counts: the count OBJECTS are the same) … -/
theorem C19_circuit_subcircuits (L : Labelling) {c c' : Circuit} (hs : SeqBody c) (h : normalizeCircuit c = .ok c') (d : Nat) :
    UnitTiming.subsList d (skelBody L c') = UnitTiming.subsList d (skelBody L c) :=
  UnitTiming.C19_frame (C19_circuit_refines L hs h) d

/-- … and each keeps its time slot (iterations, start step, duration). -/
theorem C19_circuit_subcircuit_slots (L : Labelling) {c c' : Circuit} (hs : SeqBody c) (h : normalizeCircuit c = .ok c')
    (t : Nat) : UnitTiming.slotsSeq t (skelBody L c') = UnitTiming.slotsSeq t (skelBody L c) :=
  UnitTiming.C19_frame_slots (C19_circuit_refines L hs h) t

/-- On a well-formed circuit the pass succeeds exactly when no loop and no subcircuit block lies inside a parallel block (a loop
inside a loop body does not count: loop bodies are not visited). -/
theorem C19_circuit_ok_iff (L : Labelling) {c : Circuit} (hw : WF c) :
    (∃ c', normalizeCircuit c = .ok c') ↔
      (UnitTiming.anyLoopInPar false (skelBody L c) = false ∧ UnitTiming.anySubInPar false (skelBody L c) = false) := by
  rw [← UnitTiming.C19_ok_iff]
  constructor
  · rintro ⟨c', h⟩; exact ⟨_, C19_circuit_refines L hw.2.1 h⟩
  · rintro ⟨b', h⟩
    obtain ⟨c', hc', _⟩ := C19_circuit_complete_ok L hw h
    exact ⟨c', hc'⟩

/-- A failure on a well-formed circuit always has its reason. -/
theorem C19_circuit_fails_only (L : Labelling) {c : Circuit} {e : Err} (hw : WF c) (h : normalizeCircuit c = .error e) :
    (e = errLoop ∧ UnitTiming.anyLoopInPar false (skelBody L c) = true) ∨
    (e = errAssert ∧ UnitTiming.anySubInPar false (skelBody L c) = true) := by
  obtain ⟨e', he', rfl⟩ := C19_circuit_refines_error L hw h
  rcases UnitTiming.C19_fails_only he' with ⟨rfl, hl⟩ | ⟨rfl, hs⟩
  · exact .inl ⟨rfl, hl⟩
  · exact .inr ⟨rfl, hs⟩

/-- A loop inside a parallel block is rejected, never mis-scheduled: the pass raises, and it raises `JaqalError` unless the
circuit also has a subcircuit block inside a parallel block (not producible by the parser or the builder). -/
theorem C19_circuit_loop (L : Labelling) {c : Circuit} (hw : WF c)
    (hl : UnitTiming.anyLoopInPar false (skelBody L c) = true) :
    (∃ e, normalizeCircuit c = .error e) ∧
    (UnitTiming.anySubInPar false (skelBody L c) = false → normalizeCircuit c = .error errLoop) := by
  obtain ⟨⟨e', he'⟩, h2⟩ := UnitTiming.C19_loop hl
  exact ⟨⟨_, C19_circuit_complete_error L hw he'⟩, fun hs => C19_circuit_complete_error L hw (h2 hs)⟩

/-- Normalising twice is normalising once — exactly: the result is a fixed point of the real pass. -/
theorem C19_circuit_idempotent {c c' : Circuit} (hs : SeqBody c) (h : normalizeCircuit c = .ok c') :
    normalizeCircuit c' = .ok c' := by
  have hw' := C19_circuit_wf hs h
  obtain ⟨sub, it, b, hb⟩ := hs
  obtain ⟨_, _, vs, _, hc'⟩ := normalizeCircuit_ok hb h
  -- the labelling chosen for the result
  let L := selfLabelling (unrollAll vs)
  have hfix := UnitTiming.C19_idempotent (C19_circuit_refines L ⟨sub, it, b, hb⟩ h)
  obtain ⟨c'', hc'', hsk⟩ := C19_circuit_complete_ok L hw' hfix
  rw [hc'']
  have hb' : c'.body = .block false false (.int 1) (unrollAll vs) := by rw [hc']; rfl
  obtain ⟨_, _, vs', _, hr⟩ := normalizeCircuit_ok hb' hc''
  have e : unrollAll vs' = unrollAll vs := by
    apply skelList_inj_self
    have h1 : skelBody L c'' = skelList L (unrollAll vs') := by rw [hr]; rfl
    have h2 : skelBody L c' = skelList L (unrollAll vs) := by rw [hc']; rfl
    rw [← h1, ← h2, hsk]
  rw [hr, rebuilt, e, hc']
  rfl

/-! ## frame -/

/-- Header data are copied (no hypothesis on the circuit): constants, registers, macro definitions (UNVISITED — a macro body
with nested blocks stays as it is), native gates, usepulses. -/
theorem C19_circuit_header {c c' : Circuit} (h : normalizeCircuit c = .ok c') :
    c'.constants = c.constants ∧ c'.registers = c.registers ∧ c'.macros = c.macros ∧ c'.natives = c.natives ∧
    c'.usepulses = c.usepulses := by
  unfold normalizeCircuit at h
  split at h
  · cases h
  · split at h
    · cases h
    · split at h
      · cases h
      · cases h; exact ⟨rfl, rfl, rfl, rfl, rfl⟩

/-- Header data preserved, and the gate statements of the result — name, definition, arguments; those inside loops included —
are exactly those of the input, as a multiset (`List.Perm` of the flat gate-statement lists): none lost, none duplicated, none
altered.  (Subcircuit flags and iteration counts: `C19_circuit_subcircuits`, for every valuation of the counts.) -/
theorem C19_circuit_frame {c c' : Circuit} (hs : SeqBody c) (h : normalizeCircuit c = .ok c') :
    c'.constants = c.constants ∧ c'.registers = c.registers ∧ c'.macros = c.macros ∧ c'.natives = c.natives ∧
    c'.usepulses = c.usepulses ∧ (gates c'.body).Perm (gates c.body) := by
  obtain ⟨h1, h2, h3, h4, h5⟩ := C19_circuit_header h
  refine ⟨h1, h2, h3, h4, h5, ?_⟩
  obtain ⟨sub, it, b, hb⟩ := hs
  obtain ⟨_, _, vs, hvs, rfl⟩ := normalizeCircuit_ok hb h
  rw [hb]
  simp only [rebuilt, gates, gatesList_unrollAll]
  exact (normalize_inv.2 b vs hvs).2

/-! ## meaning -/

/-- With the gate-level meaning of `Spec/Sem.lean` (lets evaluated under the override environment `ρ`, qubits resolved, macro
calls replaced by the meaning of the macro body, loops and blocks kept as a tree): if the input has a meaning, so has the result,
and the unrolled gate applications of the result (loops repeated, macro calls expanded) are a permutation of those of the input —
for every override environment. -/
theorem C19_circuit_meaning (ρ : Sem.Env) {c c' : Circuit} (hs : SeqBody c) (h : normalizeCircuit c = .ok c')
    {m : Sem.Sem} (hm : Sem.meaning ρ c = .ok m) :
    ∃ m', Sem.meaning ρ c' = .ok m' ∧ m'.unroll.Perm m.unroll := by
  obtain ⟨sub, it, b, hb⟩ := hs
  obtain ⟨_, _, vs, hvs, rfl⟩ := normalizeCircuit_ok hb h
  simp only [Sem.meaning, bind, Except.bind] at hm
  cases hev : Sem.evalStmt ρ (Sem.denoteMacros ρ c.macros) [] c.body with
  | error e => simp [hev] at hm
  | ok s =>
    simp [hev, pure, Except.pure] at hm; subst hm
    have hE : Evaluable ρ (Sem.denoteMacros ρ c.macros) [] (.block false sub it b) := ⟨s, by rw [← hb]; exact hev⟩
    obtain ⟨_, hall⟩ := (evaluable_block ρ _ []).1 hE
    obtain ⟨hvsE, hp⟩ := (normalize_meaning ρ (Sem.denoteMacros ρ c.macros) []).2 b vs hvs hall
    obtain ⟨hu, eu⟩ := evaluable_unrollAll ρ _ [] hvsE
    have hE' : Evaluable ρ (Sem.denoteMacros ρ c.macros) [] (.block false false (.int 1) (unrollAll vs)) :=
      (evaluable_block ρ _ []).2 ⟨⟨1, rfl⟩, hu⟩
    obtain ⟨s', hs'⟩ := hE'
    refine ⟨s'.norm, by simp [Sem.meaning, rebuilt, hs', bind, Except.bind, pure, Except.pure], ?_⟩
    rw [unroll_norm', unroll_norm']
    have e1 : s'.unroll = appsList ρ (Sem.denoteMacros ρ c.macros) [] (unrollAll vs) := by
      have := apps_block ρ (Sem.denoteMacros ρ c.macros) [] ⟨s', hs'⟩
      simpa [apps, hs'] using this
    have e2 : s.unroll = appsList ρ (Sem.denoteMacros ρ c.macros) [] b := by
      have := apps_block ρ (Sem.denoteMacros ρ c.macros) [] hE
      rw [← hb] at this
      simpa [apps, hev] using this
    rw [e1, e2, eu]
    exact hp

/-! ## non-vacuity: a parsed text -/

section Examples

/-- `subcircuit n { <A r[0] | {BB r[1]; CCC r[0] n}>; loop n { <A r[0] | {BB r[1]; loop 2 {A r[0]}}> } }` (the loop body, with a
loop inside a parallel block, is left alone) then `<M r[0] | {DDDD r[1]; A r[0]}>` with a macro call as an opaque gate; the macro
body `{ <A x | {BB x; A x}> }` is not visited. -/
def exTxt : String :=
  "register r[2]\nlet n 2\nmacro M x { <A x | {BB x; A x}> }\n" ++
  "subcircuit n { <A r[0] | {BB r[1]; CCC r[0] n}>; loop n { <A r[0] | {BB r[1]; loop 2 {A r[0]}}> } }\n" ++
  "<M r[0] | {DDDD r[1]; A r[0]}>\n"

/-- the same with the loop moved into the parallel block: rejected -/
def exBad : String := "register r[2]\n<A r[0] | {BB r[1]; loop 2 {A r[0]}}>\n"

/-- gate statements labelled by the length of their name; literal and let counts by their value -/
def exL : Labelling :=
  { gate := fun n _ _ => n.length,
    cnt := fun v => match v with | .int k => k.toNat | .const _ (.int k) => k.toNat | _ => 0,
    cnt_one := rfl }

def chk (r : M Circuit) (f : Circuit → Bool) : Bool :=
  match r with
  | .error _ => false
  | .ok c => f c

theorem chk_ok {r : M Circuit} {f : Circuit → Bool} (h : chk r f = true) : ∃ c, r = .ok c ∧ f c = true := by
  cases r with
  | error e => cases h
  | ok c => exact ⟨c, rfl, h⟩

def isSeqBody (c : Circuit) : Bool := match c.body with | .block false _ _ _ => true | _ => false

theorem isSeqBody_iff {c : Circuit} (h : isSeqBody c = true) : SeqBody c := by
  unfold isSeqBody at h
  split at h
  · rename_i sub it b hb; exact ⟨sub, it, b, hb⟩
  · cases h

open UnitTiming.Stmt in
/-- the parsed text satisfies the hypotheses (`SeqBody`, `WF`), the pass succeeds on it, and the skeleton of the result is the
expected flat sequence: `subcircuit 2 { <A|BB>; CCC; loop 2 {…} }; <M|DDDD>; A` -/
theorem ex_run : chk (Pipeline.parseProgram {} exTxt) (fun c =>
    isSeqBody c && !badNatives c && countsOK c.body && !c.macros.isEmpty &&
    chk (normalizeCircuit c) (fun c' =>
      decide (skelBody exL c' =
        [block false true 2 [block true false 1 [gate 1, gate 2], gate 3,
           loop 2 (block false false 1 [block true false 1 [gate 1, block false false 1 [gate 2, loop 2 (block false false 1 [gate 1])]]])],
         block true false 1 [gate 1, gate 4], gate 1]) &&
      decide ((gates c'.body).map (·.1) = ["A", "BB", "CCC", "A", "BB", "A", "M", "DDDD", "A"]) &&
      (UnitTiming.timesSeq 0 (skelBody exL c')).isPerm (UnitTiming.timesSeq 0 (skelBody exL c)) &&
      decide ((UnitTiming.timesSeq 0 (skelBody exL c)).length = 14))) = true := by decide +kernel

/-- the hypotheses of the theorems hold of a parsed text, non-trivially -/
example : ∃ c c', Pipeline.parseProgram {} exTxt = .ok c ∧ SeqBody c ∧ normalizeCircuit c = .ok c' ∧ c.macros ≠ [] := by
  obtain ⟨c, hc, h⟩ := chk_ok ex_run
  simp only [Bool.and_eq_true] at h
  obtain ⟨⟨⟨⟨hs, _⟩, _⟩, hm⟩, hrun⟩ := h
  obtain ⟨c', hc', _⟩ := chk_ok hrun
  refine ⟨c, c', hc, isSeqBody_iff hs, hc', ?_⟩
  intro h0; rw [h0] at hm; simp at hm

/-- the parsed text has a meaning (so `C19_circuit_meaning` applies to it), with 1 + 1 + 1 + 2·(1 + 1 + 2·1) + 3 + 1 + 1 = 16 gate
applications (the macro call contributes the three gates of its body) -/
theorem ex_meaning : chk (Pipeline.parseProgram {} exTxt) (fun c =>
    match Sem.meaning [] c with
    | .ok m => decide (m.unroll.length = 16) && decide (m.unroll.head? = some ("A", [.qubit ("r", 0)]))
    | .error _ => false) = true := by decide +kernel

/-- a loop inside a parallel block in a parsed text: `JaqalError`, and the defect is seen on the skeleton -/
theorem ex_bad : chk (Pipeline.parseProgram {} exBad) (fun c =>
    isSeqBody c && !badNatives c && countsOK c.body &&
    UnitTiming.anyLoopInPar false (skelBody exL c) &&
    (match normalizeCircuit c with | .error e => decide (e = errLoop) && decide (e.cls = "JaqalError") | .ok _ => false)) = true := by
  decide +kernel

/-- the constructor checks and the native-gates check are failure points of their own (objects built by hand) -/
example : (normalizeCircuit { body := .block false false (.int 1) [.block true false (.int 2) []] }).toOption.isNone = true := by
  decide +kernel
example : normalizeCircuit { natives := [{ name := "M", tag := .macro, params := [] }] }
    = .error (.jaqal "native-gates-must-be-GateDefinition") := rfl

end Examples

end Jaqal.UnitTimingCircuit

open Jaqal.UnitTimingCircuit in
#print axioms C19_circuit_refines
open Jaqal.UnitTimingCircuit in
#print axioms C19_circuit_refines_error
open Jaqal.UnitTimingCircuit in
#print axioms C19_circuit_complete_ok
open Jaqal.UnitTimingCircuit in
#print axioms C19_circuit_complete_error
open Jaqal.UnitTimingCircuit in
#print axioms C19_circuit_error_class
open Jaqal.UnitTimingCircuit in
#print axioms C19_circuit_wf
open Jaqal.UnitTimingCircuit in
#print axioms C19_circuit_skel_injective
open Jaqal.UnitTimingCircuit in
#print axioms C19_circuit_schedule
open Jaqal.UnitTimingCircuit in
#print axioms C19_circuit_schedule_order
open Jaqal.UnitTimingCircuit in
#print axioms C19_circuit_schedule_count
open Jaqal.UnitTimingCircuit in
#print axioms C19_circuit_duration
open Jaqal.UnitTimingCircuit in
#print axioms C19_circuit_flat
open Jaqal.UnitTimingCircuit in
#print axioms C19_circuit_subcircuits
open Jaqal.UnitTimingCircuit in
#print axioms C19_circuit_subcircuit_slots
open Jaqal.UnitTimingCircuit in
#print axioms C19_circuit_ok_iff
open Jaqal.UnitTimingCircuit in
#print axioms C19_circuit_fails_only
open Jaqal.UnitTimingCircuit in
#print axioms C19_circuit_loop
open Jaqal.UnitTimingCircuit in
#print axioms C19_circuit_idempotent
open Jaqal.UnitTimingCircuit in
#print axioms C19_circuit_header
open Jaqal.UnitTimingCircuit in
#print axioms C19_circuit_frame
open Jaqal.UnitTimingCircuit in
#print axioms C19_circuit_meaning
