import JaqalProofs.Lemmas.ParsedLegal
/-!
# C06 for the circuits the parser produces — `FillIn.WellFormed` discharged, `goodRefs` explicit

Split out of the former `Props/ParsedPasses.lean`; see `Props/ParsedEx.lean` for the overview and the non-vacuity example.
-/
set_option linter.unusedVariables false
open Jaqal Jaqal.Sem

namespace Jaqal.FillIn
open Jaqal.Passes Jaqal.Builder

/-- **C06_fill_in_map for parsed circuits**, under the decidable condition `goodRefs c = true` (see the header: it does not
hold of every parsed circuit, `goodRefs_parsed_fails`). -/
theorem C06_fill_in_map_parsed (cfg : Config) (txt : String) (c c' : Circuit)
    (hp : Pipeline.parseProgram cfg txt = .ok c) (hg : goodRefs c = true) (h : fillInMap c = .ok c') :
    Sem.meaning [] c' = Sem.meaning [] c ∧ ArgsAll FundRef c'.body ∧
      (∀ m ∈ c'.macros, ArgsAll (FundRefNot (m.params.map (·.1))) m.body) ∧ c'.registers = c.registers :=
  C06_fill_in_map c c' (parsed_legal cfg txt c hp).wf2 ((goodRefs_iff c).1 hg).1 ((goodRefs_iff c).1 hg).2 h

end Jaqal.FillIn
