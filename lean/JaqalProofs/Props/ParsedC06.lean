import JaqalProofs.Lemmas.ParsedLegal
import JaqalProofs.Lemmas.ParsedGoodRefs
/-!
# C06 for the circuits the parser produces — `FillIn.WellFormed` discharged, `goodRefs` explicit

Split out of the former `Props/ParsedPasses.lean`; see `Props/ParsedEx.lean` for the overview and the non-vacuity example.
-/
set_option linter.unusedVariables false
open Jaqal Jaqal.Sem

namespace Jaqal.FillIn
open Jaqal.Passes Jaqal.Builder

/-- **C06_fill_in_map for parsed circuits**, under the decidable condition `goodRefs c = true` (see the header: it does not
hold of every parsed circuit, `goodRefs_parsed_fails`). -/
theorem C06_fill_in_map_parsed (cfg : Config) (txt : String) (c c' : Circuit)
    (hp : Pipeline.parseProgram cfg txt = .ok c) (hg : goodRefs c = true) (h : fillInMap c = .ok c') :
    Sem.meaning [] c' = Sem.meaning [] c ∧ ArgsAll FundRef c'.body ∧
      (∀ m ∈ c'.macros, ArgsAll (FundRefNot (m.params.map (·.1))) m.body) ∧ c'.registers = c.registers :=
  C06_fill_in_map c c' (parsed_legal cfg txt c hp).wf2 ((goodRefs_iff c).1 hg).1 ((goodRefs_iff c).1 hg).2 h

/-- `goodRefs` is automatic after `fill_in_let` when no macro body indexes a parameter (`Lemmas/ParsedGoodRefs.lean`) -/
theorem C06_goodRefs_parsed_let (cfg : Config) (txt : String) (ov : List (String × Num)) (c c1 : Circuit)
    (hp : Pipeline.parseProgram cfg txt = .ok c) (hn : noParamIndex c = true) (h1 : fillInLet ov c = .ok c1) :
    goodRefs c1 = true :=
  parsed_let_goodRefs cfg txt ov c c1 hp hn h1

/-- **C06_fill_in_map after `fill_in_let` on a parsed circuit** — the only side condition is the decidable `noParamIndex c`
(no macro body of the PARSED circuit holds a qubit reference whose source or index is a macro parameter; it cannot be dropped:
`noParamIndex_needed`).  `fill_in_map ∘ fill_in_let(ov)`: (1) the result means what `fill_in_let`'s result means, which is what
the parsed circuit means under the overrides; (2) every qubit argument is `fundamental[k]`; (3) inside a macro the fundamental
register is not named like a parameter; (4) the registers are those of `fill_in_let`'s result. -/
theorem C06_fill_in_map_parsed_let (cfg : Config) (txt : String) (ov : List (String × Num)) (c c1 c2 : Circuit)
    (hp : Pipeline.parseProgram cfg txt = .ok c) (hn : noParamIndex c = true) (h1 : fillInLet ov c = .ok c1)
    (h2 : fillInMap c1 = .ok c2) :
    Sem.meaning [] c2 = Sem.meaning [] c1 ∧ Sem.meaning [] c2 = Sem.meaning (normOv ov) c ∧ ArgsAll FundRef c2.body ∧
      (∀ m ∈ c2.macros, ArgsAll (FundRefNot (m.params.map (·.1))) m.body) ∧ c2.registers = c1.registers := by
  have hL := parsed_legal cfg txt c hp
  have hL1 : Legal c1 := C10_legal_preserved (.let_ ov) c c1 hL h1
  have hg := (goodRefs_iff c1).1 (parsed_let_goodRefs cfg txt ov c c1 hp hn h1)
  obtain ⟨e1, e2, e3, e4⟩ := C06_fill_in_map c1 c2 hL1.wf2 hg.1 hg.2 h2
  exact ⟨e1, by rw [e1]; exact C05_meaning ov c c1 hL.wf2 h1, e2, e3, e4⟩

/-- non-vacuity: the premises hold of `let n 4; register r[n]; map a r[1:n]; macro M x { G x }; M a[0]` with the override
`n ↦ 6` (it parses, `noParamIndex`, `fill_in_let` and then `fill_in_map` succeed) -/
theorem C06_fill_in_map_parsed_let_ex :
    (match Pipeline.parseProgram {} "let n 4\nregister r[n]\nmap a r[1:n]\nmacro M x { G x }\nM a[0]\n" with
     | .ok c => (match fillInLet [("n", .int 6)] c with
                 | .ok c1 => (match fillInMap c1 with
                              | .ok _ => noParamIndex c
                              | .error _ => false)
                 | .error _ => false)
     | .error _ => false) = true := by decide +kernel

end Jaqal.FillIn
