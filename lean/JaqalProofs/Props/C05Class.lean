import JaqalProofs.Lemmas.RebuildTotal
/-!
# C05 (error classes) — `fill_in_let` fails with `JaqalError` only

`fillInLet ov c` = the visitors (`letSx`: `LetFiller` / `RegisterVisitor` on every value) followed by the rebuild
(`Builder.build (rebuildCfg c)` on the S-expression with the visited objects embedded).

* **`C05_total_class`** — on a TYPED circuit (`TypedC`, `Lemmas/FillInTyped.lean`: every gate argument, count and register is a
  number, a numeric let constant, a parameter, a register sized and sliced by ints or integer constants (`RegT`), or a qubit of
  such a register / of a parameter with an int, integer-constant or parameter index; constants are constants) whose body is a
  block, `fill_in_let` fails with `JaqalError` / `ImportError` only, whatever the override list:
  - the visitors (`C05_letSx_class`, `letVal_typed`): an overriding float for a register size, a slice bound or a qubit index
    is refused by the constructors with `JaqalError`; what they return is typed again and free of constants;
  - the rebuild (`rebuild_total`, `Lemmas/RebuildTotal.lean`): `C16_builder_total` for the shapes `letSx` writes.
* **`C05_total_class_text`** — every circuit built from text is typed (`built_typed`, `Lemmas/BuiltTyped.lean`), also after
  `expand_subcircuits` (`expandSubcircuits_typed`): so `fill_in_let` of what `parse_jaqal_string` returns, and of its image under
  `expand_subcircuits` (the order of `run_jaqal_circuit`), fails with `JaqalError` only.  No hypothesis left.
* `C05_total_class_untyped_false` — the statement with `FillIn.WellFormed c` as the only hypothesis is FALSE: `WellFormed` says
  nothing about values, and for a qubit taken from something that is not a register the visitor raises `AttributeError`.  (No
  such circuit is built from text.)
-/
namespace Jaqal.FillIn
open Jaqal Jaqal.Builder Jaqal.RunModel

/-- **C05 (classes).** `fill_in_let` on a typed circuit fails with `JaqalError` / `ImportError` only. -/
theorem C05_total_class (ov : List (String × Num)) (c : Circuit) (ht : TypedC c)
    (hblk : ∃ par it bs, c.body = .block par false it bs) : ∀ e, fillInLet ov c = .error e → Good e :=
  C05_total_class_partial ov c ht (rebuild_total ov c ht hblk)

/-- **C05 (classes, circuits from text).** Directly after the build, or after `expand_subcircuits` (as `run_jaqal_circuit`
does it). -/
theorem C05_total_class_text (cfg : Config) (ov : List (String × Num)) (sx : Sx) (c : Circuit)
    (hp : ParserSx (BSx.ofSx sx)) (hb : parseBuild cfg sx = .ok c) :
    (∀ e, fillInLet ov c = .error e → Good e) ∧
    ∀ c1, ExpandSubcircuits.expandSubcircuits none none c = .ok c1 → ∀ e, fillInLet ov c1 = .error e → Good e := by
  have ht := parseBuild_typed cfg sx c hp hb
  obtain ⟨b, hbody⟩ := RunModel.parseBuild_body hb
  refine ⟨C05_total_class ov c ht ⟨_, _, _, hbody⟩, ?_⟩
  intro c1 hc1
  have ht1 := ExpandSubcircuits.expandSubcircuits_typed ht hc1
  obtain ⟨stmts, _, _, _, _, _, rfl⟩ := ExpandSubcircuits.expand_ok hc1
  exact C05_total_class ov _ ht1 ⟨_, _, _, rfl⟩

/-! ### `FillIn.WellFormed` alone does not suffice -/

/-- a hand-made circuit: `X` applied to "qubit `k` of the number 3", `k` a let constant -/
def exUntyped : Circuit :=
  { body := .block false false (.int 1)
      [.gate "X" { name := "X", tag := .native, params := [("q", .none)] }
        [("q", .qubit "x" (.int 3) (.const "k" (.int 0)))]] }

theorem exUntyped_wellFormed : WellFormed exUntyped :=
  ⟨⟨_, rfl⟩, (by simp [exUntyped, BlocksOK, BlocksOKList]), (fun m hm => by cases hm), (fun v hv => by cases hv),
    (fun v hv => by cases hv)⟩

/-- `WellFormed c → fillInLet ov c = .error e → Good e` is false: the visitor raises `AttributeError` -/
theorem C05_total_class_untyped_false :
    ¬ (∀ (ov : List (String × Num)) (c : Circuit), WellFormed c → ∀ e, fillInLet ov c = .error e → Good e) := by
  intro h
  have hd : (match fillInLet [] exUntyped with | .error (.other "AttributeError") => true | _ => false) = true := by
    decide +kernel
  cases hf : fillInLet [] exUntyped with
  | ok c => rw [hf] at hd; cases hd
  | error e =>
    have hg := h [] exUntyped exUntyped_wellFormed e hf
    rw [hf] at hd
    rcases hg with ⟨r, rfl⟩ | rfl <;> simp at hd

/-! ### Non-vacuity -/

/-- the typed hypothesis holds for the C05 example circuit (alias slices with let bounds, a let-sized register, a macro) -/
example : InT (.regS "a" (.regF "r" (.const "n" (.int 6))) (.int 1) (.const "n" (.int 6)) (.int 2)) = true := by decide
example : (match letVal [("n", .int 4)] false (.regS "a" (.regF "r" (.const "n" (.int 6))) (.int 1) (.const "n" (.int 6)) (.int 2)) with
  | .ok w => OutT w | .error _ => false) = true := by decide
/-- an override that turns a register size into a non-integral float is refused with a JaqalError -/
example : (match letVal [("n", .flt ⟨false, 25, -1⟩)] true (.regF "r" (.const "n" (.int 6))) with
  | .error (.jaqal _) => true | _ => false) = true := by decide

end Jaqal.FillIn

#print axioms Jaqal.FillIn.letVal_typed
#print axioms Jaqal.FillIn.C05_letSx_class
#print axioms Jaqal.FillIn.C05_total_class
#print axioms Jaqal.FillIn.C05_total_class_text
#print axioms Jaqal.FillIn.C05_total_class_untyped_false
