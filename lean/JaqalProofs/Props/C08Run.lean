import JaqalProofs.Props.C08
import JaqalProofs.Props.C12Run
/-!
# C08 over the whole run

`Props/C08.lean` is about the walker (`Walk.visit`) on the skeleton of an expanded circuit. Here the statements are lifted to
`RunModel.execute` / `runCircuit` (subcircuit blocks, lets and macros expanded first): whenever the run produces a result,

* `C08_run_visits` — its visit sequence (`[readout.subcircuit.index for readout in result.readouts]`) is exactly
  `specVisits`, which by `C08_unroll` is: walk the expanded program with its loops UNROLLED and record the index of trace `k`
  each time the gate at which trace `k` starts is executed; in particular loops with count ≤ 0 contribute nothing
  (`C08_zero`), let-valued and overridden counts have been replaced by their values before (`expandAll`), and the readouts
  are numbered 0,1,2,… with per-subcircuit counts equal to the number of their visits (`C08_indices`);
* `C08_run_never_hangs` — the walk of an accepted program never runs out of fuel and never raises: no `hang` / assertion
  outcome of `execute` exists.
-/
namespace Jaqal.RunModel
open Jaqal Jaqal.Walk

/-- **C08 over the run (visits).** -/
theorem C08_run_visits (x : Circuit) (body : List Walk.Stmt) (tbl : List GateRec) (s : RunSummary)
    (hs : skeleton x = .ok (body, tbl)) (h : execute x = .ok s) :
    ∃ traces, discover body = .ok traces ∧ s.subcircuits = traces.length ∧
      s.visits = specVisits (traces.map (·.1)) body ∧
      s.visits = execVisits (traces.map (·.1)) (unroll body) := by
  have hl : tooLarge x.registers = .ok () := by
    cases hl : tooLarge x.registers with
    | ok u => cases u; rfl
    | error e => simp [execute, hs, hl, bind, Except.bind] at h
  rw [execute_unfold x body tbl hs hl] at h
  cases hd : Walk.discover body with
  | error e => simp [hd, bind, Except.bind, throw, throwThe, MonadExceptOf.throw] at h
  | ok traces =>
    simp only [hd, bind, Except.bind, pure, Except.pure] at h
    cases h1 : UsedQubits.checkDisjoint x with
    | error e => simp [h1] at h
    | ok u =>
      simp only [h1] at h
      cases h2 : makeSubcircuits x body tbl traces with
      | error e => simp [h2] at h
      | ok toks =>
        simp only [h2] at h
        have hv := C08_order body traces hd (fuelBound (traces.map (·.1)) body) (Nat.le_refl _)
        rw [hv] at h
        simp only [Except.ok.injEq] at h
        subst h
        exact ⟨traces, rfl, rfl, rfl, C08_unroll body traces hd⟩

/-- **C08 over the run (termination).** `execute` never ends in the walker's fuel exhaustion (`hang`) or in its internal
assertion: every failure of `execute` comes from an earlier stage. -/
theorem C08_run_never_hangs (x : Circuit) (body : List Walk.Stmt) (tbl : List GateRec)
    (hs : skeleton x = .ok (body, tbl)) (hl : tooLarge x.registers = .ok ()) (traces : List (Addr × Addr))
    (hd : discover body = .ok traces) (hc : UsedQubits.checkDisjoint x = .ok ())
    (toks : List (List String)) (ht : makeSubcircuits x body tbl traces = .ok toks) :
    ∃ s, execute x = .ok s := by
  rw [execute_unfold x body tbl hs hl]
  have hv := C08_order body traces hd (fuelBound (traces.map (·.1)) body) (Nat.le_refl _)
  simp only [hd, hc, ht, hv, bind, Except.bind, pure, Except.pure]
  exact ⟨_, rfl⟩

end Jaqal.RunModel

#print axioms Jaqal.RunModel.C08_run_visits
#print axioms Jaqal.RunModel.C08_run_never_hangs
