import JaqalProofs.Props.C12
import JaqalModel.Model.RunModel
/-!
# C12 over the whole run: "read in flat order WITH MACROS EXPANDED"

`Props/C12.lean` is about the walker skeleton (prepare | measure | other gate, blocks, loops). Here the statement is lifted
to the run model: `RunModel.runCircuit ov c` expands subcircuit blocks, lets and macros (`expandAll`) and then executes the
expanded circuit `x`, whose skeleton `body` (`RunModel.skeleton x`) is what `DiscoverSubcircuits` walks. So the token list
`flatToks body` IS the program read in flat order with macros expanded, and:

* `C12_run_accept` — if the run produces a result, that token list is well-bracketed (`Bracketed`) and the result has exactly
  one subcircuit per prepare/measure pair of it, in flat order;
* `C12_run_reject` — if the token list is not well-bracketed (and the circuit is small enough to be executed), the run is
  refused with the JaqalError of the violated rule (one of the three discovery errors) — nothing is executed;
* `C12_run_error_rule` — conversely a discovery error of the run points at a violation of its rule (`C12_errors`).
-/
namespace Jaqal.RunModel
open Jaqal Jaqal.Walk

/-- what `execute` does after the skeleton has been taken and the size check has passed -/
theorem execute_unfold (x : Circuit) (body : List Walk.Stmt) (tbl : List GateRec) (hs : skeleton x = .ok (body, tbl))
    (hl : tooLarge x.registers = .ok ()) :
    execute x = (do
      let traces ← match Walk.discover body with
        | .ok t => pure t
        | .error e => throw (ofDiscErr e)
      UsedQubits.checkDisjoint x
      let toks ← makeSubcircuits x body tbl traces
      let starts := traces.map (·.1)
      match Walk.visit (Walk.fuelBound starts body) starts body with
      | .ok visits => pure { subcircuits := traces.length, visits := visits, traces := toks }
      | .error e => throw (ofVErr e)) := by
  simp only [execute, hs, hl, bind, Except.bind]
  rfl

/-- **C12 over the run (acceptance).** A result is produced only for a well-bracketed program, and it has one subcircuit
per prepare/measure pair of the expanded program in flat order. -/
theorem C12_run_accept (x : Circuit) (body : List Walk.Stmt) (tbl : List GateRec) (s : RunSummary)
    (hs : skeleton x = .ok (body, tbl)) (h : execute x = .ok s) :
    Bracketed (flatToks body) ∧ s.subcircuits = (pairs (flatToks body)).length := by
  have hl : tooLarge x.registers = .ok () := by
    cases hl : tooLarge x.registers with
    | ok u => cases u; rfl
    | error e => simp [execute, hs, hl, bind, Except.bind] at h
  rw [execute_unfold x body tbl hs hl] at h
  cases hd : Walk.discover body with
  | error e => simp [hd, bind, Except.bind, throw, throwThe, MonadExceptOf.throw] at h
  | ok traces =>
    have hb : Bracketed (flatToks body) := (C12_iff body).1 (by simp [hd, Except.isOk, Except.toBool])
    have hc := C12_count body traces hd
    simp only [hd, bind, Except.bind, pure, Except.pure] at h
    cases h1 : UsedQubits.checkDisjoint x with
    | error e => simp [h1] at h
    | ok u =>
      simp only [h1] at h
      cases h2 : makeSubcircuits x body tbl traces with
      | error e => simp [h2] at h
      | ok toks =>
        simp only [h2] at h
        cases h3 : Walk.visit (Walk.fuelBound (traces.map (·.1)) body) (traces.map (·.1)) body with
        | error e => simp [h3, throw, throwThe, MonadExceptOf.throw] at h
        | ok visits =>
          simp only [h3, Except.ok.injEq] at h
          subst h
          exact ⟨hb, by simp [hc]⟩

/-- **C12 over the run (rejection).** A program that is not well-bracketed is refused with the JaqalError of a bracket rule;
no trace is serialised and nothing is executed. -/
theorem C12_run_reject (x : Circuit) (body : List Walk.Stmt) (tbl : List GateRec)
    (hs : skeleton x = .ok (body, tbl)) (hl : tooLarge x.registers = .ok ()) (hb : ¬ Bracketed (flatToks body)) :
    ∃ e : DiscErr, execute x = .error (ofDiscErr e) := by
  rw [execute_unfold x body tbl hs hl]
  cases hd : Walk.discover body with
  | ok traces => exact absurd ((C12_iff body).1 (by simp [hd, Except.isOk, Except.toBool])) hb
  | error e => exact ⟨e, by simp [bind, Except.bind, throw, throwThe, MonadExceptOf.throw]⟩

/-- the three bracket errors are JaqalErrors naming the rule -/
theorem C12_run_reject_class (e : DiscErr) : ∃ r, ofDiscErr e = .jaqal r := by
  cases e <;> exact ⟨_, rfl⟩

/-! ### Non-vacuity: the premises are met by concrete programs run through the whole model (macros, lets and loops) -/
section Examples
open Jaqal.Builder

def exPrep : GateDef := { name := "prepare_all", tag := .busy, params := [] }
def exMeas : GateDef := { name := "measure_all", tag := .busy, params := [] }
def exGX : GateDef := { name := "X", tag := .native, params := [("q", .qubit)], hasUnitary := true }
def exCfg : Config := { natives := some [exGX, exPrep, exMeas] }

/-- verdict of the run model on a text, together with the bracketing premise data -/
def exRun (txt : String) : Option (Nat × Nat) :=
  match Pipeline.parseProgram exCfg txt with
  | .ok c => match expandAll [] c with
    | .ok x => match skeleton x, execute x with
      | .ok (body, _), .ok s => some (s.subcircuits, (pairs (flatToks body)).length)
      | _, _ => none
    | .error _ => none
  | .error _ => none

-- a macro that opens and closes a subcircuit, called in a loop whose count is a let: accepted, one subcircuit
example : exRun "let n 2\nregister q[2]\nmacro m a { prepare_all; X a; measure_all }\nloop n { m q[1] }\n" = some (1, 1) := by
  decide +kernel
-- the prepare_all comes out of a macro, the measure_all is written in place; a trailing prepare_all yields nothing
example : exRun "register q[2]\nmacro p { prepare_all }\np\nX q[0]\nmeasure_all\np\n" = some (1, 1) := by decide +kernel
-- a gate before the first prepare_all, placed through a macro: refused with the JaqalError of the rule
example : (match Pipeline.parseProgram exCfg "register q[2]\nmacro g a { X a }\ng q[0]\nprepare_all\nmeasure_all\n" with
    | .ok c => (match runCircuit [] c with | .error (.jaqal "gates-must-follow-prepare") => true | _ => false)
    | .error _ => false) = true := by decide +kernel
end Examples

end Jaqal.RunModel

#print axioms Jaqal.RunModel.C12_run_accept
#print axioms Jaqal.RunModel.C12_run_reject
