import JaqalProofs.Lemmas.ParsedLegal
/-!
# C10 for the circuits the parser produces — no well-formedness hypothesis

Split out of the former `Props/ParsedPasses.lean`; see `Props/ParsedEx.lean` for the overview and the non-vacuity example.
-/
set_option linter.unusedVariables false
open Jaqal Jaqal.Sem

namespace Jaqal.Passes
open Jaqal.Builder

theorem C10_legal_parsed (cfg : Config) (txt : String) (c : Circuit) (hp : Pipeline.parseProgram cfg txt = .ok c) : Legal c :=
  parsed_legal cfg txt c hp

/-- **every pass applied to a parsed circuit gives a `Legal` circuit** -/
theorem C10_legal_preserved_parsed (cfg : Config) (txt : String) (p : Pass) (c c' : Circuit)
    (hp : Pipeline.parseProgram cfg txt = .ok c) (h : apply p c = .ok c') : Legal c' :=
  C10_legal_preserved p c c' (parsed_legal cfg txt c hp) h

theorem legal_applySeq : ∀ (π : List Pass) (c c' : Circuit), Legal c → applySeq π c = .ok c' → Legal c'
  | [], c, c', hL, h => by simp only [applySeq, pure, Except.pure, Except.ok.injEq] at h; subst h; exact hL
  | p :: ps, c, c', hL, h => by
    simp only [applySeq] at h
    cases h1 : apply p c with
    | error e => rw [h1] at h; cases h
    | ok c1 =>
      rw [h1] at h
      exact legal_applySeq ps c1 c' (C10_legal_preserved p c c1 hL h1) h

/-- … and so does every sequence of passes -/
theorem C10_legal_seq_parsed (cfg : Config) (txt : String) (π : List Pass) (c c' : Circuit)
    (hp : Pipeline.parseProgram cfg txt = .ok c) (h : applySeq π c = .ok c') : Legal c' :=
  legal_applySeq π c c' (parsed_legal cfg txt c hp) h

/-- the side conditions of the `fill_in_map` steps of a sequence, and nothing else (`stepSide` is `True` at every other step) -/
def SideOK (ρ : Env) : List Pass → Circuit → Prop
  | [], _ => True
  | p :: ps, c => stepSide ρ p ps c ∧ ∀ c', apply p c = .ok c' → SideOK ρ ps c'

theorem sideOK_of_nomap (ρ : Env) : ∀ (π : List Pass) (c : Circuit), (∀ p ∈ π, p matches .let_ _ | .macros _ | .subs) →
    SideOK ρ π c
  | [], _, _ => trivial
  | p :: ps, c, hnm => by
    refine ⟨?_, fun c' _ => sideOK_of_nomap ρ ps c' (fun q hq => hnm q (by simp [hq]))⟩
    have := hnm p (by simp)
    cases p <;> trivial

/-- from a legal circuit a sequence is applicable as soon as its `fill_in_map` steps have their side condition -/
theorem applicable_of_legal_side (ρ : Env) : ∀ (π : List Pass) (c : Circuit), Legal c → SideOK ρ π c → Applicable ρ π c
  | [], _, _, _ => trivial
  | p :: ps, c, hL, hs =>
    ⟨hL, hs.1, fun c' h => applicable_of_legal_side ρ ps c' (C10_legal_preserved p c c' hL h) (hs.2 c' h)⟩

theorem C10_applicable_parsed_side (cfg : Config) (txt : String) (ρ : Env) (π : List Pass) (c : Circuit)
    (hp : Pipeline.parseProgram cfg txt = .ok c) (hs : SideOK ρ π c) : Applicable ρ π c :=
  applicable_of_legal_side ρ π c (parsed_legal cfg txt c hp) hs

/-- every sequence without `fill_in_map` is applicable from a parsed circuit -/
theorem C10_applicable_parsed (cfg : Config) (txt : String) (ρ : Env) (π : List Pass) (c : Circuit)
    (hp : Pipeline.parseProgram cfg txt = .ok c) (hnm : ∀ p ∈ π, p matches .let_ _ | .macros _ | .subs) : Applicable ρ π c :=
  C10_applicable_of_legal ρ π c (parsed_legal cfg txt c hp) hnm

/-- **C10_canonical for parsed circuits** (sequences without `fill_in_map`) -/
theorem C10_canonical_parsed (cfg : Config) (txt : String) (ρ : Env) (π : List Pass) (c c' : Circuit) (s : Sem)
    (hp : Pipeline.parseProgram cfg txt = .ok c) (hnm : ∀ p ∈ π, p matches .let_ _ | .macros _ | .subs)
    (ha : applySeq π c = .ok c') (hm : meaning (envAfter ρ π) c = .ok s) : meaning ρ c' = .ok (tr π s) :=
  C10_canonical ρ π c c' s (C10_applicable_parsed cfg txt ρ π c hp hnm) ha hm

/-- **C10_commute for parsed circuits.** Two sequences of `fill_in_let` / `expand_macros` / `expand_subcircuits` made of the same
passes (any order, any repetitions), all `fill_in_let` carrying the same overrides `ov`: if both succeed on a circuit the
parser produced (and the circuit has a meaning under the overrides), the results have the same meaning. -/
theorem C10_commute_parsed (cfg : Config) (txt : String) (ρ : Env) (ov : List (String × Num)) (π π' : List Pass)
    (c c1 c2 : Circuit) (s : Sem) (hp : Pipeline.parseProgram cfg txt = .ok c)
    (hsame : ∀ p, p ∈ π ↔ p ∈ π') (hu : ∀ ov', Pass.let_ ov' ∈ π → ov' = ov)
    (hnm : ∀ p ∈ π, p matches .let_ _ | .macros _ | .subs)
    (a1 : applySeq π c = .ok c1) (a2 : applySeq π' c = .ok c2) (hm : meaning (envAfter ρ π) c = .ok s) :
    meaning ρ c1 = meaning ρ c2 :=
  C10_commute_perm ρ ov π π' c c1 c2 s hsame hu (C10_applicable_parsed cfg txt ρ π c hp hnm)
    (C10_applicable_parsed cfg txt ρ π' c hp (fun p hp' => hnm p ((hsame p).2 hp'))) a1 a2 hm

/-- … with `fill_in_map` among the passes: the side conditions of the `fill_in_map` steps are all that is asked -/
theorem C10_commute_parsed_map (cfg : Config) (txt : String) (ρ : Env) (ov : List (String × Num)) (π π' : List Pass)
    (c c1 c2 : Circuit) (s : Sem) (hp : Pipeline.parseProgram cfg txt = .ok c)
    (hsame : ∀ p, p ∈ π ↔ p ∈ π') (hu : ∀ ov', Pass.let_ ov' ∈ π → ov' = ov)
    (hs1 : SideOK ρ π c) (hs2 : SideOK ρ π' c)
    (a1 : applySeq π c = .ok c1) (a2 : applySeq π' c = .ok c2) (hm : meaning (envAfter ρ π) c = .ok s) :
    meaning ρ c1 = meaning ρ c2 :=
  C10_commute_perm ρ ov π π' c c1 c2 s hsame hu (C10_applicable_parsed_side cfg txt ρ π c hp hs1)
    (C10_applicable_parsed_side cfg txt ρ π' c hp hs2) a1 a2 hm

/-- **C10_idempotent for parsed circuits**: all four passes -/
theorem C10_idempotent_parsed (cfg : Config) (txt : String) (p : Pass) (c c' : Circuit)
    (hp : Pipeline.parseProgram cfg txt = .ok c) (h : apply p c = .ok c') : apply p c' = .ok c' :=
  C10_idempotent p c c' (parsed_legal cfg txt c hp) h

/-- … and along a sequence: a pass applied twice to the result of any sequence of passes on a parsed circuit -/
theorem C10_idempotent_seq_parsed (cfg : Config) (txt : String) (π : List Pass) (p : Pass) (c c1 c2 : Circuit)
    (hp : Pipeline.parseProgram cfg txt = .ok c) (ha : applySeq π c = .ok c1) (h : apply p c1 = .ok c2) :
    apply p c2 = .ok c2 :=
  C10_idempotent p c1 c2 (C10_legal_seq_parsed cfg txt π c c1 hp ha) h


end Jaqal.Passes
