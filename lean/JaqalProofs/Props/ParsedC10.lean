import JaqalProofs.Lemmas.ParsedLegal
/-!
# C10 for the circuits the parser produces — no well-formedness hypothesis

Split out of the former `Props/ParsedPasses.lean`; see `Props/ParsedEx.lean` for the overview and the non-vacuity example.
-/
set_option linter.unusedVariables false
open Jaqal Jaqal.Sem

namespace Jaqal.Passes
open Jaqal.Builder

theorem C10_legal_parsed (cfg : Config) (txt : String) (c : Circuit) (hp : Pipeline.parseProgram cfg txt = .ok c) : Legal c :=
  parsed_legal cfg txt c hp

/-- **every pass applied to a parsed circuit gives a `Legal` circuit** -/
theorem C10_legal_preserved_parsed (cfg : Config) (txt : String) (p : Pass) (c c' : Circuit)
    (hp : Pipeline.parseProgram cfg txt = .ok c) (h : apply p c = .ok c') : Legal c' :=
  C10_legal_preserved p c c' (parsed_legal cfg txt c hp) h

theorem legal_applySeq : ∀ (π : List Pass) (c c' : Circuit), Legal c → applySeq π c = .ok c' → Legal c'
  | [], c, c', hL, h => by simp only [applySeq, pure, Except.pure, Except.ok.injEq] at h; subst h; exact hL
  | p :: ps, c, c', hL, h => by
    simp only [applySeq] at h
    cases h1 : apply p c with
    | error e => rw [h1] at h; cases h
    | ok c1 =>
      rw [h1] at h
      exact legal_applySeq ps c1 c' (C10_legal_preserved p c c1 hL h1) h

/-- … and so does every sequence of passes -/
theorem C10_legal_seq_parsed (cfg : Config) (txt : String) (π : List Pass) (c c' : Circuit)
    (hp : Pipeline.parseProgram cfg txt = .ok c) (h : applySeq π c = .ok c') : Legal c' :=
  legal_applySeq π c c' (parsed_legal cfg txt c hp) h

/-- the side conditions of the `fill_in_map` steps of a sequence, and nothing else (`stepSide` is `True` at every other step) -/
def SideOK (ρ : Env) : List Pass → Circuit → Prop
  | [], _ => True
  | p :: ps, c => stepSide ρ p ps c ∧ ∀ c', apply p c = .ok c' → SideOK ρ ps c'

theorem sideOK_of_nomap (ρ : Env) : ∀ (π : List Pass) (c : Circuit), (∀ p ∈ π, p matches .let_ _ | .macros _ | .subs) →
    SideOK ρ π c
  | [], _, _ => trivial
  | p :: ps, c, hnm => by
    refine ⟨?_, fun c' _ => sideOK_of_nomap ρ ps c' (fun q hq => hnm q (by simp [hq]))⟩
    have := hnm p (by simp)
    cases p <;> trivial

/-- from a legal circuit a sequence is applicable as soon as its `fill_in_map` steps have their side condition -/
theorem applicable_of_legal_side (ρ : Env) : ∀ (π : List Pass) (c : Circuit), Legal c → SideOK ρ π c → Applicable ρ π c
  | [], _, _, _ => trivial
  | p :: ps, c, hL, hs =>
    ⟨hL, hs.1, fun c' h => applicable_of_legal_side ρ ps c' (C10_legal_preserved p c c' hL h) (hs.2 c' h)⟩

theorem C10_applicable_parsed_side (cfg : Config) (txt : String) (ρ : Env) (π : List Pass) (c : Circuit)
    (hp : Pipeline.parseProgram cfg txt = .ok c) (hs : SideOK ρ π c) : Applicable ρ π c :=
  applicable_of_legal_side ρ π c (parsed_legal cfg txt c hp) hs

/-- every sequence without `fill_in_map` is applicable from a parsed circuit -/
theorem C10_applicable_parsed (cfg : Config) (txt : String) (ρ : Env) (π : List Pass) (c : Circuit)
    (hp : Pipeline.parseProgram cfg txt = .ok c) (hnm : ∀ p ∈ π, p matches .let_ _ | .macros _ | .subs) : Applicable ρ π c :=
  C10_applicable_of_legal ρ π c (parsed_legal cfg txt c hp) hnm

/-- **C10_canonical for parsed circuits** (sequences without `fill_in_map`) -/
theorem C10_canonical_parsed (cfg : Config) (txt : String) (ρ : Env) (π : List Pass) (c c' : Circuit) (s : Sem)
    (hp : Pipeline.parseProgram cfg txt = .ok c) (hnm : ∀ p ∈ π, p matches .let_ _ | .macros _ | .subs)
    (ha : applySeq π c = .ok c') (hm : meaning (envAfter ρ π) c = .ok s) : meaning ρ c' = .ok (tr π s) :=
  C10_canonical ρ π c c' s (C10_applicable_parsed cfg txt ρ π c hp hnm) ha hm

/-- **C10_commute for parsed circuits.** Two sequences of `fill_in_let` / `expand_macros` / `expand_subcircuits` made of the same
passes (any order, any repetitions), all `fill_in_let` carrying the same overrides `ov`: if both succeed on a circuit the
parser produced (and the circuit has a meaning under the overrides), the results have the same meaning. -/
theorem C10_commute_parsed (cfg : Config) (txt : String) (ρ : Env) (ov : List (String × Num)) (π π' : List Pass)
    (c c1 c2 : Circuit) (s : Sem) (hp : Pipeline.parseProgram cfg txt = .ok c)
    (hsame : ∀ p, p ∈ π ↔ p ∈ π') (hu : ∀ ov', Pass.let_ ov' ∈ π → ov' = ov)
    (hnm : ∀ p ∈ π, p matches .let_ _ | .macros _ | .subs)
    (a1 : applySeq π c = .ok c1) (a2 : applySeq π' c = .ok c2) (hm : meaning (envAfter ρ π) c = .ok s) :
    meaning ρ c1 = meaning ρ c2 :=
  C10_commute_perm ρ ov π π' c c1 c2 s hsame hu (C10_applicable_parsed cfg txt ρ π c hp hnm)
    (C10_applicable_parsed cfg txt ρ π' c hp (fun p hp' => hnm p ((hsame p).2 hp'))) a1 a2 hm

/-- … with `fill_in_map` among the passes: the side conditions of the `fill_in_map` steps are all that is asked -/
theorem C10_commute_parsed_map (cfg : Config) (txt : String) (ρ : Env) (ov : List (String × Num)) (π π' : List Pass)
    (c c1 c2 : Circuit) (s : Sem) (hp : Pipeline.parseProgram cfg txt = .ok c)
    (hsame : ∀ p, p ∈ π ↔ p ∈ π') (hu : ∀ ov', Pass.let_ ov' ∈ π → ov' = ov)
    (hs1 : SideOK ρ π c) (hs2 : SideOK ρ π' c)
    (a1 : applySeq π c = .ok c1) (a2 : applySeq π' c = .ok c2) (hm : meaning (envAfter ρ π) c = .ok s) :
    meaning ρ c1 = meaning ρ c2 :=
  C10_commute_perm ρ ov π π' c c1 c2 s hsame hu (C10_applicable_parsed_side cfg txt ρ π c hp hs1)
    (C10_applicable_parsed_side cfg txt ρ π' c hp hs2) a1 a2 hm

/-- **C10_idempotent for parsed circuits**: all four passes -/
theorem C10_idempotent_parsed (cfg : Config) (txt : String) (p : Pass) (c c' : Circuit)
    (hp : Pipeline.parseProgram cfg txt = .ok c) (h : apply p c = .ok c') : apply p c' = .ok c' :=
  C10_idempotent p c c' (parsed_legal cfg txt c hp) h

/-- … and along a sequence: a pass applied twice to the result of any sequence of passes on a parsed circuit -/
theorem C10_idempotent_seq_parsed (cfg : Config) (txt : String) (π : List Pass) (p : Pass) (c c1 c2 : Circuit)
    (hp : Pipeline.parseProgram cfg txt = .ok c) (ha : applySeq π c = .ok c1) (h : apply p c1 = .ok c2) :
    apply p c2 = .ok c2 :=
  C10_idempotent p c1 c2 (C10_legal_seq_parsed cfg txt π c c1 hp ha) h

/-! ## The parser's flags -/

/-- what `Builder.build` makes of the parser's tree of a text is `Legal` — BEFORE the register-count check of
`parse_jaqal_string` (with flags that check comes after the passes) -/
theorem built_legal {cfg : Config} {txt : String} {sx : Sx} {c : Circuit} (ht : Parser.parseText txt = .ok sx)
    (hb : build cfg (BSx.ofSx sx) = .ok c) : Legal c := by
  have hw := built_wellFormed cfg _ c (parseText_parserSx ht) hb
  have hty := built_typed cfg _ c (parseText_parserSx ht) hb
  have hs := built_blockShape cfg _ c (parseText_grammarSx ht) hb
  obtain ⟨b, hbody⟩ := RunModel.build_body hb
  exact ⟨hw, ⟨⟨b, hbody⟩, blocksOK_of _ hs.body hty.body, fun m hm => blocksOK_of _ (hs.macros m hm) (hty.macros m hm),
    hty.constants, hty.regLike⟩, ⟨argsAll_deep_of _ hty.body, fun m hm => argsAll_deep_of _ (hty.macros m hm)⟩⟩

/-- `parse_jaqal_string(text, override_dict=ov, expand_macro=em, expand_let=el, expand_let_map=elm, …)` from the TEXT:
`Passes.parseWithFlags` behind the parser, as `Pipeline.parseProgram` is `Builder.parseBuild` behind the parser -/
def parseTextWithFlags (cfg : Config) (em el elm : Bool) (ov : List (String × Num)) (txt : String) : M Circuit :=
  (Pipeline.parseSx txt).bind (parseWithFlags cfg em el elm ov)

/-- the passes `parse_jaqal_string` can run keep the number of fundamental registers of a `Legal` circuit -/
theorem applySeq_fundCount_legal : ∀ (π : List Pass) (c c' : Circuit), Legal c → hasSubs π = false →
    applySeq π c = .ok c' → fundCount c' = fundCount c
  | [], c, c', _, _, h => by simp only [applySeq, pure, Except.pure, Except.ok.injEq] at h; subst h; rfl
  | p :: ps, c, c', hL, hs, h => by
    simp only [applySeq] at h
    cases h1 : apply p c with
    | error e => rw [h1] at h; cases h
    | ok c1 =>
      rw [h1] at h
      simp only [hasSubs, List.any_cons, Bool.or_eq_false_iff] at hs
      have e1 := apply_fundCount p c c1 hL.wf2 hs.1 h1
      have e2 := applySeq_fundCount_legal ps c1 c' (C10_legal_preserved p c c1 hL h1) hs.2 h
      rw [e2, e1]

theorem catchRecursion_ok_inv {α} {r : M α} {a : α} (h : catchRecursion r = .ok a) : r = .ok a := by
  cases r with
  | ok b => exact h
  | error e =>
    cases e <;> simp only [catchRecursion] at h <;> first | cases h | (split at h <;> cases h)

theorem flagPasses_noSubs (em el elm : Bool) (ov : List (String × Num)) : hasSubs (flagPasses em el elm ov) = false := by
  cases em <;> cases el <;> cases elm <;> rfl

theorem tooManyRegisters_ok {c c' : Circuit} (h : tooManyRegisters c = .ok c') : c' = c ∧ ¬ fundCount c > 1 := by
  unfold tooManyRegisters at h
  split at h
  · simp [throw_eq] at h
  · rename_i hlen
    simp only [pure, Except.pure, Except.ok.injEq] at h
    exact ⟨h.symm, hlen⟩

theorem tooManyRegisters_of {c : Circuit} (h : ¬ fundCount c > 1) : tooManyRegisters c = .ok c := by
  unfold tooManyRegisters
  have : ¬ (c.registers.filter isFundamental).length > 1 := h
  simp [this, pure, Except.pure]

/-- **C10_flags for parsed circuits** — all eight combinations of the flags, `expand_let_map` included, no side condition:
asking the parser to expand while parsing succeeds with `c'` EXACTLY when the plain parse succeeds with some `c` and the
passes of the flags (`flagPasses`: `expand_macros(preserve_definitions=True)`, `fill_in_let(ov)`, `fill_in_map`, in this
order) applied to `c` give `c'`.  (The register-count check, which `parse_jaqal_string` runs AFTER the passes, commutes with
them: they keep the fundamental registers of a `Legal` circuit, and what is built from a text is `Legal`.) -/
theorem C10_flags_parsed (cfg : Config) (em el elm : Bool) (ov : List (String × Num)) (txt : String) (c' : Circuit) :
    parseTextWithFlags cfg em el elm ov txt = .ok c' ↔
      ∃ c, Pipeline.parseProgram cfg txt = .ok c ∧ applySeq (flagPasses em el elm ov) c = .ok c' := by
  unfold parseTextWithFlags Pipeline.parseProgram
  cases hsx : Pipeline.parseSx txt with
  | error e =>
    constructor
    · intro h; cases h
    · rintro ⟨c, h, _⟩; cases h
  | ok sx =>
    have ht : Parser.parseText txt = .ok sx := by
      unfold Pipeline.parseSx at hsx
      cases hp : Parser.parseText txt with
      | error pe => rw [hp] at hsx; cases hsx
      | ok sx' => rw [hp] at hsx; cases hsx; rfl
    show parseWithFlags cfg em el elm ov sx = .ok c' ↔
      ∃ c, parseBuild cfg sx = .ok c ∧ applySeq (flagPasses em el elm ov) c = .ok c'
    unfold parseWithFlags parseBuild
    cases hb : build cfg (BSx.ofSx sx) with
    | error e =>
      constructor
      · intro h
        have h' : (catchRecursion (Except.error e : M Circuit)).bind tooManyRegisters = .ok c' := h
        cases hc : catchRecursion (Except.error e : M Circuit) with
        | error e' => rw [hc] at h'; cases h'
        | ok x => cases catchRecursion_ok_inv hc
      · rintro ⟨c, h, _⟩; cases h
    | ok c0 =>
      have hL := built_legal ht hb
      constructor
      · intro h
        have h' : (catchRecursion (applySeq (flagPasses em el elm ov) c0)).bind tooManyRegisters = .ok c' := h
        cases hc : catchRecursion (applySeq (flagPasses em el elm ov) c0) with
        | error e' => rw [hc] at h'; cases h'
        | ok c1 =>
          rw [hc] at h'
          have h2 : tooManyRegisters c1 = .ok c' := h'
          obtain ⟨rfl, hcount⟩ := tooManyRegisters_ok h2
          have ha := catchRecursion_ok_inv hc
          have hf := applySeq_fundCount_legal _ c0 c' hL (flagPasses_noSubs em el elm ov) ha
          refine ⟨c0, ?_, ha⟩
          show tooManyRegisters c0 = .ok c0
          exact tooManyRegisters_of (by omega)
      · rintro ⟨c, h, ha⟩
        have h2 : tooManyRegisters c0 = .ok c := h
        obtain ⟨hcc, hcount⟩ := tooManyRegisters_ok h2
        rw [hcc] at ha
        have hf := applySeq_fundCount_legal _ c0 c' hL (flagPasses_noSubs em el elm ov) ha
        show (catchRecursion (applySeq (flagPasses em el elm ov) c0)).bind tooManyRegisters = .ok c'
        rw [ha]
        show tooManyRegisters c' = .ok c'
        exact tooManyRegisters_of (by omega)

/-- the direction the name promises, for a given plain parse -/
theorem C10_flags_parsed_ok (cfg : Config) (em el elm : Bool) (ov : List (String × Num)) (txt : String) (c c' : Circuit)
    (hp : Pipeline.parseProgram cfg txt = .ok c) (ha : applySeq (flagPasses em el elm ov) c = .ok c') :
    parseTextWithFlags cfg em el elm ov txt = .ok c' :=
  (C10_flags_parsed cfg em el elm ov txt c').2 ⟨c, hp, ha⟩

/-- without flags it succeeds exactly when `Pipeline.parseProgram` does, with the same circuit (on failure the classes can
differ: the flagged entry converts a `RecursionError` of the builder) -/
theorem parseTextWithFlags_plain (cfg : Config) (ov : List (String × Num)) (txt : String) (c : Circuit) :
    parseTextWithFlags cfg false false false ov txt = .ok c ↔ Pipeline.parseProgram cfg txt = .ok c := by
  rw [C10_flags_parsed]
  constructor
  · rintro ⟨c0, hp, ha⟩
    simp only [flagPasses, applySeq, pure, Except.pure, Except.ok.injEq, Bool.false_eq_true, if_false, List.append_nil] at ha
    rw [← ha]; exact hp
  · intro hp
    exact ⟨c, hp, rfl⟩

end Jaqal.Passes
