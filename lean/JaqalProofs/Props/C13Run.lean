import JaqalProofs.Props.C13
import JaqalProofs.Props.C12Run
/-!
# C13 over the whole run: overlapping parallel branches are never executed

`RunModel.execute x` (x = the circuit with subcircuit blocks, lets and macros expanded) calls the disjointness check after
discovery. Lifting `C13_reject`:

* `C13_run_accept` — if the run produces a result, no reachable parallel block of the expanded program has two branches
  acting on a common qubit (`Conflict`) and no gate has the same qubit twice among its arguments (`Repeat`);
* `C13_run_reject` — if there is such a conflict (and the program is well-bracketed and small enough to get that far), the run
  is refused with the JaqalError of the disjointness check, and nothing is serialised or executed.
-/
namespace Jaqal.RunModel
open Jaqal Jaqal.Walk Jaqal.UsedQubits

theorem C13_run_accept (x : Circuit) (body : List Walk.Stmt) (tbl : List GateRec) (s : RunSummary) (u : Used)
    (hs : skeleton x = .ok (body, tbl)) (hu : usedCircuit x = .ok u) (h : execute x = .ok s) :
    ∃ allQ, allQubits x.registers = .ok allQ ∧ ¬ Conflict allQ x.macros [] x.body ∧ ¬ Repeat allQ x.macros [] x.body := by
  obtain ⟨allQ, ha, hiff, _⟩ := C13_reject x u hu
  refine ⟨allQ, ha, ?_⟩
  apply hiff.1
  have hl : tooLarge x.registers = .ok () := by
    cases hl : tooLarge x.registers with
    | ok u => cases u; rfl
    | error e => simp [execute, hs, hl, bind, Except.bind] at h
  rw [execute_unfold x body tbl hs hl] at h
  cases hd : Walk.discover body with
  | error e => simp [hd, bind, Except.bind, throw, throwThe, MonadExceptOf.throw] at h
  | ok traces =>
    simp only [hd, bind, Except.bind, pure, Except.pure] at h
    cases h1 : checkDisjoint x with
    | error e => simp [h1] at h
    | ok v => cases v; rfl

theorem C13_run_reject (x : Circuit) (body : List Walk.Stmt) (tbl : List GateRec) (u : Used) (traces : List (Addr × Addr))
    (hs : skeleton x = .ok (body, tbl)) (hl : tooLarge x.registers = .ok ()) (hd : discover body = .ok traces)
    (hu : usedCircuit x = .ok u) :
    ∃ allQ, allQubits x.registers = .ok allQ ∧
      (Conflict allQ x.macros [] x.body ∨ Repeat allQ x.macros [] x.body →
        execute x = .error parErr ∨ execute x = .error gateErr) := by
  obtain ⟨allQ, ha, _, hex, hcls, _⟩ := C13_reject x u hu
  refine ⟨allQ, ha, fun hc => ?_⟩
  obtain ⟨e, he⟩ := hex.2 hc
  have : execute x = .error e := by
    rw [execute_unfold x body tbl hs hl]
    simp only [hd, he, bind, Except.bind, pure, Except.pure]
  rcases hcls e he with rfl | rfl
  · exact Or.inl this
  · exact Or.inr this

end Jaqal.RunModel

#print axioms Jaqal.RunModel.C13_run_accept
#print axioms Jaqal.RunModel.C13_run_reject
