import JaqalProofs.Lemmas.BuilderMemo
/-!
# C07 — lexical scoping; the meaning of a statement ignores unrelated statements

Model: `JaqalModel/Model/Builder.lean` (`build` = the builder with its gate memo table keyed as `_make_gate_memo_key`
keys it today, `buildNoMemo` = the same builder without the table, `buildOldNumKey` / `buildOldKey` = the keys before
the two repairs).

* `C07_innermost_param`, `C07_innermost_header`: in the context a macro body is built in (`{**context, **params}`,
  `Ctx.withParams`) an identifier is the parameter of that name if there is one, else the header binding.
* `C07_context_free`: what a gate statement is built to depends only on the statement (name, arguments), the gate
  definition, and the bindings of the names that occur in its arguments (`entsOfList ctx args`) — not on the rest of
  the context, the block flags, or the fuel.
* `C07_memo_sound`: a memo hit returns what building the statement afresh in the current context returns.
* **`C07_memo_transparent`**: `build cfg e = buildNoMemo cfg e` for EVERY S-expression and every configuration: whatever
  textually identical statements occur elsewhere (in another macro, in the main body, earlier or later), every
  statement is built exactly as it would be built without the memo table. (`C07_memo_transparent_parser` is the
  special case of parser-shaped input, kept for reference.)
* Documentation of what the three repairs of the memo table fixed (each with the old behaviour as a build mode):
  `C07_memo_stale_after_usepulses` (no reset of the table when a `usepulses` statement loads gates, `buildNoReset`:
  `usepulses a; X r[0]; usepulses b; X r[0]` bound the second `X r[0]` to module `a`'s replaced definition; hand-made
  S-expressions only), `C07_memo_conflates_numerals` (key before numbers were typed, `buildOldNumKey`: `g 1; g 1.0`
  built the second statement with the int `1`) and `C07_old_key_counterexample` (key before it covered names inside
  array items, `buildOldKey`: `let a 1; register r[3]; macro foo a { g r[a] }; g r[a]` bound the `a` of the main-body
  statement to the macro's parameter).
-/
namespace Jaqal.Builder
open Jaqal

/-! ## Innermost binding -/

theorem lookup_append_of_mem {ps : List (String × Val)} {rest : List (String × Val)} {s : String}
    (h : (ps.lookup s).isSome = true) : (ps ++ rest).lookup s = ps.lookup s := by
  induction ps with
  | nil => simp at h
  | cons p ps ih =>
    obtain ⟨k, v⟩ := p
    simp only [List.cons_append, List.lookup]
    by_cases hk : (s == k) = true
    · simp [hk]
    · simp only [hk]
      simp only [List.lookup, hk] at h
      exact ih h

theorem lookup_append_of_not_mem {ps : List (String × Val)} {rest : List (String × Val)} {s : String}
    (h : ∀ p ∈ ps, p.1 ≠ s) : (ps ++ rest).lookup s = rest.lookup s := by
  induction ps with
  | nil => rfl
  | cons p ps ih =>
    obtain ⟨k, v⟩ := p
    have hk : (s == k) = false := by
      have := h (k, v) (by simp)
      rw [beq_eq_false_iff_ne]
      exact fun h' => this h'.symm
    simp only [List.cons_append, List.lookup, hk]
    exact ih (fun q hq => h q (by simp [hq]))

/-- An identifier that is not a parameter of the macro denotes, inside the macro body, what it denotes in the header. -/
theorem C07_innermost_header (ctx : Ctx) (ps : List (String × Kind)) (f : Nat) (s : String)
    (h : ∀ p ∈ ps, p.1 ≠ s) : buildVal (ctx.withParams ps) f (.str s) = buildVal ctx f (.str s) := by
  have : (ctx.withParams ps).get s = ctx.get s := by
    simp only [Ctx.get, Ctx.withParams]
    apply lookup_append_of_not_mem
    intro p hp
    simp only [List.mem_map, List.mem_reverse] at hp
    obtain ⟨q, hq, rfl⟩ := hp
    exact h q hq
  cases f <;> simp [buildVal, lookupId, this]

/-- An identifier that is a parameter of the macro denotes that parameter inside the macro body, whatever let-constant,
register or alias of the same name the header defines (`{**context, **params}`: the parameters win). -/
theorem C07_innermost_param (ctx : Ctx) (ps : List (String × Kind)) (f : Nat) (s : String)
    (h : ∃ p ∈ ps, p.1 = s) : ∃ k, (s, k) ∈ ps ∧ buildVal (ctx.withParams ps) f (.str s) = .ok (.param s k) := by
  have key : ∀ (l : List (String × Kind)), (∃ p ∈ l, p.1 = s) →
      ∃ k, (s, k) ∈ l ∧ (l.map (fun p => (p.1, Val.param p.1 p.2))).lookup s = some (.param s k) := by
    intro l
    induction l with
    | nil => intro ⟨p, hp, _⟩; cases hp
    | cons q qs ih =>
      intro _
      obtain ⟨n, k⟩ := q
      by_cases hn : (s == n) = true
      · have : s = n := by simpa using hn
        subst this
        exact ⟨k, by simp, by simp⟩
      · have hne : ¬ n = s := by intro h'; subst h'; simp at hn
        have : ∃ p ∈ qs, p.1 = s := by
          rename_i hex
          obtain ⟨p, hp, hps⟩ := hex
          rcases List.mem_cons.1 hp with rfl | hp
          · exact absurd hps hne
          · exact ⟨p, hp, hps⟩
        obtain ⟨k', hk', hl'⟩ := ih this
        exact ⟨k', by simp [hk'], by simp only [List.map_cons, List.lookup, hn]; exact hl'⟩
  obtain ⟨k, hk, hl⟩ := key ps.reverse (by
    obtain ⟨p, hp, hps⟩ := h
    exact ⟨p, by simp [hp], hps⟩)
  refine ⟨k, by simpa using hk, ?_⟩
  have : (ctx.withParams ps).get s = some (.param s k) := by
    simp only [Ctx.get, Ctx.withParams]
    rw [lookup_append_of_mem (by rw [hl]; rfl), hl]
  cases f <;> simp [buildVal, lookupId, this] <;> rfl

/-- non-vacuity: parameter `a` shadows the let-constant `a`; `r` still is the header's register -/
example : (buildVal (Ctx.withParams { vars := [("a", .const "a" (.int 1)), ("r", .regF "r" (.int 3))] } [("a", .none)]) 1
      (.list [.str "array_item", .str "r", .str "a"])).toOption
    = some (.qubit "r[a]" (.regF "r" (.int 3)) (.param "a" .none)) := by decide

/-! ## Context-freeness of gate statements -/

/-- The built form of a gate statement depends only on its name, its arguments, the gate table, and the bindings of the
names occurring in the arguments (also inside `array_item`s): two contexts that give the same `entsOfList` (and any
two sufficient amounts of fuel, i.e. any two nesting depths at which the statement occurs) build the same statement. -/
theorem C07_context_free (cfg : Config) (ctx ctx' : Ctx) (f f' : Nat) (name : String) (args : List BSx) (g : GCtx)
    (hents : entsOfList ctx args = entsOfList ctx' args)
    (hf : BSx.depthList args ≤ f) (hf' : BSx.depthList args ≤ f') :
    buildGateFresh cfg (buildVal ctx f) name args g = buildGateFresh cfg (buildVal ctx' f') name args g := by
  unfold buildGateFresh
  have : args.mapM (buildVal ctx f) = args.mapM (buildVal ctx' f') := by
    apply mapM_congr
    intro x hx
    rw [buildVal_ents f x (entsOfList_mem hents x hx)]
    exact buildVal_fuel ctx' f f' x (Nat.le_trans (depth_le_of_mem hx) hf) (Nat.le_trans (depth_le_of_mem hx) hf')
  rw [this]

/-- non-vacuity: the two contexts differ (another constant, block flags) but agree on `r` -/
example : entsOfList { vars := [("r", .regF "r" (.int 3))] } [.list [.str "array_item", .str "r", .int 0]]
    = entsOfList { vars := [("b", .const "b" (.int 1)), ("r", .regF "r" (.int 3))], inPar := true }
        [.list [.str "array_item", .str "r", .int 0]] := by decide

/-- A memo hit is what building the statement afresh would give: the invariant "every memo entry equals what
building that gate statement returns in any context that agrees with the key" (`MemoOK`) is kept by every step of the
builder (`buildAny_sim`), and under it `build_gate` with the table and without it return the same statement. -/
theorem C07_memo_sound (cfg : Config) (ctx : Ctx) (f : Nat) (args : List BSx) (st st' : St)
    (hg : st.gctx = st'.gctx) (hm : MemoOK cfg st.memo st.gctx) (hd : BSx.depthList args ≤ f) :
    (buildGate cfg .new ctx (buildVal ctx f) args st).map (fun p => (p.1, p.2.gctx)) =
      (buildGate cfg .off ctx (buildVal ctx f) args st').map (fun p => (p.1, p.2.gctx)) := by
  have := buildGate_sim cfg ctx f args st st' hg hm hd
  cases h1 : buildGate cfg .new ctx (buildVal ctx f) args st with
  | error e =>
    cases h2 : buildGate cfg .off ctx (buildVal ctx f) args st' with
    | error e' => rw [h1, h2] at this; simp [Sim] at this; simp [Except.map, this]
    | ok p => rw [h1, h2] at this; simp [Sim] at this
  | ok p =>
    cases h2 : buildGate cfg .off ctx (buildVal ctx f) args st' with
    | error e' => rw [h1, h2] at this; simp [Sim] at this
    | ok p' =>
      rw [h1, h2] at this
      obtain ⟨o, s⟩ := p
      obtain ⟨o', s'⟩ := p'
      obtain ⟨ho, hgs, _, _⟩ := Sim.ok_elim this
      simp [Except.map, ho, hgs]

/-! ## Transparency of the memo table -/

/-- the children of a `["circuit", …]` expression -/
def circuitChildren : BSx → List BSx
  | .list (.str "circuit" :: cs) => cs
  | _ => []

/-- The full statement: the memo table never changes the result (proved below as `C07_memo_transparent`). -/
def C07_memo_transparent_full : Prop := ∀ (cfg : Config) (e : BSx), build cfg e = buildNoMemo cfg e

theorem erase_toCircuit (a : Acc) : a.erase.toCircuit = a.toCircuit := rfl

/-- **C07 (memo transparency).** The gate memo table never changes what is built. -/
theorem C07_memo_transparent (cfg : Config) (e : BSx) : build cfg e = buildNoMemo cfg e := by
  unfold build buildNoMemo buildWith
  cases hi : cfg.inject with
  | error err => rfl
  | ok inject =>
    show buildCore .new cfg inject e = buildCore .off cfg inject e
    unfold buildCore
    split
    · rename_i children
      have hsim := circuitLoop_sim cfg inject (BSx.depth (.list (.str "circuit" :: children)) + 1) children
        { st := { gctx := (inject.getD []).map (fun p => (p.1, GEntry.gdef p.2)) }, natives := inject.getD [] }
        { st := { gctx := (inject.getD []).map (fun p => (p.1, GEntry.gdef p.2)) }, natives := inject.getD [] }
        rfl (by intro k s hk; cases hk)
        (by
          intro c hc
          simp only [BSx.depth, BSx.depthList]
          have := depth_le_of_mem hc
          omega)
      rcases map_erase_congr hsim with ⟨err, h1, h2⟩ | ⟨a, a', h1, h2, he⟩
      · simp only [h1, h2]
      · simp only [h1, h2]
        show Except.ok a.toCircuit = Except.ok a'.toCircuit
        rw [← erase_toCircuit a, ← erase_toCircuit a', he]
    · have hs := buildAny_sim cfg (e.depth + 1) {} e
        { gctx := (inject.getD []).map (fun p => (p.1, GEntry.gdef p.2)) }
        { gctx := (inject.getD []).map (fun p => (p.1, GEntry.gdef p.2)) } (Nat.le_succ _) rfl
        (by intro k s hk; cases hk)
      cases h1 : buildAny cfg .new (e.depth + 1) {} e { gctx := (inject.getD []).map (fun p => (p.1, GEntry.gdef p.2)) } with
      | error a =>
        cases h2 : buildAny cfg .off (e.depth + 1) {} e { gctx := (inject.getD []).map (fun p => (p.1, GEntry.gdef p.2)) } with
        | error b => rw [h1, h2] at hs; simp [Sim] at hs; simp only [bind, Except.bind, h1, h2, hs]
        | ok p => rw [h1, h2] at hs; simp [Sim] at hs
      | ok p =>
        cases h2 : buildAny cfg .off (e.depth + 1) {} e { gctx := (inject.getD []).map (fun p => (p.1, GEntry.gdef p.2)) } with
        | error b => rw [h1, h2] at hs; simp [Sim] at hs
        | ok p' => simp only [bind, Except.bind, h1, h2]

/-! ### Counterexamples to the full statement, and to the old key -/

def gateArgsOf : Stmt → List (String × Val)
  | .gate _ _ a => a
  | _ => []

def gateDefOf : Stmt → Option GateDef
  | .gate _ gd _ => some gd
  | _ => Option.none

/-- a decidable observation of a build result: the arguments and definitions of the top-level gate statements -/
def obs (r : M Circuit) : Option (List (List (String × Val) × Option GateDef)) :=
  match r with
  | .ok c => some (c.body.stmts.map (fun s => (gateArgsOf s, gateDefOf s)))
  | .error _ => Option.none

/-- `register r[2]; g 1; g 1.0` -/
def progNumerals : BSx :=
  .list [.str "circuit", .list [.str "register", .str "r", .int 2],
    .list [.str "gate", .str "g", .int 1], .list [.str "gate", .str "g", .flt ⟨false, 1, 0⟩]]

/-- What typing the numbers in the memo key fixed: with the key compared by Python `==` (`KeyMode.oldNum`) the
statement `g 1.0` was built with the int `1` of the earlier `g 1`. -/
theorem C07_memo_conflates_numerals : obs (buildOldNumKey {} progNumerals) ≠ obs (buildNoMemo {} progNumerals) := by
  decide

def gX1 : GateDef := { name := "X", tag := .native, params := [("q", .qubit)] }
def gX2 : GateDef := { name := "X", tag := .native, params := [("q", .qubit), ("k", .int)] }
def cfgTwoModules : Config :=
  { autoload := true, imports := fun m => if m = "a" then some [gX1] else if m = "b" then some [gX2] else Option.none }

/-- `usepulses a; register r[2]; X r[0]; usepulses b; X r[0]` (not producible by the parser) -/
def progStale : BSx :=
  .list [.str "circuit", .list [.str "usepulses", .str "a", .str "*"], .list [.str "register", .str "r", .int 2],
    .list [.str "gate", .str "X", .list [.str "array_item", .str "r", .int 0]],
    .list [.str "usepulses", .str "b", .str "*"],
    .list [.str "gate", .str "X", .list [.str "array_item", .str "r", .int 0]]]

/-- What resetting the memo table on a pulse load fixed: without the reset (`buildNoReset`) the second `X r[0]` was
accepted and bound to the replaced definition; without a memo table it is rejected (module `b`'s `X` takes two
arguments). -/
theorem C07_memo_stale_after_usepulses :
    obs (buildNoReset cfgTwoModules progStale) ≠ obs (buildNoMemo cfgTwoModules progStale) := by decide

theorem C07_memo_transparent_full_holds : C07_memo_transparent_full := C07_memo_transparent

/-- `let a 1; register r[3]; macro foo a { g r[a] }; g r[a]` -/
def progOldKey : BSx :=
  .list [.str "circuit", .list [.str "let", .str "a", .int 1], .list [.str "register", .str "r", .int 3],
    .list [.str "macro", .str "foo", .str "a", .list [.str "sequential_block",
      .list [.str "gate", .str "g", .list [.str "array_item", .str "r", .str "a"]]]],
    .list [.str "gate", .str "g", .list [.str "array_item", .str "r", .str "a"]]]

/-- What the repair of the memo key fixed: with the OLD key (context entries of top-level string arguments only) the
main-body `g r[a]` is the memoised statement of the macro body, whose `a` is the macro's parameter … -/
theorem C07_old_key_counterexample : obs (buildOldKey {} progOldKey) ≠ obs (buildNoMemo {} progOldKey) := by decide

/-- … in detail: the old key yields `r[Parameter a]` in the main body, today's key `r[Constant a]`. -/
theorem C07_old_key_counterexample_detail :
    obs (buildOldKey {} progOldKey)
      = some [([("p0", .qubit "r[a]" (.regF "r" (.int 3)) (.param "a" .none))], some (anonDef "g" 1))] ∧
    obs (build {} progOldKey)
      = some [([("p0", .qubit "r[a]" (.regF "r" (.int 3)) (.const "a" (.int 1)))], some (anonDef "g" 1))] := by
  decide

/-! ### Parser-shaped expressions -/

/-- the special case of parser-shaped input (what `parse_to_sexpression` returns) -/
theorem C07_memo_transparent_parser (cfg : Config) (e : BSx) (_h : ParserShaped e) : build cfg e = buildNoMemo cfg e :=
  C07_memo_transparent cfg e

/-- non-vacuity: the old-key counterexample program is parser-shaped (textually identical statements in the macro and
in the main body, parameter = let name) -/
example : ParserShaped progOldKey :=
  ⟨[.list [.str "let", .str "a", .int 1], .list [.str "register", .str "r", .int 3]],
   [.list [.str "macro", .str "foo", .str "a", .list [.str "sequential_block",
      .list [.str "gate", .str "g", .list [.str "array_item", .str "r", .str "a"]]]],
    .list [.str "gate", .str "g", .list [.str "array_item", .str "r", .str "a"]]], rfl, by decide, by decide⟩

/-- `g 1; g 1.0` is built as without the table now -/
theorem C07_numerals_fixed : build {} progNumerals = buildNoMemo {} progNumerals :=
  C07_memo_transparent {} progNumerals

end Jaqal.Builder

#print axioms Jaqal.Builder.C07_innermost_header
#print axioms Jaqal.Builder.C07_innermost_param
#print axioms Jaqal.Builder.C07_context_free
#print axioms Jaqal.Builder.C07_memo_sound
#print axioms Jaqal.Builder.C07_memo_transparent
#print axioms Jaqal.Builder.C07_memo_transparent_parser
#print axioms Jaqal.Builder.C07_numerals_fixed
#print axioms Jaqal.Builder.C07_memo_conflates_numerals
#print axioms Jaqal.Builder.C07_memo_stale_after_usepulses
#print axioms Jaqal.Builder.C07_memo_transparent_full_holds
#print axioms Jaqal.Builder.C07_old_key_counterexample
#print axioms Jaqal.Builder.C07_old_key_counterexample_detail
