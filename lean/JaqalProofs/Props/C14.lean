import JaqalProofs.Lemmas.BuilderRefs
import JaqalProofs.Lemmas.BuilderNames
/-!
# C14 — no program is accepted with a reference that cannot be honoured (builder part)

Model: `JaqalModel/Model/Builder.lean`; declarative specification: `ValOK`, `ArgsFit`, `StmtOK` in
`JaqalProofs/Lemmas/BuilderRefs.lean` (they say what a valid value / statement IS and do not mention the builder).

* `C14_sound`: a circuit `parse_jaqal_string` (no pass requested) accepts satisfies `RefsValid`:
  every qubit anywhere in it (map statements, gate arguments in the body and in macro bodies) is taken from a register
  or a parameter and, when its index is an integer literal and the register's size follows from integer literals, the
  index lies in `0..size-1`; every alias is an alias of a register or a parameter, and a slice with literal bounds of a
  source of literal size has a non-zero step, a non-negative start and all its elements inside the source; every
  fundamental register of literal size has size ≥ 1; every gate statement has exactly as many arguments as its
  definition has parameters and every argument fits the kind of its parameter; and there is at most one fundamental
  register. `C14_sound_build` is the same for `circuitbuilder.build` on any S-expression without embedded objects.
* `C14_known_when_known_*`: which positions are NOT checked when the circuit is built because their value is a
  let-constant (they are checked when `fill_in_let` rebuilds the circuit — another component), and which are.
* `C14_precedence_*`: gate tables — injected gates win over imported ones, a later import wins over an earlier one.
* **`C14_sound_all`** (= `C14_sound_full`): for EVERY S-expression the accepted circuit moreover satisfies `NamesValid`:
  constant / register / alias names are pairwise distinct; macro names are distinct from each other and from the native
  gates; every gate statement's definition (in the body and in macro bodies) is a native gate of the circuit, a macro of
  the circuit, or — only when no gate set is in force — an anonymous definition `p0…p{n-1}`. The gate-table clause rests
  on `build_circuit` refusing to load pulse definitions after the first gate or macro (`GInv` in `BuilderNames.lean`).
  `C14_sound_parser` is the special case of parser-shaped input, kept for reference.
* `C14_stale_definition_handmade` documents what that refusal fixed: in the old mode (`buildNoReset`)
  `usepulses a; register r[2]; X r[0]; usepulses b` was accepted with its `X r[0]` bound to module `a`'s `X`, which is
  not among the circuit's native gates.
-/
namespace Jaqal.Builder
open Jaqal

/-- What C14 demands of an accepted circuit, as far as it is proved here. -/
structure RefsValid (c : Circuit) : Prop where
  registers : ∀ v ∈ c.registers, ValOK v
  body : StmtOK c.body
  macros : ∀ m ∈ c.macros, StmtOK m.body

theorem C14_sound_build (cfg : Config) (e : BSx) (c : Circuit) (hn : e.noVals = true) (h : build cfg e = .ok c) :
    RefsValid c := by
  unfold build buildWith at h
  obtain ⟨inject, _, h1⟩ := bind_ok h
  unfold buildCore at h1
  split at h1
  · rename_i children
    obtain ⟨acc, hloop, h2⟩ := bind_ok h1
    simp only [pure, Except.pure] at h2
    cases h2
    simp only [BSx.noVals, BSx.noValsList, Bool.true_and] at hn
    have hacc : AccOK acc := by
      refine circuitLoop_ok children _ acc ?_ hn hloop
      refine ⟨?_, ?_, ?_, ?_, ?_⟩
      · intro n v hg; simp [Ctx.get] at hg
      · intro k s hk; cases hk
      · intro v hv; cases hv
      · trivial
      · intro m hm; cases hm
    exact ⟨hacc.regs, ⟨trivial, hacc.stmts⟩, hacc.macros⟩
  · obtain ⟨_, _, h2⟩ := bind_ok h1
    simp [throw_eq] at h2

/-- **C14 (builder part).** -/
theorem C14_sound (cfg : Config) (sx : Sx) (c : Circuit) (h : parseBuild cfg sx = .ok c) :
    RefsValid c ∧ (c.registers.filter isFundamental).length ≤ 1 := by
  unfold parseBuild at h
  obtain ⟨c', hb, h2⟩ := bind_ok h
  unfold tooManyRegisters at h2
  split at h2
  · simp [throw_eq] at h2
  · rename_i hlen
    simp only [pure, Except.pure] at h2
    cases h2
    exact ⟨C14_sound_build cfg _ _ (noVals_ofSx sx) hb, by omega⟩

/-- non-vacuity: an accepted program with an alias slice, an indexed alias, a macro and a call -/
def progOK : Sx :=
  .list [.str "circuit", .list [.str "register", .str "r", .int 4],
    .list [.str "map", .str "a", .str "r", .int 3, .int 0, .int (-1)],
    .list [.str "macro", .str "m", .str "x", .list [.str "sequential_block", .list [.str "gate", .str "g", .str "x"]]],
    .list [.str "gate", .str "m", .list [.str "array_item", .str "a", .int 2]]]

example : (parseBuild {} progOK).toOption.isSome = true := by decide

/-- … and the boundary: index 3 of the three-element alias `a = r[3:0:-1]` is rejected -/
example : (parseBuild {} (.list [.str "circuit", .list [.str "register", .str "r", .int 4],
    .list [.str "map", .str "a", .str "r", .int 3, .int 0, .int (-1)],
    .list [.str "gate", .str "g", .list [.str "array_item", .str "a", .int 3]]])).toOption.isSome = false := by decide

/-! ## The clauses of the property that are not proved here -/

def defOfMacro (m : Macro) : GateDef := { name := m.name, tag := .macro, params := m.params, hasUnitary := false }

structure NamesValid (cfg : Config) (c : Circuit) : Prop where
  /-- constant, register and alias names are pairwise distinct -/
  names : ((c.constants ++ c.registers).map nameOf).Nodup
  /-- macro names are pairwise distinct and distinct from the native gates -/
  macroNames : (c.macros.map (·.name) ++ c.natives.map (·.name)).Nodup
  /-- every gate statement's definition is a native gate, a macro of the circuit, or (only when no gate set is in
  force) an anonymous definition -/
  known : ∀ gd ∈ gateDefsOf c.body ++ (c.macros.map (fun m => gateDefsOf m.body)).flatten,
    gd ∈ c.natives ∨ (∃ m ∈ c.macros, gd = defOfMacro m) ∨
      (cfg.anonymousAllowed = true ∧ gd = anonDef gd.name gd.params.length)

/-- The full statement of the builder part of C14, for all S-expressions (proved below as `C14_sound_all`). -/
def C14_sound_full : Prop :=
  ∀ (cfg : Config) (sx : Sx) (c : Circuit), parseBuild cfg sx = .ok c →
    RefsValid c ∧ (c.registers.filter isFundamental).length ≤ 1 ∧ NamesValid cfg c

/-- Constant, register and alias names of an accepted circuit are pairwise distinct (any input). -/
theorem C14_names_distinct (cfg : Config) (e : BSx) (c : Circuit) (h : build cfg e = .ok c) :
    ((c.constants ++ c.registers).map nameOf).Nodup := by
  unfold build buildWith at h
  obtain ⟨inject, _, h1⟩ := bind_ok h
  unfold buildCore at h1
  split at h1
  · obtain ⟨acc, hloop, h2⟩ := bind_ok h1
    simp only [pure, Except.pure] at h2
    cases h2
    have := circuitLoop_names _ _ acc ⟨by simp, by simp⟩ hloop
    exact this.perm.nodup_iff.2 this.nodup
  · obtain ⟨_, _, h2⟩ := bind_ok h1
    simp [throw_eq] at h2

theorem anonDef_params_length (n : String) (k : Nat) : (anonDef n k).params.length = k := by
  simp [anonDef]

/-- the name clauses for `circuitbuilder.build` on ANY S-expression: a `usepulses` statement can load gates only while
no statement and no macro has been built, so the definitions gate statements are bound to are never replaced -/
theorem C14_names_build (cfg : Config) (e : BSx) (c : Circuit) (hb : build cfg e = .ok c) : NamesValid cfg c := by
  have hnames := C14_names_distinct cfg _ _ hb
  unfold build buildWith at hb
  obtain ⟨inject, hinj, h1⟩ := bind_ok hb
  unfold buildCore at h1
  split at h1
  · rename_i children
    obtain ⟨acc, hloop, h3⟩ := bind_ok h1
    simp only [pure, Except.pure] at h3
    cases h3
    have hnat : NatOK (inject.getD []) := by
      unfold Config.inject at hinj
      cases hn : cfg.natives with
      | none => simp [hn, pure, Except.pure] at hinj; subst hinj; exact ⟨fun p hp => (by cases hp), by simp⟩
      | some gs =>
        simp only [hn] at hinj
        obtain ⟨d, hd, h4⟩ := bind_ok hinj
        simp only [pure, Except.pure] at h4
        cases h4
        exact normNatives_natOK hd
    have hBI : GInv cfg acc := by
      refine circuitLoop_general (by decide) children _ acc ?_ hloop
      refine ⟨HInv.toBInv ?_, fun _ _ => ?_⟩ <;> exact ⟨rfl, rfl, rfl, rfl, hnat⟩
    have hBI := hBI.b
    refine ⟨hnames, ?_, ?_⟩
    · have : (acc.toCircuit.natives.map (·.name)) = acc.natives.map (·.1) := by
        simp only [Acc.toCircuit, List.map_map]
        apply List.map_congr_left
        intro p hp
        exact hBI.nat.keys p hp
      show (acc.macros.map (·.name) ++ acc.toCircuit.natives.map (·.name)).Nodup
      rw [this]; exact hBI.mnames
    · intro gd hgd
      have hk : GKnown acc.st.gctx gd := by
        rcases List.mem_append.1 hgd with hgd | hgd
        · simp only [Acc.toCircuit, gateDefsOf] at hgd
          obtain ⟨s, hs, hg⟩ := mem_gateDefsOfList.1 hgd
          exact hBI.stmts s hs gd hg
        · simp only [Acc.toCircuit, List.mem_flatten, List.mem_map] at hgd
          obtain ⟨l, ⟨m, hm, rfl⟩, hg⟩ := hgd
          exact hBI.macros m hm gd hg
      obtain ⟨e, hl, hd⟩ := hk
      rcases hBI.shape _ e hl with ⟨g, rfl, hm⟩ | ⟨m, hm, rfl⟩ | ⟨ha, k, rfl⟩
      · left
        simp only [GEntry.toDef] at hd
        subst hd
        exact List.mem_map.2 ⟨_, hm, rfl⟩
      · right; left
        exact ⟨m, hm, hd.symm⟩
      · right; right
        refine ⟨ha, ?_⟩
        simp only [GEntry.toDef] at hd
        rw [← hd]
        simp [anonDef]
  · obtain ⟨_, _, h2⟩ := bind_ok h1
    simp [throw_eq] at h2

/-- **C14 (builder part), complete, for every S-expression** (`Sx` has no embedded objects). -/
theorem C14_sound_all : C14_sound_full := by
  intro cfg sx c h
  obtain ⟨hrefs, hone⟩ := C14_sound cfg sx c h
  refine ⟨hrefs, hone, ?_⟩
  unfold parseBuild at h
  obtain ⟨c', hb, h2⟩ := bind_ok h
  have hcc : c' = c := by
    unfold tooManyRegisters at h2
    split at h2
    · simp [throw_eq] at h2
    · simp only [pure, Except.pure] at h2; cases h2; rfl
  subst hcc
  exact C14_names_build cfg _ _ hb

/-- the special case of parser-shaped input, kept for reference -/
theorem C14_sound_parser (cfg : Config) (sx : Sx) (c : Circuit) (_hp : ParserShaped (BSx.ofSx sx))
    (h : parseBuild cfg sx = .ok c) :
    RefsValid c ∧ (c.registers.filter isFundamental).length ≤ 1 ∧ NamesValid cfg c := C14_sound_all cfg sx c h

/-- non-vacuity: the accepted example program above is parser-shaped -/
example : ParserShaped (BSx.ofSx progOK) :=
  ⟨[.list [.str "register", .str "r", .int 4], .list [.str "map", .str "a", .str "r", .int 3, .int 0, .int (-1)]],
   [.list [.str "macro", .str "m", .str "x", .list [.str "sequential_block", .list [.str "gate", .str "g", .str "x"]]],
    .list [.str "gate", .str "m", .list [.str "array_item", .str "a", .int 2]]], rfl, by decide, by decide⟩

/-! ## Checked when known -/

/-- A qubit index that is a let-constant (of integer kind) is NOT checked against the register when the circuit is
built, whatever its value — `let i 7; register r[2]; g r[i]` is accepted by the builder; the check happens when
`fill_in_let` substitutes the value and rebuilds the qubit (`mkQubit` with an integer index, `qubitCheck_lit`). -/
theorem C14_known_when_known_index (nm r n : String) (k i : Int) :
    mkQubit nm (.regF r (.int k)) (.const n (.int i)) = .ok (.qubit nm (.regF r (.int k)) (.const n (.int i))) := rfl

/-- … whereas a literal index into a register of literal size is checked at once. -/
theorem C14_checked_literal_index (nm r : String) (k i : Int)
    (h : mkQubit nm (.regF r (.int k)) (.int i) = .ok (.qubit nm (.regF r (.int k)) (.int i))) : 0 ≤ i ∧ i < k := by
  unfold mkQubit at h
  obtain ⟨u, hc, _⟩ := bind_ok h
  exact qubitCheck_lit hc rfl

/-- A register sized by a let-constant: a literal index IS checked at build time against the constant's value as
written (so `let n 3; register r[n]; g r[4]` is rejected although an override `n = 5` would make it valid). -/
theorem C14_known_when_known_size (nm r n : String) (k i : Int) :
    (mkQubit nm (.regF r (.const n (.int k))) (.int i)).toOption.isSome = (decide (0 ≤ i) && decide (i < k)) := by
  simp only [mkQubit, qubitCheck, indexIntegralCheck, indexRangeCheck, bind, Except.bind, pure, Except.pure, regSize, Resolve.resolveSize, pyIntOfSize,
    pyLt_int, pyLe_int]
  by_cases h1 : i < 0 <;> by_cases h2 : i < k <;>
    simp [h1, h2, isAV, throw_eq, Except.toOption] <;> omega

/-- A slice one of whose bounds is a let-constant is not checked at all when the circuit is built (not even its
literal bounds): `let k 1; register r[4]; map a r[0:9:k]` is accepted by the builder. -/
theorem C14_known_when_known_slice (nm r n : String) (k a b s : Int) :
    mkSlice nm (.regF r (.int k)) (.int a) (.int b) (.const n (.int s))
      = .ok (.regS nm (.regF r (.int k)) (.int a) (.int b) (.const n (.int s))) := rfl

/-- A slice with literal bounds of a register sized by a let-constant: only `step ≠ 0` and `start ≥ 0` are checked. -/
theorem C14_known_when_known_slice_source (nm r n : String) (k a b s : Int) (hs : s ≠ 0) (ha : 0 ≤ a) :
    mkSlice nm (.regF r (.const n (.int k))) (.int a) (.int b) (.int s)
      = .ok (.regS nm (.regF r (.const n (.int k))) (.int a) (.int b) (.int s)) := by
  have hz : pyEq0 (.int s) = false := by simp [pyEq0, Val.toNum?, Num.veq, hs]
  have hlt : ¬ a < 0 := by omega
  simp [mkSlice, sliceCheck, sliceKnownCheck, bind, Except.bind, pure, Except.pure, isAV, isIntLit, hz, pyLt_int, hlt, regSize,
    Resolve.resolveSize]

/-! ## Precedence of gate tables -/

theorem dictSet_lookup_self {β : Type} (k : String) (v : β) : ∀ l : List (String × β), (dictSet k v l).lookup k = some v := by
  intro l
  induction l with
  | nil => simp [dictSet]
  | cons p ps ih =>
    obtain ⟨k', v'⟩ := p
    simp only [dictSet]
    by_cases hk : (k' == k) = true
    · simp [hk]
    · have hk' : (k == k') = false := by
        rw [beq_eq_false_iff_ne]; intro h; subst h; simp at hk
      rw [if_neg hk]
      simp only [List.lookup, hk']
      exact ih

theorem dictSet_lookup_other {β : Type} (k k2 : String) (v : β) (hne : k2 ≠ k) :
    ∀ l : List (String × β), (dictSet k v l).lookup k2 = l.lookup k2 := by
  intro l
  induction l with
  | nil =>
    have : (k2 == k) = false := by rw [beq_eq_false_iff_ne]; exact hne
    simp [dictSet, List.lookup, this]
  | cons p ps ih =>
    obtain ⟨k', v'⟩ := p
    simp only [dictSet]
    by_cases hk : (k' == k) = true
    · have hkk : k' = k := by simpa using hk
      subst hkk
      have : (k2 == k') = false := by rw [beq_eq_false_iff_ne]; exact hne
      simp [List.lookup, this]
    · rw [if_neg hk]
      simp only [List.lookup]
      cases (k2 == k') <;> simp [ih]

/-- Injected gates take precedence over imported ones: a `usepulses` never changes the entry of a name that is in
the injected (non-empty) gate set. -/
theorem C14_precedence_injected {β : Type} (wrap : GateDef → β) (inj : List (String × GateDef)) (n : String)
    (hn : (inj.lookup n).isSome = true) : ∀ (gs : List GateDef) (gates : List (String × β)),
    (updateGates wrap (some inj) gs gates).lookup n = gates.lookup n := by
  intro gs
  induction gs with
  | nil => intro gates; rfl
  | cons g gs ih =>
    intro gates
    simp only [updateGates, List.foldl_cons]
    cases inj with
    | nil => simp at hn
    | cons i is =>
      simp only []
      by_cases hg : (List.lookup g.name (i :: is)).isSome = true
      · simp only [hg, if_true]
        exact ih gates
      · rw [if_neg hg]
        have hne : n ≠ g.name := by intro h; subst h; exact hg hn
        have := ih (dictSet g.name (wrap g) gates)
        simp only [updateGates] at this
        rw [this, dictSet_lookup_other _ _ _ hne]

/-- A later import takes precedence over an earlier one (and over an earlier entry of the table): after
`update_gates` with a module whose last definition of name `g.name` is `g`, the table maps the name to `g`,
unless the name is injected. -/
theorem C14_precedence_later {β : Type} (wrap : GateDef → β) (inject : Option (List (String × GateDef)))
    (gs : List GateDef) (g : GateDef) (gates : List (String × β))
    (hni : ∀ inj, inject = some inj → (inj.lookup g.name).isSome = false) :
    (updateGates wrap inject (gs ++ [g]) gates).lookup g.name = some (wrap g) := by
  simp only [updateGates, List.foldl_append, List.foldl_cons, List.foldl_nil]
  cases inject with
  | none => simp only []; exact dictSet_lookup_self _ _ _
  | some inj =>
    cases inj with
    | nil => simp only []; exact dictSet_lookup_self _ _ _
    | cons i is =>
      simp only [hni (i :: is) rfl]
      exact dictSet_lookup_self _ _ _

/-- non-vacuity of the precedence theorems -/
def gA : GateDef := { name := "X", tag := .native, params := [("q", .qubit)] }
def gB : GateDef := { name := "X", tag := .native, params := [("q", .qubit), ("k", .int)] }
example : (updateGates id (some [("X", gA)]) [gB] [("X", gA)]).lookup "X" = some gA := by decide
example : (updateGates id Option.none [gA, gB] []).lookup "X" = some gB := by decide

/-! ## The residual violation on hand-made input -/

def cfgTwo : Config :=
  { autoload := true, imports := fun m => if m = "a" then some [gA] else if m = "b" then some [gB] else Option.none }

/-- `usepulses a; register r[2]; X r[0]; usepulses b` (the parser rejects a header statement after a body statement) -/
def sxStale : Sx :=
  .list [.str "circuit", .list [.str "usepulses", .str "a", .str "*"], .list [.str "register", .str "r", .int 2],
    .list [.str "gate", .str "X", .list [.str "array_item", .str "r", .int 0]],
    .list [.str "usepulses", .str "b", .str "*"]]

/-- the definitions of the body's gate statements that are not native gates of the circuit -/
def strayDefs (r : M Circuit) : Option (List GateDef) :=
  r.toOption.map (fun c => (gateDefsOf c.body).filter (fun gd => !c.natives.contains gd))

/-- The circuit is accepted, and its `X r[0]` is bound to module `a`'s `X`, which the second `usepulses` has replaced
in the circuit's native gates: `C14_sound_full` fails on this (hand-made) input. -/
theorem C14_stale_definition_handmade : strayDefs (buildNoReset cfgTwo (BSx.ofSx sxStale)) = some [gA] := by decide

end Jaqal.Builder

#print axioms Jaqal.Builder.C14_sound
#print axioms Jaqal.Builder.C14_sound_build
#print axioms Jaqal.Builder.C14_names_distinct
#print axioms Jaqal.Builder.C14_sound_parser
#print axioms Jaqal.Builder.C14_names_build
#print axioms Jaqal.Builder.C14_sound_all
#print axioms Jaqal.Builder.C14_stale_definition_handmade
#print axioms Jaqal.Builder.C14_known_when_known_index
#print axioms Jaqal.Builder.C14_checked_literal_index
#print axioms Jaqal.Builder.C14_known_when_known_size
#print axioms Jaqal.Builder.C14_known_when_known_slice
#print axioms Jaqal.Builder.C14_known_when_known_slice_source
#print axioms Jaqal.Builder.C14_precedence_injected
#print axioms Jaqal.Builder.C14_precedence_later
