import JaqalProofs.Lemmas.BuilderRefs
/-!
# C14 — no program is accepted with a reference that cannot be honoured (builder part)

Model: `JaqalModel/Model/Builder.lean`; declarative specification: `ValOK`, `ArgsFit`, `StmtOK` in
`JaqalProofs/Lemmas/BuilderRefs.lean` (they say what a valid value / statement IS and do not mention the builder).

* `C14_sound`: a circuit `parse_jaqal_string` (no pass requested) accepts satisfies `RefsValid`:
  every qubit anywhere in it (map statements, gate arguments in the body and in macro bodies) is taken from a register
  or a parameter and, when its index is an integer literal and the register's size follows from integer literals, the
  index lies in `0..size-1`; every alias is an alias of a register or a parameter, and a slice with literal bounds of a
  source of literal size has a non-zero step, a non-negative start and all its elements inside the source; every
  fundamental register of literal size has size ≥ 1; every gate statement has exactly as many arguments as its
  definition has parameters and every argument fits the kind of its parameter; and there is at most one fundamental
  register. `C14_sound_build` is the same for `circuitbuilder.build` on any S-expression without embedded objects.
* `C14_known_when_known_*`: which positions are NOT checked when the circuit is built because their value is a
  let-constant (they are checked when `fill_in_let` rebuilds the circuit — another component), and which are.
* `C14_precedence_*`: gate tables — injected gates win over imported ones, a later import wins over an earlier one.
* `C14_sound_full` (a definition, NOT proved here) adds the name clauses of the property: constant / register / alias
  names pairwise distinct, macro names distinct from each other and from the gates known before, every gate
  statement's definition a native gate, an earlier macro, or an anonymous definition when no gate set is in force.
  What is missing: an invariant relating `Acc.ctx` / `St.gctx` to the lists collected in `Acc` (a `List.Perm`
  argument from `addVar`, and `GExt` from `BuilderMemo.lean` for the gate table). For hand-made S-expressions the last
  clause is in fact FALSE for the code as it is: a `usepulses` child that comes after a gate statement replaces the
  definition the earlier statement is bound to (`C07_memo_stale_after_usepulses` in `Props/C07.lean` is such an input;
  the parser cannot produce it, header statements come first).
-/
namespace Jaqal.Builder
open Jaqal

/-- What C14 demands of an accepted circuit, as far as it is proved here. -/
structure RefsValid (c : Circuit) : Prop where
  registers : ∀ v ∈ c.registers, ValOK v
  body : StmtOK c.body
  macros : ∀ m ∈ c.macros, StmtOK m.body

theorem C14_sound_build (cfg : Config) (e : BSx) (c : Circuit) (hn : e.noVals = true) (h : build cfg e = .ok c) :
    RefsValid c := by
  unfold build buildWith at h
  obtain ⟨inject, _, h1⟩ := bind_ok h
  unfold buildCore at h1
  split at h1
  · rename_i children
    obtain ⟨acc, hloop, h2⟩ := bind_ok h1
    simp only [pure, Except.pure] at h2
    cases h2
    simp only [BSx.noVals, BSx.noValsList, Bool.true_and] at hn
    have hacc : AccOK acc := by
      refine circuitLoop_ok children _ acc ?_ hn hloop
      refine ⟨?_, ?_, ?_, ?_, ?_⟩
      · intro n v hg; simp [Ctx.get] at hg
      · intro k s hk; cases hk
      · intro v hv; cases hv
      · trivial
      · intro m hm; cases hm
    exact ⟨hacc.regs, ⟨trivial, hacc.stmts⟩, hacc.macros⟩
  · obtain ⟨_, _, h2⟩ := bind_ok h1
    simp [throw_eq] at h2

/-- **C14 (builder part).** -/
theorem C14_sound (cfg : Config) (sx : Sx) (c : Circuit) (h : parseBuild cfg sx = .ok c) :
    RefsValid c ∧ (c.registers.filter isFundamental).length ≤ 1 := by
  unfold parseBuild at h
  obtain ⟨c', hb, h2⟩ := bind_ok h
  unfold tooManyRegisters at h2
  split at h2
  · simp [throw_eq] at h2
  · rename_i hlen
    simp only [pure, Except.pure] at h2
    cases h2
    exact ⟨C14_sound_build cfg _ _ (noVals_ofSx sx) hb, by omega⟩

/-- non-vacuity: an accepted program with an alias slice, an indexed alias, a macro and a call -/
def progOK : Sx :=
  .list [.str "circuit", .list [.str "register", .str "r", .int 4],
    .list [.str "map", .str "a", .str "r", .int 3, .int 0, .int (-1)],
    .list [.str "macro", .str "m", .str "x", .list [.str "sequential_block", .list [.str "gate", .str "g", .str "x"]]],
    .list [.str "gate", .str "m", .list [.str "array_item", .str "a", .int 2]]]

example : (parseBuild {} progOK).toOption.isSome = true := by decide

/-- … and the boundary: index 3 of the three-element alias `a = r[3:0:-1]` is rejected -/
example : (parseBuild {} (.list [.str "circuit", .list [.str "register", .str "r", .int 4],
    .list [.str "map", .str "a", .str "r", .int 3, .int 0, .int (-1)],
    .list [.str "gate", .str "g", .list [.str "array_item", .str "a", .int 3]]])).toOption.isSome = false := by decide

/-! ## The clauses of the property that are not proved here -/

def defOfMacro (m : Macro) : GateDef := { name := m.name, tag := .macro, params := m.params, hasUnitary := false }

mutual
def gateDefsOf : Stmt → List GateDef
  | .gate _ gd _ => [gd]
  | .block _ _ _ body => gateDefsOfList body
  | .loop _ b => gateDefsOf b
def gateDefsOfList : List Stmt → List GateDef
  | [] => []
  | s :: ss => gateDefsOf s ++ gateDefsOfList ss
end

def nameOf (v : Val) : String := v.name?.getD ""

structure NamesValid (cfg : Config) (c : Circuit) : Prop where
  /-- constant, register and alias names are pairwise distinct -/
  names : ((c.constants ++ c.registers).map nameOf).Nodup
  /-- macro names are pairwise distinct and distinct from the native gates -/
  macroNames : (c.macros.map (·.name) ++ c.natives.map (·.name)).Nodup
  /-- every gate statement's definition is a native gate, a macro of the circuit, or (only when no gate set is in
  force) an anonymous definition -/
  known : ∀ gd ∈ gateDefsOf c.body ++ (c.macros.map (fun m => gateDefsOf m.body)).flatten,
    gd ∈ c.natives ∨ (∃ m ∈ c.macros, gd = defOfMacro m) ∨
      (cfg.anonymousAllowed = true ∧ gd = anonDef gd.name gd.params.length)

/-- The full statement of the builder part of C14. NOT proved (see the module comment). -/
def C14_sound_full : Prop :=
  ∀ (cfg : Config) (sx : Sx) (c : Circuit), parseBuild cfg sx = .ok c →
    RefsValid c ∧ (c.registers.filter isFundamental).length ≤ 1 ∧ NamesValid cfg c

/-! ## Checked when known -/

/-- A qubit index that is a let-constant (of integer kind) is NOT checked against the register when the circuit is
built, whatever its value — `let i 7; register r[2]; g r[i]` is accepted by the builder; the check happens when
`fill_in_let` substitutes the value and rebuilds the qubit (`mkQubit` with an integer index, `qubitCheck_lit`). -/
theorem C14_known_when_known_index (nm r n : String) (k i : Int) :
    mkQubit nm (.regF r (.int k)) (.const n (.int i)) = .ok (.qubit nm (.regF r (.int k)) (.const n (.int i))) := rfl

/-- … whereas a literal index into a register of literal size is checked at once. -/
theorem C14_checked_literal_index (nm r : String) (k i : Int)
    (h : mkQubit nm (.regF r (.int k)) (.int i) = .ok (.qubit nm (.regF r (.int k)) (.int i))) : 0 ≤ i ∧ i < k := by
  unfold mkQubit at h
  obtain ⟨u, hc, _⟩ := bind_ok h
  exact qubitCheck_lit hc rfl

/-- A register sized by a let-constant: a literal index IS checked at build time against the constant's value as
written (so `let n 3; register r[n]; g r[4]` is rejected although an override `n = 5` would make it valid). -/
theorem C14_known_when_known_size (nm r n : String) (k i : Int) :
    (mkQubit nm (.regF r (.const n (.int k))) (.int i)).toOption.isSome = (decide (0 ≤ i) && decide (i < k)) := by
  simp only [mkQubit, qubitCheck, bind, Except.bind, pure, Except.pure, Resolve.resolveSize, pyIntOfSize, pyLt_int,
    pyLe_int]
  by_cases h1 : i < 0 <;> by_cases h2 : i < k <;>
    simp [h1, h2, isAV, throw_eq, Except.toOption] <;> omega

/-- A slice one of whose bounds is a let-constant is not checked at all when the circuit is built (not even its
literal bounds): `let k 1; register r[4]; map a r[0:9:k]` is accepted by the builder. -/
theorem C14_known_when_known_slice (nm r n : String) (k a b s : Int) :
    mkSlice nm (.regF r (.int k)) (.int a) (.int b) (.const n (.int s))
      = .ok (.regS nm (.regF r (.int k)) (.int a) (.int b) (.const n (.int s))) := rfl

/-- A slice with literal bounds of a register sized by a let-constant: only `step ≠ 0` and `start ≥ 0` are checked. -/
theorem C14_known_when_known_slice_source (nm r n : String) (k a b s : Int) (hs : s ≠ 0) (ha : 0 ≤ a) :
    mkSlice nm (.regF r (.const n (.int k))) (.int a) (.int b) (.int s)
      = .ok (.regS nm (.regF r (.const n (.int k))) (.int a) (.int b) (.int s)) := by
  have hz : pyEq0 (.int s) = false := by simp [pyEq0, Val.toNum?, Num.veq, hs]
  have hlt : ¬ a < 0 := by omega
  simp [mkSlice, sliceCheck, bind, Except.bind, pure, Except.pure, isAV, hz, pyLt_int, hlt, Resolve.resolveSize]

/-! ## Precedence of gate tables -/

theorem dictSet_lookup_self {β : Type} (k : String) (v : β) : ∀ l : List (String × β), (dictSet k v l).lookup k = some v := by
  intro l
  induction l with
  | nil => simp [dictSet]
  | cons p ps ih =>
    obtain ⟨k', v'⟩ := p
    simp only [dictSet]
    by_cases hk : (k' == k) = true
    · simp [hk]
    · have hk' : (k == k') = false := by
        rw [beq_eq_false_iff_ne]; intro h; subst h; simp at hk
      rw [if_neg hk]
      simp only [List.lookup, hk']
      exact ih

theorem dictSet_lookup_other {β : Type} (k k2 : String) (v : β) (hne : k2 ≠ k) :
    ∀ l : List (String × β), (dictSet k v l).lookup k2 = l.lookup k2 := by
  intro l
  induction l with
  | nil =>
    have : (k2 == k) = false := by rw [beq_eq_false_iff_ne]; exact hne
    simp [dictSet, List.lookup, this]
  | cons p ps ih =>
    obtain ⟨k', v'⟩ := p
    simp only [dictSet]
    by_cases hk : (k' == k) = true
    · have hkk : k' = k := by simpa using hk
      subst hkk
      have : (k2 == k') = false := by rw [beq_eq_false_iff_ne]; exact hne
      simp [List.lookup, this]
    · rw [if_neg hk]
      simp only [List.lookup]
      cases (k2 == k') <;> simp [ih]

/-- Injected gates take precedence over imported ones: a `usepulses` never changes the entry of a name that is in
the injected (non-empty) gate set. -/
theorem C14_precedence_injected {β : Type} (wrap : GateDef → β) (inj : List (String × GateDef)) (n : String)
    (hn : (inj.lookup n).isSome = true) : ∀ (gs : List GateDef) (gates : List (String × β)),
    (updateGates wrap (some inj) gs gates).lookup n = gates.lookup n := by
  intro gs
  induction gs with
  | nil => intro gates; rfl
  | cons g gs ih =>
    intro gates
    simp only [updateGates, List.foldl_cons]
    cases inj with
    | nil => simp at hn
    | cons i is =>
      simp only []
      by_cases hg : (List.lookup g.name (i :: is)).isSome = true
      · simp only [hg, if_true]
        exact ih gates
      · rw [if_neg hg]
        have hne : n ≠ g.name := by intro h; subst h; exact hg hn
        have := ih (dictSet g.name (wrap g) gates)
        simp only [updateGates] at this
        rw [this, dictSet_lookup_other _ _ _ hne]

/-- A later import takes precedence over an earlier one (and over an earlier entry of the table): after
`update_gates` with a module whose last definition of name `g.name` is `g`, the table maps the name to `g`,
unless the name is injected. -/
theorem C14_precedence_later {β : Type} (wrap : GateDef → β) (inject : Option (List (String × GateDef)))
    (gs : List GateDef) (g : GateDef) (gates : List (String × β))
    (hni : ∀ inj, inject = some inj → (inj.lookup g.name).isSome = false) :
    (updateGates wrap inject (gs ++ [g]) gates).lookup g.name = some (wrap g) := by
  simp only [updateGates, List.foldl_append, List.foldl_cons, List.foldl_nil]
  cases inject with
  | none => simp only []; exact dictSet_lookup_self _ _ _
  | some inj =>
    cases inj with
    | nil => simp only []; exact dictSet_lookup_self _ _ _
    | cons i is =>
      simp only [hni (i :: is) rfl]
      exact dictSet_lookup_self _ _ _

/-- non-vacuity of the precedence theorems -/
def gA : GateDef := { name := "X", tag := .native, params := [("q", .qubit)] }
def gB : GateDef := { name := "X", tag := .native, params := [("q", .qubit), ("k", .int)] }
example : (updateGates id (some [("X", gA)]) [gB] [("X", gA)]).lookup "X" = some gA := by decide
example : (updateGates id Option.none [gA, gB] []).lookup "X" = some gB := by decide

end Jaqal.Builder

#print axioms Jaqal.Builder.C14_sound
#print axioms Jaqal.Builder.C14_sound_build
#print axioms Jaqal.Builder.C14_known_when_known_index
#print axioms Jaqal.Builder.C14_checked_literal_index
#print axioms Jaqal.Builder.C14_known_when_known_size
#print axioms Jaqal.Builder.C14_known_when_known_slice
#print axioms Jaqal.Builder.C14_known_when_known_slice_source
#print axioms Jaqal.Builder.C14_precedence_injected
#print axioms Jaqal.Builder.C14_precedence_later
