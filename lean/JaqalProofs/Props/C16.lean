import JaqalProofs.Lemmas.RunModel
import JaqalProofs.Props.C02
/-!
# C16 — failures are JaqalErrors with a position; no crashes, hangs or sticky state

Model: `RunModel.runModel cfg ov txt` (`JaqalModel/Model/RunModel.lean`) =
`run_jaqal_circuit(parse_jaqal_string(txt, inject_pulses=…, autoload_pulses=…))` up to the floating-point arithmetic.
`Good16 e` = `e` is `Err.jaqal _` (JaqalError), `Err.importErr` (ImportError) or `Err.parse line col` (JaqalParseError);
in particular NOT `Err.other _` (a foreign exception class) and NOT `Err.hang` (`Good16.not_other`).

## What is proved

* **`C16_total_partial`** — for every text, configuration and override list, every failure of `runModel` is `Good16`, GIVEN the
  three named hypotheses below.  Proved without hypotheses, for ALL inputs, and composed here:
  - the parser fails with its own `parseError line col` only (`C02_no_fuel_error` inside `parseText`) and the builder with
    `JaqalError` / `ImportError` only (`C16_parse_build_total`): `parseProgram_class`;
  - `expand_subcircuits` fails with `JaqalError` only (`C09_total_class`; a built circuit's body is a block: `parseProgram_body`);
  - `expand_macros` fails with `JaqalError` only on a `WellFormed` circuit (`C04_total_class`);
  - `DiscoverSubcircuits`' bracket errors are `JaqalError`s; `get_n_qubits` fails with `JaqalError` only; the allocation
    fails with `JaqalError` only; `TraceSerializer` does not raise on a discovered trace (`C03_serialize`) and yields only gates
    of the program, so the gate table is never left (`segment_gks`, `skeleton_ids`); the walk of `execute()` terminates without
    raising on every discovered trace list with the static fuel `fuelBound` (`C08_terminates`): `execute_class`.
* **`C16_pos_partial`** (same hypotheses; `C16_pos_parse` for the parsing entry point needs none; full statement `C16_pos_full`) —
  a `JaqalParseError` of `runModel` is the parser's, and its position is `("EOF", 0)` or the line and column of a
  token start of the text / of the character the lexer refuses (`C02_error_pos_partial`).
* **`C16_deterministic`**, `C16_history_perm`, `C16_history_interleave` — the model is a function of the text: the outcomes of a
  history of calls are the per-call outcomes, whatever the order and whatever failing calls are interleaved.  (Trivial in Lean;
  the content is that the REAL code agrees with a function — the correspondence `run_model` and the direct oracles
  `no_sticky_state` / `fresh_process_agrees` of `harness/agents/c16_diff.py`.)

## What is NOT proved (named hypotheses of `C16_total_partial`; the full statement is `C16_total_full`)

* `FillInClass` — `fill_in_let` applied to the image under `expand_subcircuits` of a built circuit fails with `JaqalError` only.
  (No `C05_total_class` exists yet.  Missing lemma: `Builder.build` is `Total` on the S-expressions `FillIn.letSx` produces —
  `C16_builder_total` covers parser-shaped input only, and `letSx` embeds already-built `Val`s — plus `letVal`'s own classes.)
* `BuiltWellFormed` — the circuit `fill_in_let` returns is `ExpandMacros.WellFormed`.  (Missing lemma: `build cfg e = .ok c →
  WellFormed c` for the inputs above: gate statements are named after their definitions and carry one builder-made argument per
  parameter (`callDef_shape`, `StmtKnown`), macros call earlier macros only (`NamesValid`), registers are `regBuilt` (`ValT/RegT`).)
* `ExecClassOf` — for the expanded circuit: loop counts are Python ints, the used-qubit walk and `resolve_qubit` fail with
  `JaqalError` only, the register size is a non-negative int (`ExecClass`).  (Missing: the same invariants pushed through
  `expand_macros`: `C05_no_consts` + `C04_no_calls` give the shapes, a class theorem for `UsedQubits.usedStmtF` does not exist.)
  This hypothesis is FALSE for gate sets in which a gate with a unitary takes a REGISTER parameter: the real emulator raises
  `TypeError` (`C16_register_gate_typeerror`, a finding).

Each hypothesis is checked on every generated program by the differential test: a violation makes `run_model` answer a class that
is not `JaqalError`, which the real code (oracle `only_jaqalerror_or_importerror`) does not produce.
-/
namespace Jaqal.RunModel
open Jaqal Jaqal.Builder Jaqal.Parser

/-- `fill_in_let` on the subcircuit-expanded image of what the text builds to fails with `JaqalError` only -/
def FillInClass (cfg : Config) (ov : List (String × Num)) (txt : String) : Prop :=
  ∀ c c1, Pipeline.parseProgram cfg txt = .ok c → ExpandSubcircuits.expandSubcircuits none none c = .ok c1 →
    Cls Good (FillIn.fillInLet ov c1)

/-- … and what it returns is well formed in the sense of `expand_macros` -/
def BuiltWellFormed (cfg : Config) (ov : List (String × Num)) (txt : String) : Prop :=
  ∀ c c1 c2, Pipeline.parseProgram cfg txt = .ok c → ExpandSubcircuits.expandSubcircuits none none c = .ok c1 →
    FillIn.fillInLet ov c1 = .ok c2 → ExpandMacros.WellFormed c2 = true

/-- the driver op `well_formed` (which the differential test evaluates on every generated program) decides the conclusion of
`BuiltWellFormed` -/
theorem C16_well_formed_op (c : Circuit) : WF.wellFormed c = true ↔ ExpandMacros.WellFormed c = true := by
  rw [WF.wellFormed_eq]

/-- the expanded circuit satisfies `ExecClass` -/
def ExecClassOf (cfg : Config) (ov : List (String × Num)) (txt : String) : Prop :=
  ∀ c x, Pipeline.parseProgram cfg txt = .ok c → expandAll ov c = .ok x → ExecClass x

theorem expandAll_class {cfg : Config} {ov : List (String × Num)} {txt : String} {c : Circuit}
    (hc : Pipeline.parseProgram cfg txt = .ok c) (hf : FillInClass cfg ov txt) (hw : BuiltWellFormed cfg ov txt) :
    Cls Good (expandAll ov c) := by
  unfold expandAll
  obtain ⟨b, hb⟩ := parseProgram_body hc
  refine Cls.bind ?_ (fun c1 hc1 => Cls.bind (hf c c1 hc hc1) (fun c2 hc2 => ?_))
  · intro e he
    obtain ⟨r, rfl⟩ := ExpandSubcircuits.C09_total_class none none c false false (.int 1) b hb e he
    exact Good.jaqal r
  · intro e he
    obtain ⟨r, rfl⟩ := ExpandMacros.C04_total_class false c2 (hw c c1 c2 hc hc1 hc2) e he
    exact Good.jaqal r

/-- **C16 (totality), relative to the three named lemmas.** Whatever the text, the gate set, the autoload switch, the import
function and the override list: the model of `run_jaqal_circuit(parse_jaqal_string(text))` returns a result or fails with
JaqalError, JaqalParseError or ImportError — never with another exception class, never without terminating. -/
theorem C16_total_partial (cfg : Config) (ov : List (String × Num)) (txt : String)
    (hf : FillInClass cfg ov txt) (hw : BuiltWellFormed cfg ov txt) (hx : ExecClassOf cfg ov txt) :
    ∀ e, runModel cfg ov txt = .error e → Good16 e := by
  show Cls Good16 (runModel cfg ov txt)
  unfold runModel
  refine Cls.bind (parseProgram_class cfg txt) (fun c hc => ?_)
  unfold runCircuit
  refine Cls.bind ((expandAll_class hc hf hw).mono (fun _ => Good.good16)) (fun x hxx => ?_)
  exact (execute_class x (hx c x hc hxx)).mono (fun _ => Good.good16)

/-- no native gate that has a unitary takes a register (for such a gate the real emulator raises `TypeError`) -/
def EmulableNatives (cfg : Config) : Prop :=
  (∀ gs, cfg.natives = some gs → ∀ g ∈ gs, g.hasUnitary = true → ∀ p ∈ g.params, p.2 ≠ Kind.register) ∧
  (∀ m gs, cfg.imports m = some gs → ∀ g ∈ gs, g.hasUnitary = true → ∀ p ∈ g.params, p.2 ≠ Kind.register)

/-- The full statement, NOT proved: `C16_total_partial` without its three hypotheses (for gate sets the emulator can handle).
What is missing is listed in the header: `FillInClass`, `BuiltWellFormed` and `ExecClassOf` as consequences of the invariants of
`Builder.build` (`ValT`/`RegT`, `StmtKnown`, `NamesValid`, `ValOK`), carried through `expand_subcircuits`, `fill_in_let` and
`expand_macros`. -/
def C16_total_full : Prop :=
  ∀ (cfg : Config) (ov : List (String × Num)) (txt : String), EmulableNatives cfg →
    ∀ e, runModel cfg ov txt = .error e → Good16 e

/-- a good error is neither a foreign class nor non-termination -/
theorem C16_no_crash_no_hang {e : Err} (h : Good16 e) : (∀ c, e ≠ .other c) ∧ e ≠ .hang := h.not_other

/-! ### Positions -/

theorem parseText_eof_col {txt : String} {c : Nat} (h : parseText txt = .error (.parseError none c)) : c = 0 := by
  unfold parseText at h
  split at h
  · split at h
    · cases h
    · rename_i e _
      cases e <;> simp [ParseErr.toErr] at h <;> omega
  · split at h
    · simp [lexErrToErr] at h
    · split at h
      · simp [lexErrToErr] at h
      · rename_i e _ _
        cases e <;> simp [ParseErr.toErr] at h <;> omega

/-- **C16 (position).** A syntax error of the pipeline — including input that ends too early — is the parser's error, and it
carries `("EOF", 0)` or the line and column of a place of THIS text where a token starts or where lexing stops. -/
theorem C16_pos_partial (cfg : Config) (ov : List (String × Num)) (txt : String) (l : Option Nat) (c : Nat)
    (h : runModel cfg ov txt = .error (.parse l c)) (hf : FillInClass cfg ov txt) (hw : BuiltWellFormed cfg ov txt)
    (hx : ExecClassOf cfg ov txt) :
    parseText txt = .error (.parseError l c) ∧
    ((l = none ∧ c = 0) ∨ ∃ l', l = some l' ∧ Jaqal.C02.IsTokenPos txt l' c) := by
  have hp : Pipeline.parseProgram cfg txt = .error (.parse l c) := by
    unfold runModel at h
    cases hc : Pipeline.parseProgram cfg txt with
    | error e => rw [hc] at h; cases h; rfl
    | ok c0 =>
      rw [hc] at h
      exfalso
      have h' : runCircuit ov c0 = .error (.parse l c) := h
      unfold runCircuit at h'
      have hcls : Cls Good (expandAll ov c0 >>= execute) :=
        Cls.bind (expandAll_class hc hf hw) (fun x hxx => execute_class x (hx c0 x hc hxx))
      rcases hcls _ h' with ⟨r, hr⟩ | hr <;> cases hr
  have ht := parseProgram_parse_error hp
  refine ⟨ht, ?_⟩
  cases l with
  | none => exact Or.inl ⟨rfl, parseText_eof_col ht⟩
  | some l' => exact Or.inr ⟨l', rfl, Jaqal.C02.C02_error_pos_partial ht⟩

/-- The full statement of the position half, NOT proved: `C16_pos_partial` without its hypotheses.  They are only used to exclude
that a LATER stage answers `Err.parse` (`expand_subcircuits`, `expand_macros` and the executing stage provably do not; for
`fill_in_let` this is `FillInClass`). -/
def C16_pos_full : Prop :=
  ∀ (cfg : Config) (ov : List (String × Num)) (txt : String) (l : Option Nat) (c : Nat),
    runModel cfg ov txt = .error (.parse l c) →
    parseText txt = .error (.parseError l c) ∧ ((l = none ∧ c = 0) ∨ ∃ l', l = some l' ∧ Jaqal.C02.IsTokenPos txt l' c)

/-- the position half needs no hypothesis when stated for the parsing entry point alone -/
theorem C16_pos_parse (cfg : Config) (txt : String) (l : Option Nat) (c : Nat)
    (h : Pipeline.parseProgram cfg txt = .error (.parse l c)) :
    parseText txt = .error (.parseError l c) ∧
    ((l = none ∧ c = 0) ∨ ∃ l', l = some l' ∧ Jaqal.C02.IsTokenPos txt l' c) := by
  have ht := parseProgram_parse_error h
  refine ⟨ht, ?_⟩
  cases l with
  | none => exact Or.inl ⟨rfl, parseText_eof_col ht⟩
  | some l' => exact Or.inr ⟨l', rfl, Jaqal.C02.C02_error_pos_partial ht⟩

/-- `parse_jaqal_string` alone (no pass requested): total for every text and configuration, no hypothesis -/
theorem C16_total_parse (cfg : Config) (txt : String) : ∀ e, Pipeline.parseProgram cfg txt = .error e → Good16 e :=
  parseProgram_class cfg txt

/-! ### No sticky state: the model is a function of the text -/

/-- the outcomes of a history of calls: one per call, each computed from its own text alone -/
def history (cfg : Config) (ov : List (String × Num)) (txts : List String) : List (M RunSummary) :=
  txts.map (runModel cfg ov)

/-- **C16 (determinism).** The outcome of a call in a history is the outcome of that text processed alone. -/
theorem C16_deterministic (cfg : Config) (ov : List (String × Num)) (before after : List String) (txt : String) :
    (history cfg ov (before ++ txt :: after))[before.length]? = some (runModel cfg ov txt) := by
  simp [history]

/-- permuting the calls permutes the outcomes -/
theorem C16_history_perm (cfg : Config) (ov : List (String × Num)) {a b : List String} (h : a.Perm b) :
    (history cfg ov a).Perm (history cfg ov b) := h.map _

/-- interleaving other (e.g. failing) calls changes nothing for the calls of interest: the outcomes of `txts` are a
sublist of the outcomes of any history that contains `txts` as a sublist -/
theorem C16_history_interleave (cfg : Config) (ov : List (String × Num)) {txts all : List String} (h : txts.Sublist all) :
    (history cfg ov txts).Sublist (history cfg ov all) := h.map _

/-! ### Non-vacuity and the finding about register-taking gates -/

def gPrep : GateDef := { name := "prepare_all", tag := .busy, params := [] }
def gMeas : GateDef := { name := "measure_all", tag := .busy, params := [] }
def gX : GateDef := { name := "X", tag := .native, params := [("q", .qubit)], hasUnitary := true }
def gRG : GateDef := { name := "RG", tag := .native, params := [("r", .register)], hasUnitary := true }
def cfgX : Config := { natives := some [gX, gPrep, gMeas] }
def cfgRG : Config := { natives := some [gRG, gPrep, gMeas] }

/-! #### The hypotheses of `C16_total_partial` are decidable for a given text, and hold for concrete programs -/

def isGoodB : Err → Bool
  | .jaqal _ => true
  | .importErr => true
  | _ => false

theorem isGoodB_good {e : Err} (h : isGoodB e = true) : Good e := by
  cases e <;> simp [isGoodB] at h
  · exact Good.jaqal _
  · exact Or.inr rfl

def clsB {α : Type} (m : M α) : Bool :=
  match m with
  | .error e => isGoodB e
  | .ok _ => true

theorem clsB_cls {α : Type} {m : M α} (h : clsB m = true) : Cls Good m := by
  intro e he
  subst he
  exact isGoodB_good h

def sizeIntB (x : Circuit) : Bool :=
  match x.registers.filter isFundamental with
  | [.regF _ (.int k)] => decide (0 ≤ k)
  | [.regF _ _] => false
  | _ => true

theorem sizeIntB_sizeInt {x : Circuit} (h : sizeIntB x = true) : SizeInt x := by
  intro n s hf
  unfold sizeIntB at h
  rw [hf] at h
  cases s <;> simp at h
  exact ⟨_, rfl, h⟩

def execB (x : Circuit) : Bool :=
  clsB (skeleton x) && clsB (tooLarge x.registers) && clsB (UsedQubits.checkDisjoint x) && sizeIntB x &&
  (match skeleton x with
   | .ok (_, tbl) => tbl.all (fun g => clsB (gateToken x.natives g.1 g.2.2))
   | .error _ => true)

theorem execB_execClass {x : Circuit} (h : execB x = true) : ExecClass x := by
  simp only [execB, Bool.and_eq_true] at h
  obtain ⟨⟨⟨⟨h1, h0⟩, h2⟩, h3⟩, h4⟩ := h
  refine ⟨clsB_cls h1, clsB_cls h0, clsB_cls h2, sizeIntB_sizeInt h3, ?_⟩
  intro body tbl hs g hg
  rw [hs] at h4
  exact clsB_cls (List.all_eq_true.1 h4 g hg)

/-- the three hypotheses, evaluated on one text -/
def stageB (cfg : Config) (ov : List (String × Num)) (txt : String) : Bool :=
  match Pipeline.parseProgram cfg txt with
  | .error _ => true
  | .ok c =>
    match ExpandSubcircuits.expandSubcircuits none none c with
    | .error _ => true
    | .ok c1 =>
      match FillIn.fillInLet ov c1 with
      | .error e => isGoodB e
      | .ok c2 =>
        ExpandMacros.WellFormed c2 &&
        (match ExpandMacros.expandMacros false c2 with
         | .error _ => true
         | .ok x => execB x)

theorem stageB_hyps {cfg : Config} {ov : List (String × Num)} {txt : String} (h : stageB cfg ov txt = true) :
    FillInClass cfg ov txt ∧ BuiltWellFormed cfg ov txt ∧ ExecClassOf cfg ov txt := by
  refine ⟨?_, ?_, ?_⟩
  · intro c c1 hc hc1 e he
    simp only [stageB, hc, hc1, he] at h
    exact isGoodB_good h
  · intro c c1 c2 hc hc1 hc2
    simp only [stageB, hc, hc1, hc2, Bool.and_eq_true] at h
    exact h.1
  · intro c x hc hx
    unfold expandAll at hx
    obtain ⟨c1, hc1, hx⟩ := bind_ok hx
    obtain ⟨c2, hc2, hx⟩ := bind_ok hx
    simp only [stageB, hc, hc1, hc2, hx, Bool.and_eq_true] at h
    exact execB_execClass h.2

/-- `C16_total_partial` with its hypotheses replaced by their evaluation on the text at hand -/
theorem C16_total_checked (cfg : Config) (ov : List (String × Num)) (txt : String) (h : stageB cfg ov txt = true) :
    ∀ e, runModel cfg ov txt = .error e → Good16 e :=
  let ⟨hf, hw, hx⟩ := stageB_hyps h
  C16_total_partial cfg ov txt hf hw hx

/-- non-vacuity of `C16_total_partial` / `C16_pos_partial`: the three hypotheses hold for `let n 2; register q[n]; map a q[0:n];
macro m x y { < X x | X y > }; loop 2 { subcircuit n { m a[0] q[1] } }; prepare_all; X a[1]; measure_all` (with an override) … -/
example : stageB cfgX [("n", .int 2)]
    "let n 2\nregister q[n]\nmap a q[0:n]\nmacro m x y { < X x | X y > }\nloop 2 { subcircuit n { m a[0] q[1] } }\nprepare_all; X a[1]; measure_all\n"
    = true := by decide +kernel

/-- … and fail, as they must, for the register-taking gate of the finding below -/
example : stageB cfgRG [] "register q[2]\nprepare_all\nRG q\nmeasure_all\n" = false := by decide +kernel

/-- a program that runs: one subcircuit, visited twice -/
example : (match runModel cfgX [] "register q[2]\nloop 2 { prepare_all; X q[1]; measure_all }\n" with
  | .ok s => s.subcircuits == 1 && s.visits == [0, 0] | _ => false) = true := by decide +kernel

/-- failures of the stages, each `Good16`: a truncated text (`("EOF", 0)`), an illegal character (line 1, column 7), a gate
outside a subcircuit (JaqalError of the executing stage), a pulse module that cannot be found (ImportError) -/
example : (match runModel cfgX [] "register q[2]\nprepare_all; X q[1]; loop 2 {" with
  | .error (.parse none 0) => true | _ => false) = true := by decide +kernel
example : (match runModel cfgX [] "let x $" with
  | .error (.parse (some l) c) => l == 1 && c == 7 | _ => false) = true := by decide +kernel
example : (match runModel cfgX [] "register q[2]\nX q[1]\n" with | .error (.jaqal _) => true | _ => false) = true := by
  decide +kernel
example : (match runModel { cfgX with autoload := true } [] "from nosuch.mod usepulses *\nregister q[2]\n" with
  | .error .importErr => true | _ => false) = true := by decide +kernel

/-- **Finding.** With a gate set in which a gate that has a unitary takes a register, a well-formed program makes the emulator
raise `TypeError` (`Register.resolve_qubit()` is called without its index, `emulator/unitary.py`): the totality statement does
not hold for arbitrary gate sets (hence `EmulableNatives` in `C16_total_full`, and `ExecClassOf` fails for this program). -/
theorem C16_register_gate_typeerror :
    (match runModel cfgRG [] "register q[2]\nprepare_all\nRG q\nmeasure_all\n" with
     | .error (.other "TypeError") => true | _ => false) = true := by decide +kernel

end Jaqal.RunModel

#print axioms Jaqal.RunModel.C16_total_partial
#print axioms Jaqal.RunModel.C16_total_parse
#print axioms Jaqal.RunModel.C16_pos_partial
#print axioms Jaqal.RunModel.C16_pos_parse
#print axioms Jaqal.RunModel.C16_deterministic
#print axioms Jaqal.RunModel.C16_history_perm
#print axioms Jaqal.RunModel.C16_history_interleave
#print axioms Jaqal.RunModel.C16_register_gate_typeerror
#print axioms Jaqal.RunModel.C16_total_checked
#print axioms Jaqal.RunModel.C16_well_formed_op
#print axioms Jaqal.RunModel.C16_no_crash_no_hang
