import JaqalProofs.Props.C05Class
import JaqalProofs.Props.C02
/-!
# C16 — failures are JaqalErrors with a position; no crashes, hangs or sticky state

Model: `RunModel.runModel cfg ov txt` (`JaqalModel/Model/RunModel.lean`) =
`run_jaqal_circuit(parse_jaqal_string(txt, inject_pulses=…, autoload_pulses=…))` up to the floating-point arithmetic.
`Good16 e` = `e` is `Err.jaqal _` (JaqalError), `Err.importErr` (ImportError) or `Err.parse line col` (JaqalParseError);
in particular NOT `Err.other _` (a foreign exception class) and NOT `Err.hang` (`Good16.not_other`).

## What is proved

* **`C16_total_partial`** — for every text, configuration and override list, every failure of `runModel` is `Good16`, GIVEN the
  two named hypotheses below.  Proved without hypotheses, for ALL inputs, and composed here:
  - the parser fails with its own `parseError line col` only (`C02_no_fuel_error` inside `parseText`) and the builder with
    `JaqalError` / `ImportError` only (`C16_parse_build_total`): `parseProgram_class`;
  - every circuit built from text is TYPED (`built_typed`, `Lemmas/BuiltTyped.lean`: every gate argument, count and register
    is a number, a numeric let constant, a parameter, a register sized and sliced by ints or integer constants, or a qubit of
    such a register / of a parameter with an int, integer-constant or parameter index): `parseProgram_typed`;
  - `expand_subcircuits` fails with `JaqalError` only (`C09_total_class`; a built circuit's body is a block: `parseProgram_body`)
    and keeps the circuit typed (`expandSubcircuits_typed`);
  - `fill_in_let` fails with `JaqalError` / `ImportError` only, for every override list (`C05_total_class`, `Props/C05Class.lean`:
    the visitors on a typed circuit, `C05_letSx_class`, and the rebuild, `rebuild_total` — `C16_builder_total` for the shapes the
    visitors write): `fillInClass_all`;
  - `expand_macros` fails with `JaqalError` only on a `WellFormed` circuit (`C04_total_class`);
  - the executing stage on a flat typed circuit (`flatT_execClass`, `Lemmas/RunModelExec.lean`): `DiscoverSubcircuits`' bracket
    errors, the used-qubit walk with its disjointness checks (`checkDisjoint_class`: enough fuel, no foreign class),
    `resolve_qubit` / `resolve_size` on registers sized and sliced by ints (`resolveReg_class`, `resolveQubit_class`),
    `get_n_qubits`, the size limit and the allocation, the emulator's handling of classical / qubit / register arguments
    (`gateToken_class`) fail with `JaqalError` only; `TraceSerializer` does not raise on a discovered trace (`C03_serialize`)
    and yields only gates of the program, so the gate table is never left (`segment_gks`, `skeleton_ids`); the walk of
    `execute()` terminates without raising on every discovered trace list with the static fuel `fuelBound` (`C08_terminates`):
    `execute_class`.
* **`C16_pos_partial`** (same hypotheses; `C16_pos_parse` for the parsing entry point needs none; full statement `C16_pos_full`) —
  a `JaqalParseError` of `runModel` is the parser's, and its position is `("EOF", 0)` or the line and column of a
  token start of the text / of the character the lexer refuses (`C02_error_pos_partial`).
* **`C16_deterministic`**, `C16_history_perm`, `C16_history_interleave` — the model is a function of the text: the outcomes of a
  history of calls are the per-call outcomes, whatever the order and whatever failing calls are interleaved.  (Trivial in Lean;
  the content is that the REAL code agrees with a function — the correspondence `run_model` and the direct oracles
  `no_sticky_state` / `fresh_process_agrees` of `harness/agents/c16_diff.py`.)

## What is NOT proved (named hypotheses of `C16_total_partial`; the full statement is `C16_total_full`)

* `BuiltWellFormed` — the circuit `fill_in_let` returns is `ExpandMacros.WellFormed`.  The gate half is proved for every output of
  `build` (`built_gateShape`, agent c10); the value half (`okVal`, `goodVal`) follows from the typing of `letVal`'s results
  (`letVal_typed`) through `fillInLet_rebuilt`; missing: counts are `isIndexLike` (the builder's `validateCount`, not carried by
  `StmtIn` yet) and `inScope` (a macro body calls earlier macros only — an invariant of the gate table during the build).
* `FlatOf` — the expanded circuit is FLAT and TYPED (`FlatT`, `Lemmas/RunModelExec.lean`, a decidable structural predicate).
  Missing: the typing carried through `substVal` (`expand_macros`), the scoping of macro parameters (every parameter in a macro
  body is one of the macro's own, so none survives the expansion), and that a loop body is a block (true of the grammar, not of
  the looser `ParserSx`).

Each hypothesis is checked on every generated program by the differential test: a violation makes `run_model` answer a class that
is not `JaqalError`, which the real code (oracle `only_jaqalerror_or_importerror`) does not produce; `stageB` below decides both
for a given text (`C16_total_checked`).
-/
namespace Jaqal.RunModel
open Jaqal Jaqal.Builder Jaqal.Parser

/-- `fill_in_let` on the subcircuit-expanded image of what the text builds to fails with `JaqalError` only -/
def FillInClass (cfg : Config) (ov : List (String × Num)) (txt : String) : Prop :=
  ∀ c c1, Pipeline.parseProgram cfg txt = .ok c → ExpandSubcircuits.expandSubcircuits none none c = .ok c1 →
    Cls Good (FillIn.fillInLet ov c1)

/-- what a text builds to is typed (`built_typed`: the builder, any configuration) -/
theorem parseProgram_typed {cfg : Config} {txt : String} {c : Circuit} (h : Pipeline.parseProgram cfg txt = .ok c) :
    FillIn.TypedC c := by
  unfold Pipeline.parseProgram Pipeline.parseSx at h
  cases hp : Parser.parseText txt with
  | error pe => rw [hp] at h; cases h
  | ok sx =>
    rw [hp] at h
    exact parseBuild_typed cfg sx c (parseText_parserSx hp) h

/-- **`FillInClass` holds for every text, configuration and override list** (`C05_total_class`: the visitors on the typed
circuit `built_typed` / `expandSubcircuits_typed` provide, and the rebuild `rebuild_total`) -/
theorem fillInClass_all (cfg : Config) (ov : List (String × Num)) (txt : String) : FillInClass cfg ov txt := by
  intro c c1 hc hc1
  have ht1 := ExpandSubcircuits.expandSubcircuits_typed (parseProgram_typed hc) hc1
  obtain ⟨stmts, _, _, _, _, _, rfl⟩ := ExpandSubcircuits.expand_ok hc1
  exact FillIn.C05_total_class ov _ ht1 ⟨_, _, _, rfl⟩

/-- … and what it returns is well formed in the sense of `expand_macros` -/
def BuiltWellFormed (cfg : Config) (ov : List (String × Num)) (txt : String) : Prop :=
  ∀ c c1 c2, Pipeline.parseProgram cfg txt = .ok c → ExpandSubcircuits.expandSubcircuits none none c = .ok c1 →
    FillIn.fillInLet ov c1 = .ok c2 → ExpandMacros.WellFormed c2 = true

/-- the driver op `well_formed` (which the differential test evaluates on every generated program) decides the conclusion of
`BuiltWellFormed` -/
theorem C16_well_formed_op (c : Circuit) : WF.wellFormed c = true ↔ ExpandMacros.WellFormed c = true := by
  rw [WF.wellFormed_eq]

/-- the expanded circuit is flat and typed -/
def FlatOf (cfg : Config) (ov : List (String × Num)) (txt : String) : Prop :=
  ∀ c x, Pipeline.parseProgram cfg txt = .ok c → expandAll ov c = .ok x → FlatT x = true

/-- the expanded circuit satisfies `ExecClass` (a consequence of `FlatOf`: `flatT_execClass`) -/
def ExecClassOf (cfg : Config) (ov : List (String × Num)) (txt : String) : Prop :=
  ∀ c x, Pipeline.parseProgram cfg txt = .ok c → expandAll ov c = .ok x → ExecClass x

theorem FlatOf.execClassOf {cfg : Config} {ov : List (String × Num)} {txt : String} (h : FlatOf cfg ov txt) :
    ExecClassOf cfg ov txt := fun c x hc hx => flatT_execClass (h c x hc hx)

theorem expandAll_class {cfg : Config} {ov : List (String × Num)} {txt : String} {c : Circuit}
    (hc : Pipeline.parseProgram cfg txt = .ok c) (hf : FillInClass cfg ov txt) (hw : BuiltWellFormed cfg ov txt) :
    Cls Good (expandAll ov c) := by
  unfold expandAll
  obtain ⟨b, hb⟩ := parseProgram_body hc
  refine Cls.bind ?_ (fun c1 hc1 => Cls.bind (hf c c1 hc hc1) (fun c2 hc2 => ?_))
  · intro e he
    obtain ⟨r, rfl⟩ := ExpandSubcircuits.C09_total_class none none c false false (.int 1) b hb e he
    exact Good.jaqal r
  · intro e he
    obtain ⟨r, rfl⟩ := ExpandMacros.C04_total_class false c2 (hw c c1 c2 hc hc1 hc2) e he
    exact Good.jaqal r

/-- **C16 (totality), relative to the two named lemmas.** Whatever the text, the gate set, the autoload switch, the import
function and the override list: the model of `run_jaqal_circuit(parse_jaqal_string(text))` returns a result or fails with
JaqalError, JaqalParseError or ImportError — never with another exception class, never without terminating. -/
theorem C16_total_partial (cfg : Config) (ov : List (String × Num)) (txt : String)
    (hw : BuiltWellFormed cfg ov txt) (hfl : FlatOf cfg ov txt) :
    ∀ e, runModel cfg ov txt = .error e → Good16 e := by
  have hf := fillInClass_all cfg ov txt
  have hx := hfl.execClassOf
  show Cls Good16 (runModel cfg ov txt)
  unfold runModel
  refine Cls.bind (parseProgram_class cfg txt) (fun c hc => ?_)
  unfold runCircuit
  refine Cls.bind ((expandAll_class hc hf hw).mono (fun _ => Good.good16)) (fun x hxx => ?_)
  exact (execute_class x (hx c x hc hxx)).mono (fun _ => Good.good16)

/-- The full statement, NOT proved: `C16_total_partial` without its two hypotheses, for every gate set (since the repair of
the emulator a gate that takes a register is emulated too).  What is missing is listed in the header:
`BuiltWellFormed` and `FlatOf` as consequences of the invariants of `Builder.build` (`ValT`/`RegT`, `StmtKnown`, `NamesValid`,
`ValOK`), carried through `expand_subcircuits`, `fill_in_let` and `expand_macros`. -/
def C16_total_full : Prop :=
  ∀ (cfg : Config) (ov : List (String × Num)) (txt : String) (e : Err), runModel cfg ov txt = .error e → Good16 e

/-- a good error is neither a foreign class nor non-termination -/
theorem C16_no_crash_no_hang {e : Err} (h : Good16 e) : (∀ c, e ≠ .other c) ∧ e ≠ .hang := h.not_other

/-! ### Positions -/

theorem parseText_eof_col {txt : String} {c : Nat} (h : parseText txt = .error (.parseError none c)) : c = 0 := by
  unfold parseText at h
  split at h
  · split at h
    · cases h
    · rename_i e _
      cases e <;> simp [ParseErr.toErr] at h <;> omega
  · split at h
    · simp [lexErrToErr] at h
    · split at h
      · simp [lexErrToErr] at h
      · rename_i e _ _
        cases e <;> simp [ParseErr.toErr] at h <;> omega

/-- **C16 (position).** A syntax error of the pipeline — including input that ends too early — is the parser's error, and it
carries `("EOF", 0)` or the line and column of a place of THIS text where a token starts or where lexing stops. -/
theorem C16_pos_partial (cfg : Config) (ov : List (String × Num)) (txt : String) (l : Option Nat) (c : Nat)
    (h : runModel cfg ov txt = .error (.parse l c)) (hw : BuiltWellFormed cfg ov txt) (hfl : FlatOf cfg ov txt) :
    parseText txt = .error (.parseError l c) ∧
    ((l = none ∧ c = 0) ∨ ∃ l', l = some l' ∧ Jaqal.C02.IsTokenPos txt l' c) := by
  have hx := hfl.execClassOf
  have hf := fillInClass_all cfg ov txt
  have hp : Pipeline.parseProgram cfg txt = .error (.parse l c) := by
    unfold runModel at h
    cases hc : Pipeline.parseProgram cfg txt with
    | error e => rw [hc] at h; cases h; rfl
    | ok c0 =>
      rw [hc] at h
      exfalso
      have h' : runCircuit ov c0 = .error (.parse l c) := h
      unfold runCircuit at h'
      have hcls : Cls Good (expandAll ov c0 >>= execute) :=
        Cls.bind (expandAll_class hc hf hw) (fun x hxx => execute_class x (hx c0 x hc hxx))
      rcases hcls _ h' with ⟨r, hr⟩ | hr <;> cases hr
  have ht := parseProgram_parse_error hp
  refine ⟨ht, ?_⟩
  cases l with
  | none => exact Or.inl ⟨rfl, parseText_eof_col ht⟩
  | some l' => exact Or.inr ⟨l', rfl, Jaqal.C02.C02_error_pos_partial ht⟩

/-- The full statement of the position half, NOT proved: `C16_pos_partial` without its hypotheses.  They are only used to exclude
that a LATER stage answers `Err.parse` (`expand_subcircuits`, `expand_macros` and the executing stage provably do not; for
`fill_in_let` this is `FillInClass`). -/
def C16_pos_full : Prop :=
  ∀ (cfg : Config) (ov : List (String × Num)) (txt : String) (l : Option Nat) (c : Nat),
    runModel cfg ov txt = .error (.parse l c) →
    parseText txt = .error (.parseError l c) ∧ ((l = none ∧ c = 0) ∨ ∃ l', l = some l' ∧ Jaqal.C02.IsTokenPos txt l' c)

/-- the position half needs no hypothesis when stated for the parsing entry point alone -/
theorem C16_pos_parse (cfg : Config) (txt : String) (l : Option Nat) (c : Nat)
    (h : Pipeline.parseProgram cfg txt = .error (.parse l c)) :
    parseText txt = .error (.parseError l c) ∧
    ((l = none ∧ c = 0) ∨ ∃ l', l = some l' ∧ Jaqal.C02.IsTokenPos txt l' c) := by
  have ht := parseProgram_parse_error h
  refine ⟨ht, ?_⟩
  cases l with
  | none => exact Or.inl ⟨rfl, parseText_eof_col ht⟩
  | some l' => exact Or.inr ⟨l', rfl, Jaqal.C02.C02_error_pos_partial ht⟩

/-- `parse_jaqal_string` alone (no pass requested): total for every text and configuration, no hypothesis -/
theorem C16_total_parse (cfg : Config) (txt : String) : ∀ e, Pipeline.parseProgram cfg txt = .error e → Good16 e :=
  parseProgram_class cfg txt

/-! ### No sticky state: the model is a function of the text -/

/-- the outcomes of a history of calls: one per call, each computed from its own text alone -/
def history (cfg : Config) (ov : List (String × Num)) (txts : List String) : List (M RunSummary) :=
  txts.map (runModel cfg ov)

/-- **C16 (determinism).** The outcome of a call in a history is the outcome of that text processed alone. -/
theorem C16_deterministic (cfg : Config) (ov : List (String × Num)) (before after : List String) (txt : String) :
    (history cfg ov (before ++ txt :: after))[before.length]? = some (runModel cfg ov txt) := by
  simp [history]

/-- permuting the calls permutes the outcomes -/
theorem C16_history_perm (cfg : Config) (ov : List (String × Num)) {a b : List String} (h : a.Perm b) :
    (history cfg ov a).Perm (history cfg ov b) := h.map _

/-- interleaving other (e.g. failing) calls changes nothing for the calls of interest: the outcomes of `txts` are a
sublist of the outcomes of any history that contains `txts` as a sublist -/
theorem C16_history_interleave (cfg : Config) (ov : List (String × Num)) {txts all : List String} (h : txts.Sublist all) :
    (history cfg ov txts).Sublist (history cfg ov all) := h.map _

/-! ### Non-vacuity and the finding about register-taking gates -/

def gPrep : GateDef := { name := "prepare_all", tag := .busy, params := [] }
def gMeas : GateDef := { name := "measure_all", tag := .busy, params := [] }
def gX : GateDef := { name := "X", tag := .native, params := [("q", .qubit)], hasUnitary := true }
def gRG : GateDef := { name := "RG", tag := .native, params := [("r", .register)], hasUnitary := true }
def cfgX : Config := { natives := some [gX, gPrep, gMeas] }
def cfgRG : Config := { natives := some [gRG, gPrep, gMeas] }

/-! #### The hypotheses of `C16_total_partial` are decidable for a given text, and hold for concrete programs -/

def isGoodB : Err → Bool
  | .jaqal _ => true
  | .importErr => true
  | _ => false

theorem isGoodB_good {e : Err} (h : isGoodB e = true) : Good e := by
  cases e <;> simp [isGoodB] at h
  · exact Good.jaqal _
  · exact Or.inr rfl

def clsB {α : Type} (m : M α) : Bool :=
  match m with
  | .error e => isGoodB e
  | .ok _ => true

theorem clsB_cls {α : Type} {m : M α} (h : clsB m = true) : Cls Good m := by
  intro e he
  subst he
  exact isGoodB_good h

/-- the two hypotheses (and, redundantly, the class of `fill_in_let`), evaluated on one text -/
def stageB (cfg : Config) (ov : List (String × Num)) (txt : String) : Bool :=
  match Pipeline.parseProgram cfg txt with
  | .error _ => true
  | .ok c =>
    match ExpandSubcircuits.expandSubcircuits none none c with
    | .error _ => true
    | .ok c1 =>
      match FillIn.fillInLet ov c1 with
      | .error e => isGoodB e
      | .ok c2 =>
        ExpandMacros.WellFormed c2 &&
        (match ExpandMacros.expandMacros false c2 with
         | .error _ => true
         | .ok x => FlatT x)

theorem stageB_hyps {cfg : Config} {ov : List (String × Num)} {txt : String} (h : stageB cfg ov txt = true) :
    BuiltWellFormed cfg ov txt ∧ FlatOf cfg ov txt := by
  refine ⟨?_, ?_⟩
  · intro c c1 c2 hc hc1 hc2
    simp only [stageB, hc, hc1, hc2, Bool.and_eq_true] at h
    exact h.1
  · intro c x hc hx
    unfold expandAll at hx
    obtain ⟨c1, hc1, hx⟩ := bind_ok hx
    obtain ⟨c2, hc2, hx⟩ := bind_ok hx
    simp only [stageB, hc, hc1, hc2, hx, Bool.and_eq_true] at h
    exact h.2

/-- `C16_total_partial` with its hypotheses replaced by their evaluation on the text at hand -/
theorem C16_total_checked (cfg : Config) (ov : List (String × Num)) (txt : String) (h : stageB cfg ov txt = true) :
    ∀ e, runModel cfg ov txt = .error e → Good16 e :=
  let ⟨hw, hx⟩ := stageB_hyps h
  C16_total_partial cfg ov txt hw hx

/-- non-vacuity of `C16_total_partial` / `C16_pos_partial`: the hypotheses hold for `let n 2; register q[n]; map a q[0:n];
macro m x y { < X x | X y > }; loop 2 { subcircuit n { m a[0] q[1] } }; prepare_all; X a[1]; measure_all` (with an override) -/
example : stageB cfgX [("n", .int 2)]
    "let n 2\nregister q[n]\nmap a q[0:n]\nmacro m x y { < X x | X y > }\nloop 2 { subcircuit n { m a[0] q[1] } }\nprepare_all; X a[1]; measure_all\n"
    = true := by decide +kernel

/-- a program that runs: one subcircuit, visited twice -/
example : (match runModel cfgX [] "register q[2]\nloop 2 { prepare_all; X q[1]; measure_all }\n" with
  | .ok s => s.subcircuits == 1 && s.visits == [0, 0] | _ => false) = true := by decide +kernel

/-- a gate that takes a whole register is applied to the register's qubits in order (the emulator raised `TypeError` here
until it was repaired today); the hypotheses hold for this program too -/
example : (match runModel cfgRG [] "register q[2]\nprepare_all\nRG q\nmeasure_all\n" with
  | .ok s => s.traces == [["prepare_all", "RG r0,1", "measure_all"]] | _ => false) = true := by decide +kernel
example : stageB cfgRG [] "register q[2]\nprepare_all\nRG q\nmeasure_all\n" = true := by decide +kernel

/-- failures of the stages, each `Good16`: a truncated text (`("EOF", 0)`), an illegal character (line 1, column 7), a gate
outside a subcircuit (JaqalError of the executing stage), a pulse module that cannot be found (ImportError) -/
example : (match runModel cfgX [] "register q[2]\nprepare_all; X q[1]; loop 2 {" with
  | .error (.parse none 0) => true | _ => false) = true := by decide +kernel
example : (match runModel cfgX [] "let x $" with
  | .error (.parse (some l) c) => l == 1 && c == 7 | _ => false) = true := by decide +kernel
example : (match runModel cfgX [] "register q[2]\nX q[1]\n" with | .error (.jaqal _) => true | _ => false) = true := by
  decide +kernel
example : (match runModel { cfgX with autoload := true } [] "from nosuch.mod usepulses *\nregister q[2]\n" with
  | .error .importErr => true | _ => false) = true := by decide +kernel

end Jaqal.RunModel

#print axioms Jaqal.RunModel.C16_total_partial
#print axioms Jaqal.RunModel.C16_total_parse
#print axioms Jaqal.RunModel.C16_pos_partial
#print axioms Jaqal.RunModel.C16_pos_parse
#print axioms Jaqal.RunModel.C16_deterministic
#print axioms Jaqal.RunModel.C16_history_perm
#print axioms Jaqal.RunModel.C16_history_interleave
#print axioms Jaqal.RunModel.C16_total_checked
#print axioms Jaqal.RunModel.C16_well_formed_op
#print axioms Jaqal.RunModel.C16_no_crash_no_hang
