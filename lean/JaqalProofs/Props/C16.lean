import JaqalProofs.Props.C05Class
import JaqalProofs.Lemmas.BuiltWellFormedFull
import JaqalProofs.Lemmas.PreFlat
import JaqalProofs.Props.C02
/-!
# C16 — failures are JaqalErrors with a position; no crashes, hangs or sticky state

Model: `RunModel.runModel cfg ov txt` (`JaqalModel/Model/RunModel.lean`) =
`run_jaqal_circuit(parse_jaqal_string(txt, inject_pulses=…, autoload_pulses=…))` up to the floating-point arithmetic.
`Good16 e` = `e` is `Err.jaqal _` (JaqalError), `Err.importErr` (ImportError) or `Err.parse line col` (JaqalParseError);
in particular NOT `Err.other _` (a foreign exception class) and NOT `Err.hang` (`Good16.not_other`).

## What is proved — everything, without hypotheses

* **`C16_total`** — for every text, configuration (gate set, autoload switch, import function) and override list, every failure
  of `runModel` is `Good16`.  Composition, stage by stage:
  - the parser fails with its own `parseError line col` only (`C02_no_fuel_error` inside `parseText`) and the builder with
    `JaqalError` / `ImportError` only (`C16_parse_build_total`): `parseProgram_class`;
  - every circuit built from text is TYPED (`built_typed`, `Lemmas/BuiltTyped.lean`) and SCOPED (`built_scoped`,
    `Lemmas/BuiltScoped.lean`: no parameter in the body, only its own in a macro body, loop bodies are blocks — from the grammar,
    `parseText_grammarSx`, `Lemmas/GrammarShape.lean`);
  - `expand_subcircuits` fails with `JaqalError` only (`C09_total_class`) and keeps both (`expandSubcircuits_typed`, `spell_scoped`);
  - `fill_in_let` fails with `JaqalError` / `ImportError` only, for every override list (`C05_total_class`, `Props/C05Class.lean`:
    the visitors `C05_letSx_class`, the rebuild `rebuild_total`): `fillInClass_all`;
  - what it returns is `ExpandMacros.WellFormed` (`filled_wellFormed`, `Lemmas/BuiltWellFormedFull.lean`: `built_gateShape`,
    `built_scope`, `filled_typed`), so `expand_macros` fails with `JaqalError` only (`C04_total_class`): `builtWellFormed_all`;
  - what it returns also satisfies `PreC` (`filled_preC`, `Lemmas/PreFlat.lean`: `built_fits` — every statement of a built circuit
    passed its definition's validation and `_validate_count` —, `C14_names_build`, `letVal_parIn`, `C14_sound`), so the expansion
    is FLAT and TYPED (`expand_flat`, `Lemmas/ExpandFlat.lean`: substitution of closed typed arguments, re-validation,
    `_validate_count` on substituted counts): `flatOf_all`;
  - the executing stage on a flat typed circuit (`flatT_execClass`, `Lemmas/RunModelExec.lean`): bracket errors, the used-qubit
    walk with its disjointness checks, `resolve_qubit` / `resolve_size`, `get_n_qubits`, the size limit and the allocation, the
    emulator's handling of classical / qubit / register arguments fail with `JaqalError` only; `TraceSerializer` does not raise on
    a discovered trace (`C03_serialize`) and never leaves the gate table (`segment_gks`, `skeleton_ids`); the walk of `execute()`
    terminates without raising with the static fuel `fuelBound` (`C08_terminates`): `execute_class`.
* **`C16_pos`** — a `JaqalParseError` of `runModel` is the parser's, and its position is `("EOF", 0)` or the line and column of a
  token start of the text / of the character the lexer refuses (`C02_error_pos_partial`).
* **`C16_deterministic`**, `C16_history_perm`, `C16_history_interleave` — the model is a function of the text: the outcomes of a
  history of calls are the per-call outcomes, whatever the order and whatever failing calls are interleaved.  (Trivial in Lean;
  the content is that the REAL code agrees with a function — the correspondence `run_model` and the direct oracles
  `no_sticky_state` / `fresh_process_agrees` of `harness/agents/c16_diff.py`.)

`C16_total_partial` / `C16_pos_partial` / `stageB` / `C16_total_checked` (the versions relative to the hypothesis `FlatOf`, and
its evaluation on one text) are kept: they are how the differential test reads the statement, and the non-vacuity examples use
them.
-/
namespace Jaqal.RunModel
open Jaqal Jaqal.Builder Jaqal.Parser

/-- `fill_in_let` on the subcircuit-expanded image of what the text builds to fails with `JaqalError` only -/
def FillInClass (cfg : Config) (ov : List (String × Num)) (txt : String) : Prop :=
  ∀ c c1, Pipeline.parseProgram cfg txt = .ok c → ExpandSubcircuits.expandSubcircuits none none c = .ok c1 →
    Cls Good (FillIn.fillInLet ov c1)

/-- what a text builds to is typed (`built_typed`: the builder, any configuration) -/
theorem parseProgram_typed {cfg : Config} {txt : String} {c : Circuit} (h : Pipeline.parseProgram cfg txt = .ok c) :
    FillIn.TypedC c := by
  unfold Pipeline.parseProgram Pipeline.parseSx at h
  cases hp : Parser.parseText txt with
  | error pe => rw [hp] at h; cases h
  | ok sx =>
    rw [hp] at h
    exact parseBuild_typed cfg sx c (parseText_parserSx hp) h

/-- **`FillInClass` holds for every text, configuration and override list** (`C05_total_class`: the visitors on the typed
circuit `built_typed` / `expandSubcircuits_typed` provide, and the rebuild `rebuild_total`) -/
theorem fillInClass_all (cfg : Config) (ov : List (String × Num)) (txt : String) : FillInClass cfg ov txt := by
  intro c c1 hc hc1
  have ht1 := ExpandSubcircuits.expandSubcircuits_typed (parseProgram_typed hc) hc1
  obtain ⟨stmts, _, _, _, _, _, rfl⟩ := ExpandSubcircuits.expand_ok hc1
  exact FillIn.C05_total_class ov _ ht1 ⟨_, _, _, rfl⟩

/-- … and what it returns is well formed in the sense of `expand_macros` -/
def BuiltWellFormed (cfg : Config) (ov : List (String × Num)) (txt : String) : Prop :=
  ∀ c c1 c2, Pipeline.parseProgram cfg txt = .ok c → ExpandSubcircuits.expandSubcircuits none none c = .ok c1 →
    FillIn.fillInLet ov c1 = .ok c2 → ExpandMacros.WellFormed c2 = true

/-- **`BuiltWellFormed` holds for every text, configuration and override list** (`filled_wellFormed`,
`Lemmas/BuiltWellFormedFull.lean`: gate shapes and macro scoping of every output of `build`, typing of the visitors' results) -/
theorem builtWellFormed_all (cfg : Config) (ov : List (String × Num)) (txt : String) : BuiltWellFormed cfg ov txt := by
  intro c c1 c2 hc hc1 hc2
  have ht1 := ExpandSubcircuits.expandSubcircuits_typed (parseProgram_typed hc) hc1
  obtain ⟨stmts, _, _, _, _, _, rfl⟩ := ExpandSubcircuits.expand_ok hc1
  exact FillIn.filled_wellFormed ht1 rfl hc2

/-- the driver op `well_formed` (which the differential test evaluates on every generated program) decides the conclusion of
`BuiltWellFormed` -/
theorem C16_well_formed_op (c : Circuit) : WF.wellFormed c = true ↔ ExpandMacros.WellFormed c = true := by
  rw [WF.wellFormed_eq]

/-- the expanded circuit is flat and typed -/
def FlatOf (cfg : Config) (ov : List (String × Num)) (txt : String) : Prop :=
  ∀ c x, Pipeline.parseProgram cfg txt = .ok c → expandAll ov c = .ok x → FlatT x = true

/-- the expanded circuit satisfies `ExecClass` (a consequence of `FlatOf`: `flatT_execClass`) -/
def ExecClassOf (cfg : Config) (ov : List (String × Num)) (txt : String) : Prop :=
  ∀ c x, Pipeline.parseProgram cfg txt = .ok c → expandAll ov c = .ok x → ExecClass x

theorem FlatOf.execClassOf {cfg : Config} {ov : List (String × Num)} {txt : String} (h : FlatOf cfg ov txt) :
    ExecClassOf cfg ov txt := fun c x hc hx => flatT_execClass (h c x hc hx)

theorem expandAll_class {cfg : Config} {ov : List (String × Num)} {txt : String} {c : Circuit}
    (hc : Pipeline.parseProgram cfg txt = .ok c) (hf : FillInClass cfg ov txt) (hw : BuiltWellFormed cfg ov txt) :
    Cls Good (expandAll ov c) := by
  unfold expandAll
  obtain ⟨b, hb⟩ := parseProgram_body hc
  refine Cls.bind ?_ (fun c1 hc1 => Cls.bind (hf c c1 hc hc1) (fun c2 hc2 => ?_))
  · intro e he
    obtain ⟨r, rfl⟩ := ExpandSubcircuits.C09_total_class none none c false false (.int 1) b hb e he
    exact Good.jaqal r
  · intro e he
    obtain ⟨r, rfl⟩ := ExpandMacros.C04_total_class false c2 (hw c c1 c2 hc hc1 hc2) e he
    exact Good.jaqal r

/-- **`FlatOf` holds for every text, configuration and override list** (`filled_preC`, `Lemmas/PreFlat.lean`: the circuit
`fill_in_let` returns satisfies `PreC` — validated gate statements bound to native gates / macros / anonymous definitions,
typed constant-free values with scoped parameters, int-or-parameter loop counts, block loop bodies, positive register sizes;
`expand_flat`, `Lemmas/ExpandFlat.lean`: the expansion of such a circuit is `FlatT`) -/
theorem flatOf_all (cfg : Config) (ov : List (String × Num)) (txt : String) : FlatOf cfg ov txt := by
  intro c x hc hx
  unfold expandAll at hx
  obtain ⟨c1, hc1, hx⟩ := bind_ok hx
  obtain ⟨c2, hc2, hx⟩ := bind_ok hx
  unfold Pipeline.parseProgram Pipeline.parseSx at hc
  cases hp : Parser.parseText txt with
  | error pe => rw [hp] at hc; cases hc
  | ok sx =>
    rw [hp] at hc
    exact expand_flat (filled_preC (parseText_grammarSx hp) (parseText_parserSx hp) hc hc1 hc2) hx

/-- **C16 (totality).** Whatever the text, the gate set, the autoload switch, the import function and the override list: the
model of `run_jaqal_circuit(parse_jaqal_string(text))` returns a result or fails with JaqalError, JaqalParseError or ImportError —
never with another exception class, never without terminating.  No hypothesis. -/
theorem C16_total (cfg : Config) (ov : List (String × Num)) (txt : String) :
    ∀ e, runModel cfg ov txt = .error e → Good16 e := by
  have hf := fillInClass_all cfg ov txt
  have hw := builtWellFormed_all cfg ov txt
  have hx := (flatOf_all cfg ov txt).execClassOf
  show Cls Good16 (runModel cfg ov txt)
  unfold runModel
  refine Cls.bind (parseProgram_class cfg txt) (fun c hc => ?_)
  unfold runCircuit
  refine Cls.bind ((expandAll_class hc hf hw).mono (fun _ => Good.good16)) (fun x hxx => ?_)
  exact (execute_class x (hx c x hc hxx)).mono (fun _ => Good.good16)

/-- **C16 (totality), relative to the one named lemma.** Whatever the text, the gate set, the autoload switch, the import
function and the override list: the model of `run_jaqal_circuit(parse_jaqal_string(text))` returns a result or fails with
JaqalError, JaqalParseError or ImportError — never with another exception class, never without terminating. -/
theorem C16_total_partial (cfg : Config) (ov : List (String × Num)) (txt : String) (hfl : FlatOf cfg ov txt) :
    ∀ e, runModel cfg ov txt = .error e → Good16 e := by
  have hf := fillInClass_all cfg ov txt
  have hw := builtWellFormed_all cfg ov txt
  have hx := hfl.execClassOf
  show Cls Good16 (runModel cfg ov txt)
  unfold runModel
  refine Cls.bind (parseProgram_class cfg txt) (fun c hc => ?_)
  unfold runCircuit
  refine Cls.bind ((expandAll_class hc hf hw).mono (fun _ => Good.good16)) (fun x hxx => ?_)
  exact (execute_class x (hx c x hc hxx)).mono (fun _ => Good.good16)

/-- The full statement, NOT proved: `C16_total_partial` without its hypothesis, for every gate set (since the repair of
the emulator a gate that takes a register is emulated too).  What is missing is listed in the header:
`FlatOf` as a consequence of the invariants of `Builder.build` (`ValT`/`RegT`, `StmtKnown`, `NamesValid`,
`ValOK`), carried through `expand_subcircuits`, `fill_in_let` and `expand_macros`. -/
def C16_total_full : Prop :=
  ∀ (cfg : Config) (ov : List (String × Num)) (txt : String) (e : Err), runModel cfg ov txt = .error e → Good16 e

/-- the full statement holds -/
theorem C16_total_full_holds : C16_total_full := fun cfg ov txt e h => C16_total cfg ov txt e h

/-- a good error is neither a foreign class nor non-termination -/
theorem C16_no_crash_no_hang {e : Err} (h : Good16 e) : (∀ c, e ≠ .other c) ∧ e ≠ .hang := h.not_other

/-! ### Positions -/

theorem parseText_eof_col {txt : String} {c : Nat} (h : parseText txt = .error (.parseError none c)) : c = 0 := by
  unfold parseText at h
  split at h
  · split at h
    · cases h
    · rename_i e _
      cases e <;> simp [ParseErr.toErr] at h <;> omega
  · split at h
    · simp [lexErrToErr] at h
    · split at h
      · simp [lexErrToErr] at h
      · rename_i e _ _
        cases e <;> simp [ParseErr.toErr] at h <;> omega

/-- **C16 (position).** A syntax error of the pipeline — including input that ends too early — is the parser's error, and it
carries `("EOF", 0)` or the line and column of a place of THIS text where a token starts or where lexing stops. -/
theorem C16_pos_partial (cfg : Config) (ov : List (String × Num)) (txt : String) (l : Option Nat) (c : Nat)
    (h : runModel cfg ov txt = .error (.parse l c)) (hfl : FlatOf cfg ov txt) :
    parseText txt = .error (.parseError l c) ∧
    ((l = none ∧ c = 0) ∨ ∃ l', l = some l' ∧ Jaqal.C02.IsTokenPos txt l' c) := by
  have hx := hfl.execClassOf
  have hf := fillInClass_all cfg ov txt
  have hw := builtWellFormed_all cfg ov txt
  have hp : Pipeline.parseProgram cfg txt = .error (.parse l c) := by
    unfold runModel at h
    cases hc : Pipeline.parseProgram cfg txt with
    | error e => rw [hc] at h; cases h; rfl
    | ok c0 =>
      rw [hc] at h
      exfalso
      have h' : runCircuit ov c0 = .error (.parse l c) := h
      unfold runCircuit at h'
      have hcls : Cls Good (expandAll ov c0 >>= execute) :=
        Cls.bind (expandAll_class hc hf hw) (fun x hxx => execute_class x (hx c0 x hc hxx))
      rcases hcls _ h' with ⟨r, hr⟩ | hr <;> cases hr
  have ht := parseProgram_parse_error hp
  refine ⟨ht, ?_⟩
  cases l with
  | none => exact Or.inl ⟨rfl, parseText_eof_col ht⟩
  | some l' => exact Or.inr ⟨l', rfl, Jaqal.C02.C02_error_pos_partial ht⟩

/-- The full statement of the position half, NOT proved: `C16_pos_partial` without its hypotheses.  They are only used to exclude
that a LATER stage answers `Err.parse` (`expand_subcircuits`, `expand_macros` and the executing stage provably do not; for
`fill_in_let` this is `FillInClass`). -/
def C16_pos_full : Prop :=
  ∀ (cfg : Config) (ov : List (String × Num)) (txt : String) (l : Option Nat) (c : Nat),
    runModel cfg ov txt = .error (.parse l c) →
    parseText txt = .error (.parseError l c) ∧ ((l = none ∧ c = 0) ∨ ∃ l', l = some l' ∧ Jaqal.C02.IsTokenPos txt l' c)

/-- **C16 (position), no hypothesis.** -/
theorem C16_pos (cfg : Config) (ov : List (String × Num)) (txt : String) (l : Option Nat) (c : Nat)
    (h : runModel cfg ov txt = .error (.parse l c)) :
    parseText txt = .error (.parseError l c) ∧
    ((l = none ∧ c = 0) ∨ ∃ l', l = some l' ∧ Jaqal.C02.IsTokenPos txt l' c) :=
  C16_pos_partial cfg ov txt l c h (flatOf_all cfg ov txt)

theorem C16_pos_full_holds : C16_pos_full := fun cfg ov txt l c h => C16_pos cfg ov txt l c h

/-- the position half needs no hypothesis when stated for the parsing entry point alone -/
theorem C16_pos_parse (cfg : Config) (txt : String) (l : Option Nat) (c : Nat)
    (h : Pipeline.parseProgram cfg txt = .error (.parse l c)) :
    parseText txt = .error (.parseError l c) ∧
    ((l = none ∧ c = 0) ∨ ∃ l', l = some l' ∧ Jaqal.C02.IsTokenPos txt l' c) := by
  have ht := parseProgram_parse_error h
  refine ⟨ht, ?_⟩
  cases l with
  | none => exact Or.inl ⟨rfl, parseText_eof_col ht⟩
  | some l' => exact Or.inr ⟨l', rfl, Jaqal.C02.C02_error_pos_partial ht⟩

/-- `parse_jaqal_string` alone (no pass requested): total for every text and configuration, no hypothesis -/
theorem C16_total_parse (cfg : Config) (txt : String) : ∀ e, Pipeline.parseProgram cfg txt = .error e → Good16 e :=
  parseProgram_class cfg txt

/-! ### No sticky state: the model is a function of the text -/

/-- the outcomes of a history of calls: one per call, each computed from its own text alone -/
def history (cfg : Config) (ov : List (String × Num)) (txts : List String) : List (M RunSummary) :=
  txts.map (runModel cfg ov)

/-- **C16 (determinism).** The outcome of a call in a history is the outcome of that text processed alone. -/
theorem C16_deterministic (cfg : Config) (ov : List (String × Num)) (before after : List String) (txt : String) :
    (history cfg ov (before ++ txt :: after))[before.length]? = some (runModel cfg ov txt) := by
  simp [history]

/-- permuting the calls permutes the outcomes -/
theorem C16_history_perm (cfg : Config) (ov : List (String × Num)) {a b : List String} (h : a.Perm b) :
    (history cfg ov a).Perm (history cfg ov b) := h.map _

/-- interleaving other (e.g. failing) calls changes nothing for the calls of interest: the outcomes of `txts` are a
sublist of the outcomes of any history that contains `txts` as a sublist -/
theorem C16_history_interleave (cfg : Config) (ov : List (String × Num)) {txts all : List String} (h : txts.Sublist all) :
    (history cfg ov txts).Sublist (history cfg ov all) := h.map _

/-! ### Non-vacuity and the finding about register-taking gates -/

def gPrep : GateDef := { name := "prepare_all", tag := .busy, params := [] }
def gMeas : GateDef := { name := "measure_all", tag := .busy, params := [] }
def gX : GateDef := { name := "X", tag := .native, params := [("q", .qubit)], hasUnitary := true }
def gRG : GateDef := { name := "RG", tag := .native, params := [("r", .register)], hasUnitary := true }
def cfgX : Config := { natives := some [gX, gPrep, gMeas] }
def cfgRG : Config := { natives := some [gRG, gPrep, gMeas] }

/-! #### The hypotheses of `C16_total_partial` are decidable for a given text, and hold for concrete programs -/

def isGoodB : Err → Bool
  | .jaqal _ => true
  | .importErr => true
  | _ => false

theorem isGoodB_good {e : Err} (h : isGoodB e = true) : Good e := by
  cases e <;> simp [isGoodB] at h
  · exact Good.jaqal _
  · exact Or.inr rfl

def clsB {α : Type} (m : M α) : Bool :=
  match m with
  | .error e => isGoodB e
  | .ok _ => true

theorem clsB_cls {α : Type} {m : M α} (h : clsB m = true) : Cls Good m := by
  intro e he
  subst he
  exact isGoodB_good h

/-- the two hypotheses (and, redundantly, the class of `fill_in_let`), evaluated on one text -/
def stageB (cfg : Config) (ov : List (String × Num)) (txt : String) : Bool :=
  match Pipeline.parseProgram cfg txt with
  | .error _ => true
  | .ok c =>
    match ExpandSubcircuits.expandSubcircuits none none c with
    | .error _ => true
    | .ok c1 =>
      match FillIn.fillInLet ov c1 with
      | .error e => isGoodB e
      | .ok c2 =>
        ExpandMacros.WellFormed c2 &&
        (match ExpandMacros.expandMacros false c2 with
         | .error _ => true
         | .ok x => FlatT x)

theorem stageB_hyps {cfg : Config} {ov : List (String × Num)} {txt : String} (h : stageB cfg ov txt = true) :
    FlatOf cfg ov txt := by
  intro c x hc hx
  unfold expandAll at hx
  obtain ⟨c1, hc1, hx⟩ := bind_ok hx
  obtain ⟨c2, hc2, hx⟩ := bind_ok hx
  simp only [stageB, hc, hc1, hc2, hx, Bool.and_eq_true] at h
  exact h.2

/-- `C16_total_partial` with its hypotheses replaced by their evaluation on the text at hand -/
theorem C16_total_checked (cfg : Config) (ov : List (String × Num)) (txt : String) (h : stageB cfg ov txt = true) :
    ∀ e, runModel cfg ov txt = .error e → Good16 e :=
  C16_total_partial cfg ov txt (stageB_hyps h)

/-- non-vacuity of `C16_total_partial` / `C16_pos_partial`: the hypotheses hold for `let n 2; register q[n]; map a q[0:n];
macro m x y { < X x | X y > }; loop 2 { subcircuit n { m a[0] q[1] } }; prepare_all; X a[1]; measure_all` (with an override) -/
example : stageB cfgX [("n", .int 2)]
    "let n 2\nregister q[n]\nmap a q[0:n]\nmacro m x y { < X x | X y > }\nloop 2 { subcircuit n { m a[0] q[1] } }\nprepare_all; X a[1]; measure_all\n"
    = true := by decide +kernel

/-- a program that runs: one subcircuit, visited twice -/
example : (match runModel cfgX [] "register q[2]\nloop 2 { prepare_all; X q[1]; measure_all }\n" with
  | .ok s => s.subcircuits == 1 && s.visits == [0, 0] | _ => false) = true := by decide +kernel

/-- a gate that takes a whole register is applied to the register's qubits in order (the emulator raised `TypeError` here
until it was repaired today); the hypotheses hold for this program too -/
example : (match runModel cfgRG [] "register q[2]\nprepare_all\nRG q\nmeasure_all\n" with
  | .ok s => s.traces == [["prepare_all", "RG r0,1", "measure_all"]] | _ => false) = true := by decide +kernel
example : stageB cfgRG [] "register q[2]\nprepare_all\nRG q\nmeasure_all\n" = true := by decide +kernel

/-- failures of the stages, each `Good16`: a truncated text (`("EOF", 0)`), an illegal character (line 1, column 7), a gate
outside a subcircuit (JaqalError of the executing stage), a pulse module that cannot be found (ImportError) -/
example : (match runModel cfgX [] "register q[2]\nprepare_all; X q[1]; loop 2 {" with
  | .error (.parse none 0) => true | _ => false) = true := by decide +kernel
example : (match runModel cfgX [] "let x $" with
  | .error (.parse (some l) c) => l == 1 && c == 7 | _ => false) = true := by decide +kernel
example : (match runModel cfgX [] "register q[2]\nX q[1]\n" with | .error (.jaqal _) => true | _ => false) = true := by
  decide +kernel
example : (match runModel { cfgX with autoload := true } [] "from nosuch.mod usepulses *\nregister q[2]\n" with
  | .error .importErr => true | _ => false) = true := by decide +kernel

end Jaqal.RunModel

#print axioms Jaqal.RunModel.C16_total_partial
#print axioms Jaqal.RunModel.C16_total_parse
#print axioms Jaqal.RunModel.C16_pos_partial
#print axioms Jaqal.RunModel.C16_pos_parse
#print axioms Jaqal.RunModel.C16_deterministic
#print axioms Jaqal.RunModel.C16_history_perm
#print axioms Jaqal.RunModel.C16_history_interleave
#print axioms Jaqal.RunModel.C16_total_checked
#print axioms Jaqal.RunModel.C16_well_formed_op
#print axioms Jaqal.RunModel.C16_no_crash_no_hang
#print axioms Jaqal.RunModel.C16_total
#print axioms Jaqal.RunModel.flatOf_all
#print axioms Jaqal.RunModel.C16_pos
