import JaqalProofs.Lemmas.ExpandMacrosClass
/-!
# C04 — macro expansion preserves meaning

Model: `Jaqal.ExpandMacros.expandMacros` (`JaqalModel/Model/ExpandMacros.lean`); specification of meaning:
`Jaqal.Sem.meaning` (`JaqalModel/Spec/Sem.lean`).

* `C04_meaning`    for a well-formed circuit, whenever the expansion succeeds and the original has a meaning under the
                   override environment `ρ`, the expanded circuit has THE SAME meaning (any number of macros, any nesting
                   of calls among earlier macros, any use of the parameters: qubit, number, index, array, loop count,
                   subcircuit count, passed on; any block context);
* `C04_no_calls`   the result contains no statement that names a macro of the circuit (unconditional);
* `C04_header`     constants, registers, native gates, pulse imports are copied; macros are kept iff `preserve`;
* `C04_shape`      outside the macro bodies the pass only rewrites call statements and splices: a circuit in spliced
                   normal form without calls is returned unchanged (loop counts, block kinds, subcircuit flags and
                   iteration counts included); in general the result is in spliced normal form; the structure that
                   comes out of macro bodies is covered by `C04_meaning` (the meaning tree carries kinds, flags, counts);
* `C04_arity`      a call with the wrong number of arguments (outside the macro bodies) is never accepted, and the
                   call itself raises `JaqalError`;
* `C04_idempotent` expanding the result again returns it unchanged.

`WellFormed` is what `CircuitBuilder` guarantees (`Lemmas/ExpandMacrosSem.lean`): every gate statement is named after
its definition and binds exactly the definition's parameters in order (distinct names); a statement naming a macro of
the circuit carries that macro's parameter list; values are builder-made (`okVal`: a parameter, an indexed qubit whose
array / index is a parameter or parameter-free, or a parameter-free value); each macro body names only macros defined
BEFORE it (or no macro); the body is an ordinary sequential top-level block.
-/
namespace Jaqal.ExpandMacros
open Jaqal Jaqal.Sem

/-- unfolding of the pass when it succeeds -/
theorem expand_ok {p : Bool} {c c' : Circuit} (h : expandMacros p c = .ok c') :
    ∃ body stmts, expStmt (replaceGate c.macros c.macros.length) c.body = .ok body ∧ statementsOf body = .ok stmts ∧
      c' = { usepulses := c.usepulses, constants := c.constants, registers := c.registers,
             macros := if p then c.macros else [], natives := c.natives, body := .block false false (.int 1) stmts } := by
  unfold expandMacros at h
  simp only [bind, Except.bind] at h
  cases hb : expStmt (replaceGate c.macros c.macros.length) c.body with
  | error e => rw [hb] at h; cases h
  | ok body =>
    rw [hb] at h; simp only at h
    cases hs : statementsOf body with
    | error e => rw [hs] at h; cases h
    | ok stmts =>
      rw [hs] at h; simp only [pure, Except.pure, Except.ok.injEq] at h
      exact ⟨body, stmts, rfl, hs, h.symm⟩

theorem neq1_false_evalInt {ρ : Env} {b : Bind} {it : Val} (h : neq1 it = false) : evalInt ρ b it = .ok 1 := by
  unfold neq1 at h
  split at h
  · simp [evalInt, evalNum, bind, Except.bind, pure, Except.pure]
  · next d =>
    simp only [Bool.not_eq_eq_eq_not, Bool.not_false, beq_iff_eq] at h
    subst h
    simp [evalInt, evalNum, bind, Except.bind, pure, Except.pure, Dec.isIntegral, Dec.toInt]
  · cases h

/-- **C04_meaning.** -/
theorem C04_meaning (ρ : Env) (p : Bool) (c c' : Circuit) (s : Sem) (hwf : WellFormed c = true)
    (h : expandMacros p c = .ok c') (hm : meaning ρ c = .ok s) : meaning ρ c' = .ok s := by
  obtain ⟨body, stmts, hb, hs, rfl⟩ := expand_ok h
  simp only [WellFormed, Bool.and_eq_true] at hwf
  obtain ⟨⟨⟨⟨hwm, hwb⟩, hshape⟩, _⟩, _⟩ := hwf
  -- the body is an ordinary sequential block
  cases hcb : c.body with
  | gate n gd a => rw [hcb] at hshape; cases hshape
  | loop n b => rw [hcb] at hshape; cases hshape
  | block par sub it b0 =>
    rw [hcb] at hshape hb
    cases par <;> cases sub <;> try (cases hshape; done)
    -- the meaning of the original
    unfold meaning at hm ⊢
    simp only [bind, Except.bind] at hm ⊢
    cases hx : evalStmt ρ (denoteMacros ρ c.macros) [] c.body with
    | error e => rw [hx] at hm; cases hm
    | ok x =>
      rw [hx] at hm; simp only [pure, Except.pure, Except.ok.injEq] at hm; subst hm
      -- the macro table of the result
      have hmd' : ∀ n, findMacro c.macros n = none → lookup (denoteMacros ρ (if p then c.macros else [])) n = none := by
        intro n hn
        cases p with
        | true => exact findMacro_none_lookup ρ c.macros n hn
        | false => rfl
      have hcall := replaceGate_callOK ρ c.macros _ hmd' hwm c.macros.length
      rw [hcb] at hx hwb
      have key := (expStmt_sem ρ c.macros _ hmd' _ hcall [] _ body x hwb hb hx).1
      -- shape of the expanded body
      simp only [expStmt, bind, Except.bind] at hb
      cases hl : expList (replaceGate c.macros c.macros.length) false b0 with
      | error e => rw [hl] at hb; cases hb
      | ok l =>
        rw [hl] at hb; simp only at hb
        have hit : neq1 it = false := by
          unfold mkBlock at hb
          split at hb
          · cases hb
          · next hc => simpa using hc
        have := mkBlock_ok hb; subst this
        simp only [statementsOf, pure, Except.pure, Except.ok.injEq] at hs; subst hs
        -- evaluate both
        simp only [evalStmt, bind, Except.bind, neq1_false_evalInt hit] at hx key
        cases hxs : evalStmts ρ (denoteMacros ρ c.macros) [] b0 with
        | error e => rw [hxs] at hx; cases hx
        | ok xs =>
          rw [hxs] at hx; simp only [pure, Except.pure, Except.ok.injEq] at hx; subst hx
          cases hys : evalStmts ρ (denoteMacros ρ (if p then c.macros else [])) [] l with
          | error e => rw [hys] at key; cases key
          | ok ys =>
            rw [hys] at key; simp only [pure, Except.pure, Except.ok.injEq] at key
            have hn := norm_spl (.blk false false 1 xs)
            rw [← key] at hn
            simp only [evalStmt, evalInt, evalNum, hys, bind, Except.bind, pure, Except.pure]
            rw [hn]

/-- **C04_no_calls.** No gate statement of the result names a macro of the circuit. -/
theorem C04_no_calls (p : Bool) (c c' : Circuit) (h : expandMacros p c = .ok c') : noCalls c.macros c'.body = true := by
  obtain ⟨body, stmts, hb, hs, rfl⟩ := expand_ok h
  have hg := (expStmt_good c.macros _ (replaceGate_good c.macros c.macros.length) c.body body hb).1
  have peel : ∀ (t : Stmt) (l : List Stmt), noCalls c.macros t = true → iterStmts t = .ok l → noCallsList c.macros l = true := by
    intro t
    induction t using Stmt.rec (motive_2 := fun _ => True) with
    | gate n gd a => intro l _ h; simp [iterStmts] at h
    | block par sub it body _ => intro l h1 h; simp only [iterStmts, pure, Except.pure, Except.ok.injEq] at h; subst h; simpa [noCalls] using h1
    | loop n b ih => intro l h1 h; exact ih l (by simpa [noCalls] using h1) (by simpa [iterStmts] using h)
    | nil => trivial
    | cons _ _ _ _ => trivial
  simp only [noCalls]
  cases body with
  | gate n gd a => simp [statementsOf] at hs
  | block par sub it b => simp only [statementsOf, pure, Except.pure, Except.ok.injEq] at hs; subst hs; simpa [noCalls] using hg
  | loop n b => exact peel b stmts (by simpa [noCalls] using hg) (by simpa [statementsOf] using hs)

/-- **C04_header.** -/
theorem C04_header (p : Bool) (c c' : Circuit) (h : expandMacros p c = .ok c') :
    c'.constants = c.constants ∧ c'.registers = c.registers ∧ c'.natives = c.natives ∧ c'.usepulses = c.usepulses ∧
    c'.macros = (if p then c.macros else []) ∧ ∃ stmts, c'.body = .block false false (.int 1) stmts := by
  obtain ⟨body, stmts, hb, hs, rfl⟩ := expand_ok h
  exact ⟨rfl, rfl, rfl, rfl, rfl, stmts, rfl⟩

/-- **C04_arity.** A call (outside the macro bodies) of a macro of the circuit with the wrong number of arguments:
the circuit is never accepted … -/
theorem C04_arity (p : Bool) (c : Circuit) (hbad : hasBadCall c.macros c.body = true) : ∃ e, expandMacros p c = .error e := by
  cases h : expandMacros p c with
  | error e => exact ⟨e, rfl⟩
  | ok c' =>
    obtain ⟨body, stmts, hb, _, _⟩ := expand_ok h
    have := expStmt_noBadCall c.macros _ c.body body hb
    rw [this] at hbad; cases hbad

/-- … and the call itself raises `JaqalError` (the class of the circuit's error is `JaqalError` unless a statement
expanded EARLIER fails first with an error of its own: an ill-typed call — a qubit used as an index, a number used as an
array — escapes as `TypeError`). -/
theorem C04_arity_call (ms : List Macro) (fuel : Nat) (n : String) (gd : GateDef) (a : List (String × Val)) (m : Macro)
    (hf : findMacro ms n = some m) (hlen : a.length ≠ m.params.length) :
    replaceGate ms fuel (.gate n gd a) = .error (.jaqal "wrong-argument-count") := by
  cases fuel <;> simp [replaceGate, hf, hlen]

/-- … so a circuit whose FIRST statement is such a call is rejected with `JaqalError` -/
theorem C04_arity_first (p : Bool) (c : Circuit) (it : Val) (n : String) (gd : GateDef) (a : List (String × Val)) (rest : List Stmt)
    (m : Macro) (hb : c.body = .block false false it (.gate n gd a :: rest))
    (hf : findMacro c.macros n = some m) (hlen : a.length ≠ m.params.length) :
    expandMacros p c = .error (.jaqal "wrong-argument-count") := by
  unfold expandMacros
  simp [hb, expStmt, expList, C04_arity_call c.macros _ n gd a m hf hlen, bind, Except.bind]

/-- **C04_shape** (the part outside the macro bodies; see the header). The expanded body is in spliced normal form,
and a body that already is in that form and contains no calls is returned as it is. -/
theorem C04_shape (p : Bool) (c c' : Circuit) (it : Val) (b : List Stmt) (hb : c.body = .block false false it b)
    (h : expandMacros p c = .ok c') :
    nf c'.body = true ∧ (noCalls c.macros c.body = true → nf c.body = true → c'.body = .block false false (.int 1) b) := by
  obtain ⟨body, stmts, hexp, hs, rfl⟩ := expand_ok h
  have hg := (expStmt_good c.macros _ (replaceGate_good c.macros c.macros.length) c.body body hexp).2
  rw [hb] at hexp
  simp only [expStmt, bind, Except.bind] at hexp
  cases hl : expList (replaceGate c.macros c.macros.length) false b with
  | error e => rw [hl] at hexp; cases hexp
  | ok l =>
    rw [hl] at hexp; simp only at hexp
    have := mkBlock_ok hexp; subst this
    simp only [statementsOf, pure, Except.pure, Except.ok.injEq] at hs; subst hs
    constructor
    · simp only [nf, Bool.and_eq_true] at hg ⊢
      exact ⟨by simp [neq1, badCount], hg.2⟩
    · intro hn hf
      rw [hb] at hn hf
      simp only [nf, Bool.and_eq_true] at hf
      rw [expList_fixed c.macros _ false b (by simpa [noCalls] using hn) hf.2] at hl
      simp only [Except.ok.injEq] at hl; rw [hl]

/-- **C04_idempotent.** -/
theorem C04_idempotent (p : Bool) (c c' : Circuit) (sub : Bool) (it : Val) (b : List Stmt) (hb : c.body = .block false sub it b)
    (h : expandMacros p c = .ok c') : expandMacros p c' = .ok c' := by
  have hnc := C04_no_calls p c c' h
  obtain ⟨body, stmts, hexp, hs, rfl⟩ := expand_ok h
  have hg := (expStmt_good c.macros _ (replaceGate_good c.macros c.macros.length) c.body body hexp).2
  rw [hb] at hexp
  simp only [expStmt, bind, Except.bind] at hexp
  cases hl : expList (replaceGate c.macros c.macros.length) false b with
  | error e => rw [hl] at hexp; cases hexp
  | ok l =>
    rw [hl] at hexp; simp only at hexp
    have := mkBlock_ok hexp; subst this
    simp only [statementsOf, pure, Except.pure, Except.ok.injEq] at hs; subst hs
    simp only [nf, Bool.and_eq_true] at hg
    have hnf : nf (.block false false (.int 1) l) = true := by simp [nf, neq1, badCount, hg.2]
    have hnc' : noCalls (if p then c.macros else []) (.block false false (.int 1) l) = true := by
      cases p with
      | true => exact hnc
      | false => exact noCalls_nil _
    unfold expandMacros
    simp only [expStmt_fixed _ _ _ hnc' hnf, bind, Except.bind, statementsOf, pure, Except.pure]
    cases p <;> rfl

theorem WellFormed_body_block {c : Circuit} (hwf : WellFormed c = true) : ∃ it b, c.body = .block false false it b := by
  simp only [WellFormed, Bool.and_eq_true] at hwf
  obtain ⟨⟨⟨_, hshape⟩, _⟩, _⟩ := hwf
  cases hcb : c.body with
  | gate n gd a => rw [hcb] at hshape; cases hshape
  | loop n b => rw [hcb] at hshape; cases hshape
  | block par sub it b0 =>
    rw [hcb] at hshape
    cases par <;> cases sub <;> first | exact ⟨it, b0, rfl⟩ | cases hshape

/-- **C04_total_class.** On a well-formed circuit every rejection is a `JaqalError`: no `TypeError`, `AttributeError`
or `KeyError` escapes from the substitution, the re-indexing of qubits or the re-validation of gate statements, and —
the macro table being acyclic — the recursion through nested calls ends (no `RecursionError`). -/
theorem C04_total_class (p : Bool) (c : Circuit) (hwf : WellFormed c = true) :
    ∀ err, expandMacros p c = .error err → ∃ r, err = .jaqal r := by
  obtain ⟨it, b0, hcb⟩ := WellFormed_body_block hwf
  simp only [WellFormed, Bool.and_eq_true, List.all_eq_true] at hwf
  obtain ⟨⟨⟨⟨hwm, _⟩, _⟩, hTb⟩, hTm⟩ := hwf
  have hcall := replaceGate_class c.macros hwm hTm c.macros.length c.macros.length (Nat.le_refl _)
  rw [List.take_length] at hcall
  have hexp := expStmt_class _ _ _ hcall c.body hTb (inScope_all _ _)
  have h : JaqalOnly (expandMacros p c) := by
    unfold expandMacros
    apply JaqalOnly.bind hexp
    intro body hbody
    rw [hcb] at hbody
    simp only [expStmt, bind, Except.bind] at hbody
    cases hl : expList (replaceGate c.macros c.macros.length) false b0 with
    | error e => rw [hl] at hbody; cases hbody
    | ok l =>
      rw [hl] at hbody; simp only at hbody
      have := mkBlock_ok hbody; subst this
      simp only [statementsOf]
      exact JaqalOnly.bind (JaqalOnly.pure _) (fun _ _ => JaqalOnly.pure _)
  exact h

/-! ## Non-vacuity -/

def exX : GateDef := { name := "X", tag := .native, params := [("q", .qubit)], hasUnitary := true }
def exP : GateDef := { name := "P", tag := .native, params := [("q", .qubit), ("k", .int)], hasUnitary := true }
def exR : Val := .regF "r" (.int 3)
def exN : Val := .const "n" (.int 2)
def exFdef : GateDef := { name := "F", tag := DefTag.macro, params := [("x", .none), ("i", .none)] }
def exGdef : GateDef := { name := "G", tag := DefTag.macro, params := [("a", .none), ("k", .none)] }
/-- `macro F x i { X x; loop i { P r[i] i }; subcircuit i { X x } }` -/
def exF : Macro :=
  { name := "F", params := [("x", .none), ("i", .none)],
    body := .block false false (.int 1)
      [.gate "X" exX [("q", .param "x" .none)],
       .loop (.param "i" .none) (.block false false (.int 1)
         [.gate "P" exP [("q", .qubit "r[i]" exR (.param "i" .none)), ("k", .param "i" .none)]]),
       .block false true (.param "i" .none) [.gate "X" exX [("q", .param "x" .none)]]] }
/-- `macro G a k { < F a[k] n | X a[0] > }` : a macro calling a macro, a parameter used as an array and as an index -/
def exG : Macro :=
  { name := "G", params := [("a", .none), ("k", .none)],
    body := .block false false (.int 1)
      [.block true false (.int 1)
        [.gate "F" exFdef [("x", .qubit "a[k]" (.param "a" .none) (.param "k" .none)), ("i", exN)],
         .gate "X" exX [("q", .qubit "a[0]" (.param "a" .none) (.int 0))]]] }
/-- `let n 2; register r[3]; …; F r[0] 1; loop 2 { G r 1 }` -/
def exCircuit : Circuit :=
  { constants := [exN], registers := [exR], macros := [exF, exG], natives := [exX, exP],
    body := .block false false (.int 1)
      [.gate "F" exFdef [("x", .qubit "r[0]" exR (.int 0)), ("i", .int 1)],
       .loop (.int 2) (.block false false (.int 1) [.gate "G" exGdef [("a", exR), ("k", .int 1)]])] }

/-- the example is well formed, expands, and has a meaning (also under an override of `n`): the hypotheses of
`C04_meaning` are satisfiable by a circuit with nested calls, parameters used as qubit / index / count / array -/
example : WellFormed exCircuit = true := by decide
example : ∃ c', expandMacros false exCircuit = .ok c' := ⟨_, rfl⟩
example : ∃ s, meaning [("n", .int 1)] exCircuit = .ok s := ⟨_, rfl⟩

/-- a call with one argument too few, as first statement -/
example : expandMacros false { exCircuit with body := .block false false (.int 1) [.gate "F" exFdef [("x", .int 1)]] }
    = .error (.jaqal "wrong-argument-count") :=
  C04_arity_first _ _ (.int 1) "F" exFdef [("x", .int 1)] [] exF rfl rfl (by decide)

/-- `F r[0] 7`: well formed, and rejected (the substituted index `r[7]` is out of range) — with a `JaqalError`,
as `C04_total_class` says -/
def exBad : Circuit :=
  { exCircuit with body := .block false false (.int 1) [.gate "F" exFdef [("x", .qubit "r[0]" exR (.int 0)), ("i", .int 7)]] }

example : WellFormed exBad = true ∧ ∃ r, expandMacros false exBad = .error (.jaqal r) := ⟨by decide, _, rfl⟩

/-- the hypothesis matters: a (hand-built) macro that calls itself is not well formed, and the expansion does not end -/
def exCyclic : Circuit :=
  { macros := [Macro.mk "A" [] (.block false false (.int 1) [.gate "A" (GateDef.mk "A" DefTag.macro [] false) []])],
    body := .block false false (.int 1) [.gate "A" (GateDef.mk "A" DefTag.macro [] false) []] }

example : WellFormed exCyclic = false ∧ expandMacros false exCyclic = .error (.other "RecursionError") := ⟨by decide, rfl⟩

end Jaqal.ExpandMacros

#print axioms Jaqal.ExpandMacros.C04_meaning
#print axioms Jaqal.ExpandMacros.C04_no_calls
#print axioms Jaqal.ExpandMacros.C04_header
#print axioms Jaqal.ExpandMacros.C04_arity
#print axioms Jaqal.ExpandMacros.C04_arity_call
#print axioms Jaqal.ExpandMacros.C04_arity_first
#print axioms Jaqal.ExpandMacros.C04_shape
#print axioms Jaqal.ExpandMacros.C04_idempotent
#print axioms Jaqal.ExpandMacros.C04_total_class
