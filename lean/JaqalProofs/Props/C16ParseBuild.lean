import JaqalProofs.Props.C16Builder
import JaqalProofs.Props.C02
/-!
# C16 — parser and builder composed: whatever text is given, `parse_jaqal_string` (no pass requested) fails, if it
fails, with a `JaqalParseError` (from the parser) or a `JaqalError` / `ImportError` (from the builder)

* `derives_parserSx`: every statement tree of the declarative grammar (`Spec/Grammar.lean`, `Derives ts sx`) has the
  shape `ParserSx` on which `C16_builder_total` is proved. With the parser's soundness theorem `C02_sound`
  (`parse ts = .ok sx → Derives …`) this gives `parseText_parserSx`.
* **`C16_parse_build_total`**: `parseText txt = .ok sx → parseBuild cfg sx = .error err → Good err` — no `.other`
  class (TypeError, ValueError, …, nor a model-domain answer) and no `.hang`. (`parseText` itself only fails with its own
  `parseError line col`.)
-/
namespace Jaqal.Builder
open Jaqal Jaqal.Lexer Jaqal.Parser Jaqal.Grammar

theorem ofSxList_map_str (ps : List String) : BSx.ofSxList (ps.map Sx.str) = ps.map BSx.str := by
  induction ps with
  | nil => rfl
  | cons p ps ih => simp [BSx.ofSxList, BSx.ofSx, ih]

theorem ofSxList_append (a b : List Sx) : BSx.ofSxList (a ++ b) = BSx.ofSxList a ++ BSx.ofSxList b := by
  induction a with
  | nil => rfl
  | cons x xs ih => simp [BSx.ofSxList, ih]

theorem letOrInt_shape {t : Tok} {x : Sx} (h : LetOrInt t x) : isIntOrId (BSx.ofSx x) = true := by
  cases h <;> rfl

theorem gateArg_shape {ts : List Tok} {x : Sx} (h : GateArg ts x) : isGateArg (BSx.ofSx x) = true := by
  cases h <;> rfl

theorem gateArgs_shape {ts : List Tok} {xs : List Sx} (h : GateArgs ts xs) :
    (BSx.ofSxList xs).all isGateArg = true := by
  induction h with
  | nil => rfl
  | cons ha _ ih => simp only [BSx.ofSxList, List.all_cons, gateArg_shape ha, ih, Bool.and_self]

theorem gate_shape {ts : List Tok} {x : Sx} (h : Gate ts x) : isPStmt (BSx.ofSx x) = true := by
  cases h with
  | mk g has =>
    simp only [BSx.ofSx, BSx.ofSxList]
    unfold isPStmt
    simp only [if_true]
    exact gateArgs_shape has

/-- what each phrase of the block grammar yields -/
def BlockP : Ph → Sx → Prop
  | .seqStmts, x => ∃ xs, x = .list xs ∧ isPStmts (BSx.ofSxList xs) = true
  | .parStmts, x => ∃ xs, x = .list xs ∧ isPStmts (BSx.ofSxList xs) = true
  | _, x => isPStmt (BSx.ofSx x) = true

theorem isPStmt_seq {l : List BSx} (h : isPStmts l = true) : isPStmt (.list (.str "sequential_block" :: l)) = true := by
  unfold isPStmt
  simp only [show ("sequential_block" = "gate") = False from by decide,
    show ("sequential_block" = "loop") = False from by decide, if_false, true_or, if_true]
  exact h

theorem isPStmt_par {l : List BSx} (h : isPStmts l = true) : isPStmt (.list (.str "parallel_block" :: l)) = true := by
  unfold isPStmt
  simp only [show ("parallel_block" = "gate") = False from by decide,
    show ("parallel_block" = "loop") = False from by decide, if_false, or_true, if_true]
  exact h

theorem isPStmt_sub {c : BSx} {l : List BSx} (hc : isIntOrId c = true) (h : isPStmts l = true) :
    isPStmt (.list (.str "subcircuit_block" :: c :: l)) = true := by
  unfold isPStmt
  simp only [show ("subcircuit_block" = "gate") = False from by decide,
    show ("subcircuit_block" = "loop") = False from by decide,
    show ("subcircuit_block" = "sequential_block" ∨ "subcircuit_block" = "parallel_block") = False from by decide,
    if_false, if_true, hc, h, Bool.and_self]

theorem isPStmt_loop {c b : BSx} (hc : isIntOrId c = true) (h : isPStmt b = true) :
    isPStmt (.list [.str "loop", c, b]) = true := by
  unfold isPStmt
  simp only [show ("loop" = "gate") = False from by decide, if_false, if_true, hc, h, Bool.and_self]

theorem block_shape {ph : Ph} {ts : List Tok} {x : Sx} (h : Block ph ts x) : BlockP ph x := by
  induction h with
  | seqBlock _ _ ih =>
    obtain ⟨xs', hx, hs⟩ := ih
    cases hx
    simp only [BlockP, BSx.ofSx, BSx.ofSxList]
    exact isPStmt_seq hs
  | parBlock _ _ ih =>
    obtain ⟨xs', hx, hs⟩ := ih
    cases hx
    simp only [BlockP, BSx.ofSx, BSx.ofSxList]
    exact isPStmt_par hs
  | gateBlockSeq _ ih => exact ih
  | gateBlockPar _ ih => exact ih
  | seqGate hg => exact gate_shape hg
  | seqPar _ ih => exact ih
  | seqLoop hc _ ih =>
    simp only [BlockP, BSx.ofSx, BSx.ofSxList]
    exact isPStmt_loop (letOrInt_shape hc) ih
  | seqSub _ _ ih =>
    obtain ⟨xs', hx, hs⟩ := ih
    cases hx
    simp only [BlockP, BSx.ofSx, BSx.ofSxList]
    exact isPStmt_sub rfl hs
  | seqSubN hc _ _ ih =>
    obtain ⟨xs', hx, hs⟩ := ih
    cases hx
    simp only [BlockP, BSx.ofSx, BSx.ofSxList]
    exact isPStmt_sub (letOrInt_shape hc) hs
  | parGate hg => exact gate_shape hg
  | parSeq _ ih => exact ih
  | seqNil => exact ⟨[], rfl, rfl⟩
  | seqOne _ ih => exact ⟨_, rfl, by simp only [BSx.ofSxList, isPStmts, Bool.and_true]; exact ih⟩
  | seqCons _ _ _ ih1 ih2 =>
    obtain ⟨xs', hx, hs⟩ := ih2
    cases hx
    exact ⟨_, rfl, by simp only [BSx.ofSxList, isPStmts, Bool.and_eq_true]; exact ⟨ih1, hs⟩⟩
  | parNil => exact ⟨[], rfl, rfl⟩
  | parOne _ ih => exact ⟨_, rfl, by simp only [BSx.ofSxList, isPStmts, Bool.and_true]; exact ih⟩
  | parCons _ _ _ ih1 ih2 =>
    obtain ⟨xs', hx, hs⟩ := ih2
    cases hx
    exact ⟨_, rfl, by simp only [BSx.ofSxList, isPStmts, Bool.and_eq_true]; exact ⟨ih1, hs⟩⟩

theorem optLetOrInt_shape {ts : List Tok} {x : Sx} (h : OptLetOrInt ts x) : isBound (BSx.ofSx x) = true := by
  cases h with
  | none => rfl
  | some hl => cases hl <;> rfl

theorem optStep_shape {ts : List Tok} {x : Sx} (h : OptStep ts x) : isBound (BSx.ofSx x) = true := by
  cases h with
  | none => rfl
  | some hl => cases hl <;> rfl

theorem header_shape {ts : List Tok} {x : Sx} (h : Header ts x) : isPHeader (BSx.ofSx x) = true := by
  cases h with
  | register n hl _ => simp [isPHeader, isPHeaderV, BSx.ofSx, BSx.ofSxList, letOrInt_shape hl]
  | letInt n v => rfl
  | letNumber n d => rfl
  | mapWhole n src => rfl
  | mapIndex n src hl => simp [isPHeader, isPHeaderV, BSx.ofSx, BSx.ofSxList, letOrInt_shape hl]
  | mapSlice n src ha hb hc =>
    simp [isPHeader, isPHeaderV, BSx.ofSx, BSx.ofSxList, optLetOrInt_shape ha, optLetOrInt_shape hb, optStep_shape hc]
  | usepulses m => rfl
  | usepulsesDot m => rfl

theorem cases_shape {ts : List Tok} {xs : List Sx} (h : Cases ts xs) : isPCases (BSx.ofSxList xs) = true := by
  induction h with
  | nil => rfl
  | one hc =>
    cases hc with
    | mk v hb =>
      simp only [BSx.ofSxList, BSx.ofSx, isPCases, Bool.and_true]
      exact block_shape hb
  | cons hc _ _ ih =>
    cases hc with
    | mk v hb =>
      simp only [BSx.ofSxList, BSx.ofSx, isPCases, Bool.and_eq_true]
      exact ⟨block_shape hb, ih⟩

theorem isPBody_of_stmt {e : BSx} (h : isPStmt e = true) : isPBody e = true := by
  unfold isPBody
  split
  · rename_i n rest
    unfold isPStmt at h
    simp [show ¬ ("macro" = "gate") from by decide, show ¬ ("macro" = "loop") from by decide,
      show ¬ ("macro" = "sequential_block") from by decide, show ¬ ("macro" = "parallel_block") from by decide,
      show ¬ ("macro" = "subcircuit_block") from by decide, show ¬ ("macro" = "branch") from by decide] at h
  · exact h

theorem body_shape {ts : List Tok} {x : Sx} (h : Body ts x) : isPBody (BSx.ofSx x) = true := by
  cases h with
  | stmt hb => exact isPBody_of_stmt (block_shape hb)
  | seqBlock hb => exact isPBody_of_stmt (block_shape hb)
  | macroDef name params hb =>
    have hbody : isPStmt (BSx.ofSx _) = true := block_shape hb
    simp only [BSx.ofSx, BSx.ofSxList, ofSxList_append, ofSxList_map_str]
    unfold isPBody
    simp only [List.dropLast_concat, List.getLast?_concat, Bool.and_eq_true]
    refine ⟨?_, hbody⟩
    rw [List.all_eq_true]
    intro b hb'
    obtain ⟨p, _, rfl⟩ := List.mem_map.1 hb'
    rfl
  | branch _ hc =>
    apply isPBody_of_stmt
    simp only [BSx.ofSx, BSx.ofSxList]
    unfold isPStmt
    simp only [show ("branch" = "gate") = False from by decide, show ("branch" = "loop") = False from by decide,
      show ("branch" = "sequential_block" ∨ "branch" = "parallel_block") = False from by decide,
      show ("branch" = "subcircuit_block") = False from by decide, if_false, if_true]
    exact cases_shape hc

theorem stmts_shape {ph : Phase} {ts : List Tok} {xs : List Sx} (h : Stmts ph ts xs) :
    ∀ c ∈ BSx.ofSxList xs, isPHeader c = true ∨ isPBody c = true := by
  induction h with
  | nil => intro c hc; cases hc
  | lastHeader hh =>
    intro c hc
    simp only [BSx.ofSxList, List.mem_singleton] at hc
    subst hc; exact Or.inl (header_shape hh)
  | lastBody hb =>
    intro c hc
    simp only [BSx.ofSxList, List.mem_singleton] at hc
    subst hc; exact Or.inr (body_shape hb)
  | consHeader hh _ _ ih =>
    intro c hc
    simp only [BSx.ofSxList, List.mem_cons] at hc
    rcases hc with rfl | hc
    · exact Or.inl (header_shape hh)
    · exact ih c hc
  | consBody hb _ _ ih =>
    intro c hc
    simp only [BSx.ofSxList, List.mem_cons] at hc
    rcases hc with rfl | hc
    · exact Or.inr (body_shape hb)
    · exact ih c hc

/-- every statement tree of the grammar has the shape the builder theorem assumes -/
theorem derives_parserSx {ts : List Tok} {sx : Sx} (h : Derives ts sx) : ParserSx (BSx.ofSx sx) := by
  cases h with
  | circuit _ hs => exact ⟨_, by simp only [BSx.ofSx, BSx.ofSxList], stmts_shape hs⟩

theorem parse_parserSx {ts : List PTok} {sx : Sx} (h : parse ts = .ok sx) : ParserSx (BSx.ofSx sx) :=
  derives_parserSx (Jaqal.C02.C02_sound h)

theorem parseText_parserSx {txt : String} {sx : Sx} (h : parseText txt = .ok sx) : ParserSx (BSx.ofSx sx) := by
  unfold parseText at h
  split at h
  · rename_i ts _
    cases hp : parse ts with
    | ok x => rw [hp] at h; simp only [] at h; cases h; exact parse_parserSx hp
    | error e => rw [hp] at h; cases h
  · rename_i ts le _
    cases hp : parse ts with
    | ok x => rw [hp] at h; cases h
    | error e => rw [hp] at h; simp only [] at h; split at h <;> cases h

/-- **C16, parser and builder composed.** Whatever the text: if it parses, the build (with the "too many registers"
check of `parse_jaqal_string`) either succeeds or fails with `JaqalError` / `ImportError` — never with another exception
class, never without terminating. -/
theorem C16_parse_build_total (cfg : Config) (txt : String) (sx : Sx) (hparse : parseText txt = .ok sx) :
    ∀ err, parseBuild cfg sx = .error err → Good err :=
  C16_parseBuild_total cfg sx (parseText_parserSx hparse)

/-- non-vacuity: a text that parses and builds … -/
example : (parseText "let n 2\nregister r[n]\nmacro m a { g a }\nm r[1]\n").toOption.isSome = true := by
  decide +kernel

/-- … and one that parses and is rejected by the builder, with a JaqalError (index 5 of a register of 2) -/
example : (match parseText "let n 2\nregister r[n]\nmacro m a { g a }\nm r[5]\n" with
  | .ok sx => (match parseBuild {} sx with | .error (.jaqal _) => true | _ => false)
  | .error _ => false) = true := by decide +kernel

end Jaqal.Builder

#print axioms Jaqal.Builder.derives_parserSx
#print axioms Jaqal.Builder.C16_parse_build_total
