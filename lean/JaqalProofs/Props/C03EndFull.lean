import JaqalProofs.Props.C03End
/-!
# `C08_run_visits_positions_full` proved

`s.visits = semVisits x₁`: the visit sequence of the run written on the meaning tree alone — positions in the flat order of the
tree's gate applications in place of the walkers' addresses.

* `unrollP_norm`, `semVisits_spl` — `unrollP` (hence `semVisits`) does not see the splices of the expanded macro calls;
* `semSkelList_unrollA` — for ANY enumeration `f` of the gate addresses of the skeleton (`gaddrs (flatList …) = (range' p n).map f`)
  the addresses of the unrolled skeleton are `f` of the positions `unrollP` gives;
* `pairsFrom_starts` — under the same enumeration the trace starts are `f` of `startsPFrom`;
* `indexOf_map` — `indexOf?` through an enumeration that is injective where it matters (`gaddrs` is strictly increasing, hence
  `Nodup`: `flat_sorted_list`) is `posOf?`;
* `skelOf_visits` — `execVisits` of the skeleton of a tree is `semVisits` of the tree;
* `C08_run_visits_positions_holds`.
-/
namespace Jaqal.RunModel
open Jaqal Jaqal.Builder Jaqal.Sem Jaqal.Walk

/-! ### `unrollP` does not see the splices -/

theorem unrollPList_append : ∀ (a b : List Sem) (p : Nat),
    unrollPList (a ++ b) p = unrollPList a p ++ unrollPList b (p + (Sem.flatList a).length)
  | [], b, p => by simp [unrollPList, Sem.flatList]
  | x :: r, b, p => by
    simp only [List.cons_append, unrollPList, Sem.flatList, List.length_append, unrollPList_append r b, List.append_assoc,
      Nat.add_assoc]

mutual
  theorem unrollP_norm : ∀ (s : Sem) (p : Nat), unrollP s.norm p = unrollP s p
    | .gate n a, p => by simp [Sem.norm]
    | .loop n b, p => by simp [Sem.norm, unrollP, unrollP_norm b]
    | .blk par sub it body, p => by simp [Sem.norm, unrollP, unrollPList_normList par body]
  theorem unrollPList_normList (par : Bool) : ∀ (l : List Sem) (p : Nat), unrollPList (normList par l) p = unrollPList l p
    | [], p => by simp [normList]
    | .gate n a :: r, p => by simp [normList, Sem.norm, unrollPList, unrollPList_normList par r]
    | .loop n b :: r, p => by
      simp [normList, Sem.norm, unrollPList, unrollP, Sem.flat, flat_norm b, unrollP_norm b, unrollPList_normList par r]
    | .blk q true it body :: r, p => by
      simp [normList, Sem.norm, unrollPList, unrollP, Sem.flat, flatList_normList q body, unrollPList_normList q body,
        unrollPList_normList par r]
    | .blk q false it body :: r, p => by
      simp only [normList]
      by_cases hp : q = par
      · subst hp
        simp only [if_true, unrollPList_append, unrollPList, unrollP, Sem.flat, flatList_normList q body,
          unrollPList_normList q body, unrollPList_normList q r]
      · simp only [hp, if_false, unrollPList, unrollP, Sem.flat, flatList_normList q body, unrollPList_normList q body,
          unrollPList_normList par r]
end

/-- the visit sequence of the tree with the blocks of the expanded macro calls spliced is that of the tree -/
theorem semVisits_spl (x : Sem) : semVisits (ExpandMacros.spl x) = semVisits x := by
  have h : unrollP (ExpandMacros.spl x) 0 = unrollP x 0 := by
    rw [← unrollP_norm (ExpandMacros.spl x), ExpandMacros.norm_spl, unrollP_norm]
  have hs : semStarts (ExpandMacros.spl x) = semStarts x := by rw [semStarts, semStarts, flat_spl]
  rw [semVisits, semVisits, h, hs]

/-! ### Addresses and positions -/

theorem gaddrs_length : ∀ toks : List Walk.Tok, (gaddrs toks).length = (tkinds toks).length
  | [] => rfl
  | .g _ _ :: r => by simp [gaddrs, tkinds, gaddrs_length r]
  | .lopen _ :: r => by simp [gaddrs, tkinds, gaddrs_length r]
  | .lclose :: r => by simp [gaddrs, tkinds, gaddrs_length r]

theorem range'_split (p m n : Nat) : List.range' p (m + n) = List.range' p m ++ List.range' (p + m) n := by
  rw [List.range'_append_1]

mutual
  /-- the addresses of the unrolled skeleton are the enumeration of the positions `unrollP` gives -/
  theorem semSkel_unrollA : ∀ (m : Sem) (k : Nat) (s' : Walk.Stmt) (k' : Nat), semSkel k m = some (s', k') →
      ∀ (a : Addr) (f : Nat → Addr) (p : Nat), gaddrs (Walk.flatStmt s' a) = (List.range' p m.flat.length).map f →
        (Walk.unrollStmt s' a).map (·.2) = (unrollP m p).map (fun x => f x.2)
    | .gate name vs, k, s', k', h, a, f, p, hg => by
      simp only [semSkel] at h
      have : s' = .gate (gateKind name k) := by
        split at h
        · rename_i id heq
          simp only [Option.some.injEq, Prod.mk.injEq] at h
          rw [← h.1, heq]
        · simp only [Option.some.injEq, Prod.mk.injEq] at h
          exact h.1.symm
      subst this
      simp [Walk.flatStmt, gaddrs, Sem.flat] at hg
      simp [Walk.unrollStmt, unrollP, hg]
    | .blk par sub it body, k, s', k', h, a, f, p, hg => by
      simp only [semSkel] at h
      cases hb : semSkelList k body with
      | none => simp [hb] at h
      | some q =>
        obtain ⟨b, k1⟩ := q
        simp only [hb, Option.some.injEq, Prod.mk.injEq] at h
        obtain ⟨rfl, rfl⟩ := h
        simp only [Walk.flatStmt, Sem.flat] at hg
        simpa only [Walk.unrollStmt, unrollP] using semSkelList_unrollA body k b k1 hb a 0 f p hg
    | .loop n b, k, s', k', h, a, f, p, hg => by
      simp only [semSkel] at h
      cases hb : semSkel k b with
      | none => simp [hb] at h
      | some q =>
        obtain ⟨sb, k1⟩ := q
        cases sb with
        | block par b' =>
          simp only [hb, Option.some.injEq, Prod.mk.injEq] at h
          obtain ⟨rfl, rfl⟩ := h
          simp only [Walk.flatStmt, gaddrs, gaddrs_append, List.append_nil, Sem.flat] at hg
          have := semSkel_unrollA b k _ _ hb a f p (by simpa only [Walk.flatStmt] using hg)
          simp only [Walk.unrollStmt] at this
          simp only [Walk.unrollStmt, unrollP, List.map_flatten, List.map_replicate, this]
        | gate _ => simp [hb] at h
        | loop _ _ _ => simp [hb] at h
  theorem semSkelList_unrollA : ∀ (ms : List Sem) (k : Nat) (l' : List Walk.Stmt) (k' : Nat),
      semSkelList k ms = some (l', k') →
      ∀ (a : Addr) (i : Nat) (f : Nat → Addr) (p : Nat),
        gaddrs (Walk.flatList l' a i) = (List.range' p (Sem.flatList ms).length).map f →
        (Walk.unrollList l' a i).map (·.2) = (unrollPList ms p).map (fun x => f x.2)
    | [], k, l', k', h, a, i, f, p, hg => by
      simp only [semSkelList, Option.some.injEq, Prod.mk.injEq] at h
      obtain ⟨rfl, rfl⟩ := h
      simp [Walk.unrollList, unrollPList]
    | s :: r, k, l', k', h, a, i, f, p, hg => by
      simp only [semSkelList] at h
      cases hs : semSkel k s with
      | none => simp [hs] at h
      | some q =>
        obtain ⟨s', k1⟩ := q
        simp only [hs] at h
        cases hr : semSkelList k1 r with
        | none => simp [hr] at h
        | some q2 =>
          obtain ⟨r', k2⟩ := q2
          simp only [hr, Option.some.injEq, Prod.mk.injEq] at h
          obtain ⟨rfl, rfl⟩ := h
          have hl : (gaddrs (Walk.flatStmt s' (a ++ [i]))).length = s.flat.length := by
            rw [gaddrs_length, semSkel_kinds s k s' k1 hs (a ++ [i]), List.length_map]
          simp only [Walk.flatList, gaddrs_append, Sem.flatList, List.length_append] at hg
          rw [range'_split, List.map_append] at hg
          obtain ⟨h1, h2⟩ := List.append_inj hg (by rw [hl]; simp)
          simp only [Walk.unrollList, unrollPList, List.map_append,
            semSkel_unrollA s k s' k1 hs (a ++ [i]) f p h1, semSkelList_unrollA r k1 r' k2 hr a (i + 1) f _ h2]
end

/-- under an enumeration `f` of the gate addresses, the trace starts are `f` of the start positions -/
theorem pairsFrom_starts (f : Nat → Addr) : ∀ (toks : List Walk.Tok) (p : Nat) (c : Option Nat),
    gaddrs toks = (List.range' p (tkinds toks).length).map f →
    (Walk.pairsFrom toks (c.map f)).map (·.1) = (startsPFrom (tkinds toks) p c).map f
  | [], p, c, _ => by simp [Walk.pairsFrom, tkinds, startsPFrom]
  | .g k a :: r, p, c, hg => by
    simp only [gaddrs, tkinds, List.length_cons, List.range'_succ, List.map_cons, List.cons.injEq] at hg
    obtain ⟨rfl, hg⟩ := hg
    have ih := pairsFrom_starts f r (p + 1)
    cases k with
    | prep => simpa [Walk.pairsFrom, tkinds, skind, startsPFrom] using ih (some p) hg
    | meas =>
      cases c with
      | none => simpa [Walk.pairsFrom, tkinds, skind, startsPFrom] using ih none hg
      | some s => simpa [Walk.pairsFrom, tkinds, skind, startsPFrom] using ih none hg
    | other id => simpa [Walk.pairsFrom, tkinds, skind, startsPFrom] using ih c hg
  | .lopen n :: r, p, c, hg => by
    simp only [gaddrs, tkinds] at hg
    simpa [Walk.pairsFrom, tkinds] using pairsFrom_starts f r p c hg
  | .lclose :: r, p, c, hg => by
    simp only [gaddrs, tkinds] at hg
    simpa [Walk.pairsFrom, tkinds] using pairsFrom_starts f r p c hg

/-- `indexOf?` through an enumeration injective at `q` is `posOf?` -/
theorem indexOf_map (f : Nat → Addr) (q : Nat) : ∀ (S : List Nat), (∀ s ∈ S, f s = f q → s = q) →
    Walk.indexOf? (S.map f) (f q) = posOf? S q
  | [], _ => rfl
  | s :: r, h => by
    have ih := indexOf_map f q r (fun s hs => h s (by simp [hs]))
    simp only [List.map_cons, Walk.indexOf?, posOf?, ih]
    by_cases hs : s = q
    · simp [hs]
    · have : f s ≠ f q := fun e => hs (h s (by simp) e)
      simp [hs, this]

mutual
  theorem unrollP_bound : ∀ (m : Sem) (p : Nat) (x : GateApp × Nat), x ∈ unrollP m p → p ≤ x.2 ∧ x.2 < p + m.flat.length
    | .gate n a, p, x, hx => by
      simp only [unrollP, List.mem_singleton] at hx
      subst hx; simp [Sem.flat]
    | .blk _ _ _ body, p, x, hx => by
      simpa only [Sem.flat] using unrollPList_bound body p x (by simpa only [unrollP] using hx)
    | .loop n b, p, x, hx => by
      simp only [unrollP, List.mem_flatten, List.mem_replicate] at hx
      obtain ⟨l, ⟨_, rfl⟩, hx⟩ := hx
      simpa only [Sem.flat] using unrollP_bound b p x hx
  theorem unrollPList_bound : ∀ (l : List Sem) (p : Nat) (x : GateApp × Nat), x ∈ unrollPList l p →
      p ≤ x.2 ∧ x.2 < p + (Sem.flatList l).length
    | [], p, x, hx => by simp [unrollPList] at hx
    | s :: r, p, x, hx => by
      simp only [unrollPList, List.mem_append] at hx
      simp only [Sem.flatList, List.length_append]
      rcases hx with hx | hx
      · have := unrollP_bound s p x hx; omega
      · have := unrollPList_bound r _ x hx; omega
end

theorem startsPFrom_bound : ∀ (ks : List (Option Bool)) (p : Nat) (c : Option Nat) (s : Nat), s ∈ startsPFrom ks p c →
    c = some s ∨ (p ≤ s ∧ s < p + ks.length)
  | [], p, c, s, h => by simp [startsPFrom] at h
  | some true :: r, p, c, s, h => by
    simp only [startsPFrom] at h
    rcases startsPFrom_bound r (p + 1) (some p) s h with h | h
    · simp only [Option.some.injEq] at h; subst h; right; simp
    · right; simp only [List.length_cons]; omega
  | some false :: r, p, some s0, s, h => by
    simp only [startsPFrom, List.mem_cons] at h
    rcases h with rfl | h
    · left; rfl
    · rcases startsPFrom_bound r (p + 1) none s h with h | h
      · cases h
      · right; simp only [List.length_cons]; omega
  | some false :: r, p, none, s, h => by
    simp only [startsPFrom] at h
    rcases startsPFrom_bound r (p + 1) none s h with h | h
    · cases h
    · right; simp only [List.length_cons]; omega
  | none :: r, p, c, s, h => by
    simp only [startsPFrom] at h
    rcases startsPFrom_bound r (p + 1) c s h with h | h
    · left; exact h
    · right; simp only [List.length_cons]; omega

/-- a duplicate-free list of addresses is the image of `0 … length-1` under a map injective there -/
theorem exists_enum (G : List Addr) (hnd : G.Nodup) : ∃ f : Nat → Addr, G = (List.range' 0 G.length).map f ∧
    ∀ i j, i < G.length → j < G.length → f i = f j → i = j := by
  refine ⟨fun i => (G[i]?).getD [], ?_, ?_⟩
  · apply List.ext_getElem
    · simp
    · intro i h1 h2
      simp [h1]
  · intro i j hi hj hij
    simp only [List.getElem?_eq_getElem hi, List.getElem?_eq_getElem hj, Option.getD_some] at hij
    exact (List.Nodup.getElem_inj_iff hnd).1 hij

/-- **the visits of the skeleton of a tree, by addresses, are the visits of the tree, by positions** -/
theorem skelOf_visits {m : Sem} {body : List Walk.Stmt} {n : Nat} (h : skelOf m = some (body, n)) :
    Walk.execVisits ((Walk.pairs (Walk.flatToks body)).map (·.1)) (Walk.unroll body) = semVisits m := by
  cases m with
  | gate _ _ => simp [skelOf] at h
  | loop _ _ => simp [skelOf] at h
  | blk par sub it ms =>
    simp only [skelOf] at h
    have hk := semSkelList_kinds ms 0 body n h [] 0
    have hnd : (gaddrs (Walk.flatList body [] 0)).Nodup := pairwise_lexLt_nodup (flat_sorted_list body [] 0)
    obtain ⟨f, hG, hinj⟩ := exists_enum _ hnd
    have hlen : (gaddrs (Walk.flatList body [] 0)).length = (Sem.flatList ms).length := by
      rw [gaddrs_length, hk, List.length_map]
    have hu := semSkelList_unrollA ms 0 body n h [] 0 f 0 (by rw [← hlen]; exact hG)
    have hp := pairsFrom_starts f (Walk.flatList body [] 0) 0 none (by rw [← gaddrs_length]; exact hG)
    simp only [Option.map_none] at hp
    rw [hk] at hp
    simp only [Walk.execVisits, Walk.pairs, Walk.flatToks, Walk.unroll, semVisits, semStarts, unrollP, Sem.flat]
    rw [hp]
    have hfm : ∀ (u : List (Walk.GK × Addr)) (g : Addr → Option Nat),
        u.filterMap (fun x => g x.2) = (u.map (·.2)).filterMap g := by
      intro u g; rw [List.filterMap_map]; rfl
    rw [hfm, hu, List.filterMap_map]
    apply List.filterMap_congr
    intro x hx
    simp only [Function.comp]
    apply indexOf_map
    intro s hs hfs
    have b1 := unrollPList_bound ms 0 x hx
    rcases startsPFrom_bound _ 0 none s hs with b2 | b2
    · cases b2
    · simp only [List.length_map] at b2
      exact hinj s x.2 (by omega) (by omega) hfs

/-- **C08, by positions.** The visit sequence the run reports is `semVisits x₁`: a function of the meaning tree of the program as
written, with no walker address in it. -/
theorem C08_run_visits_positions_holds : C08_run_visits_positions_full := by
  intro cfg ov txt s h
  obtain ⟨c, c₁, x₁, body, n, hp, h1, hm, hsk, _, hv, _, _⟩ := C08_run_visits_meaning cfg ov txt s h
  exact ⟨c, c₁, x₁, hp, h1, hm, by rw [hv, skelOf_visits hsk, semVisits_spl]⟩

end Jaqal.RunModel

#print axioms Jaqal.RunModel.C08_run_visits_positions_holds
