import JaqalProofs.Props.C10Text
import JaqalProofs.Lemmas.PassTextMacros
import JaqalProofs.Lemmas.PassTextFill
/-!
# C10, last clause, continued — layers A and B for `expand_macros`

`Props/C10Text.lean` reduced "the text of a pass result re-parses to the same meaning" to `C10_printable_full` (layers A/B:
`printable c'`, `NamesOK c'`) and `C10_layerC_full` and proved layers A/B for `expand_subcircuits`.  This file adds
`expand_macros` (helpers: `Lemmas/PassTextMacros.lean`).

## Results

* `C10_printable_macros` (layer A): `expand_macros` keeps a `Legal` printable circuit printable — no further hypothesis.
* `C10_namesOK_macros` (layer B): `expand_macros` keeps `NamesOK` (and `QualC`) of a `Legal`, `NamesOK`, `QualC` circuit;
  `C10_lexsafe_macros`: so the result is `LexSafe` as soon as its integers are bounded.
  **`QualC` is a NEW hypothesis, and it is needed**: `NamesOK` speaks about what the generator WRITES; a qubit that is
  written by its own name (a declared alias `map q r[k]`) contributes only `q`.  But `GateReplacer.visit_NamedQubit` re-indexes
  EVERY qubit of a macro body (`alias_from[alias_index]`): `q` comes out as the element `r[k]` (`C10_macros_example`), whose text names `r` and `k`.  `QualC c`: every qubit reference names its source and its index
  legally, a macro body uses only the macro's own parameters (else an element `a[i]` of an unbound parameter indexed by a
  substituted float would be called `a[0.5]`), the body uses none.
* **`C10_namesOK_macros_needs_qual`, `C10_printable_full_refuted`: `C10_printable_full` is FALSE as stated** — it asks
  `NamesOK c'` from `Legal`, `printable`, `NamesOK` alone, for hand-built circuits too; `badC` (a macro body naming, as `q`, a
  qubit of an undeclared register called `map`) is `Legal`, printable, `NamesOK`, and its expansion `g map[1]` is not
  `NamesOK`.  So `C10_text_partial` (`Props/C10Text.lean`), which takes `C10_printable_full` as a hypothesis, is vacuous; use
  `C10_text_macros_partial` / `C10_text_subs_partial` / `C10_printable_parsed_macros_subs` instead.
* `C10_qualC_parsed`: **every parsed circuit is `QualC`** (any configuration) — `parsed_namesOK`, `ScopedC`, and a new
  induction over the loop of `build_circuit` (`buildNoMemo_it_any`: a qubit reference is an element, whose name has a
  bracket, or a declared alias, of which `DeclP` speaks).
* `C10_layersAB_macros_subs`: `printable ∧ NamesOK ∧ QualC` is an invariant of every sequence of `expand_macros` /
  `expand_subcircuits` passes from a `Legal` circuit that has it (`expand_subcircuits` keeps `QualC`: `C10_qualC_subs`);
  `C10_text_macros_subs_layers`: for a PARSED circuit and such a sequence the text of the result is generated and re-parsing
  it, in any configuration, is building `unbuild c'` — hypothesis-free up to `IntsBounded c'`.
* `C10_text_macros_subs_partial`: … and GIVEN layer C (`LayerC cfg' ρ c'`, a statement about the builder alone) the text
  re-parses under `cfg'` to the canonical meaning `tr π s`; no applicability hypothesis.
* `C10_text_macros_layers`, `C10_text_macros_partial`: the single pass `expand_macros` on a parsed circuit: everything but
  layer C proved (given only `LayerC cfg' ρ c'`, a statement about the builder, the text re-parses under `cfg'` to the meaning
  of the original).
* `C10_printable_parsed_macros_subs`: `C10_printable_full` restricted to PARSED inputs holds for `expand_macros` and
  `expand_subcircuits`.
* `C10_printable_map` (layer A for `fill_in_map`): a `Legal` printable circuit stays printable (`Lemmas/PassTextFill.lean`:
  `rel_okItems`, generic in the two visitors, and `rebuilt_printable`, which also reduces layer A of `fill_in_let` to facts
  about the visited counts and registers).

## What stays open

* layer A for `fill_in_let`, layer B for `fill_in_let` / `fill_in_map` (`C10_printable_fill_open`).  What is needed, beyond the `Rel` /
  `FillIn.Rebuilt` inversion of the rebuild: (A) the rebuilt counts are `okRef` — a let count resolves to a NUMBER
  (`resolveConstant`), and that it is an int is a fact about the builder's `_validate_count` on the rebuild, not part of
  `Rel`; the rebuilt registers are `okRegister` / `okMap` (`mkRegister`, `mkSliceN` on resolved bounds: needs the typing
  `TypedC` of parsed circuits, `Legal` does not have it); (B) the element `reg[k]` that `MapFiller` writes names the
  FUNDAMENTAL register at the end of the alias chain: its legality needs the names of the whole chain (a `QualC`-like
  invariant that follows sources, available from `HdrFrom` in `Lemmas/ParsedParserLike.lean` but not stated at circuit level).
* layer C for every pass (`C10_layerC_full`, `C10_text_subs_full`), unchanged.
-/
set_option linter.unusedVariables false
namespace Jaqal.Passes
open Jaqal Jaqal.Sem Jaqal.Builder Jaqal.Pipeline Jaqal.RoundTrip Jaqal.PassText

/-! ## `expand_macros`: layers A and B -/

/-- **layer A**: `expand_macros` keeps a legal printable circuit printable -/
theorem C10_printable_macros (p : Bool) (c c' : Circuit) (hL : Legal c) (hp : printable c = true)
    (h : apply (.macros p) c = .ok c') : printable c' = true :=
  macros_printable hL hp h

/-- **layer B**: `expand_macros` invents no name that is not legal and no float, for a circuit whose qubit references are
qualified (`QualC`); the result is qualified again -/
theorem C10_namesOK_macros (p : Bool) (c c' : Circuit) (hL : Legal c) (hn : NamesOK c) (hq : QualC LegalName c)
    (h : apply (.macros p) c = .ok c') : NamesOK c' ∧ QualC LegalName c' :=
  macros_namesOK hL hn hq h

/-- … so the result is `LexSafe` as soon as its integers are bounded -/
theorem C10_lexsafe_macros (p : Bool) (c c' : Circuit) (hL : Legal c) (hn : NamesOK c) (hq : QualC LegalName c)
    (h : apply (.macros p) c = .ok c') (hi : IntsBounded c') : LexSafe c' :=
  lexSafe_of (macros_namesOK hL hn hq h).1 hi

/-- **every parsed circuit is `QualC`**, whatever the configuration -/
theorem C10_qualC_parsed (cfg : Config) (txt : String) (c : Circuit) (h : parseProgram cfg txt = .ok c) :
    QualC LegalName c :=
  parsed_qualC h

/-- `expand_subcircuits` keeps `QualC`: the two bounding statements have no argument -/
theorem C10_qualC_subs (c c' : Circuit) (hL : Legal c) (hq : QualC LegalName c) (h : apply .subs c = .ok c') :
    QualC LegalName c' :=
  subs_qualC hL hq h

/-! ## sequences of `expand_macros` / `expand_subcircuits` -/

/-- a sequence of `expand_macros` / `expand_subcircuits` passes only -/
def onlyMacrosSubs : List Pass → Bool
  | [] => true
  | .macros _ :: ps => onlyMacrosSubs ps
  | .subs :: ps => onlyMacrosSubs ps
  | _ :: _ => false

/-- **layers A and B along a sequence**: `printable ∧ NamesOK ∧ QualC` is kept by every sequence of `expand_macros` /
`expand_subcircuits` passes from a legal circuit -/
theorem C10_layersAB_macros_subs : ∀ (π : List Pass) (c c' : Circuit), onlyMacrosSubs π = true → Legal c →
    printable c = true → NamesOK c → QualC LegalName c → applySeq π c = .ok c' →
    printable c' = true ∧ NamesOK c' ∧ QualC LegalName c'
  | [], c, c', _, _, hp, hn, hq, h => by
    simp only [applySeq, pure, Except.pure, Except.ok.injEq] at h
    subst h
    exact ⟨hp, hn, hq⟩
  | .macros p :: ps, c, c', ho, hL, hp, hn, hq, h => by
    simp only [applySeq] at h
    cases h1 : apply (.macros p) c with
    | error e => rw [h1] at h; cases h
    | ok c1 =>
      rw [h1] at h
      have hb := macros_namesOK hL hn hq h1
      exact C10_layersAB_macros_subs ps c1 c' ho (C10_legal_preserved (.macros p) c c1 hL h1) (macros_printable hL hp h1)
        hb.1 hb.2 h
  | .subs :: ps, c, c', ho, hL, hp, hn, hq, h => by
    simp only [applySeq] at h
    cases h1 : apply .subs c with
    | error e => rw [h1] at h; cases h
    | ok c1 =>
      rw [h1] at h
      exact C10_layersAB_macros_subs ps c1 c' ho (C10_legal_preserved .subs c c1 hL h1) (subs_printable hL hp h1)
        (subs_namesOK hL hn h1) (subs_qualC hL hq h1) h
  | .let_ _ :: _, _, _, ho, _, _, _, _, _ => by simp [onlyMacrosSubs] at ho
  | .map :: _, _, _, ho, _, _, _, _, _ => by simp [onlyMacrosSubs] at ho

/-- **Layers A and B for every sequence of `expand_macros` / `expand_subcircuits` on a parsed circuit** (any configuration,
no hypothesis but the integer bound): the text of the result is generated, and re-parsing it in any configuration `cfg'` is
building `unbuild c'`. -/
theorem C10_text_macros_subs_layers (cfg : Config) (txt : String) (π : List Pass) (c c' : Circuit)
    (hp : parseProgram cfg txt = .ok c) (ho : onlyMacrosSubs π = true) (h : applySeq π c = .ok c') (hi : IntsBounded c') :
    printable c' = true ∧ LexSafe c' ∧
    ∃ t, Generator.gen c' = .ok t ∧ ∀ cfg' : Config, parseProgram cfg' t = parseBuild cfg' (unbuild c') := by
  have hL := parsed_legal cfg txt c hp
  obtain ⟨hpr, hn, _⟩ := C10_layersAB_macros_subs π c c' ho hL (C01.C01_printable_any cfg txt c hp) (parsed_namesOK hp)
    (parsed_qualC hp) h
  have hls := lexSafe_of hn hi
  exact ⟨hpr, hls, text_reduces c' hpr hls⟩

/-- a sequence of `expand_macros` / `expand_subcircuits` passes has no `fill_in_let`: the environment stays -/
theorem envAfter_onlyMacrosSubs (ρ : Env) : ∀ (π : List Pass), onlyMacrosSubs π = true → envAfter ρ π = ρ
  | [], _ => rfl
  | .macros _ :: ps, h => by
    have := envAfter_onlyMacrosSubs ρ ps h
    simpa [envAfter, firstLet] using this
  | .subs :: ps, h => by
    have := envAfter_onlyMacrosSubs ρ ps h
    simpa [envAfter, firstLet] using this
  | .let_ _ :: _, h => by simp [onlyMacrosSubs] at h
  | .map :: _, h => by simp [onlyMacrosSubs] at h

theorem matches_of_onlyMacrosSubs : ∀ (π : List Pass), onlyMacrosSubs π = true → ∀ p ∈ π, (p matches .macros _ | .subs)
  | [], _, p, hp => by cases hp
  | .macros _ :: ps, h, p, hp => by
    rcases List.mem_cons.1 hp with rfl | hp
    · rfl
    · exact matches_of_onlyMacrosSubs ps h p hp
  | .subs :: ps, h, p, hp => by
    rcases List.mem_cons.1 hp with rfl | hp
    · rfl
    · exact matches_of_onlyMacrosSubs ps h p hp
  | .let_ _ :: _, h, _, _ => by simp [onlyMacrosSubs] at h
  | .map :: _, h, _, _ => by simp [onlyMacrosSubs] at h

/-- **every sequence of `expand_macros` / `expand_subcircuits` on a parsed circuit, everything but layer C proved**: given only
that the tree of the result builds under `cfg'` to a circuit of the same meaning (`LayerC`, a statement about the builder),
the text of the result re-parses under `cfg'` to the canonical meaning `tr π s` (the spelled-out meaning of the original iff
`expand_subcircuits` is in the sequence).  No applicability hypothesis: a parsed circuit is `Legal`. -/
theorem C10_text_macros_subs_partial (cfg cfg' : Config) (txt : String) (ρ : Env) (π : List Pass) (c c' : Circuit) (s : Sem)
    (hp : parseProgram cfg txt = .ok c) (ho : onlyMacrosSubs π = true) (ha : applySeq π c = .ok c')
    (hm : meaning ρ c = .ok s) (hi : IntsBounded c') (hC : LayerC cfg' ρ c') :
    ∃ t c2, Generator.gen c' = .ok t ∧ parseProgram cfg' t = .ok c2 ∧ meaning ρ c2 = .ok (tr π s) := by
  have hL := parsed_legal cfg txt c hp
  obtain ⟨hpr, hn, _⟩ := C10_layersAB_macros_subs π c c' ho hL (C01.C01_printable_any cfg txt c hp) (parsed_namesOK hp)
    (parsed_qualC hp) ha
  have happ := C10_applicable_of_legal_expansions ρ π c hL (matches_of_onlyMacrosSubs π ho)
  exact C10_text_of_layerC cfg' ρ π c c' s happ ha (by rw [envAfter_onlyMacrosSubs ρ π ho]; exact hm) hpr hn hi hC

/-- the single pass `expand_macros` on a parsed circuit -/
theorem C10_text_macros_layers (cfg : Config) (txt : String) (p : Bool) (c c' : Circuit) (hp : parseProgram cfg txt = .ok c)
    (h : apply (.macros p) c = .ok c') (hi : IntsBounded c') :
    printable c' = true ∧ LexSafe c' ∧
    ∃ t, Generator.gen c' = .ok t ∧ ∀ cfg' : Config, parseProgram cfg' t = parseBuild cfg' (unbuild c') := by
  have hseq : applySeq [.macros p] c = .ok c' := by
    simp only [applySeq, h]; rfl
  exact C10_text_macros_subs_layers cfg txt [.macros p] c c' hp rfl hseq hi

/-- **`C10_printable_full` for parsed inputs, `expand_macros` and `expand_subcircuits`** -/
theorem C10_printable_parsed_macros_subs (cfg : Config) (txt : String) (p : Pass) (c c' : Circuit)
    (hp : parseProgram cfg txt = .ok c) (ho : onlyMacrosSubs [p] = true) (h : apply p c = .ok c') :
    printable c' = true ∧ NamesOK c' := by
  have hseq : applySeq [p] c = .ok c' := by
    simp only [applySeq, h]; rfl
  obtain ⟨a, b, _⟩ := C10_layersAB_macros_subs [p] c c' ho (parsed_legal cfg txt c hp) (C01.C01_printable_any cfg txt c hp)
    (parsed_namesOK hp) (parsed_qualC hp) hseq
  exact ⟨a, b⟩

/-- **`expand_macros` on a parsed circuit, everything but layer C proved**: given only that the tree of the result builds
under `cfg'` to a circuit of the same meaning, the text of the result re-parses under `cfg'` to the meaning of the
original. -/
theorem C10_text_macros_partial (cfg cfg' : Config) (txt : String) (ρ : Env) (p : Bool) (c c' : Circuit) (s : Sem)
    (hp : parseProgram cfg txt = .ok c) (ha : apply (.macros p) c = .ok c') (hm : meaning ρ c = .ok s)
    (hi : IntsBounded c') (hC : LayerC cfg' ρ c') :
    ∃ t c2, Generator.gen c' = .ok t ∧ parseProgram cfg' t = .ok c2 ∧ meaning ρ c2 = .ok s := by
  have hL := parsed_legal cfg txt c hp
  have hseq : applySeq [.macros p] c = .ok c' := by
    simp only [applySeq, ha]; rfl
  obtain ⟨hpr, hn, _⟩ := C10_layersAB_macros_subs [.macros p] c c' rfl hL (C01.C01_printable_any cfg txt c hp)
    (parsed_namesOK hp) (parsed_qualC hp) hseq
  exact C10_text_of_layerC cfg' ρ [.macros p] c c' s ⟨hL, trivial, fun _ _ => trivial⟩ hseq hm hpr hn hi hC

/-! ## `fill_in_map`: layer A -/

/-- **layer A for `fill_in_map`**: a legal printable circuit stays printable (`MapFiller` leaves ints, lets and parameters
alone, does not visit subcircuit counts, keeps the registers; the rebuild keeps the statement tree up to
`par' = par && !sub`: `FillIn.Rebuilt`, `rel_okItems`) -/
theorem C10_printable_map (c c' : Circuit) (hL : Legal c) (hp : printable c = true) (h : apply .map c = .ok c') :
    printable c' = true :=
  map_printable hL hp h

/-! ## `C10_printable_full` is false as stated -/

/-- a hand-built circuit no text denotes: the macro `m` names, by its own name `q`, a qubit of a register that is not
declared and is called `map` -/
def badQ : Val := .qubit "q" (.regF "map" (.int 2)) (.int 1)
def badG : GateDef := { name := "g", tag := .native, params := [("a", .qubit)] }
def badMd : GateDef := { name := "m", tag := .macro, params := [] }
def badM : Macro := { name := "m", params := [], body := .block false false (.int 1) [.gate "g" badG [("a", badQ)]] }
def badC : Circuit := { macros := [badM], body := .block false false (.int 1) [.gate "m" badMd []] }

theorem badC_legal : Legal badC := by
  refine ⟨by decide, ⟨⟨_, rfl⟩, ?_, ?_, ?_, ?_⟩, ?_⟩
  · simp [badC, FillIn.BlocksOK, FillIn.BlocksOKList]
  · intro m hm
    simp only [badC, List.mem_singleton] at hm
    subst hm
    simp [badM, FillIn.BlocksOK, FillIn.BlocksOKList]
  · intro v hv; simp [badC] at hv
  · intro v hv; simp [badC] at hv
  · refine ⟨?_, ?_⟩
    · simp [badC, FillIn.ArgsAll, FillIn.ArgsAllList]
    · intro m hm
      simp only [badC, List.mem_singleton] at hm
      subst hm
      simp [badM, badQ, FillIn.ArgsAll, FillIn.ArgsAllList, deepVal, baseBuilt]

theorem badC_printable : printable badC = true := by decide

theorem badC_expand : apply (.macros false) badC = .ok
    { body := .block false false (.int 1) [.gate "g" badG [("a", .qubit "map[1]" (.regF "map" (.int 2)) (.int 1))]] } := by
  rfl

theorem legal_one (c : Char) (hc : Lexer.isAlpha_ c = true := by decide)
    (hk : Lexer.keyword? (String.ofList [c]) = none := by decide) : LegalName (String.ofList [c]) := by
  refine ⟨⟨c, [], by simp, hc, ?_⟩, hk⟩
  simp [TailOK, Lexer.identTail]

theorem badC_namesOK : NamesOK badC := by
  have hq : LegalName "q" := legal_one 'q'
  have hg : LegalName "g" := legal_one 'g'
  have hm : LegalName "m" := legal_one 'm'
  refine ⟨?_, ?_, ?_, ?_, ?_⟩
  · intro v hv; simp [badC] at hv
  · intro v hv; simp [badC] at hv
  · intro m hmm
    simp only [badC, List.mem_singleton] at hmm
    subst hmm
    refine ⟨hm, by intro p hp; simp [badM] at hp, ?_⟩
    simp only [badM, StmtP, ItemsP, ArgsP, RefP, badQ, ArgP, true_and, and_true]
    have : isItem "q" (Val.regF "map" (Val.int 2)) (Val.int 1) = false := by decide
    simp only [this, Bool.false_eq_true, if_false]
    exact ⟨hg, hq⟩
  · intro s hs
    simp only [badC, Stmt.stmts, List.mem_singleton] at hs
    subst hs
    exact ⟨hm, trivial⟩
  · intro u hu; simp [badC] at hu

/-- **`NamesOK` alone is not enough for layer B of `expand_macros`**: `badC` is `Legal`, printable and `NamesOK`, the pass
succeeds, and the result is not `NamesOK` (its text would have to name the register `map`) -/
theorem C10_namesOK_macros_needs_qual :
    ∃ c c', Legal c ∧ printable c = true ∧ NamesOK c ∧ apply (.macros false) c = .ok c' ∧ ¬ NamesOK c' := by
  refine ⟨badC, _, badC_legal, badC_printable, badC_namesOK, badC_expand, ?_⟩
  intro h
  have := h.stmts (.gate "g" badG [("a", .qubit "map[1]" (.regF "map" (.int 2)) (.int 1))]) (by simp [Stmt.stmts])
  simp only [StmtP, ArgsP, ArgP] at this
  have hit : isItem "map[1]" (Val.regF "map" (Val.int 2)) (Val.int 1) = true := by decide
  simp only [hit, if_true] at this
  exact absurd this.2.1.1.2 (by decide)

/-- hence `C10_printable_full` (`Props/C10Text.lean`), which asks layer B from `Legal`, `printable` and `NamesOK` alone, is
FALSE as stated, and `C10_text_partial`, which takes it as a hypothesis, is vacuous; the statements to use are
`C10_printable_parsed_macros_subs` / `C10_text_macros_partial` -/
theorem C10_printable_full_refuted : ¬ C10_printable_full := by
  intro hfull
  obtain ⟨c, c', hL, hp, hn, ha, hno⟩ := C10_namesOK_macros_needs_qual
  exact hno (hfull (.macros false) c c' hL hp hn (by intro ov hov; simp at hov) ha).2

/-! ## What stays open -/

/-- layers A and B for the two fill-in passes on PARSED circuits (the form `C10_text_partial` needs): OPEN.  See the header
for what is missing. -/
def C10_printable_fill_open : Prop :=
  ∀ (cfg : Config) (txt : String) (p : Pass) (c c' : Circuit), parseProgram cfg txt = .ok c →
    (p = .map ∨ ∃ ov, p = .let_ ov) → OvOK [p] → apply p c = .ok c' → printable c' = true ∧ NamesOK c'

/-! ## Non-vacuity -/

/-- `register r[2]; map q r[1]; macro m { g q }; m` as a circuit: the macro body names the declared alias `q` -/
def okR : Val := .regF "r" (.int 2)
def okQ : Val := .qubit "q" okR (.int 1)
def okM : Macro := { name := "m", params := [], body := .block false false (.int 1) [.gate "g" badG [("a", okQ)]] }
def okC : Circuit :=
  { registers := [okR, okQ], macros := [okM], body := .block false false (.int 1) [.gate "m" badMd []] }

theorem okC_legal : Legal okC := by
  refine ⟨by decide, ⟨⟨_, rfl⟩, ?_, ?_, ?_, ?_⟩, ?_⟩
  · simp [okC, FillIn.BlocksOK, FillIn.BlocksOKList]
  · intro m hm
    simp only [okC, List.mem_singleton] at hm
    subst hm
    simp [okM, FillIn.BlocksOK, FillIn.BlocksOKList]
  · intro v hv; simp [okC] at hv
  · intro v hv
    simp only [okC, List.mem_cons, List.not_mem_nil, or_false] at hv
    rcases hv with rfl | rfl <;> rfl
  · refine ⟨?_, ?_⟩
    · simp [okC, FillIn.ArgsAll, FillIn.ArgsAllList]
    · intro m hm
      simp only [okC, List.mem_singleton] at hm
      subst hm
      simp [okM, okQ, okR, FillIn.ArgsAll, FillIn.ArgsAllList, deepVal, baseBuilt]

theorem okC_namesOK : NamesOK okC := by
  have hq : LegalName "q" := legal_one 'q'
  have hg : LegalName "g" := legal_one 'g'
  have hm : LegalName "m" := legal_one 'm'
  have hr : LegalName "r" := legal_one 'r'
  refine ⟨?_, ?_, ?_, ?_, ?_⟩
  · intro v hv; simp [okC] at hv
  · intro v hv
    simp only [okC, List.mem_cons, List.not_mem_nil, or_false] at hv
    rcases hv with rfl | rfl
    · exact ⟨hr, trivial⟩
    · exact ⟨hq, hr, trivial⟩
  · intro m hmm
    simp only [okC, List.mem_singleton] at hmm
    subst hmm
    refine ⟨hm, by intro p hp; simp [okM] at hp, ?_⟩
    simp only [okM, StmtP, ItemsP, ArgsP, RefP, okQ, okR, ArgP, true_and, and_true]
    have : isItem "q" (Val.regF "r" (Val.int 2)) (Val.int 1) = false := by decide
    simp only [this, Bool.false_eq_true, if_false]
    exact ⟨hg, hq⟩
  · intro s hs
    simp only [okC, Stmt.stmts, List.mem_singleton] at hs
    subst hs
    exact ⟨hm, trivial⟩
  · intro u hu; simp [okC] at hu

theorem okC_qualC : QualC LegalName okC := by
  refine ⟨?_, ?_⟩
  · simp [okC, QS, QSL]
  · intro m hm
    simp only [okC, List.mem_singleton] at hm
    subst hm
    show QS LegalName [] okM.body
    simp only [okM, QS, QSL]
    refine ⟨?_, trivial⟩
    intro a ha
    simp only [List.mem_singleton] at ha
    subst ha
    exact ⟨⟨legal_one 'r', trivial, by intro s k h; cases h⟩, rfl⟩

/-- **non-vacuity of `C10_printable_macros` / `C10_namesOK_macros` / `C10_lexsafe_macros`**: `okC` (the circuit of
`register r[2]; map q r[1]; macro m { g q }; m`) is `Legal`, printable, `NamesOK` and `QualC`; `expand_macros` succeeds on it, and
the alias `q` of the macro body comes out RE-INDEXED as the element `r[1]` (`GateReplacer.visit_NamedQubit`: this is why layer B
needs `QualC` — compare `badC`, the same circuit with an undeclared register called `map`); by the theorems the result is
printable, `NamesOK`, `QualC`, and — its integers being bounded — `LexSafe`, so its text is generated and re-parsing it is
building its statement tree.  (The hypotheses of the parsed forms — an accepted text, a successful pass, a bounded result — are
exhibited for the sequence `[expand_subcircuits]` by `C10_text_subs_refuted`; the example of C01 goes through
`expand_macros(preserve_definitions=True)` in `C10_text_example`.  A text is not evaluated here: lexing even a dozen characters
takes the kernel minutes.) -/
theorem C10_macros_example :
    ∃ c', apply (.macros false) okC = .ok c' ∧
      c'.body = .block false false (.int 1) [.gate "g" badG [("a", .qubit "r[1]" okR (.int 1))]] ∧
      printable c' = true ∧ NamesOK c' ∧ QualC LegalName c' ∧ LexSafe c' ∧
      ∃ t, Generator.gen c' = .ok t ∧ ∀ cfg' : Config, parseProgram cfg' t = parseBuild cfg' (unbuild c') := by
  have h : apply (.macros false) okC =
      .ok { registers := [okR, okQ],
            body := .block false false (.int 1) [.gate "g" badG [("a", .qubit "r[1]" okR (.int 1))]] } := rfl
  have hpr := C10_printable_macros false okC _ okC_legal (by decide) h
  obtain ⟨hn, hq⟩ := C10_namesOK_macros false okC _ okC_legal okC_namesOK okC_qualC h
  have hls := C10_lexsafe_macros false okC _ okC_legal okC_namesOK okC_qualC h (by decide)
  exact ⟨_, h, rfl, hpr, hn, hq, hls, text_reduces _ hpr hls⟩

/-- the hypotheses of `C10_text_macros_subs_layers` are satisfiable (a parsed text, the sequence `[expand_subcircuits]`, a
bounded result) -/
example : ∃ cfg txt π c c', parseProgram cfg txt = .ok c ∧ onlyMacrosSubs π = true ∧ applySeq π c = .ok c' ∧
    IntsBounded c' := by
  obtain ⟨c, c', t, hp, _, ha, hi, _⟩ := C10_text_subs_refuted
  refine ⟨{}, cxText, [.subs], c, c', hp, rfl, ?_, hi⟩
  simp only [applySeq, ha]; rfl

end Jaqal.Passes

#print axioms Jaqal.Passes.C10_printable_macros
#print axioms Jaqal.Passes.C10_namesOK_macros
#print axioms Jaqal.Passes.C10_lexsafe_macros
#print axioms Jaqal.Passes.C10_qualC_parsed
#print axioms Jaqal.Passes.C10_qualC_subs
#print axioms Jaqal.Passes.C10_layersAB_macros_subs
#print axioms Jaqal.Passes.C10_text_macros_subs_layers
#print axioms Jaqal.Passes.C10_text_macros_subs_partial
#print axioms Jaqal.Passes.C10_text_macros_layers
#print axioms Jaqal.Passes.C10_printable_parsed_macros_subs
#print axioms Jaqal.Passes.C10_text_macros_partial
#print axioms Jaqal.Passes.C10_printable_map
#print axioms Jaqal.Passes.C10_namesOK_macros_needs_qual
#print axioms Jaqal.Passes.C10_printable_full_refuted
#print axioms Jaqal.Passes.C10_macros_example
