import Mathlib.Data.List.Nodup
import JaqalModel.Model.Result
import JaqalProofs.Lemmas.ResultBits
import JaqalProofs.Lemmas.ResultHist
import JaqalProofs.Lemmas.ResultNorm
/-!
# C15 — result views normalised and consistent

Model: `JaqalModel/Model/Result.lean` (`Readout.as_str`, `int(s[::-1], 2)` of `OutputParser.process_trace`,
the keys of the `*_by_str` views, `accept_readout`, `ProbabilisticSubcircuit.__init__` over `Rat`).

Everything below is proved at full strength (no `_partial` theorems).  Two boundaries of the real code are
stated as theorems rather than hidden: `C15_as_str_overflow` (an outcome `n ≥ 2^k` yields a string longer than
`k`; `Readout` does not guard it) and `C15_as_str_zero_qubits` (`k = 0` yields the one-character string `"0"`).
The normalisation theorems are over exact rationals; in the implementation the sum is one only up to
floating-point rounding (runtime check, labelled in the harness).
-/
namespace Jaqal.Result

/-! ## Readout: string form ↔ integer form -/

theorem asStr_toList (k n : Nat) : (asStr k n).toList = (lowBits (width k n) n).map bitChar := by
  unfold asStr; rw [String.toList_ofList, asBits_eq]

theorem asStr_length (k n : Nat) : (asStr k n).length = width k n := by
  unfold asStr; rw [String.length_ofList, asBits_eq]; simp [lowBits]

/-- A readout of `k` qubits has exactly `k` characters. -/
theorem C15_as_str_length {k n : Nat} (hk : 0 < k) (h : n < 2 ^ k) : (asStr k n).length = k := by
  rw [asStr_length, width_of_lt hk h]

example : (asStr 3 6).length = 3 := C15_as_str_length (by decide) (by decide)
example : asStr 3 6 = "011" := by decide

/-- Character `i` of the string is bit `i` of the integer: qubit 0 = least-significant bit = leftmost character. -/
theorem C15_as_str_bit {k n i : Nat} (h : n < 2 ^ k) (hi : i < k) :
    (asStr k n).toList[i]? = some (if n.testBit i then '1' else '0') := by
  rw [asStr_toList, width_of_lt (by omega) h]
  simp [lowBits, hi, bitChar]

example : (asStr 3 1).toList[0]? = some '1' := by
  have := C15_as_str_bit (k := 3) (n := 1) (i := 0) (by decide) (by decide); simpa using this
example : asStr 3 1 = "100" := by decide

/-- The string form read back as `int(s[::-1], 2)` is the integer, for every `k` and `n` (even out of range). -/
theorem C15_roundtrip_all (k n : Nat) : ofStr (asStr k n) = some n := by
  unfold ofStr
  rw [asStr_toList]
  have hw : 0 < width k n := by unfold width; omega
  rw [intBase2_bits _ (by
    intro h
    have := congrArg List.length h
    rw [lowBits_length] at this
    simp at this; omega), valLSB_lowBits]
  congr 1
  apply Nat.mod_eq_of_lt
  exact Nat.lt_of_lt_of_le (lt_two_pow_bitLen n)
    (Nat.pow_le_pow_right (by omega) (by unfold width; omega))

theorem C15_roundtrip {k n : Nat} (_hk : 0 < k) (_h : n < 2 ^ k) : ofStr (asStr k n) = some n :=
  C15_roundtrip_all k n

example : ofStr (asStr 4 11) = some 11 := C15_roundtrip (by decide) (by decide)

/-- Conversely every `k`-character 0/1 string is the string form of exactly the integer it is read as:
hardware outputs given as strings or as integers are interpreted identically. -/
theorem C15_roundtrip_conv {k : Nat} {s : String} (hl : s.length = k)
    (hc : ∀ c ∈ s.toList, c = '0' ∨ c = '1') (hk : 0 < k) :
    ∃ n, n < 2 ^ k ∧ ofStr s = some n ∧ asStr k n = s := by
  let l : List Bool := s.toList.map (fun c => c == '1')
  have hlen : l.length = k := by simp [l, ← hl, String.length_toList]
  have hs : s.toList = l.map bitChar := (chars_eq_map_bitChar s.toList hc).symm
  have hne : l ≠ [] := by intro h; rw [h] at hlen; simp at hlen; omega
  have hlt : valLSB l < 2 ^ k := by rw [← hlen]; exact valLSB_lt l
  refine ⟨valLSB l, hlt, ?_, ?_⟩
  · unfold ofStr; rw [hs]; exact intBase2_bits l hne
  · unfold asStr
    rw [asBits_eq, width_of_lt hk hlt]
    conv => lhs; rw [← hlen, lowBits_valLSB, ← hs]
    exact String.ofList_toList

example : ∃ n, n < 2 ^ 3 ∧ ofStr "110" = some n ∧ asStr 3 n = "110" :=
  C15_roundtrip_conv (by decide) (by decide) (by decide)
example : ofStr "110" = some 3 := by decide

/-- The unguarded boundary: for `n ≥ 2^k` the code produces the full binary expansion, which is longer than
`k` characters (it still reads back as `n`, and its characters are still the bits of `n`). -/
theorem C15_as_str_overflow {k n : Nat} (h : 2 ^ k ≤ n) :
    (asStr k n).length = n.log2 + 1 ∧ k < (asStr k n).length ∧ ofStr (asStr k n) = some n ∧
    ∀ i, i < n.log2 + 1 → (asStr k n).toList[i]? = some (if n.testBit i then '1' else '0') := by
  obtain ⟨h1, h2⟩ := width_of_ge h
  refine ⟨by rw [asStr_length, h1], by rw [asStr_length, h1]; exact h2, C15_roundtrip_all k n, ?_⟩
  intro i hi
  rw [asStr_toList, h1]
  simp [lowBits, hi, bitChar]

example : asStr 2 5 = "101" ∧ (asStr 2 5).length = 3 := by decide

/-- The other boundary: a subcircuit with no measured qubit renders its only outcome as `"0"` (one character). -/
theorem C15_as_str_zero_qubits : asStr 0 0 = "0" ∧ (asStr 0 0).length = 1 := by decide

/-! ## The two views of a subcircuit -/

theorem viewKeys_getElem? (k len n : Nat) (h : n < len) : (viewKeys k len)[n]? = some (asStr k n) := by
  unfold viewKeys
  rw [List.getElem?_map, List.getElem?_range h]; rfl

/-- The string-keyed view lists each of the `2^k` bit strings exactly once, in integer order:
entry `n` has key `asStr k n` (so `by_str[key n] = by_int[n]`, the values being paired by `enumerate`). -/
theorem C15_view_keys {k : Nat} (hk : 0 < k) :
    (viewKeys k (2 ^ k)).length = 2 ^ k ∧
    (viewKeys k (2 ^ k)).Nodup ∧
    (∀ n, n < 2 ^ k → (viewKeys k (2 ^ k))[n]? = some (asStr k n)) ∧
    (∀ s : String, s.length = k → (∀ c ∈ s.toList, c = '0' ∨ c = '1') → s ∈ viewKeys k (2 ^ k)) ∧
    (∀ s ∈ viewKeys k (2 ^ k), s.length = k ∧ ∀ c ∈ s.toList, c = '0' ∨ c = '1') := by
  refine ⟨by simp [viewKeys], ?_, fun n h => viewKeys_getElem? k _ n h, ?_, ?_⟩
  · unfold viewKeys
    apply List.Nodup.map_on _ List.nodup_range
    intro a _ b _ hab
    have := congrArg ofStr hab
    rw [C15_roundtrip_all, C15_roundtrip_all] at this
    exact Option.some.inj this
  · intro s hl hc
    obtain ⟨n, hn, -, rfl⟩ := C15_roundtrip_conv hl hc hk
    unfold viewKeys
    exact List.mem_map.mpr ⟨n, List.mem_range.mpr hn, rfl⟩
  · intro s hs
    unfold viewKeys at hs
    obtain ⟨n, hn, rfl⟩ := List.mem_map.mp hs
    have hn := List.mem_range.mp hn
    refine ⟨C15_as_str_length hk hn, ?_⟩
    intro c hc
    rw [asStr_toList] at hc
    obtain ⟨b, -, rfl⟩ := List.mem_map.mp hc
    cases b <;> simp [bitChar]

example : viewKeys 2 (2 ^ 2) = ["00", "10", "01", "11"] := by decide

/-- Keys are pairwise distinct whatever the vector length (the `OrderedDict` never merges two entries). -/
theorem C15_view_keys_nodup (k len : Nat) : (viewKeys k len).Nodup := by
  unfold viewKeys
  apply List.Nodup.map_on _ List.nodup_range
  intro a _ b _ hab
  have := congrArg ofStr hab
  rw [C15_roundtrip_all, C15_roundtrip_all] at this
  exact Option.some.inj this

/-! ## Relative frequencies are the counts of the recorded readouts -/

theorem C15_histogram {len i : Nat} (outs : List Nat) (hi : i < len) :
    (histogram len outs)[i]? = some (outs.count i) := by
  rw [histogram_getElem?, if_pos hi]

theorem C15_histogram_sum {len : Nat} {outs : List Nat} (h : ∀ o ∈ outs, o < len) :
    (histogram len outs).sum = outs.length := by
  rw [histogram_sum, List.filter_eq_self.mpr (by simpa using h)]

/-- The code path that exists (`relative_frequencies[as_int] += 1` one readout at a time, `IndexError` on an
outcome `≥ len`) computes exactly the histogram, and fails exactly when some outcome is out of range. -/
theorem C15_accept_all (len : Nat) (outs : List Nat) :
    acceptAll len outs = if ∀ o ∈ outs, o < len then some (histogram len outs) else none := by
  unfold acceptAll
  rw [← histogram_nil, foldlM_bump]; simp

example : histogram 4 [1, 3, 1, 0] = [1, 2, 0, 1] := by decide
example : (histogram 4 [1, 3, 1, 0]).sum = 4 := C15_histogram_sum (by decide)
example : acceptAll 4 [1, 3, 1, 0] = some [1, 2, 0, 1] := by decide
example : acceptAll 4 [1, 4] = none := by decide

/-! ## Probabilities: clip, renormalise, warn / raise -/

/-- Whenever the constructor does not raise, the stored probabilities are non-negative, sum to one (exactly,
over the rationals) and there is one per input entry. -/
theorem C15_normalize {p q : List Rat} {w : Bool} (h : normalize p = .ok (q, w)) :
    (∀ x ∈ q, 0 ≤ x) ∧ q.sum = 1 ∧ q.length = p.length := by
  rw [normalize_eq] at h
  cases he : normErr p with
  | none => rw [he] at h; simp at h
  | some e =>
    rw [he] at h
    simp only at h
    split_ifs at h with hf
    simp only [Except.ok.injEq, Prod.mk.injEq] at h
    obtain ⟨rfl, -⟩ := h
    apply renorm_spec
    intro ht
    have := normErr_total_zero he ht
    have := cutoffFail_lt_one
    exact hf (by linarith)

/-- What is stored, the warning flag, and when: the clipped vector divided by its sum; accepted exactly when
the error is at most `CUTOFF_FAIL`; a warning exactly when it exceeds `CUTOFF_WARN`. -/
theorem C15_normalize_ok_iff (p q : List Rat) (w : Bool) :
    normalize p = .ok (q, w) ↔
      ∃ e, normErr p = some e ∧ e ≤ cutoffFail ∧ q = renorm p ∧ w = decide (cutoffWarn < e) := by
  rw [normalize_eq]
  cases he : normErr p with
  | none => simp
  | some e =>
    simp only [Option.some.injEq, exists_eq_left']
    split_ifs with hf
    · simp only [false_iff, not_and]
      intro h; exact absurd hf (not_lt.mpr h)
    · simp only [Except.ok.injEq, Prod.mk.injEq]
      constructor
      · rintro ⟨rfl, rfl⟩; exact ⟨not_lt.mp hf, rfl, rfl⟩
      · rintro ⟨-, rfl, rfl⟩; exact ⟨rfl, rfl⟩

/-- A vector that already is a distribution is stored unchanged, without a warning. -/
theorem C15_normalize_id {p : List Rat} (h : ∀ x ∈ p, 0 ≤ x ∧ x ≤ 1) (hs : p.sum = 1) :
    normalize p = .ok (p, false) := by
  have hp : p ≠ [] := by intro h0; rw [h0] at hs; simp at hs
  have hc := clipped_of_unit h
  have ht : total p = 1 := by unfold total; rw [hc, hs]
  rw [C15_normalize_ok_iff]
  refine ⟨0, ?_, ?_, ?_, ?_⟩
  · unfold normErr; rw [clipErr_of_unit hp h]
    simp [totalErr, ht, absR, pyMax]
  · have := cutoffWarn_nonneg; have := cutoffWarn_le_fail; linarith
  · rw [renorm_of_total_one ht, hc]
  · have := cutoffWarn_nonneg
    simp [not_lt.mpr this]

/-- The constructor raises `RuntimeError` exactly when the error `max(total_err, clip_err)` exceeds
`CUTOFF_FAIL` (this includes a vector whose clipped sum is zero: then `total_err = 1`), and `ValueError`
(numpy: `max` of an empty array) exactly on the empty vector. -/
theorem C15_normalize_reject (p : List Rat) :
    (normalize p = .error "runtime" ↔ ∃ e, normErr p = some e ∧ cutoffFail < e) ∧
    (normalize p = .error "value" ↔ p = []) ∧
    (∀ msg, normalize p = .error msg → msg = "runtime" ∨ msg = "value") := by
  rw [normalize_eq]
  cases he : normErr p with
  | none =>
    have : p = [] := by
      unfold normErr at he
      simpa [clipErr_eq_none] using he
    simp [this]
  | some e =>
    have : p ≠ [] := by
      intro h0; rw [h0] at he; simp [normErr, clipErr, maxList] at he
    simp only [Option.some.injEq, exists_eq_left']
    split_ifs with hf <;> simp [hf, this]

example : normalize [1/2, 1/4, 1/4] = .ok ([1/2, 1/4, 1/4], false) :=
  C15_normalize_id (by decide +kernel) (by decide +kernel)
example : normalize [1/2, 1/2 + 1/1000000] = .ok ([500000/1000001, 500001/1000001], true) := by decide +kernel
example : normalize [-1/1000000, 1/2, 1/2] = .ok ([0, 1/2, 1/2], true) := by decide +kernel
example : normalize [1/2, 1/4] = .error "runtime" := by decide +kernel
example : normalize [0, 0] = .error "runtime" := by decide +kernel
example : normalize [] = .error "value" := by decide +kernel
example : ∃ e, normErr [1/2, 1/4] = some e ∧ cutoffFail < e := ⟨1/4, by decide +kernel, by decide +kernel⟩

end Jaqal.Result

#print axioms Jaqal.Result.C15_as_str_length
#print axioms Jaqal.Result.C15_as_str_bit
#print axioms Jaqal.Result.C15_roundtrip_all
#print axioms Jaqal.Result.C15_roundtrip
#print axioms Jaqal.Result.C15_roundtrip_conv
#print axioms Jaqal.Result.C15_as_str_overflow
#print axioms Jaqal.Result.C15_as_str_zero_qubits
#print axioms Jaqal.Result.C15_view_keys
#print axioms Jaqal.Result.C15_view_keys_nodup
#print axioms Jaqal.Result.C15_histogram
#print axioms Jaqal.Result.C15_histogram_sum
#print axioms Jaqal.Result.C15_accept_all
#print axioms Jaqal.Result.C15_normalize
#print axioms Jaqal.Result.C15_normalize_ok_iff
#print axioms Jaqal.Result.C15_normalize_id
#print axioms Jaqal.Result.C15_normalize_reject
