import JaqalModel.Model.Result
/-! C15 — placeholder until the proofs land. -/
