import JaqalProofs.Lemmas.PyEq
import JaqalProofs.Lemmas.PyEqSymm
import JaqalProofs.Lemmas.Generator
import JaqalProofs.Lemmas.GeneratorTotal
import JaqalProofs.Lemmas.PyEqSound
import JaqalModel.Spec.Sem
/-!
# C20 — circuit equality

`PyEq.circuitEq a b : Bool` is Python's `a == b` on circuits (after the repairs `042b591`, `dd507cc` no `__eq__`
can raise: only stored attributes are read).

* `C20_refl`            — `c == c` is `True` for every constructible circuit (`WF`: dictionaries have distinct keys —
  a representation invariant of the lists that stand for `dict`s — and every `NamedQubit` has a source with a name).
* `C20_symm`            — `a == b` is `b == a` for all circuits (only `DictKeys`: the lists standing for
  dictionaries have distinct keys); `C20_symm_value`, `C20_symm_stmt` without any hypothesis.
  `…Old`: the two branches of the former definitions that made symmetry fail, kept as documentation.
* `C20_discriminates_*` — one inversion lemma per field lens: if `==` is `True`, the two fields are equal
  (`valEq` for values); contrapositive: changing the field to a value that is not `==` gives `False`.
* `C20_sound`           — parser-like circuits (same macro definition order) that compare equal have identical
  declarations and the same gate-level meaning `Sem.meaning ρ` for every override environment `ρ`, numbers by value.
* generator lemmas for C01: `C20_gen_splice`, `C20_gen_names`, `C20_gen_total`.
-/
namespace Jaqal.C20
open Jaqal Jaqal.PyEq

/-! ## reflexivity -/

/-- `c == c` (numbers of the model are finite, so the NaN rule never applies). -/
theorem C20_refl (c : Circuit) (h : WF c) : circuitEq c c = true := circuitEq_refl c h

/-- Without a name on the source of a qubit, `q == q` is `False` by value (such a `NamedQubit` cannot be
constructed; an object would still equal itself through the identity shortcut of list comparison). -/
theorem C20_refl_needs_named_source : valEq (.qubit "q" (.int 3) (.int 0)) (.qubit "q" (.int 3) (.int 0)) = false := rfl

def gdG : GateDef := { name := "g", tag := .native, params := [("p0", .none)] }

/-- `let n 2; register r[n]; map a r[0:n:1]; map q a[1]; macro m x { g x }; subcircuit n { m q ; g r[idx] }` -/
def mkC (idx : Val) : Circuit :=
  let n := Val.const "n" (.int 2)
  let r := Val.regF "r" n
  let a := Val.regS "a" r (.int 0) n (.int 1)
  let q := Val.qubit "q" a (.int 1)
  { constants := [n], registers := [r, a, q],
    macros := [{ name := "m", params := [("x", .none)],
                 body := .block false false (.int 1) [.gate "g" gdG [("p0", .param "x" .none)]] }],
    body := .block false false (.int 1)
      [.block false true n [.gate "m" { name := "m", tag := .macro, params := [("x", .none)] } [("x", q)],
                            .gate "g" gdG [("p0", .qubit "r[1]" r idx)]]] }

def exC : Circuit := mkC (.int 1)

theorem mkC_dictKeys (idx : Val) : DictKeys (mkC idx) :=
  ⟨by simp [mkC, Val.name?], by simp [mkC, Val.name?], by simp [mkC], by simp [mkC]⟩
theorem exC_dictKeys : DictKeys exC := mkC_dictKeys _

example : WF exC := by
  refine { toDictKeys := exC_dictKeys, consts := ?_, regs := ?_, macros := ?_, body := ?_ } <;>
    simp [exC, mkC, wfVal, wfStmt, wfStmts, Val.name?, gdG]

/-! ## symmetry -/

theorem C20_symm_value (a b : Val) : valEq a b = valEq b a := valEq_symm a b
theorem C20_symm_stmt (s t : Stmt) : stmtEq s t = stmtEq t s := stmtEq_symm s t

/-- `a == b` is `b == a`. `DictKeys` only says that the lists standing for the four dictionaries have distinct
keys; see `C20_symm_needs_dictKeys`. -/
theorem C20_symm (a b : Circuit) (ha : DictKeys a) (hb : DictKeys b) : circuitEq a b = circuitEq b a :=
  circuitEq_symm a b ha hb

example : DictKeys exC := exC_dictKeys

/-- a list with a repeated key is not a dictionary, and `dictEq` on it is not symmetric -/
theorem C20_symm_needs_dictKeys :
    let a : Circuit := { constants := [.const "n" (.int 1), .const "n" (.int 1)] }
    let b : Circuit := { constants := [.const "n" (.int 1), .const "k" (.int 1)] }
    circuitEq a b = true ∧ circuitEq b a = false := by
  constructor <;> simp [circuitEq, dictEq, valEq, Val.name?, Num.veq, stmtEq, stmtsEq, listEqB]

/-! ### the former definitions (before `042b591`, `dd507cc`), for the record -/

/-- `.kind` of a `Constant` -/
def constKind : Val → Kind
  | .int _ => .int
  | .flt _ => .float
  | .const _ v => constKind v
  | _ => .none

/-- former `AnnotatedValue.__eq__` of a `Parameter` against a `Constant`: name and kind (a constant HAS a kind);
the reverse, `Constant.__eq__`, read `other.value` → `AttributeError` → `False` -/
def paramEqConstOld (n : String) (k : Kind) (n' : String) (v' : Val) : Bool := n == n' && k == constKind v'
def constEqParamOld (_n : String) (_v : Val) (_n' : String) (_k' : Kind) : Bool := false

theorem C20_symm_counterexample_valueOld :
    paramEqConstOld "n" .int "n" (.int 1) = true ∧ constEqParamOld "n" (.int 1) "n" .int = false := ⟨rfl, rfl⟩

/-- former `Register.__eq__` of a fundamental register against a whole-register alias of the same name:
`self.size == other.size`, where `other.size` resolved the alias (here: to the size of its source); the reverse
compared `alias_from == None` -/
def regFEqAliasOld (n : String) (size : Val) (n' : String) (srcSize : Val) : Bool := n == n' && valEq size srcSize
def aliasEqRegFOld (_n : String) (src : Val) (_n' : String) : Bool := valEq src .none

/-- `register r[2]` against `map r q` with `register q[2]`: `True` one way, `False` the other — and `r[0]` is a
different qubit in the two circuits. (`other.size` could also raise: `map r q[0:2:z]` with `let z 0`.) -/
theorem C20_symm_counterexample_registerOld :
    regFEqAliasOld "r" (.int 2) "r" (.int 2) = true ∧ aliasEqRegFOld "r" (.regF "q" (.int 2)) "r" = false := ⟨rfl, rfl⟩

/-- now: `False` both ways -/
theorem C20_register_vs_alias (n n' : String) (size src : Val) :
    valEq (.regF n size) (.regA n' src) = false ∧ valEq (.regA n' src) (.regF n size) = false := ⟨rfl, rfl⟩
theorem C20_param_vs_const (n n' : String) (k : Kind) (v : Val) :
    valEq (.param n k) (.const n' v) = false ∧ valEq (.const n' v) (.param n k) = false := ⟨rfl, rfl⟩

/-! ## discrimination: one inversion lemma per field -/

theorem C20_discriminates_circuit {a b : Circuit} (h : circuitEq a b = true) :
    dictEq Val.name? valEq a.constants b.constants = true ∧
    dictEq (fun m => some m.name) macroEq a.macros b.macros = true ∧
    dictEq (fun g => some g.name) gateDefEq a.natives b.natives = true ∧
    dictEq Val.name? valEq a.registers b.registers = true ∧
    stmtEq a.body b.body = true ∧
    listEqB usepulsesEq a.usepulses b.usepulses = true := by
  simpa [circuitEq, and_assoc] using h

/-- every declaration of `a` (let, register, alias, macro, native gate) has an equal one under the same name in `b`,
and there are equally many -/
theorem C20_discriminates_dict {α} {key : α → Option String} {eq : α → α → Bool} {a b : List α}
    (h : dictEq key eq a b = true) :
    a.length = b.length ∧ ∀ x ∈ a, ∃ y ∈ b, key y = key x ∧ eq x y = true := dictEq_true h

theorem C20_discriminates_usepulses : ∀ {a b : List (String × String)}, listEqB usepulsesEq a b = true → a = b
  | [], [], _ => rfl
  | [], _ :: _, h => by simp [listEqB] at h
  | _ :: _, [], h => by simp [listEqB] at h
  | (x1, x2) :: xs, (y1, y2) :: ys, h => by
    simp only [listEqB, usepulsesEq, Bool.and_eq_true, beq_iff_eq] at h
    obtain ⟨⟨rfl, rfl⟩, h⟩ := h
    rw [C20_discriminates_usepulses h]

theorem C20_discriminates_macro {a b : Macro} (h : macroEq a b = true) :
    a.name = b.name ∧ a.params = b.params ∧ stmtEq a.body b.body = true := by
  simpa [macroEq, paramsEq, and_assoc] using h

theorem C20_discriminates_gatedef {a b : GateDef} (h : gateDefEq a b = true) : a.name = b.name ∧ a.params = b.params := by
  simpa [gateDefEq, paramsEq] using h

/-- gate name and (position by position) every argument; the `GateDefinition` beyond its name and the keyword names
of the arguments are NOT compared -/
theorem C20_discriminates_gate {n n' : String} {g g' : GateDef} {args args' : List (String × Val)}
    (h : stmtEq (.gate n g args) (.gate n' g' args') = true) : n = n' ∧ argsEq args args' = true := by
  simpa [stmtEq] using h

/-- the `i`-th argument: two argument lists that agree in length up to a position must have `==` values there -/
theorem C20_discriminates_argument : ∀ {pre pre' post post' : List (String × Val)} {x y : String × Val},
    pre.length = pre'.length → argsEq (pre ++ x :: post) (pre' ++ y :: post') = true → valEq x.2 y.2 = true
  | [], [], _, _, _, _, _, h => by
    simp only [List.nil_append, argsEq, Bool.and_eq_true] at h
    exact h.1
  | [], _ :: _, _, _, _, _, hl, _ => by simp at hl
  | _ :: _, [], _, _, _, _, hl, _ => by simp at hl
  | a :: pre, b :: pre', _, _, _, _, hl, h => by
    simp only [List.cons_append, argsEq, Bool.and_eq_true] at h
    exact C20_discriminates_argument (by simpa using hl) h.2

/-- a missing / extra argument: `zip_longest` pads with `None`, so a real argument is compared with `None` -/
theorem C20_discriminates_arity {x : String × Val} {rest : List (String × Val)}
    (h : argsEq (x :: rest) [] = true) : x.2 = .none := by
  simp only [argsEq, Bool.and_eq_true] at h
  cases hx : x.2 <;> simp [hx, valEq] at h
  rfl

/-- block kind, subcircuit flag, iteration count, number of statements, the statements -/
theorem C20_discriminates_block {par sub par' sub' : Bool} {it it' : Val} {body body' : List Stmt}
    (h : stmtEq (.block par sub it body) (.block par' sub' it' body') = true) :
    par = par' ∧ sub = sub' ∧ valEq it it' = true ∧ body.length = body'.length ∧ stmtsEq body body' = true := by
  simpa [stmtEq, and_assoc] using h

/-- the `i`-th statement of a block -/
theorem C20_discriminates_statement : ∀ {pre pre' post post' : List Stmt} {x y : Stmt},
    pre.length = pre'.length → stmtsEq (pre ++ x :: post) (pre' ++ y :: post') = true → stmtEq x y = true
  | [], [], _, _, _, _, _, h => by
    simp only [List.nil_append, stmtsEq, Bool.and_eq_true] at h
    exact h.1
  | [], _ :: _, _, _, _, _, hl, _ => by simp at hl
  | _ :: _, [], _, _, _, _, hl, _ => by simp at hl
  | a :: pre, b :: pre', _, _, _, _, hl, h => by
    simp only [List.cons_append, stmtsEq, Bool.and_eq_true] at h
    exact C20_discriminates_statement (by simpa using hl) h.2

/-- loop count and loop body -/
theorem C20_discriminates_loop {c c' : Val} {b b' : Stmt} (h : stmtEq (.loop c b) (.loop c' b') = true) :
    valEq c c' = true ∧ stmtEq b b' = true := by
  simpa [stmtEq] using h

/-- statements of different kinds are never equal -/
theorem C20_discriminates_kind (s t : Stmt) (h : stmtEq s t = true) :
    (∃ n g a n' g' a', s = .gate n g a ∧ t = .gate n' g' a') ∨
    (∃ p q i b p' q' i' b', s = .block p q i b ∧ t = .block p' q' i' b') ∨
    (∃ c b c' b', s = .loop c b ∧ t = .loop c' b') := by
  cases s <;> cases t <;> simp [stmtEq] at h ⊢

/-- values of different classes are never equal, except an `int` and a `float` of the same value -/
theorem C20_discriminates_class (a b : Val) (h : valEq a b = true) :
    (a.isNum ∧ b.isNum) ∨ (a = .none ∧ b = .none) ∨ (∃ s, a = .str s ∧ b = .str s) ∨
    (∃ n v v', a = .const n v ∧ b = .const n v') ∨ (∃ n k, a = .param n k ∧ b = .param n k) ∨
    (∃ n s i s' i', a = .qubit n s i ∧ b = .qubit n s' i') ∨ (∃ n s s', a = .regF n s ∧ b = .regF n s') ∨
    (∃ n s s', a = .regA n s ∧ b = .regA n s') ∨
    (∃ n s x y z s' x' y' z', a = .regS n s x y z ∧ b = .regS n s' x' y' z') := by
  cases a <;> cases b <;> simp [valEq, Val.isNum] at h ⊢ <;> simp_all

/-- let value (and name) -/
theorem C20_discriminates_const {n n' : String} {v v' : Val} (h : valEq (.const n v) (.const n' v') = true) :
    n = n' ∧ valEq v v' = true := by
  simpa [valEq] using h

/-- parameter: name and kind -/
theorem C20_discriminates_param {n n' : String} {k k' : Kind} (h : valEq (.param n k) (.param n' k') = true) :
    n = n' ∧ k = k' := by
  simpa [valEq] using h

/-- qubit: its name, the NAME of its register, its index. The definition of the register is NOT compared here
(it is compared in the register dictionary: registers are declared once). -/
theorem C20_discriminates_qubit {n n' : String} {s s' i i' : Val} (h : valEq (.qubit n s i) (.qubit n' s' i') = true) :
    n = n' ∧ (∃ x, s.name? = some x ∧ s'.name? = some x) ∧ valEq i i' = true := by
  simp only [valEq, Bool.and_eq_true, beq_iff_eq] at h
  obtain ⟨⟨h1, h2⟩, h3⟩ := h
  refine ⟨h1, ?_, h3⟩
  cases hs : s.name? <;> cases hs' : s'.name? <;> simp [hs, hs'] at h2
  exact ⟨_, rfl, by rw [h2]⟩

/-- register size (and name) -/
theorem C20_discriminates_regF {n n' : String} {s s' : Val} (h : valEq (.regF n s) (.regF n' s') = true) :
    n = n' ∧ valEq s s' = true := by
  simpa [valEq] using h

/-- whole-register alias: name and source -/
theorem C20_discriminates_regA {n n' : String} {s s' : Val} (h : valEq (.regA n s) (.regA n' s') = true) :
    n = n' ∧ valEq s s' = true := by
  simpa [valEq] using h

/-- slice alias: name, source, start, stop, step -/
theorem C20_discriminates_regS {n n' : String} {s s' a a' b b' c c' : Val}
    (h : valEq (.regS n s a b c) (.regS n' s' a' b' c') = true) :
    n = n' ∧ valEq s s' = true ∧ valEq a a' = true ∧ valEq b b' = true ∧ valEq c c' = true := by
  simpa [valEq, and_assoc] using h

/-- numbers compare by value -/
theorem C20_discriminates_number (x y : Num) : valEq (Val.ofNum x) (Val.ofNum y) = Num.veq x y := by
  cases x <;> cases y <;> simp [Val.ofNum, valEq]

/-! ### completeness of the lens list
`Val`: int/flt (`number`), const (name, value), param (name, kind), qubit (name, src: NAME ONLY, idx), regF (name,
size), regA (name, src), regS (name, src, start, stop, step), none, str; different constructors: `class`.
`Stmt`: gate (name, args by position; IGNORED: `gd` beyond the name, the keyword of each argument),
block (par, sub, iters, body), loop (count, body); different constructors: `kind`. `Macro`: name, params, body.
`GateDef`: name, params (IGNORED: tag, hasUnitary). `Circuit`: usepulses, constants, registers, macros, natives, body.
Ignored fields and meaning: `gd`/keywords/tag/hasUnitary do not occur in `Sem.evalStmt`
(`C20_ignored_fields_meaningless`); the source of a qubit beyond its name is fixed by the register dictionary for
circuits whose registers are declared once (used in `C20_sound`). -/

/-- `Sem.evalStmt` does not look at the gate definition stored in a gate statement, nor at argument keywords. -/
theorem C20_ignored_fields_meaningless (ρ md b) (n : String) (g g' : GateDef) (args args' : List (String × Val))
    (h : args.map (·.2) = args'.map (·.2)) :
    Sem.evalStmt ρ md b (.gate n g args) = Sem.evalStmt ρ md b (.gate n g' args') := by
  have : ∀ (l l' : List (String × Val)), l.map (·.2) = l'.map (·.2) →
      l.mapM (fun a => Sem.evalArg ρ b a.2) = l'.mapM (fun a => Sem.evalArg ρ b a.2) := by
    intro l
    induction l with
    | nil => intro l' h; cases l' <;> simp_all
    | cons a as ih =>
      intro l' h
      cases l' with
      | nil => simp at h
      | cons c cs =>
        simp only [List.map_cons, List.cons.injEq] at h
        rw [List.mapM_cons, List.mapM_cons, ih cs h.2, h.1]
  simp only [Sem.evalStmt, this args args' h]

/-! ## soundness with respect to the gate-level meaning -/

/-- `Sem.veq` on results: both fail, or both succeed with identical trees whose numeric arguments are `==`. -/
abbrev MeaningEq (x y : M Sem.Sem) : Prop := MRel SemRel x y

/-- Two parser-like circuits (`ParserLike`: dictionaries; every qubit reference has as its source the macro
parameter of that name or the register value bound in the circuit's own dictionary; no `None` argument) that list
their macros in the same definition order and compare equal have

* identical `let` declarations and identical register / alias declarations (name by name, numbers by value), and
* the same gate-level meaning under every override environment `ρ` (numbers by value: `1 == 1.0`).

`NamedQubit.__eq__` looks at `alias_from.name` only; the proof closes that gap with the register dictionaries
(`registers are declared once`), which `Circuit.__eq__` does compare. -/
theorem C20_sound (ρ : Sem.Env) (a b : Circuit) (ha : ParserLike a) (hb : ParserLike b)
    (horder : a.macros.map (·.name) = b.macros.map (·.name)) (h : circuitEq a b = true) :
    (a.constants.length = b.constants.length ∧
      ∀ x ∈ a.constants, ∃ y ∈ b.constants, y.name? = x.name? ∧ valEq x y = true) ∧
    (a.registers.length = b.registers.length ∧
      ∀ x ∈ a.registers, ∃ y ∈ b.registers, y.name? = x.name? ∧ valEq x y = true) ∧
    MeaningEq (Sem.meaning ρ a) (Sem.meaning ρ b) := by
  obtain ⟨h1, _, _, h4, _, _⟩ := C20_discriminates_circuit h
  exact ⟨dictEq_true h1, dictEq_true h4, meaning_rel ρ a b ha hb horder h⟩

/-- The statement without the hypothesis on the order of the macro dictionaries. NOT proved, and false for the
model as it stands: `Sem.denoteMacros` lets a macro call only the macros listed before it, `dict.__eq__` ignores
the order; `[m1, m2 calls m1]` against `[m2 calls m1, m1]` compare equal and denote differently. For circuits built
from text the order of the dictionary is the definition order and the builder refuses a macro whose name is already
used as a gate, so two equal parser-produced circuits do list their macros in the same order; making that an
invariant of `ParserLike` (calls go to earlier macros only) and deriving `horder` from it is what is missing. -/
def C20_sound_full : Prop :=
  ∀ (ρ : Sem.Env) (a b : Circuit), ParserLike a → ParserLike b → circuitEq a b = true →
    MeaningEq (Sem.meaning ρ a) (Sem.meaning ρ b)

theorem mkC_parserLike (idx : Val) : ParserLike (mkC idx) := by
  refine { toDictKeys := mkC_dictKeys idx, bodyOk := ?_, macrosOk := ?_ }
  · simp [mkC, StmtOk, StmtsOk, ArgOk, SrcOk, Val.name?]
  · intro m hm
    simp only [mkC, List.mem_singleton] at hm
    subst hm
    simp [StmtOk, StmtsOk, ArgOk]

example : ParserLike exC := mkC_parserLike _

/-- `exC` with the index of `r[1]` written as the float `1.0`: equal (`1 == 1.0`), same meaning -/
def exC' : Circuit := mkC (.flt ⟨false, 1, 0⟩)

example : ParserLike exC' ∧ circuitEq exC exC' = true ∧ exC.macros.map (·.name) = exC'.macros.map (·.name) ∧
    exC.body ≠ exC'.body := by
  refine ⟨mkC_parserLike _, ?_, rfl, by simp [exC, exC', mkC]⟩
  simp [circuitEq, dictEq, exC, exC', mkC, valEq, Val.name?, Num.veq, stmtEq, stmtsEq, argsEq, macroEq, paramsEq, listEqB,
    Dec.isIntegral, Dec.toInt]

/-! ## generator lemmas for C01 -/

/-- splicing same-kind non-subcircuit nested blocks does not change the generated text of a block -/
theorem C20_gen_splice (d : Nat) (par sub : Bool) (it : Val) (l l' : List Stmt)
    (h : Generator.flatItems par l = Generator.flatItems par l') :
    Generator.genStmt d (.block par sub it l) = Generator.genStmt d (.block par sub it l') :=
  Generator.genStmt_block_congr_flat d par sub it l l' h

/-- `{ g ; { h ; k } }` and `{ g ; h ; k }` -/
example (n1 n2 n3 : String) (d1 d2 d3 : GateDef) (a1 a2 a3 : List (String × Val)) :
    Generator.flatItems false [.gate n1 d1 a1, .block false false (.int 1) [.gate n2 d2 a2, .gate n3 d3 a3]]
      = Generator.flatItems false [.gate n1 d1 a1, .gate n2 d2 a2, .gate n3 d3 a3] := by
  simp [Generator.flatItems]

/-- registers, qubits, lets and parameters are written by name only -/
theorem C20_gen_names {v : Val} {n : String} (h : v.name? = some n) : Generator.genValue v = some n :=
  Generator.genValue_of_name h

/-- `generate_jaqal_program` raises nothing on a printable circuit -/
theorem C20_gen_total (c : Circuit) (h : Generator.Printable c) : ∃ s, Generator.gen c = .ok s :=
  Generator.gen_total c h

example : Generator.Printable exC := by
  refine ⟨by simp [exC, mkC], ?_, ?_, ?_, ⟨_, _, _, _, rfl, ?_⟩⟩
  · simp [exC, mkC, Generator.printableLet, Generator.printableVal, Generator.genValue]
  · simp [exC, mkC, Generator.printableReg, Generator.printableVal, Generator.genValue, Val.name?, Generator.plainBound]
  · intro m hm
    simp only [exC, mkC, List.mem_singleton] at hm
    subst hm
    exact ⟨_, _, _, _, rfl, by
      simp [Generator.printable, Generator.printableL, Generator.fmtOk, Generator.printableVal, Generator.genValue]⟩
  · simp [Generator.printable, Generator.printableL, Generator.fmtOk, Generator.printableVal, Generator.genValue,
      Generator.itersNe1]

end Jaqal.C20

#print axioms Jaqal.C20.C20_refl
#print axioms Jaqal.C20.C20_refl_needs_named_source
#print axioms Jaqal.C20.C20_symm_value
#print axioms Jaqal.C20.C20_symm_stmt
#print axioms Jaqal.C20.C20_symm
#print axioms Jaqal.C20.C20_symm_needs_dictKeys
#print axioms Jaqal.C20.C20_symm_counterexample_valueOld
#print axioms Jaqal.C20.C20_symm_counterexample_registerOld
#print axioms Jaqal.C20.C20_register_vs_alias
#print axioms Jaqal.C20.C20_param_vs_const
#print axioms Jaqal.C20.C20_discriminates_circuit
#print axioms Jaqal.C20.C20_discriminates_dict
#print axioms Jaqal.C20.C20_discriminates_usepulses
#print axioms Jaqal.C20.C20_discriminates_macro
#print axioms Jaqal.C20.C20_discriminates_gatedef
#print axioms Jaqal.C20.C20_discriminates_gate
#print axioms Jaqal.C20.C20_discriminates_argument
#print axioms Jaqal.C20.C20_discriminates_arity
#print axioms Jaqal.C20.C20_discriminates_block
#print axioms Jaqal.C20.C20_discriminates_statement
#print axioms Jaqal.C20.C20_discriminates_loop
#print axioms Jaqal.C20.C20_discriminates_kind
#print axioms Jaqal.C20.C20_discriminates_class
#print axioms Jaqal.C20.C20_discriminates_const
#print axioms Jaqal.C20.C20_discriminates_param
#print axioms Jaqal.C20.C20_discriminates_qubit
#print axioms Jaqal.C20.C20_discriminates_regF
#print axioms Jaqal.C20.C20_discriminates_regA
#print axioms Jaqal.C20.C20_discriminates_regS
#print axioms Jaqal.C20.C20_discriminates_number
#print axioms Jaqal.C20.C20_ignored_fields_meaningless
#print axioms Jaqal.C20.C20_sound
#print axioms Jaqal.C20.C20_gen_splice
#print axioms Jaqal.C20.C20_gen_names
#print axioms Jaqal.C20.C20_gen_total
