import JaqalProofs.Lemmas.PyEq
import JaqalProofs.Lemmas.PyEqSymm
import JaqalProofs.Lemmas.Generator
import JaqalProofs.Lemmas.GeneratorTotal
import JaqalProofs.Lemmas.PyEqSound
import JaqalProofs.Lemmas.ParsedParserLike
import JaqalModel.Spec.Sem
/-!
# C20 — circuit equality

`PyEq.circuitEq a b : Bool` is Python's `a == b` on circuits (after the repairs `042b591`, `dd507cc` no `__eq__`
can raise: only stored attributes are read).

* `C20_refl`            — `c == c` is `True` for every constructible circuit (`WF`: dictionaries have distinct keys —
  a representation invariant of the lists that stand for `dict`s — and every `NamedQubit` has a source with a name).
* `C20_symm`            — `a == b` is `b == a` for all circuits (only `DictKeys`: the lists standing for
  dictionaries have distinct keys); `C20_symm_value`, `C20_symm_stmt` without any hypothesis.
  `…Old`: the two branches of the former definitions that made symmetry fail, kept as documentation.
* `C20_discriminates_*` — one inversion lemma per field lens: if `==` is `True`, the two fields are equal
  (`valEq` for values); contrapositive: changing the field to a value that is not `==` gives `False`.
* `C20_sound`           — parser-like circuits (same macro definition order) that compare equal have identical
  declarations and the same gate-level meaning `Sem.meaning ρ` for every override environment `ρ`, numbers by value.
  `C20_sound_ordered`: the same without the common order (callees first in each list is enough).
* **`C20_sound_parsed`** — UNCONDITIONAL for what the parser produces: two circuits `parse_jaqal_string` returns
  (`autoload_pulses=False`, any `inject_pulses`, any two texts) that compare equal have identical declarations and the
  same meaning under every `ρ`.  Through `C20_sound_parsedLike` (the invariant `ParsedLike`, `Lemmas/PyEqSound.lean`,
  which — unlike `ParserLike` — holds of every parser-produced circuit: `parsed_parserLike`,
  `Lemmas/ParsedParserLike.lean`) and the order-independence of the macro table (`denote_look`).
  `C20_sound_full` (no order, no callees-first) is FALSE: `C20_sound_full_false`.
* generator lemmas for C01: `C20_gen_splice`, `C20_gen_names`, `C20_gen_total`.
-/
namespace Jaqal.C20
open Jaqal Jaqal.PyEq

/-! ## reflexivity -/

/-- `c == c` (numbers of the model are finite, so the NaN rule never applies). -/
theorem C20_refl (c : Circuit) (h : WF c) : circuitEq c c = true := circuitEq_refl c h

/-- Without a name on the source of a qubit, `q == q` is `False` by value (such a `NamedQubit` cannot be
constructed; an object would still equal itself through the identity shortcut of list comparison). -/
theorem C20_refl_needs_named_source : valEq (.qubit "q" (.int 3) (.int 0)) (.qubit "q" (.int 3) (.int 0)) = false := rfl

def gdG : GateDef := { name := "g", tag := .native, params := [("p0", .none)] }

/-- `let n 2; register r[n]; map a r[0:n:1]; map q a[1]; macro m x { g x }; subcircuit n { m q ; g r[idx] }` -/
def mkC (idx : Val) : Circuit :=
  let n := Val.const "n" (.int 2)
  let r := Val.regF "r" n
  let a := Val.regS "a" r (.int 0) n (.int 1)
  let q := Val.qubit "q" a (.int 1)
  { constants := [n], registers := [r, a, q],
    macros := [{ name := "m", params := [("x", .none)],
                 body := .block false false (.int 1) [.gate "g" gdG [("p0", .param "x" .none)]] }],
    body := .block false false (.int 1)
      [.block false true n [.gate "m" { name := "m", tag := .macro, params := [("x", .none)] } [("x", q)],
                            .gate "g" gdG [("p0", .qubit "r[1]" r idx)]]] }

def exC : Circuit := mkC (.int 1)

theorem mkC_dictKeys (idx : Val) : DictKeys (mkC idx) :=
  ⟨by simp [mkC, Val.name?], by simp [mkC, Val.name?], by simp [mkC], by simp [mkC]⟩
theorem exC_dictKeys : DictKeys exC := mkC_dictKeys _

example : WF exC := by
  refine { toDictKeys := exC_dictKeys, consts := ?_, regs := ?_, macros := ?_, body := ?_ } <;>
    simp [exC, mkC, wfVal, wfStmt, wfStmts, Val.name?, gdG]

/-! ## symmetry -/

theorem C20_symm_value (a b : Val) : valEq a b = valEq b a := valEq_symm a b
theorem C20_symm_stmt (s t : Stmt) : stmtEq s t = stmtEq t s := stmtEq_symm s t

/-- `a == b` is `b == a`. `DictKeys` only says that the lists standing for the four dictionaries have distinct
keys; see `C20_symm_needs_dictKeys`. -/
theorem C20_symm (a b : Circuit) (ha : DictKeys a) (hb : DictKeys b) : circuitEq a b = circuitEq b a :=
  circuitEq_symm a b ha hb

example : DictKeys exC := exC_dictKeys

/-- a list with a repeated key is not a dictionary, and `dictEq` on it is not symmetric -/
theorem C20_symm_needs_dictKeys :
    let a : Circuit := { constants := [.const "n" (.int 1), .const "n" (.int 1)] }
    let b : Circuit := { constants := [.const "n" (.int 1), .const "k" (.int 1)] }
    circuitEq a b = true ∧ circuitEq b a = false := by
  constructor <;> simp [circuitEq, dictEq, valEq, Val.name?, Num.veq, stmtEq, stmtsEq, listEqB]

/-! ### the former definitions (before `042b591`, `dd507cc`), for the record -/

/-- `.kind` of a `Constant` -/
def constKind : Val → Kind
  | .int _ => .int
  | .flt _ => .float
  | .const _ v => constKind v
  | _ => .none

/-- former `AnnotatedValue.__eq__` of a `Parameter` against a `Constant`: name and kind (a constant HAS a kind);
the reverse, `Constant.__eq__`, read `other.value` → `AttributeError` → `False` -/
def paramEqConstOld (n : String) (k : Kind) (n' : String) (v' : Val) : Bool := n == n' && k == constKind v'
def constEqParamOld (_n : String) (_v : Val) (_n' : String) (_k' : Kind) : Bool := false

theorem C20_symm_counterexample_valueOld :
    paramEqConstOld "n" .int "n" (.int 1) = true ∧ constEqParamOld "n" (.int 1) "n" .int = false := ⟨rfl, rfl⟩

/-- former `Register.__eq__` of a fundamental register against a whole-register alias of the same name:
`self.size == other.size`, where `other.size` resolved the alias (here: to the size of its source); the reverse
compared `alias_from == None` -/
def regFEqAliasOld (n : String) (size : Val) (n' : String) (srcSize : Val) : Bool := n == n' && valEq size srcSize
def aliasEqRegFOld (_n : String) (src : Val) (_n' : String) : Bool := valEq src .none

/-- `register r[2]` against `map r q` with `register q[2]`: `True` one way, `False` the other — and `r[0]` is a
different qubit in the two circuits. (`other.size` could also raise: `map r q[0:2:z]` with `let z 0`.) -/
theorem C20_symm_counterexample_registerOld :
    regFEqAliasOld "r" (.int 2) "r" (.int 2) = true ∧ aliasEqRegFOld "r" (.regF "q" (.int 2)) "r" = false := ⟨rfl, rfl⟩

/-- now: `False` both ways -/
theorem C20_register_vs_alias (n n' : String) (size src : Val) :
    valEq (.regF n size) (.regA n' src) = false ∧ valEq (.regA n' src) (.regF n size) = false := ⟨rfl, rfl⟩
theorem C20_param_vs_const (n n' : String) (k : Kind) (v : Val) :
    valEq (.param n k) (.const n' v) = false ∧ valEq (.const n' v) (.param n k) = false := ⟨rfl, rfl⟩

/-! ## discrimination: one inversion lemma per field -/

theorem C20_discriminates_circuit {a b : Circuit} (h : circuitEq a b = true) :
    dictEq Val.name? valEq a.constants b.constants = true ∧
    dictEq (fun m => some m.name) macroEq a.macros b.macros = true ∧
    dictEq (fun g => some g.name) gateDefEq a.natives b.natives = true ∧
    dictEq Val.name? valEq a.registers b.registers = true ∧
    stmtEq a.body b.body = true ∧
    listEqB usepulsesEq a.usepulses b.usepulses = true := by
  simpa [circuitEq, and_assoc] using h

/-- every declaration of `a` (let, register, alias, macro, native gate) has an equal one under the same name in `b`,
and there are equally many -/
theorem C20_discriminates_dict {α} {key : α → Option String} {eq : α → α → Bool} {a b : List α}
    (h : dictEq key eq a b = true) :
    a.length = b.length ∧ ∀ x ∈ a, ∃ y ∈ b, key y = key x ∧ eq x y = true := dictEq_true h

theorem C20_discriminates_usepulses : ∀ {a b : List (String × String)}, listEqB usepulsesEq a b = true → a = b
  | [], [], _ => rfl
  | [], _ :: _, h => by simp [listEqB] at h
  | _ :: _, [], h => by simp [listEqB] at h
  | (x1, x2) :: xs, (y1, y2) :: ys, h => by
    simp only [listEqB, usepulsesEq, Bool.and_eq_true, beq_iff_eq] at h
    obtain ⟨⟨rfl, rfl⟩, h⟩ := h
    rw [C20_discriminates_usepulses h]

theorem C20_discriminates_macro {a b : Macro} (h : macroEq a b = true) :
    a.name = b.name ∧ a.params = b.params ∧ stmtEq a.body b.body = true := by
  simpa [macroEq, paramsEq, and_assoc] using h

theorem C20_discriminates_gatedef {a b : GateDef} (h : gateDefEq a b = true) : a.name = b.name ∧ a.params = b.params := by
  simpa [gateDefEq, paramsEq] using h

/-- gate name and (position by position) every argument; the `GateDefinition` beyond its name and the keyword names
of the arguments are NOT compared -/
theorem C20_discriminates_gate {n n' : String} {g g' : GateDef} {args args' : List (String × Val)}
    (h : stmtEq (.gate n g args) (.gate n' g' args') = true) : n = n' ∧ argsEq args args' = true := by
  simpa [stmtEq] using h

/-- the `i`-th argument: two argument lists that agree in length up to a position must have `==` values there -/
theorem C20_discriminates_argument : ∀ {pre pre' post post' : List (String × Val)} {x y : String × Val},
    pre.length = pre'.length → argsEq (pre ++ x :: post) (pre' ++ y :: post') = true → valEq x.2 y.2 = true
  | [], [], _, _, _, _, _, h => by
    simp only [List.nil_append, argsEq, Bool.and_eq_true] at h
    exact h.1
  | [], _ :: _, _, _, _, _, hl, _ => by simp at hl
  | _ :: _, [], _, _, _, _, hl, _ => by simp at hl
  | a :: pre, b :: pre', _, _, _, _, hl, h => by
    simp only [List.cons_append, argsEq, Bool.and_eq_true] at h
    exact C20_discriminates_argument (by simpa using hl) h.2

/-- a missing / extra argument: `zip_longest` pads with `None`, so a real argument is compared with `None` -/
theorem C20_discriminates_arity {x : String × Val} {rest : List (String × Val)}
    (h : argsEq (x :: rest) [] = true) : x.2 = .none := by
  simp only [argsEq, Bool.and_eq_true] at h
  cases hx : x.2 <;> simp [hx, valEq] at h
  rfl

/-- block kind, subcircuit flag, iteration count, number of statements, the statements -/
theorem C20_discriminates_block {par sub par' sub' : Bool} {it it' : Val} {body body' : List Stmt}
    (h : stmtEq (.block par sub it body) (.block par' sub' it' body') = true) :
    par = par' ∧ sub = sub' ∧ valEq it it' = true ∧ body.length = body'.length ∧ stmtsEq body body' = true := by
  simpa [stmtEq, and_assoc] using h

/-- the `i`-th statement of a block -/
theorem C20_discriminates_statement : ∀ {pre pre' post post' : List Stmt} {x y : Stmt},
    pre.length = pre'.length → stmtsEq (pre ++ x :: post) (pre' ++ y :: post') = true → stmtEq x y = true
  | [], [], _, _, _, _, _, h => by
    simp only [List.nil_append, stmtsEq, Bool.and_eq_true] at h
    exact h.1
  | [], _ :: _, _, _, _, _, hl, _ => by simp at hl
  | _ :: _, [], _, _, _, _, hl, _ => by simp at hl
  | a :: pre, b :: pre', _, _, _, _, hl, h => by
    simp only [List.cons_append, stmtsEq, Bool.and_eq_true] at h
    exact C20_discriminates_statement (by simpa using hl) h.2

/-- loop count and loop body -/
theorem C20_discriminates_loop {c c' : Val} {b b' : Stmt} (h : stmtEq (.loop c b) (.loop c' b') = true) :
    valEq c c' = true ∧ stmtEq b b' = true := by
  simpa [stmtEq] using h

/-- statements of different kinds are never equal -/
theorem C20_discriminates_kind (s t : Stmt) (h : stmtEq s t = true) :
    (∃ n g a n' g' a', s = .gate n g a ∧ t = .gate n' g' a') ∨
    (∃ p q i b p' q' i' b', s = .block p q i b ∧ t = .block p' q' i' b') ∨
    (∃ c b c' b', s = .loop c b ∧ t = .loop c' b') := by
  cases s <;> cases t <;> simp [stmtEq] at h ⊢

/-- values of different classes are never equal, except an `int` and a `float` of the same value -/
theorem C20_discriminates_class (a b : Val) (h : valEq a b = true) :
    (a.isNum ∧ b.isNum) ∨ (a = .none ∧ b = .none) ∨ (∃ s, a = .str s ∧ b = .str s) ∨
    (∃ n v v', a = .const n v ∧ b = .const n v') ∨ (∃ n k, a = .param n k ∧ b = .param n k) ∨
    (∃ n s i s' i', a = .qubit n s i ∧ b = .qubit n s' i') ∨ (∃ n s s', a = .regF n s ∧ b = .regF n s') ∨
    (∃ n s s', a = .regA n s ∧ b = .regA n s') ∨
    (∃ n s x y z s' x' y' z', a = .regS n s x y z ∧ b = .regS n s' x' y' z') := by
  cases a <;> cases b <;> simp [valEq, Val.isNum] at h ⊢ <;> simp_all

/-- let value (and name) -/
theorem C20_discriminates_const {n n' : String} {v v' : Val} (h : valEq (.const n v) (.const n' v') = true) :
    n = n' ∧ valEq v v' = true := by
  simpa [valEq] using h

/-- parameter: name and kind -/
theorem C20_discriminates_param {n n' : String} {k k' : Kind} (h : valEq (.param n k) (.param n' k') = true) :
    n = n' ∧ k = k' := by
  simpa [valEq] using h

/-- qubit: its name, the NAME of its register, its index. The definition of the register is NOT compared here
(it is compared in the register dictionary: registers are declared once). -/
theorem C20_discriminates_qubit {n n' : String} {s s' i i' : Val} (h : valEq (.qubit n s i) (.qubit n' s' i') = true) :
    n = n' ∧ (∃ x, s.name? = some x ∧ s'.name? = some x) ∧ valEq i i' = true := by
  simp only [valEq, Bool.and_eq_true, beq_iff_eq] at h
  obtain ⟨⟨h1, h2⟩, h3⟩ := h
  refine ⟨h1, ?_, h3⟩
  cases hs : s.name? <;> cases hs' : s'.name? <;> simp [hs, hs'] at h2
  exact ⟨_, rfl, by rw [h2]⟩

/-- register size (and name) -/
theorem C20_discriminates_regF {n n' : String} {s s' : Val} (h : valEq (.regF n s) (.regF n' s') = true) :
    n = n' ∧ valEq s s' = true := by
  simpa [valEq] using h

/-- whole-register alias: name and source -/
theorem C20_discriminates_regA {n n' : String} {s s' : Val} (h : valEq (.regA n s) (.regA n' s') = true) :
    n = n' ∧ valEq s s' = true := by
  simpa [valEq] using h

/-- slice alias: name, source, start, stop, step -/
theorem C20_discriminates_regS {n n' : String} {s s' a a' b b' c c' : Val}
    (h : valEq (.regS n s a b c) (.regS n' s' a' b' c') = true) :
    n = n' ∧ valEq s s' = true ∧ valEq a a' = true ∧ valEq b b' = true ∧ valEq c c' = true := by
  simpa [valEq, and_assoc] using h

/-- numbers compare by value -/
theorem C20_discriminates_number (x y : Num) : valEq (Val.ofNum x) (Val.ofNum y) = Num.veq x y := by
  cases x <;> cases y <;> simp [Val.ofNum, valEq]

/-! ### completeness of the lens list
`Val`: int/flt (`number`), const (name, value), param (name, kind), qubit (name, src: NAME ONLY, idx), regF (name,
size), regA (name, src), regS (name, src, start, stop, step), none, str; different constructors: `class`.
`Stmt`: gate (name, args by position; IGNORED: `gd` beyond the name, the keyword of each argument),
block (par, sub, iters, body), loop (count, body); different constructors: `kind`. `Macro`: name, params, body.
`GateDef`: name, params (IGNORED: tag, hasUnitary). `Circuit`: usepulses, constants, registers, macros, natives, body.
Ignored fields and meaning: `gd`/keywords/tag/hasUnitary do not occur in `Sem.evalStmt`
(`C20_ignored_fields_meaningless`); the source of a qubit beyond its name is fixed by the register dictionary for
circuits whose registers are declared once (used in `C20_sound`). -/

/-- `Sem.evalStmt` does not look at the gate definition stored in a gate statement, nor at argument keywords. -/
theorem C20_ignored_fields_meaningless (ρ md b) (n : String) (g g' : GateDef) (args args' : List (String × Val))
    (h : args.map (·.2) = args'.map (·.2)) :
    Sem.evalStmt ρ md b (.gate n g args) = Sem.evalStmt ρ md b (.gate n g' args') := by
  have : ∀ (l l' : List (String × Val)), l.map (·.2) = l'.map (·.2) →
      l.mapM (fun a => Sem.evalArg ρ b a.2) = l'.mapM (fun a => Sem.evalArg ρ b a.2) := by
    intro l
    induction l with
    | nil => intro l' h; cases l' <;> simp_all
    | cons a as ih =>
      intro l' h
      cases l' with
      | nil => simp at h
      | cons c cs =>
        simp only [List.map_cons, List.cons.injEq] at h
        rw [List.mapM_cons, List.mapM_cons, ih cs h.2, h.1]
  simp only [Sem.evalStmt, this args args' h]

/-! ## soundness with respect to the gate-level meaning -/

/-- `Sem.veq` on results: both fail, or both succeed with identical trees whose numeric arguments are `==`. -/
abbrev MeaningEq (x y : M Sem.Sem) : Prop := MRel SemRel x y

/-- Two parser-like circuits (`ParserLike`: dictionaries; every qubit reference has as its source the macro
parameter of that name or the register value bound in the circuit's own dictionary; no `None` argument) that list
their macros in the same definition order and compare equal have

* identical `let` declarations and identical register / alias declarations (name by name, numbers by value), and
* the same gate-level meaning under every override environment `ρ` (numbers by value: `1 == 1.0`).

`NamedQubit.__eq__` looks at `alias_from.name` only; the proof closes that gap with the register dictionaries
(`registers are declared once`), which `Circuit.__eq__` does compare. -/
theorem C20_sound (ρ : Sem.Env) (a b : Circuit) (ha : ParserLike a) (hb : ParserLike b)
    (horder : a.macros.map (·.name) = b.macros.map (·.name)) (h : circuitEq a b = true) :
    (a.constants.length = b.constants.length ∧
      ∀ x ∈ a.constants, ∃ y ∈ b.constants, y.name? = x.name? ∧ valEq x y = true) ∧
    (a.registers.length = b.registers.length ∧
      ∀ x ∈ a.registers, ∃ y ∈ b.registers, y.name? = x.name? ∧ valEq x y = true) ∧
    MeaningEq (Sem.meaning ρ a) (Sem.meaning ρ b) := by
  obtain ⟨h1, _, _, h4, _, _⟩ := C20_discriminates_circuit h
  exact ⟨dictEq_true h1, dictEq_true h4, meaning_rel ρ a b ha hb horder h⟩

/-- `C20_sound` without the hypothesis on the common ORDER of the two macro dictionaries (`dict.__eq__` ignores the
order): it is enough that in each list every macro body calls, of the circuit's macros, only macros listed before it —
the denotation of a macro is then the meaning of its body under the FULL table (`lookup_denote_ordered`), and the tables
of the two circuits agree name by name (`denote_look`). -/
theorem C20_sound_ordered (ρ : Sem.Env) (a b : Circuit) (ha : ParserLike a) (hb : ParserLike b)
    (hoa : MacrosOrdered a.macros) (hob : MacrosOrdered b.macros) (h : circuitEq a b = true) :
    (a.constants.length = b.constants.length ∧
      ∀ x ∈ a.constants, ∃ y ∈ b.constants, y.name? = x.name? ∧ valEq x y = true) ∧
    (a.registers.length = b.registers.length ∧
      ∀ x ∈ a.registers, ∃ y ∈ b.registers, y.name? = x.name? ∧ valEq x y = true) ∧
    MeaningEq (Sem.meaning ρ a) (Sem.meaning ρ b) := by
  obtain ⟨h1, _, _, h4, _, _⟩ := C20_discriminates_circuit h
  exact ⟨dictEq_true h1, dictEq_true h4, meaning_rel_ordered ρ a b ha hb hoa hob h⟩

/-- The statement for `ParserLike` circuits without any hypothesis on the macro lists. FALSE (`C20_sound_full_false`):
`Sem.denoteMacros` lets a macro call only the macros listed before it, `dict.__eq__` ignores the order;
`[m1, m2 calls m1]` against `[m2 calls m1, m1]` compare equal and denote differently.  What is true: `C20_sound_ordered`
(callees first in each list) and, for everything the parser produces, `C20_sound_parsed`. -/
def C20_sound_full : Prop :=
  ∀ (ρ : Sem.Env) (a b : Circuit), ParserLike a → ParserLike b → circuitEq a b = true →
    MeaningEq (Sem.meaning ρ a) (Sem.meaning ρ b)

/-- `macro m1 { g }`, `macro m2 { m1 }` and the statement `m2`, the macro dictionary in the given order -/
def mkBad (swap : Bool) : Circuit :=
  let m1 : Macro := { name := "m1", params := [], body := .block false false (.int 1) [.gate "g" { name := "g", tag := .native, params := [] } []] }
  let m2 : Macro := { name := "m2", params := [], body := .block false false (.int 1) [.gate "m1" { name := "m1", tag := .macro, params := [] } []] }
  { macros := if swap then [m2, m1] else [m1, m2],
    body := .block false false (.int 1) [.gate "m2" { name := "m2", tag := .macro, params := [] } []] }

theorem mkBad_parserLike (swap : Bool) : ParserLike (mkBad swap) := by
  cases swap
  all_goals
    refine { constKeys := by simp [mkBad], regKeys := by simp [mkBad], macroKeys := by simp [mkBad],
             nativeKeys := by simp [mkBad], bodyOk := ?_, macrosOk := ?_ }
    · simp [mkBad, StmtAll, StmtsAll]
    · intro m hm
      simp only [mkBad, Bool.false_eq_true, if_false, if_true, List.mem_cons, List.not_mem_nil, or_false] at hm
      rcases hm with rfl | rfl <;> simp [StmtAll, StmtsAll]

/-- `C20_sound_full` is false: a macro dictionary listing a caller before its callee is a list the builder never makes,
and `Sem.denoteMacros` reads it differently. -/
theorem C20_sound_full_false : ¬ C20_sound_full := by
  intro hfull
  have heq : circuitEq (mkBad false) (mkBad true) = true := by
    simp [circuitEq, dictEq, mkBad, stmtEq, stmtsEq, argsEq, macroEq, paramsEq, listEqB, valEq, Num.veq]
  have := hfull [] _ _ (mkBad_parserLike false) (mkBad_parserLike true) heq
  simp [MeaningEq, Sem.meaning, Sem.denoteMacros, mkBad, Sem.evalStmt, Sem.evalStmts, Sem.lookup, Sem.evalInt, Sem.evalNum,
    bind, Except.bind, pure, Except.pure, Sem.Sem.norm, Sem.normList, MRel, SemRel, SemsRel] at this

theorem mkC_parserLike (idx : Val) : ParserLike (mkC idx) := by
  refine { toDictKeys := mkC_dictKeys idx, bodyOk := ?_, macrosOk := ?_ }
  · simp [mkC, StmtAll, StmtsAll, ArgOk, SrcOk, Val.name?]
  · intro m hm
    simp only [mkC, List.mem_singleton] at hm
    subst hm
    simp [StmtAll, StmtsAll, ArgOk]

example : ParserLike exC := mkC_parserLike _

/-- `exC` with the index of `r[1]` written as the float `1.0`: equal (`1 == 1.0`), same meaning -/
def exC' : Circuit := mkC (.flt ⟨false, 1, 0⟩)

example : ParserLike exC' ∧ circuitEq exC exC' = true ∧ exC.macros.map (·.name) = exC'.macros.map (·.name) ∧
    exC.body ≠ exC'.body := by
  refine ⟨mkC_parserLike _, ?_, rfl, by simp [exC, exC', mkC]⟩
  simp [circuitEq, dictEq, exC, exC', mkC, valEq, Val.name?, Num.veq, stmtEq, stmtsEq, argsEq, macroEq, paramsEq, listEqB,
    Dec.isIntegral, Dec.toInt]

/-! ### soundness for everything the parser produces -/

/-- Two `ParsedLike` circuits (`Lemmas/PyEqSound.lean`: dictionaries; every qubit reference is an element `s[i]` of the
parameter `s` / of the unshadowed declared register `s` under a name that is not declared, or has a declared source and a
declared name; no `None` argument; callees first in the macro list) that compare equal have identical declarations and
the same gate-level meaning under every override environment `ρ` — in whatever order the two macro dictionaries list
their macros. -/
theorem C20_sound_parsedLike (ρ : Sem.Env) (a b : Circuit) (ha : ParsedLike a) (hb : ParsedLike b)
    (h : circuitEq a b = true) :
    (a.constants.length = b.constants.length ∧
      ∀ x ∈ a.constants, ∃ y ∈ b.constants, y.name? = x.name? ∧ valEq x y = true) ∧
    (a.registers.length = b.registers.length ∧
      ∀ x ∈ a.registers, ∃ y ∈ b.registers, y.name? = x.name? ∧ valEq x y = true) ∧
    MeaningEq (Sem.meaning ρ a) (Sem.meaning ρ b) := by
  obtain ⟨h1, _, _, h4, _, _⟩ := C20_discriminates_circuit h
  exact ⟨dictEq_true h1, dictEq_true h4, meaning_rel_parsed ρ a b ha hb h⟩

/-- **C20 soundness, unconditional for parser-produced circuits.**  Two circuits returned by `parse_jaqal_string`
(`autoload_pulses=False`, any `inject_pulses`; any two texts, any two configurations) that compare equal with `==` have

* identical `let` declarations and identical register / alias declarations (name by name, numbers by value), and
* the same gate-level meaning under every override environment `ρ` (numbers by value: `1 == 1.0`).

`NamedQubit.__eq__` looks at `alias_from.name` only; the proof closes that gap with the register dictionaries, which
`Circuit.__eq__` does compare, and with the reference's own name, which tells an element `s[i]` written in place (whose
source is whatever the identifier `s` means in that scope) from a header alias reached by name (whose source is a
declared register, whatever the enclosing macro's parameters are called).  `dict.__eq__` ignores the order of the macro
dictionaries; so does the meaning, because the builder lets a macro call only macros defined before it. -/
theorem C20_sound_parsed (cfgA cfgB : Builder.Config) (ta tb : String) (a b : Circuit) (ρ : Sem.Env)
    (haA : cfgA.autoload = false) (haB : cfgB.autoload = false)
    (ha : Pipeline.parseProgram cfgA ta = .ok a) (hb : Pipeline.parseProgram cfgB tb = .ok b)
    (h : circuitEq a b = true) :
    (a.constants.length = b.constants.length ∧
      ∀ x ∈ a.constants, ∃ y ∈ b.constants, y.name? = x.name? ∧ valEq x y = true) ∧
    (a.registers.length = b.registers.length ∧
      ∀ x ∈ a.registers, ∃ y ∈ b.registers, y.name? = x.name? ∧ valEq x y = true) ∧
    MeaningEq (Sem.meaning ρ a) (Sem.meaning ρ b) :=
  C20_sound_parsedLike ρ a b (RoundTrip.parsed_parserLike haA ha) (RoundTrip.parsed_parserLike haB hb) h

/-! #### non-vacuity: the program whose alias has a shadowed source -/

/-- `register r[2]; map q r[1]; macro m r { g q }; m r`: inside `m` the argument `q` is the header's alias, whose source
is the REGISTER `r`, while `r` is also the parameter of `m` -/
def shadowTxt : String := "register r[2]\nmap q r[1]\nmacro m r { g q }\nm r\n"

/-- the text is accepted; the register dictionary is `r`, `q = r[1]`; the one macro has the parameter `r` and its body
is the one gate statement whose argument is that very `q`, source `Register r` -/
theorem C20_shadow_accepted :
    (match Pipeline.parseProgram {} shadowTxt with
     | .ok c =>
       decide (c.registers = [.regF "r" (.int 2), .qubit "q" (.regF "r" (.int 2)) (.int 1)]) &&
       (match c.macros with
        | [m] => decide (m.params = [("r", Kind.none)]) &&
          (match m.body with
           | .block _ _ _ [.gate _ _ [a]] => decide (a.2 = .qubit "q" (.regF "r" (.int 2)) (.int 1))
           | _ => false)
        | _ => false)
     | .error _ => false) = true := by decide +kernel

/-- its circuit is `ParsedLike` (as every parser-produced circuit), NOT `ParserLike` (the source `r` of `q` is named
like the parameter `r` and is not that parameter), and `c == c` -/
theorem C20_shadow_parsedLike_not_parserLike :
    ∃ c, Pipeline.parseProgram {} shadowTxt = .ok c ∧ ParsedLike c ∧ ¬ ParserLike c ∧ circuitEq c c = true := by
  have h0 := C20_shadow_accepted
  cases h : Pipeline.parseProgram {} shadowTxt with
  | error e => rw [h] at h0; cases h0
  | ok c =>
    rw [h] at h0
    simp only [Bool.and_eq_true, decide_eq_true_eq] at h0
    obtain ⟨hregs, hm⟩ := h0
    refine ⟨c, rfl, RoundTrip.parsed_parserLike rfl h, ?_, circuitEq_refl c (RoundTrip.parsed_wf rfl h)⟩
    intro hpl
    split at hm
    · rename_i m hmac
      simp only [Bool.and_eq_true, decide_eq_true_eq] at hm
      obtain ⟨hpar, hb⟩ := hm
      split at hb
      · rename_i p1 p2 p3 g1 g2 a hbody
        have hok := hpl.macrosOk m (by rw [hmac]; simp)
        rw [hbody, hpar] at hok
        simp only [StmtAll, StmtsAll] at hok
        have ha := hok.1 a (by simp)
        rw [of_decide_eq_true hb] at ha
        rcases ha with ⟨p, k, hp, _⟩ | ⟨_, hs⟩
        · cases hp
        · exact hs "r" rfl (by simp)
      · cases hb
    · cases hm

/-- the hypotheses of `C20_sound_parsed` are satisfiable by that program -/
example (ρ : Sem.Env) : ∃ c, Pipeline.parseProgram {} shadowTxt = .ok c ∧ MeaningEq (Sem.meaning ρ c) (Sem.meaning ρ c) := by
  obtain ⟨c, h, _, _, heq⟩ := C20_shadow_parsedLike_not_parserLike
  exact ⟨c, h, (C20_sound_parsed {} {} _ _ c c ρ rfl rfl h h heq).2.2⟩

/-! #### non-vacuity: equal circuits whose macro dictionaries list the macros in different orders -/

def ordR : Val := .regF "r" (.int 2)
def ordQ : Val := .qubit "q" ordR (.int 1)
/-- `macro m1 x { g x }` -/
def ordM1 : Macro :=
  { name := "m1", params := [("x", .none)], body := .block false false (.int 1) [.gate "g" gdG [("p0", .param "x" .none)]] }
/-- `macro m2 x { m1 x }` -/
def ordM2 : Macro :=
  { name := "m2", params := [("x", .none)],
    body := .block false false (.int 1)
      [.gate "m1" { name := "m1", tag := .macro, params := [("x", .none)] } [("x", .param "x" .none)]] }
/-- `macro m3 r { g q }`: the alias `q` under a parameter named like its source -/
def ordM3 : Macro :=
  { name := "m3", params := [("r", .none)], body := .block false false (.int 1) [.gate "g" gdG [("p0", ordQ)]] }

/-- `register r[2]; map q r[1]; <the three macros>; m2 r[0]; m3 r` with the macro dictionary in the order `ms` -/
def mkOrd (ms : List Macro) : Circuit :=
  { registers := [ordR, ordQ], macros := ms,
    body := .block false false (.int 1)
      [.gate "m2" { name := "m2", tag := .macro, params := [("x", .none)] } [("x", .qubit "r[0]" ordR (.int 0))],
       .gate "m3" { name := "m3", tag := .macro, params := [("r", .none)] } [("r", ordR)]] }

def ordA : Circuit := mkOrd [ordM1, ordM2, ordM3]
def ordB : Circuit := mkOrd [ordM3, ordM1, ordM2]

theorem ordA_parsedLike : ParsedLike ordA := by
  refine { constKeys := by simp [ordA, mkOrd], regKeys := by simp [ordA, mkOrd, ordR, ordQ, Val.name?],
           macroKeys := by simp [ordA, mkOrd, ordM1, ordM2, ordM3], nativeKeys := by simp [ordA, mkOrd],
           bodyRef := ?_, macrosRef := ?_, ordered := ?_ }
  · simp [ordA, mkOrd, StmtAll, StmtsAll, ArgRef, QRef, ordR, ordQ]
  · intro m hm
    simp only [ordA, mkOrd, List.mem_cons, List.not_mem_nil, or_false] at hm
    rcases hm with rfl | rfl | rfl <;>
      simp [ordA, mkOrd, ordM1, ordM2, ordM3, StmtAll, StmtsAll, ArgRef, QRef, Declared, ordR, ordQ, Val.name?]
  · apply RoundTrip.macrosOrdered_of_check
    simp [ordA, mkOrd, ordM1, ordM2, ordM3, RoundTrip.orderedFrom, ExpandMacros.inScope, ExpandMacros.inScopeList]

theorem ordB_parsedLike : ParsedLike ordB := by
  refine { constKeys := by simp [ordB, mkOrd], regKeys := by simp [ordB, mkOrd, ordR, ordQ, Val.name?],
           macroKeys := by simp [ordB, mkOrd, ordM1, ordM2, ordM3], nativeKeys := by simp [ordB, mkOrd],
           bodyRef := ?_, macrosRef := ?_, ordered := ?_ }
  · simp [ordB, mkOrd, StmtAll, StmtsAll, ArgRef, QRef, ordR, ordQ]
  · intro m hm
    simp only [ordB, mkOrd, List.mem_cons, List.not_mem_nil, or_false] at hm
    rcases hm with rfl | rfl | rfl <;>
      simp [ordB, mkOrd, ordM1, ordM2, ordM3, StmtAll, StmtsAll, ArgRef, QRef, Declared, ordR, ordQ, Val.name?]
  · apply RoundTrip.macrosOrdered_of_check
    simp [ordB, mkOrd, ordM1, ordM2, ordM3, RoundTrip.orderedFrom, ExpandMacros.inScope, ExpandMacros.inScopeList]

/-- the two circuits compare equal, list their macros in different orders, and contain the shadowed alias; neither is
`ParserLike`, both are `ParsedLike`: `C20_sound_parsedLike` applies where `C20_sound` does not -/
example (ρ : Sem.Env) : circuitEq ordA ordB = true ∧ ordA.macros.map (·.name) ≠ ordB.macros.map (·.name) ∧
    MeaningEq (Sem.meaning ρ ordA) (Sem.meaning ρ ordB) := by
  have heq : circuitEq ordA ordB = true := by
    simp [circuitEq, dictEq, ordA, ordB, mkOrd, ordM1, ordM2, ordM3, ordR, ordQ, gdG, valEq, Val.name?, Num.veq, stmtEq,
      stmtsEq, argsEq, macroEq, paramsEq, listEqB]
  exact ⟨heq, by simp [ordA, ordB, mkOrd, ordM1, ordM2, ordM3],
    (C20_sound_parsedLike ρ ordA ordB ordA_parsedLike ordB_parsedLike heq).2.2⟩

/-! ## generator lemmas for C01 -/

/-- splicing same-kind non-subcircuit nested blocks does not change the generated text of a block -/
theorem C20_gen_splice (d : Nat) (par sub : Bool) (it : Val) (l l' : List Stmt)
    (h : Generator.flatItems par l = Generator.flatItems par l') :
    Generator.genStmt d (.block par sub it l) = Generator.genStmt d (.block par sub it l') :=
  Generator.genStmt_block_congr_flat d par sub it l l' h

/-- `{ g ; { h ; k } }` and `{ g ; h ; k }` -/
example (n1 n2 n3 : String) (d1 d2 d3 : GateDef) (a1 a2 a3 : List (String × Val)) :
    Generator.flatItems false [.gate n1 d1 a1, .block false false (.int 1) [.gate n2 d2 a2, .gate n3 d3 a3]]
      = Generator.flatItems false [.gate n1 d1 a1, .gate n2 d2 a2, .gate n3 d3 a3] := by
  simp [Generator.flatItems]

/-- registers, qubits, lets and parameters are written by name only -/
theorem C20_gen_names {v : Val} {n : String} (h : v.name? = some n) : Generator.genValue v = some n :=
  Generator.genValue_of_name h

/-- `generate_jaqal_program` raises nothing on a printable circuit -/
theorem C20_gen_total (c : Circuit) (h : Generator.Printable c) : ∃ s, Generator.gen c = .ok s :=
  Generator.gen_total c h

example : Generator.Printable exC := by
  refine ⟨by simp [exC, mkC], ?_, ?_, ?_, ⟨_, _, _, _, rfl, ?_⟩⟩
  · simp [exC, mkC, Generator.printableLet, Generator.printableVal, Generator.genValue]
  · simp [exC, mkC, Generator.printableReg, Generator.printableVal, Generator.genValue, Val.name?, Generator.plainBound]
  · intro m hm
    simp only [exC, mkC, List.mem_singleton] at hm
    subst hm
    exact ⟨_, _, _, _, rfl, by
      simp [Generator.printable, Generator.printableL, Generator.fmtOk, Generator.printableVal, Generator.genValue]⟩
  · simp [Generator.printable, Generator.printableL, Generator.fmtOk, Generator.printableVal, Generator.genValue,
      Generator.itersNe1]

end Jaqal.C20

#print axioms Jaqal.C20.C20_refl
#print axioms Jaqal.C20.C20_refl_needs_named_source
#print axioms Jaqal.C20.C20_symm_value
#print axioms Jaqal.C20.C20_symm_stmt
#print axioms Jaqal.C20.C20_symm
#print axioms Jaqal.C20.C20_symm_needs_dictKeys
#print axioms Jaqal.C20.C20_symm_counterexample_valueOld
#print axioms Jaqal.C20.C20_symm_counterexample_registerOld
#print axioms Jaqal.C20.C20_register_vs_alias
#print axioms Jaqal.C20.C20_param_vs_const
#print axioms Jaqal.C20.C20_discriminates_circuit
#print axioms Jaqal.C20.C20_discriminates_dict
#print axioms Jaqal.C20.C20_discriminates_usepulses
#print axioms Jaqal.C20.C20_discriminates_macro
#print axioms Jaqal.C20.C20_discriminates_gatedef
#print axioms Jaqal.C20.C20_discriminates_gate
#print axioms Jaqal.C20.C20_discriminates_argument
#print axioms Jaqal.C20.C20_discriminates_arity
#print axioms Jaqal.C20.C20_discriminates_block
#print axioms Jaqal.C20.C20_discriminates_statement
#print axioms Jaqal.C20.C20_discriminates_loop
#print axioms Jaqal.C20.C20_discriminates_kind
#print axioms Jaqal.C20.C20_discriminates_class
#print axioms Jaqal.C20.C20_discriminates_const
#print axioms Jaqal.C20.C20_discriminates_param
#print axioms Jaqal.C20.C20_discriminates_qubit
#print axioms Jaqal.C20.C20_discriminates_regF
#print axioms Jaqal.C20.C20_discriminates_regA
#print axioms Jaqal.C20.C20_discriminates_regS
#print axioms Jaqal.C20.C20_discriminates_number
#print axioms Jaqal.C20.C20_ignored_fields_meaningless
#print axioms Jaqal.C20.C20_sound
#print axioms Jaqal.C20.C20_sound_ordered
#print axioms Jaqal.C20.C20_sound_parsedLike
#print axioms Jaqal.C20.C20_sound_parsed
#print axioms Jaqal.C20.C20_sound_full_false
#print axioms Jaqal.C20.C20_shadow_accepted
#print axioms Jaqal.C20.C20_shadow_parsedLike_not_parserLike
#print axioms Jaqal.C20.C20_gen_splice
#print axioms Jaqal.C20.C20_gen_names
#print axioms Jaqal.C20.C20_gen_total
