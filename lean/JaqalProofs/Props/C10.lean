import JaqalModel.Model.Passes
import JaqalModel.Model.Pipeline
import JaqalProofs.Props.C04
import JaqalProofs.Props.C09
import JaqalProofs.Props.C20
import JaqalProofs.Lemmas.PassesEnv
import JaqalProofs.Lemmas.PassesMap
import JaqalProofs.Lemmas.PassesSubs
import JaqalProofs.Lemmas.PassesLegalSubs
import JaqalProofs.Lemmas.PassesLegalMacros
import JaqalProofs.Lemmas.PassesLegalRebuild
import JaqalProofs.Lemmas.PassesLegalDeep
import JaqalProofs.Lemmas.PassesIdem
/-!
# C10 — the passes commute up to meaning, are idempotent, and the parser's flags are the passes

Model: `JaqalModel/Model/Passes.lean` (`Pass`, `apply`, `applySeq`, `parseWithFlags`, `pipelines`).
Specification of meaning: `Sem.meaning` (`JaqalModel/Spec/Sem.lean`).

## What "commute" means here (and what it cannot mean)

* `expand_subcircuits` CHANGES the meaning on purpose: a subcircuit block becomes the sequence `prepare_all … measure_all`
  and its iteration count is dropped.  What commutes is the tree map `spellN` on meanings
  (`Lemmas/PassesSubs.lean`: `expandSubcircuits_meaning : meaning ρ (S c) = spellN (meaning ρ c)`).
* `fill_in_let(ov)` removes every let: AFTER it the meaning no longer depends on the environment
  (`fillInLet_meaning : meaning ρ' (L_ov c) = meaning (normOv ov) c` for every `ρ'`).  So of several `fill_in_let`
  passes only the FIRST matters, and two orders can only agree if their first `fill_in_let` carry the same overrides:
  `envAfter ρ π`.
* `fill_in_map` writes the DECLARED value of every let that occurs inside a qubit reference (index, register size, slice
  bounds along the alias chain) into the rewritten reference.  It preserves the meaning under every environment that
  overrides none of those lets (`fillInMap_meaning`, side condition `MapOK`); that is automatic once a `fill_in_let` has
  run (no let is left), and is a genuine restriction on the overrides of a LATER `fill_in_let`.
* `Applicable ρ π c` makes "each pass is applicable" precise: at every step the circuit is `Legal` and, at a
  `fill_in_map` step, satisfies the side condition for the environment in force for the rest of the sequence.

## Theorems

* `C10_canonical`       for an applicable sequence `π` that succeeds, `meaning ρ (π c) = tr π (meaning (envAfter ρ π) c)`:
                        the spelled-out (iff `expand_subcircuits ∈ π`) meaning of the ORIGINAL under the overrides of the
                        first `fill_in_let` (or under `ρ` if there is none) — independent of the order.
* `C10_commute_meaning` two applicable, succeeding sequences with the same `envAfter` and the same answer to
                        "is `expand_subcircuits` among them" give the same meaning; `C10_commute_perm`: in particular two
                        permutations of each other whose `fill_in_let` passes all carry the same overrides (repetitions
                        allowed: the hypothesis is on membership only).
* `C10_comm_let_macros`, `C10_comm_let_subs`, `C10_comm_macros_subs`, `C10_comm_map_macros`, `C10_comm_map_subs`,
  `C10_comm_let_map` — the six pairwise instances.
* `C10_idempotent`      `P (P c) = P c` for all four passes: `C10_idempotent_macros`, `C10_idempotent_subs` (from C04, C09),
                        `C10_idempotent_let` (any second override dictionary; also closes `C05_idempotent_full`) and
                        `C10_idempotent_map` (`Lemmas/PassesIdem.lean`: the second run writes the same S-expression, and
                        the builder cannot tell the two configurations apart).  `C10_idempotent_meaning`: the
                        meaning-level corollary.
* `C10_flags`           `parseWithFlags` is `build`, then `applySeq (flagPasses …)`, then the register-count check, with
                        `RecursionError` converted (by definition); `C10_flags_plain`; `C10_flags_ok`: on success the
                        result IS the passes applied to the plain parse (the check commutes with the passes: they keep
                        the fundamental registers).
* `C10_legal_preserved` EVERY pass keeps a legal circuit legal (`Legal` = `ExpandMacros.WellFormed` ∧ `FillIn.WellFormed` ∧
                        `Deep`), proved: `expand_subcircuits` (`Lemmas/PassesLegalSubs.lean`), `expand_macros`
                        (`PassesLegalMacros.lean`), `fill_in_let` / `fill_in_map` (`PassesLegalRebuild.lean`, on top of
                        `Lemmas/BuiltWellFormed.lean: built_gateShape` — what `Builder.build` guarantees about every gate
                        statement it makes, for any S-expression), `Deep` (`PassesLegalDeep.lean`).  Hence
                        `C10_applicable_of_legal`: from a legal circuit every sequence without `fill_in_map` is applicable
                        (`fill_in_map` needs its side condition in addition).
* `C10_legal_text_partial` text of the result: generation succeeds (`C20_gen_total`) for printable results, and — given
                        C01's round-trip statement as a hypothesis — re-parses to a circuit of the same meaning.

## What is NOT proved

* that a parser-produced circuit is `Legal` (the builder establishes `ExpandMacros.WellFormed`: `built_gateShape` is the gate
  half; the value half — `okVal` / `goodVal` of built values, `inScope` — is open, see `Lemmas/BuiltWellFormed.lean`).

## Findings on the real code, all repaired in /repo (see `c10_diff.py`, where each is now an ordinary passing oracle)

* a macro NAMED `prepare_all` made `expand_subcircuits ; expand_macros` replace the inserted bounding statement by the macro's
  body (`98a447d`: the pass now refuses, `C10_bounding_macro_refused`; `NoBoundingMacro` follows from success);
* a macro holding a subcircuit called inside `< >` / `subcircuit { }` made `expand_macros` build a circuit no text denotes
  (`7f310a6`: the builder refuses the call); `fill_in_map` inside a macro whose parameter is named like the register wrote a
  reference the generated text captures (`8822e40`: the pass refuses).
-/
namespace Jaqal.Passes
open Jaqal Jaqal.Sem Jaqal.Builder

/-! ## Legal circuits, applicable sequences -/

/-- what the four passes need of their input: both well-formedness predicates of the pass theorems (`ExpandMacros.WellFormed`:
gate statements match their definitions, macro bodies call earlier macros only, …; `FillIn.WellFormed`: block invariants,
header lists).  (That no macro is named like a bounding gate of `expand_subcircuits` is no longer part of it: since
`98a447d` the pass itself refuses such a circuit, `noBoundingMacro_of_ok`.) -/
structure Legal (c : Circuit) : Prop where
  wf1 : ExpandMacros.WellFormed c = true
  wf2 : FillIn.WellFormed c
  /-- every qubit reference / register argument goes through a chain that ends in a fundamental register sized by a number
  or a let (`Lemmas/PassesLegalDeep.lean`): what `register` / `map` statements make; `fill_in_map` needs it to keep
  `ExpandMacros.WellFormed` (`regBuilt` of a slice alias says nothing about its source) -/
  deep : Deep c

/-- the overrides of the first `fill_in_let` of a sequence -/
def firstLet : List Pass → Option (List (String × Num))
  | [] => none
  | .let_ ov :: _ => some ov
  | _ :: ps => firstLet ps

/-- the environment under which the ORIGINAL circuit is to be read so that it means what the result of `π` means under `ρ` -/
def envAfter (ρ : Env) (π : List Pass) : Env :=
  match firstLet π with
  | some ov => FillIn.normOv ov
  | none => ρ

def Pass.isSubs : Pass → Bool
  | .subs => true
  | _ => false

def hasSubs (π : List Pass) : Bool := π.any Pass.isSubs

/-- what a sequence does to the meaning, besides fixing the environment -/
def tr (π : List Pass) (s : Sem) : Sem := if hasSubs π then spellN s else s

/-- the side condition of one step: `fill_in_map` must not bake in a let that the environment in force for the rest of
the sequence overrides -/
def stepSide (ρ : Env) (p : Pass) (rest : List Pass) (c : Circuit) : Prop :=
  match p with
  | .map => FillIn.AllVals (MapOK (envAfter ρ rest)) c.body ∧ ∀ m ∈ c.macros, FillIn.AllVals (MapOK (envAfter ρ rest)) m.body
  | _ => True

/-- "each pass of `π` is applicable from `c`" (for the final evaluation environment `ρ`) -/
def Applicable (ρ : Env) : List Pass → Circuit → Prop
  | [], _ => True
  | p :: ps, c => Legal c ∧ stepSide ρ p ps c ∧ ∀ c', apply p c = .ok c' → Applicable ρ ps c'

/-! ## The tree map is idempotent -/

mutual
  theorem spellSem_idem (pn mn : String) : ∀ (x : Sem),
      spellSem (.gate pn []) (.gate mn []) (spellSem (.gate pn []) (.gate mn []) x) = spellSem (.gate pn []) (.gate mn []) x
    | .gate n a => by simp [spellSem]
    | .loop n b => by simp [spellSem, spellSem_idem pn mn b]
    | .blk par sub it body => by
      cases sub <;>
        simp [spellSem, spellSemList, spellSemList_append, spellSemList_idem pn mn body]
  theorem spellSemList_idem (pn mn : String) : ∀ (l : List Sem),
      spellSemList (.gate pn []) (.gate mn []) (spellSemList (.gate pn []) (.gate mn []) l) =
        spellSemList (.gate pn []) (.gate mn []) l
    | [] => by simp [spellSemList]
    | x :: r => by simp [spellSemList, spellSem_idem pn mn x, spellSemList_idem pn mn r]
end

theorem spellN_idem (s : Sem) : spellN (spellN s) = spellN s := by
  unfold spellN spellNorm
  rw [← norm_spellSem, spellSem_idem]

theorem tr_spellN (ps : List Pass) (s : Sem) : tr ps (spellN s) = spellN s := by
  unfold tr
  split
  · exact spellN_idem s
  · rfl

/-! ## The canonical form -/

theorem envAfter_let (ρ : Env) (ov : List (String × Num)) (ps : List Pass) : envAfter ρ (.let_ ov :: ps) = FillIn.normOv ov := rfl
theorem envAfter_macros (ρ : Env) (p : Bool) (ps : List Pass) : envAfter ρ (.macros p :: ps) = envAfter ρ ps := rfl
theorem envAfter_subs (ρ : Env) (ps : List Pass) : envAfter ρ (.subs :: ps) = envAfter ρ ps := rfl
theorem envAfter_map (ρ : Env) (ps : List Pass) : envAfter ρ (.map :: ps) = envAfter ρ ps := rfl

/-- **C10_canonical.** The result of an applicable sequence of passes means: the original, read under the overrides of
the first `fill_in_let` (under `ρ` if there is none), spelled out iff `expand_subcircuits` is among the passes. -/
theorem C10_canonical (ρ : Env) : ∀ (π : List Pass) (c c' : Circuit) (s : Sem), Applicable ρ π c → applySeq π c = .ok c' →
    meaning (envAfter ρ π) c = .ok s → meaning ρ c' = .ok (tr π s) := by
  intro π
  induction π with
  | nil =>
    intro c c' s _ ha hm
    simp only [applySeq, pure, Except.pure, Except.ok.injEq] at ha
    subst ha
    simpa [tr, hasSubs, envAfter, firstLet] using hm
  | cons p ps ih =>
    intro c c' s happ ha hm
    obtain ⟨hL, hside, hnext⟩ := happ
    simp only [applySeq] at ha
    cases h1 : apply p c with
    | error e => rw [h1] at ha; cases ha
    | ok c1 =>
      rw [h1] at ha
      have ha' : applySeq ps c1 = .ok c' := ha
      have hA := hnext c1 h1
      cases p with
      | let_ ov =>
        rw [envAfter_let] at hm
        have h2 : meaning (envAfter ρ ps) c1 = .ok s := by
          rw [fillInLet_meaning (envAfter ρ ps) ov c c1 hL.wf2 h1]; exact hm
        have := ih c1 c' s hA ha' h2
        simpa [tr, hasSubs, Pass.isSubs] using this
      | macros pr =>
        rw [envAfter_macros] at hm
        have h2 := ExpandMacros.C04_meaning (envAfter ρ ps) pr c c1 s hL.wf1 h1 hm
        have := ih c1 c' s hA ha' h2
        simpa [tr, hasSubs, Pass.isSubs] using this
      | subs =>
        rw [envAfter_subs] at hm
        obtain ⟨it, b, hb⟩ := ExpandMacros.WellFormed_body_block hL.wf1
        have h2 := expandSubcircuits_meaning (envAfter ρ ps) c c1 it b s hb h1 hm
        have := ih c1 c' (spellN s) hA ha' h2
        rw [tr_spellN] at this
        simpa [tr, hasSubs, Pass.isSubs] using this
      | map =>
        rw [envAfter_map] at hm
        have h2 : meaning (envAfter ρ ps) c1 = .ok s := by
          rw [fillInMap_meaning (envAfter ρ ps) c c1 hL.wf2 hside.1 hside.2 h1]; exact hm
        have := ih c1 c' s hA ha' h2
        simpa [tr, hasSubs, Pass.isSubs] using this

/-- **C10_commute_meaning.** Two applicable sequences of passes that both succeed, agree on the overrides of their first
`fill_in_let` (`envAfter`) and on whether `expand_subcircuits` is among them, give circuits of the same meaning. -/
theorem C10_commute_meaning (ρ : Env) (π π' : List Pass) (c c1 c2 : Circuit) (s : Sem)
    (h1 : Applicable ρ π c) (h2 : Applicable ρ π' c) (henv : envAfter ρ π = envAfter ρ π') (hsub : hasSubs π = hasSubs π')
    (a1 : applySeq π c = .ok c1) (a2 : applySeq π' c = .ok c2) (hm : meaning (envAfter ρ π) c = .ok s) :
    meaning ρ c1 = meaning ρ c2 ∧ meaning ρ c1 = .ok (tr π s) := by
  have e1 := C10_canonical ρ π c c1 s h1 a1 hm
  have e2 := C10_canonical ρ π' c c2 s h2 a2 (henv ▸ hm)
  refine ⟨?_, e1⟩
  rw [e1, e2]
  unfold tr
  rw [hsub]

/-! ### permutations -/

theorem hasSubs_iff (π : List Pass) : hasSubs π = true ↔ Pass.subs ∈ π := by
  unfold hasSubs
  rw [List.any_eq_true]
  constructor
  · rintro ⟨p, hp, hs⟩
    cases p <;> first | exact hp | cases hs
  · intro h; exact ⟨_, h, rfl⟩

theorem hasSubs_congr {π π' : List Pass} (h : ∀ p, p ∈ π ↔ p ∈ π') : hasSubs π = hasSubs π' := by
  have := hasSubs_iff π
  have := hasSubs_iff π'
  cases h1 : hasSubs π <;> cases h2 : hasSubs π' <;> simp_all

open Classical in
theorem firstLet_uniform (ov : List (String × Num)) : ∀ (π : List Pass), (∀ ov', Pass.let_ ov' ∈ π → ov' = ov) →
    firstLet π = if (∃ ov', Pass.let_ ov' ∈ π) then some ov else none
  | [], _ => by simp [firstLet]
  | .let_ o :: ps, h => by
    have : o = ov := h o (by simp)
    subst this
    simp [firstLet]
  | .macros p :: ps, h => by
    simp only [firstLet]
    rw [firstLet_uniform ov ps (fun o ho => h o (by simp [ho]))]
    simp
  | .subs :: ps, h => by
    simp only [firstLet]
    rw [firstLet_uniform ov ps (fun o ho => h o (by simp [ho]))]
    simp
  | .map :: ps, h => by
    simp only [firstLet]
    rw [firstLet_uniform ov ps (fun o ho => h o (by simp [ho]))]
    simp

open Classical in
/-- the environment only depends on WHICH passes occur when all `fill_in_let` passes carry the same overrides -/
theorem envAfter_congr (ρ : Env) (ov : List (String × Num)) {π π' : List Pass} (h : ∀ p, p ∈ π ↔ p ∈ π')
    (hu : ∀ ov', Pass.let_ ov' ∈ π → ov' = ov) : envAfter ρ π = envAfter ρ π' := by
  have hu' : ∀ ov', Pass.let_ ov' ∈ π' → ov' = ov := fun o ho => hu o ((h _).2 ho)
  unfold envAfter
  rw [firstLet_uniform ov π hu, firstLet_uniform ov π' hu']
  have : (∃ ov', Pass.let_ ov' ∈ π) ↔ (∃ ov', Pass.let_ ov' ∈ π') :=
    ⟨fun ⟨o, ho⟩ => ⟨o, (h _).1 ho⟩, fun ⟨o, ho⟩ => ⟨o, (h _).2 ho⟩⟩
  by_cases hx : ∃ ov', Pass.let_ ov' ∈ π
  · simp [hx, this.1 hx]
  · have hx' : ¬ ∃ ov', Pass.let_ ov' ∈ π' := fun hh => hx (this.2 hh)
    simp [hx, hx']

/-- **C10_commute_perm.** Any two orders — and any repetitions — of the same passes, all `fill_in_let` passes carrying
the same override dictionary `ov`: if both are applicable and succeed, the results have the same meaning. -/
theorem C10_commute_perm (ρ : Env) (ov : List (String × Num)) (π π' : List Pass) (c c1 c2 : Circuit) (s : Sem)
    (hsame : ∀ p, p ∈ π ↔ p ∈ π') (hu : ∀ ov', Pass.let_ ov' ∈ π → ov' = ov)
    (h1 : Applicable ρ π c) (h2 : Applicable ρ π' c)
    (a1 : applySeq π c = .ok c1) (a2 : applySeq π' c = .ok c2) (hm : meaning (envAfter ρ π) c = .ok s) :
    meaning ρ c1 = meaning ρ c2 :=
  (C10_commute_meaning ρ π π' c c1 c2 s h1 h2 (envAfter_congr ρ ov hsame hu) (hasSubs_congr hsame) a1 a2 hm).1

/-- a permutation in particular -/
theorem C10_commute_perm' (ρ : Env) (ov : List (String × Num)) (π π' : List Pass) (c c1 c2 : Circuit) (s : Sem)
    (hperm : π.Perm π') (hu : ∀ ov', Pass.let_ ov' ∈ π → ov' = ov)
    (h1 : Applicable ρ π c) (h2 : Applicable ρ π' c)
    (a1 : applySeq π c = .ok c1) (a2 : applySeq π' c = .ok c2) (hm : meaning (envAfter ρ π) c = .ok s) :
    meaning ρ c1 = meaning ρ c2 :=
  C10_commute_perm ρ ov π π' c c1 c2 s (fun _ => hperm.mem_iff) hu h1 h2 a1 a2 hm

/-! ### the six pairs -/

section Pairs
variable (ρ : Env) (c c1 c2 : Circuit) (s : Sem)

theorem C10_comm_let_macros (ov : List (String × Num)) (p : Bool)
    (h1 : Applicable ρ [.let_ ov, .macros p] c) (h2 : Applicable ρ [.macros p, .let_ ov] c)
    (a1 : applySeq [.let_ ov, .macros p] c = .ok c1) (a2 : applySeq [.macros p, .let_ ov] c = .ok c2)
    (hm : meaning (FillIn.normOv ov) c = .ok s) : meaning ρ c1 = meaning ρ c2 ∧ meaning ρ c1 = .ok s :=
  C10_commute_meaning ρ _ _ c c1 c2 s h1 h2 rfl rfl a1 a2 hm

theorem C10_comm_let_subs (ov : List (String × Num))
    (h1 : Applicable ρ [.let_ ov, .subs] c) (h2 : Applicable ρ [.subs, .let_ ov] c)
    (a1 : applySeq [.let_ ov, .subs] c = .ok c1) (a2 : applySeq [.subs, .let_ ov] c = .ok c2)
    (hm : meaning (FillIn.normOv ov) c = .ok s) : meaning ρ c1 = meaning ρ c2 ∧ meaning ρ c1 = .ok (spellN s) :=
  C10_commute_meaning ρ _ _ c c1 c2 s h1 h2 rfl rfl a1 a2 hm

theorem C10_comm_macros_subs (p : Bool)
    (h1 : Applicable ρ [.macros p, .subs] c) (h2 : Applicable ρ [.subs, .macros p] c)
    (a1 : applySeq [.macros p, .subs] c = .ok c1) (a2 : applySeq [.subs, .macros p] c = .ok c2)
    (hm : meaning ρ c = .ok s) : meaning ρ c1 = meaning ρ c2 ∧ meaning ρ c1 = .ok (spellN s) :=
  C10_commute_meaning ρ _ _ c c1 c2 s h1 h2 rfl rfl a1 a2 hm

theorem C10_comm_map_macros (p : Bool)
    (h1 : Applicable ρ [.map, .macros p] c) (h2 : Applicable ρ [.macros p, .map] c)
    (a1 : applySeq [.map, .macros p] c = .ok c1) (a2 : applySeq [.macros p, .map] c = .ok c2)
    (hm : meaning ρ c = .ok s) : meaning ρ c1 = meaning ρ c2 ∧ meaning ρ c1 = .ok s :=
  C10_commute_meaning ρ _ _ c c1 c2 s h1 h2 rfl rfl a1 a2 hm

theorem C10_comm_map_subs
    (h1 : Applicable ρ [.map, .subs] c) (h2 : Applicable ρ [.subs, .map] c)
    (a1 : applySeq [.map, .subs] c = .ok c1) (a2 : applySeq [.subs, .map] c = .ok c2)
    (hm : meaning ρ c = .ok s) : meaning ρ c1 = meaning ρ c2 ∧ meaning ρ c1 = .ok (spellN s) :=
  C10_commute_meaning ρ _ _ c c1 c2 s h1 h2 rfl rfl a1 a2 hm

/-- `fill_in_let(ov)` and `fill_in_map`: the side condition sits in `Applicable ρ [.map, .let_ ov] c`, whose first step
demands `MapOK (normOv ov)` of every value — `ov` overrides no let inside a qubit reference of `c`; in the other order
(`fill_in_let` first) the same clause speaks about the let-free intermediate circuit. -/
theorem C10_comm_let_map (ov : List (String × Num))
    (h1 : Applicable ρ [.let_ ov, .map] c) (h2 : Applicable ρ [.map, .let_ ov] c)
    (a1 : applySeq [.let_ ov, .map] c = .ok c1) (a2 : applySeq [.map, .let_ ov] c = .ok c2)
    (hm : meaning (FillIn.normOv ov) c = .ok s) : meaning ρ c1 = meaning ρ c2 ∧ meaning ρ c1 = .ok s :=
  C10_commute_meaning ρ _ _ c c1 c2 s h1 h2 rfl rfl a1 a2 hm

end Pairs

/-- the side condition of `C10_comm_let_map`, unfolded -/
theorem C10_comm_let_map_side (ρ : Env) (ov : List (String × Num)) (c : Circuit) (h : Applicable ρ [.map, .let_ ov] c) :
    FillIn.AllVals (MapOK (FillIn.normOv ov)) c.body ∧ ∀ m ∈ c.macros, FillIn.AllVals (MapOK (FillIn.normOv ov)) m.body :=
  h.2.1

/-! ## Idempotence -/

/-- `expand_macros` twice is `expand_macros` once (C04) -/
theorem C10_idempotent_macros (p : Bool) (c c' : Circuit) (hL : Legal c) (h : apply (.macros p) c = .ok c') :
    apply (.macros p) c' = .ok c' := by
  obtain ⟨it, b, hb⟩ := ExpandMacros.WellFormed_body_block hL.wf1
  exact ExpandMacros.C04_idempotent p c c' false it b hb h

/-- `expand_subcircuits` twice is `expand_subcircuits` once (C09), for every circuit -/
theorem C10_idempotent_subs (c c' : Circuit) (h : apply .subs c = .ok c') : apply .subs c' = .ok c' :=
  ExpandSubcircuits.C09_idempotent h

/-- a second `fill_in_let` (any overrides) returns the circuit unchanged (proved: `C10_idempotent_let`) -/
def C10_idempotent_let_full : Prop :=
  ∀ (ov ov2 : List (String × Num)) (c c' : Circuit), Legal c → apply (.let_ ov) c = .ok c' → apply (.let_ ov2) c' = .ok c'

/-- a second `fill_in_map` returns the circuit unchanged (proved: `C10_idempotent_map`) -/
def C10_idempotent_map_full : Prop :=
  ∀ (c c' : Circuit), Legal c → apply .map c = .ok c' → apply .map c' = .ok c'

/-- **`fill_in_let` twice — with ANY second override dictionary — is `fill_in_let` once**: every value of the result is a
fixed point of the visitors (`C05_idempotent_val`), so the second run hands the builder the very S-expression of the first
(`visitStmts_fixed`), under a configuration the builder cannot tell from the first (`rebuildCfg_congr`: the normalised
gate list instead of the original).  Only `FillIn.WellFormed` of the input is needed. -/
theorem C10_idempotent_let : C10_idempotent_let_full :=
  fun ov ov2 c c' hL h => fillInLet_idempotent ov ov2 c c' hL.wf2 h

/-- **`fill_in_map` twice is `fill_in_map` once** -/
theorem C10_idempotent_map : C10_idempotent_map_full :=
  fun c c' hL h => fillInMap_idempotent c c' hL.wf2 h

/-- the statement C05 left open (`Props/C05.lean: C05_idempotent_full`), closed -/
theorem C05_idempotent : FillIn.C05_idempotent_full :=
  fun ov ov2 c c' hw h => fillInLet_idempotent ov ov2 c c' hw h

/-- **C10_idempotent**: applying a pass twice gives the same circuit as applying it once — all four passes -/
theorem C10_idempotent (p : Pass) (c c' : Circuit) (hL : Legal c) (h : apply p c = .ok c') : apply p c' = .ok c' := by
  cases p with
  | let_ ov => exact C10_idempotent_let ov ov c c' hL h
  | macros pr => exact C10_idempotent_macros pr c c' hL h
  | subs => exact C10_idempotent_subs c c' h
  | map => exact C10_idempotent_map c c' hL h

/-- (kept for reference: the conditional form of the previous round) -/
theorem C10_idempotent_partial (_hl : C10_idempotent_let_full) (_hm : C10_idempotent_map_full) (p : Pass) (c c' : Circuit)
    (hL : Legal c) (h : apply p c = .ok c') : apply p c' = .ok c' := C10_idempotent p c c' hL h

/-- **C10_idempotent_meaning** (all four passes, proved): applying a pass a second time does not change the meaning. -/
theorem C10_idempotent_meaning (ρ : Env) (p : Pass) (c c1 c2 : Circuit) (s : Sem) (happ : Applicable ρ [p, p] c)
    (a1 : apply p c = .ok c1) (a2 : apply p c1 = .ok c2) (hm : meaning (envAfter ρ [p]) c = .ok s) :
    meaning ρ c2 = meaning ρ c1 := by
  have h1 : Applicable ρ [p] c := by
    obtain ⟨hL, hs, _⟩ := happ
    refine ⟨hL, ?_, fun _ _ => trivial⟩
    cases p <;> exact hs
  have s1 : applySeq [p] c = .ok c1 := by simp [applySeq, a1, Except.bind, pure, Except.pure]
  have s2 : applySeq [p, p] c = .ok c2 := by simp [applySeq, a1, a2, Except.bind, pure, Except.pure]
  have henv : envAfter ρ [p, p] = envAfter ρ [p] := by cases p <;> rfl
  have hsub : hasSubs [p, p] = hasSubs [p] := by cases p <;> rfl
  exact (C10_commute_meaning ρ [p, p] [p] c c2 c1 s happ h1 henv hsub s2 s1 (henv ▸ hm)).1

/-! ## The parser's flags -/

/-- **C10_flags** (by definition): `parse_jaqal_string` with flags is the plain build, the passes of `flagPasses` in
order, `RecursionError` converted, then the register-count check. -/
theorem C10_flags (cfg : Config) (em el elm : Bool) (ov : List (String × Num)) (sx : Sx) :
    parseWithFlags cfg em el elm ov sx =
      (catchRecursion ((build cfg (BSx.ofSx sx)).bind (applySeq (flagPasses em el elm ov)))).bind tooManyRegisters := rfl

/-- the table of `flagPasses` -/
theorem C10_flags_table (ov : List (String × Num)) :
    flagPasses false false false ov = [] ∧ flagPasses false true false ov = [.let_ ov] ∧
    flagPasses false false true ov = [.let_ ov, .map] ∧ flagPasses false true true ov = [.let_ ov, .map] ∧
    flagPasses true false false ov = [.macros true] ∧ flagPasses true true false ov = [.macros true, .let_ ov] ∧
    flagPasses true false true ov = [.macros true, .let_ ov, .map] ∧
    flagPasses true true true ov = [.macros true, .let_ ov, .map] := by
  refine ⟨rfl, rfl, rfl, rfl, rfl, rfl, rfl, rfl⟩

theorem catchRecursion_ok {α} (a : α) : catchRecursion (Except.ok a : M α) = .ok a := rfl

/-- without flags it is `Builder.parseBuild` whenever that succeeds -/
theorem C10_flags_plain (cfg : Config) (ov : List (String × Num)) (sx : Sx) (c : Circuit) (h : parseBuild cfg sx = .ok c) :
    parseWithFlags cfg false false false ov sx = .ok c := by
  unfold parseBuild at h
  obtain ⟨c0, hb, ht⟩ := bind_ok h
  simp only [parseWithFlags, flagPasses, hb, Except.bind]
  exact ht

def fundCount (c : Circuit) : Nat := (c.registers.filter isFundamental).length

theorem letVal_fund {ov : List (String × Num)} {rv : Bool} {v v' : Val} (h : FillIn.letVal ov rv v = .ok v') :
    isFundamental v' = isFundamental v := by
  cases v <;> simp only [FillIn.letVal] at h
  · cases h; rfl
  · cases h; rfl
  · obtain ⟨_, d, _, hcase⟩ := FillIn.resolveConstant_num h
    rcases hcase with ⟨x, _, rfl⟩ | ⟨_, rfl, hd⟩
    · cases hx : Num.asInteger x <;> rfl
    · cases v' <;> first | rfl | simp [Val.isNum] at hd
  · cases h; rfl
  · obtain ⟨nf, _, h⟩ := bind_ok h
    split at h
    · obtain ⟨ni, _, h⟩ := bind_ok h
      obtain ⟨_, hq⟩ := FillIn.constIndexQubit_mk h
      rw [FillIn.mkQubit_eq hq]; rfl
    · rw [FillIn.mkQubit_eq h]; rfl
  · split at h
    · obtain ⟨ns, _, h⟩ := bind_ok h
      rw [FillIn.mkRegister_eq h]; rfl
    · cases h; rfl
  · obtain ⟨nf, _, h⟩ := bind_ok h
    cases h; rfl
  · obtain ⟨nf, _, h⟩ := bind_ok h
    obtain ⟨a', _, h⟩ := bind_ok h
    obtain ⟨b', _, h⟩ := bind_ok h
    obtain ⟨s', _, h⟩ := bind_ok h
    rw [(FillIn.mkSliceN_eq h).1]; rfl
  · cases h; rfl
  · cases h; rfl

theorem mapM_fund {ov : List (String × Num)} : ∀ (l l' : List Val), l.mapM (FillIn.letVal ov true) = .ok l' →
    (l'.filter isFundamental).length = (l.filter isFundamental).length
  | [], l', h => by simp only [List.mapM_nil, pure, Except.pure, Except.ok.injEq] at h; subst h; rfl
  | v :: r, l', h => by
    rw [List.mapM_cons] at h
    obtain ⟨v', hv, h⟩ := bind_ok h
    obtain ⟨r', hr, h⟩ := bind_ok h
    simp only [pure, Except.pure, Except.ok.injEq] at h
    subst h
    have := mapM_fund r r' hr
    simp only [List.filter_cons, letVal_fund hv]
    split <;> simp [this]

/-- the three passes `parse_jaqal_string` can run keep the number of fundamental registers -/
theorem apply_fundCount (p : Pass) (c c' : Circuit) (hw : FillIn.WellFormed c) (hp : p.isSubs = false)
    (h : apply p c = .ok c') : fundCount c' = fundCount c := by
  cases p with
  | let_ ov =>
    obtain ⟨bs, regs, _, hregs, hr⟩ := FillIn.fillInLet_rebuilt hw h
    unfold fundCount
    rw [hr.registers]
    exact mapM_fund _ _ hregs
  | macros pr =>
    unfold fundCount
    rw [(ExpandMacros.C04_header pr c c' h).2.1]
  | subs => cases hp
  | map =>
    obtain ⟨bs, _, hr⟩ := FillIn.fillInMap_rebuilt hw h
    unfold fundCount
    rw [hr.registers]

theorem applySeq_fundCount : ∀ (π : List Pass) (c c' : Circuit), (∀ ρ : Env, Applicable ρ π c) → hasSubs π = false →
    applySeq π c = .ok c' → fundCount c' = fundCount c
  | [], c, c', _, _, h => by simp only [applySeq, pure, Except.pure, Except.ok.injEq] at h; subst h; rfl
  | p :: ps, c, c', happ, hs, h => by
    simp only [applySeq] at h
    cases h1 : apply p c with
    | error e => rw [h1] at h; cases h
    | ok c1 =>
      rw [h1] at h
      simp only [hasSubs, List.any_cons, Bool.or_eq_false_iff] at hs
      have e1 := apply_fundCount p c c1 (happ []).1.wf2 hs.1 h1
      have e2 := applySeq_fundCount ps c1 c' (fun ρ => (happ ρ).2.2 c1 h1) hs.2 h
      rw [e2, e1]

/-- **C10_flags_ok.** Asking the parser to expand while parsing gives the passes applied to the plain parse: when the
plain parse succeeds with `c` and the passes of the flags are applicable from `c` and give `c'`, the flagged parse gives
exactly `c'` (the register-count check, which `parse_jaqal_string` runs AFTER the passes, commutes with them). -/
theorem C10_flags_ok (cfg : Config) (em el elm : Bool) (ov : List (String × Num)) (sx : Sx) (c c' : Circuit)
    (hp : parseBuild cfg sx = .ok c) (happ : ∀ ρ : Env, Applicable ρ (flagPasses em el elm ov) c)
    (ha : applySeq (flagPasses em el elm ov) c = .ok c') : parseWithFlags cfg em el elm ov sx = .ok c' := by
  unfold parseBuild at hp
  obtain ⟨c0, hb, ht⟩ := bind_ok hp
  have hc : c0 = c ∧ ¬ fundCount c > 1 := by
    unfold tooManyRegisters at ht
    split at ht
    · simp [throw_eq] at ht
    · rename_i hlen
      simp only [pure, Except.pure, Except.ok.injEq] at ht
      exact ⟨ht, by subst ht; exact hlen⟩
  obtain ⟨rfl, hcount⟩ := hc
  have hns : hasSubs (flagPasses em el elm ov) = false := by cases em <;> cases el <;> cases elm <;> rfl
  have hf := applySeq_fundCount _ c0 c' happ hns ha
  simp only [parseWithFlags, hb, Except.bind, ha, catchRecursion_ok]
  unfold tooManyRegisters
  have : ¬ (c'.registers.filter isFundamental).length > 1 := by
    have : fundCount c' = (c'.registers.filter isFundamental).length := rfl
    omega
  simp [this, pure, Except.pure]

/-! ## Legality is kept -/

/-- every pass keeps a legal circuit legal (`C10_legal_preserved`, proved below) -/
def C10_legal_preserved_full : Prop :=
  ∀ (p : Pass) (c c' : Circuit), Legal c → apply p c = .ok c' → Legal c'

mutual
  theorem blocksOK_spell (p m : Stmt) (hp : FillIn.BlocksOK p) (hm : FillIn.BlocksOK m) : ∀ (s : Stmt),
      FillIn.BlocksOK (ExpandSubcircuits.spell p m s)
    | .gate n gd a => by simp [ExpandSubcircuits.spell, FillIn.BlocksOK]
    | .loop c b => by simp only [ExpandSubcircuits.spell, FillIn.BlocksOK]; exact blocksOK_spell p m hp hm b
    | .block par sub it body => by
      cases sub with
      | false =>
        simp only [ExpandSubcircuits.spell, Bool.false_eq_true, if_false]
        rw [FillIn.BlocksOK]
        exact ⟨fun _ => rfl, fun h => (by cases h), blocksOKList_spell p m hp hm body⟩
      | true =>
        simp only [ExpandSubcircuits.spell, if_true]
        rw [FillIn.BlocksOK]
        refine ⟨fun _ => rfl, fun h => (by cases h), ?_⟩
        rw [List.cons_append, FillIn.BlocksOKList]
        refine ⟨hp, ?_⟩
        exact blocksOKList_append _ _ (blocksOKList_spell p m hp hm body) ⟨hm, trivial⟩
  theorem blocksOKList_spell (p m : Stmt) (hp : FillIn.BlocksOK p) (hm : FillIn.BlocksOK m) : ∀ (l : List Stmt),
      FillIn.BlocksOKList (ExpandSubcircuits.spellList p m l)
    | [] => by simp [ExpandSubcircuits.spellList, FillIn.BlocksOKList]
    | s :: r => by
      simp only [ExpandSubcircuits.spellList, FillIn.BlocksOKList]
      exact ⟨blocksOK_spell p m hp hm s, blocksOKList_spell p m hp hm r⟩
  theorem blocksOKList_append : ∀ (a b : List Stmt), FillIn.BlocksOKList a → FillIn.BlocksOKList b → FillIn.BlocksOKList (a ++ b)
    | [], b, _, hb => hb
    | s :: r, b, ha, hb => by
      simp only [List.cons_append, FillIn.BlocksOKList] at ha ⊢
      exact ⟨ha.1, blocksOKList_append r b ha.2 hb⟩
end

/-- `expand_subcircuits` keeps `FillIn.WellFormed` (block invariants, header lists) -/
theorem C10_legal_preserved_subs_wf2 (c c' : Circuit) (hL : Legal c) (h : apply .subs c = .ok c') :
    FillIn.WellFormed c' := by
  obtain ⟨it, b, hb⟩ := ExpandMacros.WellFormed_body_block hL.wf1
  have hbody := ExpandSubcircuits.C09_shape_body hb h
  have hmac := (ExpandSubcircuits.C09_shape h).1
  obtain ⟨hc, hr, _, _, hnames, _⟩ := ExpandSubcircuits.C09_header h
  have hp : FillIn.BlocksOK (ExpandSubcircuits.prepStmt none c) := by simp [ExpandSubcircuits.prepStmt, ExpandSubcircuits.boundGate, FillIn.BlocksOK]
  have hm : FillIn.BlocksOK (ExpandSubcircuits.measStmt none c) := by simp [ExpandSubcircuits.measStmt, ExpandSubcircuits.boundGate, FillIn.BlocksOK]
  refine ⟨?_, ?_, ?_, ?_, ?_⟩
  · rw [hbody, hb]; exact ⟨ExpandSubcircuits.spellList (ExpandSubcircuits.prepStmt none c) (ExpandSubcircuits.measStmt none c) b, by simp [ExpandSubcircuits.spell]⟩
  · rw [hbody]; exact blocksOK_spell _ _ hp hm _
  · intro m hmem
    rw [hmac] at hmem
    obtain ⟨m0, _, rfl⟩ := List.mem_map.1 hmem
    exact blocksOK_spell _ _ hp hm _
  · rw [hc]; exact hL.wf2.consts
  · rw [hr]; exact hL.wf2.regs


mutual
  theorem Rel_blocksOK {F G : Val → M Val} : ∀ (s s' : Stmt), FillIn.Rel F G s s' → FillIn.BlocksOK s'
    | .gate _ _ _, .gate _ _ _, _ => by rw [FillIn.BlocksOK]; trivial
    | .block par sub it body, .block par' sub' it' body', h => by
      simp only [FillIn.Rel] at h
      obtain ⟨rfl, rfl, hit, hbody⟩ := h
      rw [FillIn.BlocksOK]
      refine ⟨?_, ?_, Rel_blocksOKs body body' hbody⟩
      · intro hs; subst hs; simpa using hit
      · intro hs; subst hs
        simp only [if_true] at hit
        obtain ⟨c, _, rfl⟩ := hit
        exact ⟨by simp, by cases c <;> simp [FillIn.normCount]⟩
    | .loop _ b, .loop _ b', h => by
      simp only [FillIn.Rel] at h
      rw [FillIn.BlocksOK]
      exact Rel_blocksOK b b' h.2
    | .gate _ _ _, .block _ _ _ _, h | .gate _ _ _, .loop _ _, h
    | .block _ _ _ _, .gate _ _ _, h | .block _ _ _ _, .loop _ _, h
    | .loop _ _, .gate _ _ _, h | .loop _ _, .block _ _ _ _, h => by simp [FillIn.Rel] at h
  theorem Rel_blocksOKs {F G : Val → M Val} : ∀ (l l' : List Stmt), FillIn.RelList F G l l' → FillIn.BlocksOKList l'
    | [], [], _ => by rw [FillIn.BlocksOKList]; trivial
    | s :: ss, s' :: ss', h => by
      simp only [FillIn.RelList] at h
      rw [FillIn.BlocksOKList]
      exact ⟨Rel_blocksOK s s' h.1, Rel_blocksOKs ss ss' h.2⟩
    | [], _ :: _, h | _ :: _, [], h => by simp [FillIn.RelList] at h
end

/-- what the rebuild of `fill_in_let` / `fill_in_map` keeps: `FillIn.WellFormed` -/
theorem rebuilt_legal {F G : Val → M Val} {Fm : Macro → Val → M Val} {c c' : Circuit} {regs : List Val} {body : List Stmt}
    (hL : Legal c) (hr : FillIn.Rebuilt F Fm G c regs body c') (hregs : ∀ v ∈ regs, FillIn.isRegLike v = true) :
    FillIn.WellFormed c' := by
  obtain ⟨ss, hc', hrel⟩ := hr.body
  refine ⟨⟨ss, hc'⟩, ?_, ?_, ?_, ?_⟩
  · rw [hc', FillIn.BlocksOK]
    exact ⟨fun _ => rfl, fun h => (by cases h), Rel_blocksOKs _ _ hrel⟩
  · intro m' hm'
    obtain ⟨m, _, hmm⟩ := FillIn.forall₂_right hr.macros m' hm'
    exact Rel_blocksOK _ _ hmm.2.2
  · rw [hr.constants]; exact hL.wf2.consts
  · rw [hr.registers]; exact hregs

/-- `fill_in_let` keeps `FillIn.WellFormed` -/
theorem C10_legal_preserved_let (ov : List (String × Num)) (c c' : Circuit) (hL : Legal c) (h : apply (.let_ ov) c = .ok c') :
    FillIn.WellFormed c' := by
  obtain ⟨bs, regs, _, hregs, hr⟩ := FillIn.fillInLet_rebuilt hL.wf2 h
  exact rebuilt_legal hL hr (FillIn.mapM_all (fun a b ha hab => FillIn.letVal_regLike ha hab) hregs hL.wf2.regs)

/-- `fill_in_map` keeps `FillIn.WellFormed` -/
theorem C10_legal_preserved_map (c c' : Circuit) (hL : Legal c) (h : apply .map c = .ok c') :
    FillIn.WellFormed c' := by
  obtain ⟨bs, _, hr⟩ := FillIn.fillInMap_rebuilt hL.wf2 h
  exact rebuilt_legal hL hr hL.wf2.regs

/-- **`expand_subcircuits` keeps a legal circuit legal** -/
theorem C10_legal_preserved_subs (c c' : Circuit) (hL : Legal c) (h : apply .subs c = .ok c') : Legal c' :=
  ⟨expandSubcircuits_wellFormed c c' hL.wf1 h, C10_legal_preserved_subs_wf2 c c' hL h, expandSubcircuits_deep c c' hL.wf1 hL.deep h⟩

/-- **`expand_macros` keeps a legal circuit legal** -/
theorem C10_legal_preserved_macros (p : Bool) (c c' : Circuit) (hL : Legal c) (h : apply (.macros p) c = .ok c') : Legal c' :=
  ⟨expandMacros_wellFormed p c c' hL.wf1 h, expandMacros_wf2 p c c' hL.wf2 h, expandMacros_deep p c c' hL.wf1 hL.deep h⟩

/-- **`fill_in_let` keeps a legal circuit legal**: the gate statements of the rebuild are what `Builder.build` makes
(`built_gateShape`), the values what `LetFiller` makes of well-formed values -/
theorem C10_legal_preserved_let' (ov : List (String × Num)) (c c' : Circuit) (hL : Legal c) (h : apply (.let_ ov) c = .ok c') :
    Legal c' :=
  ⟨fillInLet_wellFormed ov c c' hL.wf1 hL.wf2 h, C10_legal_preserved_let ov c c' hL h, fillInLet_deep ov c c' hL.wf2 hL.deep h⟩

/-- **`fill_in_map` keeps a legal circuit legal** -/
theorem C10_legal_preserved_map' (c c' : Circuit) (hL : Legal c) (h : apply .map c = .ok c') : Legal c' :=
  ⟨fillInMap_wellFormed c c' hL.wf1 hL.wf2 hL.deep h, C10_legal_preserved_map c c' hL h,
    fillInMap_deep c c' hL.wf1 hL.wf2 hL.deep h⟩

/-- **C10_legal_preserved.** Every pass keeps a legal circuit legal. -/
theorem C10_legal_preserved : C10_legal_preserved_full := by
  intro p c c' hL h
  cases p with
  | let_ ov => exact C10_legal_preserved_let' ov c c' hL h
  | macros pr => exact C10_legal_preserved_macros pr c c' hL h
  | subs => exact C10_legal_preserved_subs c c' hL h
  | map => exact C10_legal_preserved_map' c c' hL h

/-- a legal circuit makes every sequence of `expand_subcircuits` / `expand_macros` applicable (no hypothesis) -/
theorem C10_applicable_of_legal_expansions (ρ : Env) : ∀ (π : List Pass) (c : Circuit), Legal c →
    (∀ p ∈ π, p matches .macros _ | .subs) → Applicable ρ π c
  | [], _, _, _ => trivial
  | p :: ps, c, hL, hnm => by
    have hp := hnm p (by simp)
    refine ⟨hL, ?_, fun c' h => C10_applicable_of_legal_expansions ρ ps c' ?_ (fun q hq => hnm q (by simp [hq]))⟩
    · cases p <;> trivial
    · cases p with
      | macros pr => exact C10_legal_preserved_macros pr c c' hL h
      | subs => exact C10_legal_preserved_subs c c' hL h
      | let_ ov => simp at hp
      | map => simp at hp

/-- a legal circuit makes every sequence without `fill_in_map` applicable (`fill_in_map` additionally needs its side
condition at its step: `stepSide`) -/
theorem C10_applicable_of_legal (ρ : Env) : ∀ (π : List Pass) (c : Circuit), Legal c →
    (∀ p ∈ π, p matches .let_ _ | .macros _ | .subs) → Applicable ρ π c
  | [], _, _, _ => trivial
  | p :: ps, c, hL, hnm => by
    refine ⟨hL, ?_, fun c' h => C10_applicable_of_legal ρ ps c' (C10_legal_preserved p c c' hL h) (fun q hq => hnm q (by simp [hq]))⟩
    have := hnm p (by simp)
    cases p <;> trivial

/-! ## Text of the result -/

/-- **C10_legal_text** (partial). For a result `c'` of an applicable pass sequence: if `c'` is printable, its text is
generated (`C20_gen_total`); and GIVEN C01's round-trip statement for `c'` (hypothesis `hC01`: the generated text parses,
with the same configuration, to a circuit that means what `c'` means — NOT `==`: after `expand_subcircuits` the re-parsed
circuit is the spliced form), the text of the result re-parses to a circuit that means what the canonical form says.
`Printable c'` and `hC01` are hypotheses: `Printable` of a pass result is not proved (before the repairs `7f310a6` /
`8822e40` it FAILED for two families of parser-produced circuits — a macro holding a subcircuit called inside a parallel block
or subcircuit; `fill_in_map` inside a macro with a parameter named like the register — which the builder / the pass now refuse),
and C01's round trip (`C01_roundtrip_partial`) is itself conditional. The differential test checks the whole statement on the
real code (`legal_after_pass`, `no_illegal_nesting_after_pass`, `no_parameter_capture_after_pass`). -/
theorem C10_legal_text_partial (cfg : Config) (ρ : Env) (π : List Pass) (c c' : Circuit) (s : Sem)
    (happ : Applicable ρ π c) (ha : applySeq π c = .ok c') (hm : meaning (envAfter ρ π) c = .ok s)
    (hprint : Generator.Printable c')
    (hC01 : ∀ t, Generator.gen c' = .ok t → ∃ c2, Pipeline.parseProgram cfg t = .ok c2 ∧ meaning ρ c2 = meaning ρ c') :
    ∃ t c2, Generator.gen c' = .ok t ∧ Pipeline.parseProgram cfg t = .ok c2 ∧ meaning ρ c2 = .ok (tr π s) := by
  obtain ⟨t, ht⟩ := C20.C20_gen_total c' hprint
  obtain ⟨c2, hp, hmm⟩ := hC01 t ht
  exact ⟨t, c2, ht, hp, by rw [hmm]; exact C10_canonical ρ π c c' s happ ha hm⟩

/-! ## A macro named like a bounding gate (repaired in `98a447d`)

`register r[2]; macro prepare_all { G0 }; subcircuit { G1 }` (no gate set): before the repair `expand_subcircuits ;
expand_macros` replaced the inserted bounding statement by the macro's body while the other order kept it, so the two orders
differed in meaning.  Now `expand_subcircuits` refuses the circuit (`C09_macro_clash`) as long as the macro is in its table:
the order that used to go wrong is not applicable any more (after `expand_macros(preserve_definitions=False)` the table is
empty and nothing clashes). -/

def cxBound : Circuit :=
  { registers := [.regF "r" (.int 2)],
    macros := [{ name := "prepare_all", params := [], body := .block false false (.int 1) [.gate "G0" (anonDef "G0" 0) []] }],
    body := .block false false (.int 1) [.block false true (.int 1) [.gate "G1" (anonDef "G1" 0) []]] }

/-- the circuit is well formed, and `expand_subcircuits` is not applicable while `prepare_all` is a macro of it -/
theorem C10_bounding_macro_refused :
    ExpandMacros.WellFormed cxBound = true ∧
    applySeq [.subs, .macros false] cxBound = .error (.jaqal "bounding-name-is-a-macro") ∧
    applySeq [.macros true, .subs] cxBound = .error (.jaqal "bounding-name-is-a-macro") ∧
    ((applySeq [.macros false, .subs] cxBound).bind (meaning [])).map Sem.flat =
      .ok [("prepare_all", []), ("G1", []), ("measure_all", [])] := by
  refine ⟨by decide, by rfl, by rfl, by rfl⟩

/-! ## Non-vacuity -/

/-- the running example of C05 / C06 (`let n 4; let k 1; register r[n]; map a r[k:n:2]; macro M x n {…}; loop k { M r[k] 2 };
subcircuit n { X a[k] }`) is legal -/
theorem exC_legal : Legal FillIn.exC :=
  ⟨by decide, FillIn.exC_wellFormed, by
    simp [Deep, FillIn.exC, FillIn.exR, FillIn.exA, FillIn.ArgsAll, FillIn.ArgsAllList, deepVal, baseBuilt]⟩

/-- … a one-pass sequence is applicable from it (the later steps of longer sequences speak about the intermediate
circuits), the pass succeeds, and the original has a meaning under the overrides: the hypotheses of `C10_canonical` are
satisfiable -/
example : Applicable [] [.let_ [("n", .int 6)]] FillIn.exC ∧ (∃ s, meaning (envAfter [] [.let_ [("n", .int 6)]]) FillIn.exC = .ok s) :=
  ⟨⟨exC_legal, trivial, fun _ _ => trivial⟩, _, rfl⟩

example : Applicable [] [.subs] FillIn.exC ∧ (∃ c', apply .subs FillIn.exC = .ok c') ∧ (∃ s, meaning [] FillIn.exC = .ok s) :=
  ⟨⟨exC_legal, trivial, fun _ _ => trivial⟩, ⟨_, rfl⟩, _, rfl⟩

/-- a two-pass sequence: `expand_subcircuits` then `expand_macros` on the example of C09 (a subcircuit inside a macro and in
the body), with the intermediate circuit computed -/
theorem exSub_legal : Legal ExpandSubcircuits.exCircuit ∧ Legal ExpandSubcircuits.exResult := by
  have d1 : Deep ExpandSubcircuits.exCircuit := by
    simp [Deep, ExpandSubcircuits.exCircuit, ExpandSubcircuits.exF, ExpandSubcircuits.exR, FillIn.ArgsAll,
      FillIn.ArgsAllList, deepVal, baseBuilt]
  have d2 : Deep ExpandSubcircuits.exResult := by
    simp [Deep, ExpandSubcircuits.exResult, ExpandSubcircuits.exR, FillIn.ArgsAll, FillIn.ArgsAllList, deepVal, baseBuilt]
  refine ⟨⟨by decide, ⟨⟨_, rfl⟩, ?_, ?_, ?_, ?_⟩, d1⟩, ⟨by decide, ⟨⟨_, rfl⟩, ?_, ?_, ?_, ?_⟩, d2⟩⟩
  all_goals first
    | (intro v hv; simp [ExpandSubcircuits.exCircuit, ExpandSubcircuits.exResult] at hv; done)
    | (intro v hv; simp only [ExpandSubcircuits.exCircuit, ExpandSubcircuits.exResult, List.mem_singleton] at hv; subst hv; first | rfl | exact ⟨by decide, by decide⟩ | simp [FillIn.BlocksOK, FillIn.BlocksOKList, ExpandSubcircuits.exF])
    | simp [ExpandSubcircuits.exCircuit, ExpandSubcircuits.exResult, FillIn.BlocksOK, FillIn.BlocksOKList]

example : Applicable [] [.subs, .macros false] ExpandSubcircuits.exCircuit ∧
    (∃ c', applySeq [.subs, .macros false] ExpandSubcircuits.exCircuit = .ok c') ∧
    (∃ s, meaning [] ExpandSubcircuits.exCircuit = .ok s) := by
  refine ⟨⟨exSub_legal.1, trivial, fun c' h => ?_⟩, ⟨_, rfl⟩, _, rfl⟩
  have : c' = ExpandSubcircuits.exResult := by
    have e : apply .subs ExpandSubcircuits.exCircuit = .ok ExpandSubcircuits.exResult := rfl
    rw [e] at h; exact (Except.ok.inj h).symm
  subst this
  exact ⟨exSub_legal.2, trivial, fun _ _ => trivial⟩

end Jaqal.Passes

#print axioms Jaqal.Passes.C10_canonical
#print axioms Jaqal.Passes.C10_commute_meaning
#print axioms Jaqal.Passes.C10_commute_perm
#print axioms Jaqal.Passes.C10_commute_perm'
#print axioms Jaqal.Passes.C10_comm_let_macros
#print axioms Jaqal.Passes.C10_comm_let_subs
#print axioms Jaqal.Passes.C10_comm_macros_subs
#print axioms Jaqal.Passes.C10_comm_map_macros
#print axioms Jaqal.Passes.C10_comm_map_subs
#print axioms Jaqal.Passes.C10_comm_let_map
#print axioms Jaqal.Passes.C10_comm_let_map_side
#print axioms Jaqal.Passes.C10_idempotent_macros
#print axioms Jaqal.Passes.C10_idempotent_subs
#print axioms Jaqal.Passes.C10_idempotent_let
#print axioms Jaqal.Passes.C10_idempotent_map
#print axioms Jaqal.Passes.C05_idempotent
#print axioms Jaqal.Passes.C10_idempotent
#print axioms Jaqal.Passes.C10_idempotent_partial
#print axioms Jaqal.Passes.C10_idempotent_meaning
#print axioms Jaqal.Passes.C10_flags
#print axioms Jaqal.Passes.C10_flags_table
#print axioms Jaqal.Passes.C10_flags_plain
#print axioms Jaqal.Passes.C10_flags_ok
#print axioms Jaqal.Passes.C10_legal_preserved_subs
#print axioms Jaqal.Passes.C10_legal_preserved_macros
#print axioms Jaqal.Passes.C10_legal_preserved_let'
#print axioms Jaqal.Passes.C10_legal_preserved_map'
#print axioms Jaqal.Passes.C10_legal_preserved
#print axioms Jaqal.Passes.C10_applicable_of_legal_expansions
#print axioms Jaqal.Passes.C10_legal_preserved_let
#print axioms Jaqal.Passes.C10_legal_preserved_map
#print axioms Jaqal.Passes.C10_applicable_of_legal
#print axioms Jaqal.Passes.C10_legal_text_partial
#print axioms Jaqal.Passes.C10_bounding_macro_refused
