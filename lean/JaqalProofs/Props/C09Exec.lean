import JaqalProofs.Props.C09
import JaqalModel.Model.RunModel
/-!
# C09 — the execution half, as one theorem over the whole run

`RunModel.runCircuit ov c` models `run_jaqal_circuit(c)` (and, up to where the outcomes come from,
`parse_jaqal_output_list(c, outputs)`): subcircuit expansion, let substitution, macro expansion, discovery of the
prepare/measure traces, the disjointness check, serialisation of every trace and the walk that yields one visit per
executed subcircuit. Its result `RunSummary` holds the number of subcircuits, the visit sequence and the serialised
gate tokens of every trace.

`C09_exec`: let `c'` be the explicit spelling of `c` — every `subcircuit { B }` block, in the body and in every macro
body, replaced by the sequential block `prepare_all ; B ; measure_all` (`C09_shape`: `c'` is the tree map `spell` of `c`).
Then running `c'` gives exactly the summary of running `c`: same subcircuits in the same order, same visits, same gates
in every trace, and the same rejection if either is rejected. This is "a subcircuit block is executed and reported like
prepare_all … measure_all" for every circuit, every override list and every choice the run makes.
-/
namespace Jaqal.RunModel
open Jaqal Jaqal.ExpandSubcircuits

theorem C09_exec (ov : List (String × Num)) (c c' : Circuit) (h : expandSubcircuits none none c = .ok c') :
    runCircuit ov c' = runCircuit ov c := by
  have h' := C09_idempotent h
  simp only [runCircuit, expandAll, h, h', bind, Except.bind]

/-- the same at the level of `expandAll`: the circuit that is executed is literally the same circuit -/
theorem C09_exec_expanded (ov : List (String × Num)) (c c' : Circuit) (h : expandSubcircuits none none c = .ok c') :
    expandAll ov c' = expandAll ov c := by
  have h' := C09_idempotent h
  simp only [expandAll, h, h', bind, Except.bind]

/-- a circuit the pass refuses (a subcircuit count that is a macro parameter; a user macro named like a bounding gate) is
refused by the run with the same error -/
theorem C09_exec_rejected (ov : List (String × Num)) (c : Circuit) (e : Err) (h : expandSubcircuits none none c = .error e) :
    runCircuit ov c = .error e := by
  simp only [runCircuit, expandAll, h, bind, Except.bind]

/-- non-vacuity: the running example of `ExpandSubcircuits` has an explicit spelling, different from itself -/
example : expandSubcircuits none none exCircuit = .ok exResult ∧ runCircuit [] exResult = runCircuit [] exCircuit :=
  ⟨rfl, C09_exec [] _ _ rfl⟩

end Jaqal.RunModel

#print axioms Jaqal.RunModel.C09_exec
