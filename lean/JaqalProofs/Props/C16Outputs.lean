import JaqalProofs.Props.C16
import JaqalProofs.Props.C08Outputs
import JaqalProofs.Lemmas.OutputListTotal
/-!
# C16 for the second execution entry point: `parse_jaqal_output_list` fails only with JaqalError

Model: `OutputList.outputModel cfg txt outs` (`JaqalModel/Model/OutputList.lean`) =
`parse_jaqal_output_list(parse_jaqal_string(txt, inject_pulses=…, autoload_pulses=…), outs)` for lists of Python `int`s and `str`s.
`Good16 e` (`Lemmas/RunModel.lean`) = `e` is `Err.jaqal _` (JaqalError), `Err.importErr` (ImportError) or `Err.parse line col`
(JaqalParseError); in particular NOT `Err.other _` and NOT `Err.hang`.

The model splits into a part that depends on the TEXT only and a part that looks at the outputs (`outputModel_eq`):
`outputModel cfg txt outs = prepared cfg txt >>= (finish · outs)`, where `prepared cfg txt : M Prepared` is the parser, the three
passes, `DiscoverSubcircuits().visit`, the allocation of the tables and the walk, and `Prepared` holds the number of measured qubits
(`qubits`: `len(list(chain.from_iterable(circuit.fundamental_registers())))`), the tables and the visit sequence.
`measuredOf cfg txt : Option Nat` is that number of qubits (`none` when the text is refused before any output is looked at).

`ValidOut n o` (`Lemmas/OutputListTotal.lean`, decidable): `o` is the int `k` with `0 ≤ k < 2^n`, or the string `asStr n k` for such a
`k` — for `n ≥ 1` exactly `n` characters, all `0` / `1` (`validOut_str_iff`).

## What is proved — for every text, configuration and output list, no bound on sizes

* **`C16_outputs_prepare_total`** — the text-only part is total: every failure of `prepared cfg txt` is `Good16`.  Reused from
  `C16_total`'s chain, unchanged: `parseProgram_class`, `fillInClass_all`, `builtWellFormed_all`, `expandAll_class`, `flatOf_all`,
  `flatT_execClass` (⇒ `skeleton`, `tooLarge`, `checkDisjoint` fail with `JaqalError` only), `ofDiscErr_good`, `visit_ok`
  (`C08_terminates`).  New: `measuredQubits` cannot fail after `tooLarge` returned (`measuredQubits_of_tooLarge`), `allocTables`
  fails with `JaqalError` only.
* **`C16_outputs_total`** — if every entry of `outs` is `ValidOut n` for the `n` the model measures (`measuredOf cfg txt = some n`), every
  failure of `outputModel cfg txt outs` is `Good16`.  `C16_outputs_total_consumed`: it is enough that the entries the visits CONSUME
  are valid (the first `|visits|`; the rest is never looked at).  `C16_outputs_total_registers`: the hypothesis spelled with
  `parseProgram` / `expandAll` / `measuredQubits` instead of `measuredOf`.  `C16_outputs_no_crash_no_hang`: the conclusion read as
  "never `.other _`, never `.hang`".
* **`C16_outputs_classes`** — with NO hypothesis on the outputs: a failure is `Good16` or one of `ValueError`, `IndexError`,
  `OverflowError`; in particular `outputModel` never hangs (`C16_outputs_never_hangs`), whatever the list.
* **`C16_outputs_pos`** — a `JaqalParseError` of `outputModel` is the parser's (`parseText txt` fails with it), at `("EOF", 0)` or at
  the line and column of a token start / of the refused character of THIS text — the statement of `C16_pos`, for every output list.
* **`C16_outputs_odd_only`** — where the library lets a non-Jaqal exception escape: if `outputModel cfg txt outs = .error (.other cls)`
  then the text was accepted (`prepared cfg txt = .ok p`), one of the first `|p.visits|` entries of `outs` is not `ValidOut p.qubits`,
  and `cls` is `ValueError`, `IndexError` or `OverflowError`.  `C16_outputs_odd_only_measured`: the same with `measuredOf`.
  The converse does not hold: `ValidOut` is sufficient, not necessary (a negative int `-2^n ≤ k < 0` and a string of the wrong length
  whose value is `< 2^n` are accepted: `ex_negative_accepted`, `ex_long_string_accepted`).
* **`C16_outputs_deterministic`**, `C16_outputs_history_perm`, `C16_outputs_history_interleave` — mirror `C16_deterministic` …: the model
  is a function of (text, list); the outcomes of a history of calls are the per-call outcomes.

Non-vacuity: evaluated examples at the end (a loop over a subcircuit with a valid mixed list, a too-short list, a syntax error with its
position, a missing pulse module, odd outputs of the three foreign classes).
-/
namespace Jaqal.OutputList
open Jaqal Jaqal.Builder Jaqal.Parser Jaqal.RunModel

/-! ### The two halves of the model -/

/-- everything `parse_jaqal_output_list(parse_jaqal_string(txt), ·)` does before it looks at the outputs -/
def prepared (cfg : Config) (txt : String) : M Prepared := do
  let c ← Pipeline.parseProgram cfg txt
  prepare c

theorem outputModel_eq (cfg : Config) (txt : String) (outs : List HwOut) :
    outputModel cfg txt outs = (prepared cfg txt).bind (fun p => finish p outs) := by
  unfold outputModel prepared
  cases Pipeline.parseProgram cfg txt with
  | error e => rfl
  | ok c =>
    simp only [bind, Except.bind]
    exact parseOutputs_eq c outs

/-- the number of qubits the model measures: `len(subcircuit.measured_qubits)`, the exponent of the table sizes -/
def measuredOf (cfg : Config) (txt : String) : Option Nat :=
  match prepared cfg txt with
  | .ok p => some p.qubits
  | .error _ => none

theorem prepared_ok {cfg : Config} {txt : String} {p : Prepared} (h : prepared cfg txt = .ok p) :
    ∃ c x, Pipeline.parseProgram cfg txt = .ok c ∧ expandAll [] c = .ok x ∧ prepareExpanded x = .ok p := by
  unfold prepared at h
  obtain ⟨c, hc, h⟩ := bind_ok h
  obtain ⟨x, hx, hp⟩ := prepare_ok h
  exact ⟨c, x, hc, hx, hp⟩

/-- `measuredOf` is `measuredQubits` of the registers of the expanded circuit -/
theorem measuredOf_registers {cfg : Config} {txt : String} {p : Prepared} (h : prepared cfg txt = .ok p) :
    measuredOf cfg txt = some p.qubits ∧
    ∃ c x, Pipeline.parseProgram cfg txt = .ok c ∧ expandAll [] c = .ok x ∧ measuredQubits x.registers = .ok p.qubits := by
  refine ⟨by simp only [measuredOf, h], ?_⟩
  obtain ⟨c, x, hc, hx, hp⟩ := prepared_ok h
  obtain ⟨_, _, _, _, _, hq, _⟩ := prepareExpanded_ok hp
  exact ⟨c, x, hc, hx, hq⟩

/-! ### The text-only half is total -/

/-- the passes and the preparation of the parser of outputs, on a circuit built from text: `JaqalError` / `ImportError` only -/
theorem prepare_class {cfg : Config} {txt : String} {c : Circuit} (hc : Pipeline.parseProgram cfg txt = .ok c) :
    Cls Good (prepare c) := by
  have hf := fillInClass_all cfg [] txt
  have hw := builtWellFormed_all cfg [] txt
  have hx := (flatOf_all cfg [] txt).execClassOf
  unfold prepare
  exact Cls.bind (expandAll_class hc hf hw) (fun x hxx => prepareExpanded_class x (hx c x hc hxx))

/-- **C16 (outputs, the text).** Whatever the text and the configuration, everything `parse_jaqal_output_list` does before it
looks at the outputs returns or fails with JaqalError, JaqalParseError or ImportError. -/
theorem C16_outputs_prepare_total (cfg : Config) (txt : String) : ∀ e, prepared cfg txt = .error e → Good16 e := by
  show Cls Good16 (prepared cfg txt)
  unfold prepared
  exact Cls.bind (parseProgram_class cfg txt) (fun c hc => (prepare_class hc).mono (fun _ => Good.good16))

theorem prepared_inv {cfg : Config} {txt : String} {p : Prepared} (h : prepared cfg txt = .ok p) :
    (∀ v ∈ p.visits, v < p.tables.length) ∧ (∀ t ∈ p.tables, t.length = 2 ^ p.qubits) ∧ p.tables.length = p.sections := by
  obtain ⟨_, _, _, _, hp⟩ := prepared_ok h
  exact prepareExpanded_inv hp

/-! ### Totality on valid outputs -/

/-- **C16 (outputs, totality; only what is consumed).** If the entries of the list that the visits consume are valid readouts of
the measured qubits, `parse_jaqal_output_list(parse_jaqal_string(text), outs)` returns or fails with JaqalError, JaqalParseError or
ImportError. -/
theorem C16_outputs_total_consumed (cfg : Config) (txt : String) (outs : List HwOut)
    (hv : ∀ p, prepared cfg txt = .ok p → ∀ o ∈ outs.take p.visits.length, ValidOut p.qubits o) :
    ∀ e, outputModel cfg txt outs = .error e → Good16 e := by
  show Cls Good16 (outputModel cfg txt outs)
  rw [outputModel_eq]
  refine Cls.bind (m := prepared cfg txt) (C16_outputs_prepare_total cfg txt) (fun p hp => ?_)
  obtain ⟨h1, h2, _⟩ := prepared_inv hp
  exact (finish_class h1 h2 outs (hv p hp)).mono (fun _ => Good.good16)

/-- **C16 (outputs, totality).** Whatever the text and the configuration (gate set, autoload switch, import function): if every
entry of the output list is a valid readout of the `n` qubits the program measures — an int `0 ≤ k < 2^n` or an `n`-character
string of `0` / `1` — the model of `parse_jaqal_output_list(parse_jaqal_string(text), outs)` returns a result or fails with
JaqalError, JaqalParseError or ImportError: never with another exception class, never without terminating. -/
theorem C16_outputs_total (cfg : Config) (txt : String) (outs : List HwOut)
    (hv : ∀ n, measuredOf cfg txt = some n → ∀ o ∈ outs, ValidOut n o) :
    ∀ e, outputModel cfg txt outs = .error e → Good16 e :=
  C16_outputs_total_consumed cfg txt outs
    (fun p hp o ho => hv p.qubits (measuredOf_registers hp).1 o (List.mem_of_mem_take ho))

/-- the same, the hypothesis spelled with the stages of the model: `n` = the qubits of all fundamental registers of the circuit
the three passes return -/
theorem C16_outputs_total_registers (cfg : Config) (txt : String) (outs : List HwOut)
    (hv : ∀ c x n, Pipeline.parseProgram cfg txt = .ok c → expandAll [] c = .ok x → measuredQubits x.registers = .ok n →
      ∀ o ∈ outs, ValidOut n o) :
    ∀ e, outputModel cfg txt outs = .error e → Good16 e := by
  refine C16_outputs_total_consumed cfg txt outs (fun p hp o ho => ?_)
  obtain ⟨_, c, x, hc, hx, hq⟩ := measuredOf_registers hp
  exact hv c x p.qubits hc hx hq o (List.mem_of_mem_take ho)

/-- the conclusion of `C16_outputs_total`, read as "no crash, no hang" -/
theorem C16_outputs_no_crash_no_hang (cfg : Config) (txt : String) (outs : List HwOut)
    (hv : ∀ n, measuredOf cfg txt = some n → ∀ o ∈ outs, ValidOut n o) :
    (∀ cls, outputModel cfg txt outs ≠ .error (.other cls)) ∧ outputModel cfg txt outs ≠ .error .hang := by
  refine ⟨fun cls h => ?_, fun h => ?_⟩
  · exact (C16_outputs_total cfg txt outs hv _ h).not_other.1 cls rfl
  · exact (C16_outputs_total cfg txt outs hv _ h).not_other.2 rfl

/-! ### Any outputs: which classes escape -/

theorem finish_error {p : Prepared} {outs : List HwOut} {e : Err} (h : finish p outs = .error e) : ConsumeErr e := by
  unfold finish at h
  cases hc : consume p.visits outs 0 p.tables with
  | error e' =>
    rw [hc] at h
    cases h
    exact consume_error _ _ _ _ _ hc
  | ok r => rw [hc] at h; cases h

/-- a failure of `outputModel` is a failure of the text-only half, or a failure of `process_trace` on an accepted text -/
theorem outputModel_error {cfg : Config} {txt : String} {outs : List HwOut} {e : Err} (h : outputModel cfg txt outs = .error e) :
    prepared cfg txt = .error e ∨ ∃ p, prepared cfg txt = .ok p ∧ finish p outs = .error e := by
  rw [outputModel_eq] at h
  cases hp : prepared cfg txt with
  | error e' => rw [hp] at h; cases h; exact Or.inl rfl
  | ok p => rw [hp] at h; exact Or.inr ⟨p, rfl, h⟩

/-- **C16 (outputs, every list).** With no hypothesis on the outputs: a failure is a JaqalError / JaqalParseError / ImportError, or
one of the three classes `process_trace` lets through — `ValueError` (`int(s[::-1], 2)`), `IndexError`, `OverflowError` (numpy). -/
theorem C16_outputs_classes (cfg : Config) (txt : String) (outs : List HwOut) (e : Err) (h : outputModel cfg txt outs = .error e) :
    Good16 e ∨ e = .other "ValueError" ∨ e = .other "IndexError" ∨ e = .other "OverflowError" := by
  rcases outputModel_error h with hp | ⟨p, _, hf⟩
  · exact Or.inl (C16_outputs_prepare_total cfg txt e hp)
  · rcases finish_error hf with rfl | h'
    · exact Or.inl (Good.good16 (Good.jaqal _))
    · exact Or.inr h'

/-- whatever the text and the outputs, the model terminates -/
theorem C16_outputs_never_hangs (cfg : Config) (txt : String) (outs : List HwOut) : outputModel cfg txt outs ≠ .error .hang := by
  intro h
  rcases C16_outputs_classes cfg txt outs _ h with hg | hg | hg | hg
  · exact hg.not_other.2 rfl
  · cases hg
  · cases hg
  · cases hg

/-! ### Positions -/

/-- **C16 (outputs, position).** A syntax error of `parse_jaqal_output_list(parse_jaqal_string(text), outs)` — for every output list —
is the parser's error, and it carries `("EOF", 0)` or the line and column of a place of THIS text where a token starts or where
lexing stops (the position `C16_pos` describes: it is the same `parseProgram`). -/
theorem C16_outputs_pos (cfg : Config) (txt : String) (outs : List HwOut) (l : Option Nat) (c : Nat)
    (h : outputModel cfg txt outs = .error (.parse l c)) :
    parseText txt = .error (.parseError l c) ∧
    ((l = none ∧ c = 0) ∨ ∃ l', l = some l' ∧ Jaqal.C02.IsTokenPos txt l' c) := by
  have hp : Pipeline.parseProgram cfg txt = .error (.parse l c) := by
    rcases outputModel_error h with hp | ⟨p, _, hf⟩
    · unfold prepared at hp
      cases hc : Pipeline.parseProgram cfg txt with
      | error e => rw [hc] at hp; cases hp; rfl
      | ok c0 =>
        rw [hc] at hp
        exfalso
        rcases prepare_class hc _ hp with ⟨r, hr⟩ | hr <;> cases hr
    · exfalso
      rcases finish_error hf with hr | hr | hr | hr <;> cases hr
  exact C16_pos_parse cfg txt l c hp

/-- the same position as the emulator entry point reports for the same text (`C16_pos`): both are `parseText`'s -/
theorem C16_outputs_pos_same (cfg : Config) (ov : List (String × Num)) (txt : String) (outs : List HwOut) (l l' : Option Nat)
    (c c' : Nat) (h : outputModel cfg txt outs = .error (.parse l c)) (h' : runModel cfg ov txt = .error (.parse l' c')) :
    l = l' ∧ c = c' := by
  have h1 := (C16_outputs_pos cfg txt outs l c h).1
  have h2 := (C16_pos cfg ov txt l' c' h').1
  rw [h1] at h2
  cases h2
  exact ⟨rfl, rfl⟩

/-! ### Where a non-Jaqal exception escapes -/

/-- **C16 (outputs, the odd ones only).** If a foreign exception class escapes, the text was accepted — parsed, expanded, its
subcircuits discovered, the tables allocated, the walk done —, one of the entries the visits consume is NOT a valid readout of the
measured qubits, and the class is `ValueError`, `IndexError` or `OverflowError`. -/
theorem C16_outputs_odd_only (cfg : Config) (txt : String) (outs : List HwOut) (cls : String)
    (h : outputModel cfg txt outs = .error (.other cls)) :
    ∃ p, prepared cfg txt = .ok p ∧ (∃ o ∈ outs.take p.visits.length, ¬ ValidOut p.qubits o) ∧
      (cls = "ValueError" ∨ cls = "IndexError" ∨ cls = "OverflowError") := by
  rcases outputModel_error h with hp | ⟨p, hp, hf⟩
  · exact absurd rfl ((C16_outputs_prepare_total cfg txt _ hp).not_other.1 cls)
  · refine ⟨p, hp, ?_, ?_⟩
    · obtain ⟨h1, h2, _⟩ := prepared_inv hp
      unfold finish at hf
      cases hc : consume p.visits outs 0 p.tables with
      | error e' =>
        rw [hc] at hf
        cases hf
        exact consume_other_invalid p.qubits _ _ _ _ h1 h2 cls hc
      | ok r => rw [hc] at hf; cases hf
    · rcases finish_error hf with hr | hr | hr | hr <;> cases hr
      · exact Or.inl rfl
      · exact Or.inr (Or.inl rfl)
      · exact Or.inr (Or.inr rfl)

/-- the contrapositive of `C16_outputs_total` as it is stated: some entry of the list is not valid for the measured qubits -/
theorem C16_outputs_odd_only_measured (cfg : Config) (txt : String) (outs : List HwOut) (cls : String)
    (h : outputModel cfg txt outs = .error (.other cls)) :
    ∃ n, measuredOf cfg txt = some n ∧ ∃ o ∈ outs, ¬ ValidOut n o := by
  obtain ⟨p, hp, ⟨o, ho, hno⟩, _⟩ := C16_outputs_odd_only cfg txt outs cls h
  exact ⟨p.qubits, (measuredOf_registers hp).1, o, List.mem_of_mem_take ho, hno⟩

/-! ### No sticky state: the model is a function of the text and the list -/

/-- the outcomes of a history of calls: one per call, each computed from its own text and output list alone -/
def history (cfg : Config) (calls : List (String × List HwOut)) : List (M OutputSummary) :=
  calls.map (fun q => outputModel cfg q.1 q.2)

/-- **C16 (outputs, determinism).** The outcome of a call in a history is the outcome of that call alone. -/
theorem C16_outputs_deterministic (cfg : Config) (before after : List (String × List HwOut)) (txt : String) (outs : List HwOut) :
    (history cfg (before ++ (txt, outs) :: after))[before.length]? = some (outputModel cfg txt outs) := by
  simp [history]

/-- permuting the calls permutes the outcomes -/
theorem C16_outputs_history_perm (cfg : Config) {a b : List (String × List HwOut)} (h : a.Perm b) :
    (history cfg a).Perm (history cfg b) := h.map _

/-- interleaving other (e.g. failing) calls changes nothing for the calls of interest -/
theorem C16_outputs_history_interleave (cfg : Config) {calls all : List (String × List HwOut)} (h : calls.Sublist all) :
    (history cfg calls).Sublist (history cfg all) := h.map _

/-! ### Non-vacuity -/

/-- `register r[2]; loop 2 { subcircuit { Gx r[0] } }; subcircuit 3 { }` (`exTxt`) measures two qubits, has two subcircuits and
three visits -/
example : (match prepared {} exTxt with
  | .ok p => p.qubits == 2 && p.sections == 2 && p.visits == [0, 0, 1] | _ => false) = true := by decide +kernel
theorem ex_measured : measuredOf {} exTxt = some 2 := by decide +kernel

/-- a valid mixed list: ints and strings -/
theorem ex_valid : ∀ o ∈ exOuts, ValidOut 2 o := by decide +kernel

/-- the hypothesis of `C16_outputs_total` holds for the text with a loop over a subcircuit and the mixed list, and the run returns -/
theorem ex_hyp : ∀ n, measuredOf {} exTxt = some n → ∀ o ∈ exOuts, ValidOut n o := by
  intro n hn
  rw [ex_measured] at hn
  cases hn
  exact ex_valid
example : ∀ e, outputModel {} exTxt exOuts = .error e → Good16 e := C16_outputs_total {} exTxt exOuts ex_hyp
example : outputModel {} exTxt exOuts = .ok exSummary := ex_run

/-- a too-short valid list: the hypothesis holds, the outcome is a `JaqalError` -/
example : (∀ n, measuredOf {} exTxt = some n → ∀ o ∈ [HwOut.int 1, .str "01"], ValidOut n o) ∧
    outputModel {} exTxt [.int 1, .str "01"] = .error (.jaqal "not-enough-outputs") := by
  refine ⟨?_, ex_short⟩
  intro n hn
  rw [ex_measured] at hn
  cases hn
  decide +kernel

/-- a syntax error (line 1, column 7) and a truncated text (`("EOF", 0)`), whatever the list; a gate outside a subcircuit
(JaqalError of the discovery); a pulse module that cannot be found (ImportError); a register too large for the tables -/
example : outputModel {} "let x $" exOuts = .error (.parse (some 1) 7) := by decide +kernel
example : outputModel {} "register r[2]\nloop 2 {" [.str "zz"] = .error (.parse none 0) := by decide +kernel
example : (match outputModel cfgX "register q[2]\nX q[1]\n" exOuts with | .error (.jaqal _) => true | _ => false) = true := by
  decide +kernel
example : outputModel { cfgX with autoload := true } "from nosuch.mod usepulses *\nregister q[2]\n" exOuts = .error .importErr := by
  decide +kernel
example : outputModel {} "register r[40]\nsubcircuit { }\n" [.int 0] = .error (.jaqal "frequency-tables-do-not-fit") := ex_too_large
/-- `C16_outputs_pos` on the first of them: the position is a token position of the text -/
example : parseText "let x $" = .error (.parseError (some 1) 7) ∧
    ((some 1 = none ∧ 7 = 0) ∨ ∃ l', some 1 = some l' ∧ Jaqal.C02.IsTokenPos "let x $" l' 7) :=
  C16_outputs_pos {} "let x $" exOuts (some 1) 7 (by decide +kernel)

/-- odd outputs, where the hypothesis fails and `.other` really occurs: a character other than 0/1 and the empty string
(`ValueError`), an int ≥ 2^n (`IndexError`), an int in `[2^63, 2^64)` (`OverflowError`) -/
example : ¬ ValidOut 2 (.str "0x") ∧ ¬ ValidOut 2 (.str "") ∧ ¬ ValidOut 2 (.int 4) ∧ ¬ ValidOut 2 (.int (2 ^ 63)) := by
  decide +kernel
example : outputModel {} exTxt [.int 1, .str "0x", .int 1] = .error (.other "ValueError") := ex_value_error
example : outputModel {} exTxt [.int 1, .int 4, .int 1] = .error (.other "IndexError") := ex_index_error
example : outputModel {} exTxt [.int 1, .int (2 ^ 63), .int 1] = .error (.other "OverflowError") := ex_overflow_error
/-- `C16_outputs_odd_only` instantiated -/
example : ∃ n, measuredOf {} exTxt = some n ∧ ∃ o ∈ [HwOut.int 1, .str "0x", .int 1], ¬ ValidOut n o :=
  C16_outputs_odd_only_measured {} exTxt _ "ValueError" ex_value_error

/-- an odd entry AFTER the last visit is never looked at (`C16_outputs_total_consumed` applies, `C16_outputs_total` does not) -/
example : outputModel {} exTxt [.int 1, .int 2, .int 1, .int 7, .str "zz"] = .ok exSummary := ex_ints

/-- `ValidOut` is sufficient, not necessary: the code accepts the negative int `-1` (counted at `2^n - 1`, the readout keeps
`as_int = -1`) and a 3-character string for 2 qubits whose value is `< 4` -/
theorem ex_negative_accepted : ¬ ValidOut 2 (.int (-1)) ∧
    (match outputModel {} exTxt [.int 1, .int (-1), .int 1] with | .ok _ => true | _ => false) = true := by decide +kernel
theorem ex_long_string_accepted : ¬ ValidOut 2 (.str "010") ∧
    (match outputModel {} exTxt [.int 1, .str "010", .int 1] with | .ok s => s == exSummary | _ => false) = true := by
  decide +kernel

/-- the two forms of `ValidOut` for strings agree on an example -/
example : ValidOut 2 (.str "01") ↔ ("01".length = 2 ∧ ∀ c ∈ "01".toList, c = '0' ∨ c = '1') := validOut_str_iff (by decide) "01"

/-- determinism on a history with a failing call in the middle -/
example : (history {} [("let x $", exOuts), (exTxt, exOuts), (exTxt, [.str "zz"])])[1]? = some (.ok exSummary) := by
  rw [← ex_run]
  exact C16_outputs_deterministic {} [("let x $", exOuts)] [(exTxt, [.str "zz"])] exTxt exOuts

end Jaqal.OutputList

#print axioms Jaqal.OutputList.C16_outputs_prepare_total
#print axioms Jaqal.OutputList.C16_outputs_total_consumed
#print axioms Jaqal.OutputList.C16_outputs_total
#print axioms Jaqal.OutputList.C16_outputs_total_registers
#print axioms Jaqal.OutputList.C16_outputs_no_crash_no_hang
#print axioms Jaqal.OutputList.C16_outputs_classes
#print axioms Jaqal.OutputList.C16_outputs_never_hangs
#print axioms Jaqal.OutputList.C16_outputs_pos
#print axioms Jaqal.OutputList.C16_outputs_pos_same
#print axioms Jaqal.OutputList.C16_outputs_odd_only
#print axioms Jaqal.OutputList.C16_outputs_odd_only_measured
#print axioms Jaqal.OutputList.C16_outputs_deterministic
#print axioms Jaqal.OutputList.C16_outputs_history_perm
#print axioms Jaqal.OutputList.C16_outputs_history_interleave
