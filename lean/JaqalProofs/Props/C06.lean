import JaqalModel.Model.FillIn
import JaqalModel.Model.UsedQubits
import JaqalModel.Spec.Sem
import JaqalProofs.Lemmas.FillInResolve
import JaqalProofs.Lemmas.FillInSem
/-!
# C06 — every qubit reference denotes exactly one index of the fundamental register; all consumers agree

* `C06_resolve_slice / _whole / _single` — the defining equation: element `i` of `src[start:stop:step]` is element
  `start + i·step` of `src` (one link of a chain), for every context.
* `C06_resolve_closed_form` — along a chain of slice aliases the index is `a_k + s_k·(… (a₁ + s₁·i))`, a fold.
* `C06_resolve_eq_spec` — the library's closed form (`Resolve.resolveQubit`) agrees with the specification's
  extensional reading (`Sem.evalQubit`: a register denotes the list of fundamental qubits it stands for, a slice is the
  sub-list picked by `range(start, stop, step)`) for every chain depth, every start / stop / step including negative
  steps, literal or let-valued bounds and sizes, whenever the constructors' checks hold (`ValidChain`, decidable);
  `C06_valid_of_builder`: for literal sizes and bounds the builder's checks (`ValOK`, established by C14 for everything the
  builder constructs) imply `ValidChain`.
* `C06_in_range`, `C06_total` — the resolved index lies inside the fundamental register; an in-range index of a valid
  chain always resolves.
* `C06_agree_used / _fill / _emulator`, `C06_alias_same_as_direct` — used-qubit analysis, alias fill-in and the
  emulator's extraction factor through `Resolve.resolveQubit`; a gate written on an alias acts on the same fundamental
  qubit as the gate written on the register directly.
* `C06_fill_in_map` — alias fill-in leaves the meaning unchanged and rewrites every qubit argument to `fundamental[k]`,
  `(fundamental, k)` being the resolution of the original (`C06_mapVal_qubit`); it never writes a register name inside a
  macro whose parameter has that name (`FundRefNot`; the error case is `C06_fill_in_map_shadow`).
-/
namespace Jaqal.FillIn
open Jaqal Jaqal.Builder Jaqal.Resolve

/-! ### The defining equation, one link at a time -/

/-- element `i` of the alias `src[a:b:s]` is element `a + i·s` of `src` (`0 ≤ i < size`), in every context -/
theorem C06_resolve_slice (ctx : Resolve.Ctx) (n : String) (src a b s sz : Val) (K i ia is : Int)
    (hsize : resolveSize ctx (.regS n src a b s) = .ok sz) (hK : resolveAV ctx (avFuel ctx) sz = .ok (.int K))
    (ha : resolveInt ctx (startOr0 a) = .ok ia) (hs : resolveInt ctx (stepOr1 s) = .ok is)
    (h0 : 0 ≤ i) (hi : i < K) :
    resolveReg ctx (.regS n src a b s) i = resolveReg ctx src (ia + i * is) := by
  rw [resolveReg_regS_int ctx n src a b s sz K i ia is hsize hK ha hs]
  simp [show ¬ (i < 0 ∨ i ≥ K) by omega]

/-- element `i` of a whole-register alias is element `i` of its source -/
theorem C06_resolve_whole (ctx : Resolve.Ctx) (n : String) (src sz : Val) (K i : Int)
    (hsize : resolveSize ctx (.regA n src) = .ok sz) (hK : resolveAV ctx (avFuel ctx) sz = .ok (.int K))
    (h0 : 0 ≤ i) (hi : i < K) :
    resolveReg ctx (.regA n src) i = resolveReg ctx src i := by
  rw [resolveReg_regA_int ctx n src sz K i hsize hK]
  simp [show ¬ (i < 0 ∨ i ≥ K) by omega]

/-- a single-qubit alias `map q src[i]` (or the reference `src[i]`) is element `i` of `src` -/
theorem C06_resolve_single (ctx : Resolve.Ctx) (n : String) (src : Val) (i : Int) (hr : Resolve.isRegister src = true) :
    resolveQubit ctx (.qubit n src (.int i)) = resolveReg ctx src i := by
  have h1 : resolveAV ctx (avFuel ctx) (.int i) = .ok (.int i) := by simp [avFuel, resolveAV]
  have h2 : resolveAV ctx (avFuel ctx) src = .ok src := by
    cases src <;> simp [Resolve.isRegister] at hr <;> simp [avFuel, resolveAV]
  simp [resolveQubit, h1, h2, hr, bind, Except.bind]

/-! ### Closed form along a chain -/

/-- a slice alias with literal bounds: name, start, stop, step -/
abbrev Link := String × Int × Int × Int

/-- `base` seen through the aliases `links` (outermost first) -/
def chainOf (base : Val) : List Link → Val
  | [] => base
  | (n, a, b, s) :: rest => .regS n (chainOf base rest) (.int a) (.int b) (.int s)

/-- the index in the base register: `a_k + s_k·(… (a₁ + s₁·i))` -/
def chainIndex (links : List Link) (i : Int) : Int := links.foldl (fun j l => l.2.1 + j * l.2.2.2) i

theorem resolveReg_regS_ok {ctx : Resolve.Ctx} {n : String} {src a b s : Val} {i : Int} {q : String × Int}
    (h : resolveReg ctx (.regS n src a b s) i = .ok q) :
    ∃ ia is, resolveInt ctx (startOr0 a) = .ok ia ∧ resolveInt ctx (stepOr1 s) = .ok is ∧
      resolveReg ctx src (ia + i * is) = .ok q := by
  rw [resolveReg_regS_eq] at h
  have h := sizeGate_ok h
  obtain ⟨ia, ha, h⟩ := bind_ok h
  obtain ⟨is, hs, h⟩ := bind_ok h
  exact ⟨ia, is, ha, hs, h⟩

theorem resolveReg_regA_ok {ctx : Resolve.Ctx} {n : String} {src : Val} {i : Int} {q : String × Int}
    (h : resolveReg ctx (.regA n src) i = .ok q) : resolveReg ctx src i = .ok q := by
  rw [resolveReg_regA_eq] at h
  exact sizeGate_ok h

theorem C06_resolve_closed_form (ctx : Resolve.Ctx) (base : Val) : ∀ (links : List Link) (i : Int) (q : String × Int),
    resolveReg ctx (chainOf base links) i = .ok q → resolveReg ctx base (chainIndex links i) = .ok q := by
  intro links
  induction links with
  | nil => intro i q h; exact h
  | cons l rest ih =>
    intro i q h
    obtain ⟨n, a, b, s⟩ := l
    obtain ⟨ia, is, ha, hs, h'⟩ := resolveReg_regS_ok (src := chainOf base rest) h
    have e1 : ia = a := by
      have : resolveInt ctx (startOr0 (.int a)) = .ok a := resolveInt_intOf (startOr0_intOf (v := .int a) rfl) ctx
      rw [this] at ha; cases ha; rfl
    have e2 : is = s := by
      have : resolveInt ctx (stepOr1 (.int s)) = .ok s := resolveInt_intOf (stepOr1_intOf (v := .int s) rfl) ctx
      rw [this] at hs; cases hs; rfl
    subst e1; subst e2
    exact ih _ q h'

/-- `map a r[1:7:2]; map b a[2:0:-1]`: `b[1]` is `a[2 - 1] = a[1]` is `r[1 + 1·2] = r[3]` -/
example : chainIndex [("b", 2, 0, -1), ("a", 1, 7, 2)] 1 = 3 := by decide
example : resolveReg [] (chainOf (.regF "r" (.int 8)) [("b", 2, 0, -1), ("a", 1, 7, 2)]) 1 = .ok ("r", 3) := by rfl

/-! ### The library's closed form = the specification's list reading -/

theorem C06_resolve_eq_spec (n : String) (src idx : Val) (i : Int) (hv : ValidChain src) (hi : intOf idx = some i)
    (q : String × Int) :
    resolveQubit [] (.qubit n src idx) = .ok q ↔ Sem.evalQubit [] [] (.qubit n src idx) = .ok q := by
  obtain ⟨K, hK, hK0⟩ := validChain_sizeI hv
  obtain ⟨l, hl, hlen, hin, hout⟩ := chain_spec hv hK
  have hr : Resolve.isRegister src = true := by
    cases src <;> first | rfl | simp [ValidChain, validChain] at hv
  have h2 : resolveAV [] (avFuel []) src = .ok src := by
    cases src <;> simp [Resolve.isRegister] at hr <;> simp [avFuel, resolveAV]
  have e1 : resolveQubit [] (.qubit n src idx) = resolveReg [] src i := by
    simp [resolveQubit, resolveAV_intOf hi, h2, hr, bind, Except.bind]
  have e2 : Sem.evalQubit [] [] (.qubit n src idx) = match Sem.nth? l i with
      | some q => pure q
      | none => .error (.jaqal "index out of range") := by
    simp only [Sem.evalQubit, evalInt_intOf hi, hl, bind, Except.bind]
    rfl
  rw [e1, e2]
  by_cases hin' : 0 ≤ i ∧ i < K
  · obtain ⟨q0, hq0, hr0⟩ := hin i hin'.1 hin'.2
    rw [hr0, nth?_of_nonneg l hin'.1, hq0]
    exact Iff.rfl
  · obtain ⟨e, he⟩ := hout i (by omega)
    have hnone : Sem.nth? l i = none := by
      unfold Sem.nth?
      by_cases hneg : i < 0
      · simp [hneg]
      · simp only [hneg, if_false]
        exact List.getElem?_eq_none (by omega)
    rw [he, hnone]
    constructor <;> intro h <;> cases h

/-- the same for the denotation of the whole register: `size` many qubits, the `i`-th being what the library resolves -/
theorem C06_register_denotation (v : Val) (hv : ValidChain v) :
    ∃ (K : Int) (l : List Sem.FQ), sizeI v = some K ∧ Sem.evalReg [] [] v = .ok l ∧ l.length = K.toNat ∧
      ∀ i : Int, 0 ≤ i → i < K → ∃ q, l[i.toNat]? = some q ∧ resolveReg [] v i = .ok q := by
  obtain ⟨K, hK, _⟩ := validChain_sizeI hv
  obtain ⟨l, hl, hlen, hin, _⟩ := chain_spec hv hK
  exact ⟨K, l, hK, hl, hlen, hin⟩

/-- an in-range index of a valid chain always resolves -/
theorem C06_total (v : Val) (K i : Int) (hv : ValidChain v) (hK : sizeI v = some K) (h0 : 0 ≤ i) (hi : i < K) :
    ∃ q, resolveReg [] v i = .ok q := by
  obtain ⟨l, _, _, hin, _⟩ := chain_spec hv hK
  obtain ⟨q, _, hq⟩ := hin i h0 hi
  exact ⟨q, hq⟩

/-- For literal sizes and bounds, what the builder's constructors check (`ValOK`, C14) implies `ValidChain`. -/
theorem C06_valid_of_builder {v : Val} : ∀ {k : Int}, litSize v = some k → ValOK v → ValidChain v ∧ sizeI v = some k := by
  induction v with
  | regF n sz _ =>
    intro k hk hok
    cases sz <;> simp [litSize] at hk
    subst hk
    have := hok _ rfl
    exact ⟨by simp [ValidChain, validChain, intOf, this], rfl⟩
  | regA n src ih =>
    intro k hk hok
    obtain ⟨h1, h2⟩ := ih (by simpa [litSize] using hk) hok.1
    exact ⟨by simpa [ValidChain, validChain] using h1, by simpa [sizeI] using h2⟩
  | regS n src a b s ih _ _ _ =>
    intro k hk hok
    clear * - ih hk hok
    cases a <;> cases b <;> cases s <;> simp only [litSize] at hk <;> try (exact absurd hk (by simp))
    rename_i ia ib is
    cases hl : litSize src with
    | none => simp [hl] at hk
    | some ks =>
      simp only [hl] at hk
      by_cases hs : is = 0
      · simp [hs] at hk
      · simp only [hs, if_false, Option.some.injEq] at hk
        obtain ⟨hv, hsz⟩ := ih hl hok.1
        obtain ⟨_, h0, hall⟩ := hok.2.2 ia ib is ks rfl rfl rfl hl
        have hlen0 := rangeLenI_nonneg (a := ia) (e := ib) hs
        refine ⟨?_, by rw [sizeI_regS hsz rfl rfl rfl hs, hk]⟩
        simp only [ValidChain, validChain, hv, hsz, intOf, Bool.true_and, Bool.and_eq_true, Bool.or_eq_true,
          decide_eq_true_eq]
        refine ⟨hs, ?_⟩
        by_cases hlen : rangeLenI ia ib is ≤ 0
        · exact Or.inl hlen
        · right
          have f := hall 0 (by omega) (by omega)
          have g := hall (rangeLenI ia ib is - 1) (by omega) (by omega)
          simp only [Int.zero_mul, Int.add_zero] at f
          exact ⟨⟨⟨f.1, f.2⟩, g.1⟩, g.2⟩
  | _ => intro k hk; simp [litSize] at hk

/-! ### The resolved index lies inside the fundamental register -/

theorem resolveReg_in_range {ctx : Resolve.Ctx} {v : Val} : ∀ {i : Int} {q : String × Int}, resolveReg ctx v i = .ok q →
    ∃ n sz, UsedQubits.fundOf v = some (.regF n sz) ∧ q.1 = n ∧
      ((∃ K, resolveAV ctx (avFuel ctx) sz = .ok (.int K) ∧ 0 ≤ q.2 ∧ q.2 < K) ∨
        resolveAV ctx (avFuel ctx) sz = .ok .none) := by
  induction v with
  | regF n sz _ =>
    intro i q h
    refine ⟨n, sz, rfl, ?_⟩
    rw [resolveReg_regF_eq] at h
    obtain ⟨rfl, hc⟩ := baseGate_ok h
    exact ⟨rfl, hc⟩
  | regA n src ih =>
    intro i q h
    simpa [UsedQubits.fundOf] using ih (resolveReg_regA_ok h)
  | regS n src a b s ih _ _ _ =>
    intro i q h
    obtain ⟨ia, is, _, _, h'⟩ := resolveReg_regS_ok h
    simpa [UsedQubits.fundOf] using ih h'
  | _ => intro i q h; simp [resolveReg] at h

/-- **C06_in_range**: whatever the chain, a successful resolution yields an index of the fundamental register at the end
of the chain, within `0 ≤ k < size` (for a register with a declared size). -/
theorem C06_in_range (n : String) (src idx : Val) (r : String) (k : Int) (hv : ValidChain src)
    (h : resolveQubit [] (.qubit n src idx) = .ok (r, k)) :
    ∃ fn fsz K0, UsedQubits.fundOf src = some (.regF fn fsz) ∧ intOf fsz = some K0 ∧ r = fn ∧ 0 ≤ k ∧ k < K0 := by
  have hr : Resolve.isRegister src = true := by
    cases src <;> first | rfl | simp [ValidChain, validChain] at hv
  have h2 : resolveAV [] (avFuel []) src = .ok src := by
    cases src <;> simp [Resolve.isRegister] at hr <;> simp [avFuel, resolveAV]
  -- the register the index is finally checked against
  have key : ∀ i, resolveReg [] src i = .ok (r, k) → _ := fun i hi => resolveReg_in_range hi
  have hbase : ∀ {v : Val}, ValidChain v → ∀ fn fsz, UsedQubits.fundOf v = some (.regF fn fsz) → ∃ K0, intOf fsz = some K0 := by
    intro v
    induction v with
    | regF n sz _ =>
      intro hv fn fsz hf
      simp only [UsedQubits.fundOf, Option.some.injEq, Val.regF.injEq] at hf
      obtain ⟨_, rfl⟩ := hf
      simp only [ValidChain, validChain] at hv
      cases hk : intOf sz with
      | none => simp [hk] at hv
      | some K0 => exact ⟨K0, rfl⟩
    | regA n src ih => intro hv fn fsz hf; exact ih (by simpa [ValidChain, validChain] using hv) fn fsz (by simpa [UsedQubits.fundOf] using hf)
    | regS n src a b s ih _ _ _ =>
      intro hv fn fsz hf
      exact ih (validChain_regS hv).1 fn fsz (by simpa [UsedQubits.fundOf] using hf)
    | _ => intro hv; simp [ValidChain, validChain] at hv
  rw [resolveQubit] at h
  obtain ⟨iv, hiv, h⟩ := bind_ok h
  obtain ⟨rv, hrv, h⟩ := bind_ok h
  rw [h2] at hrv; cases hrv
  simp only [hr, Bool.not_true, Bool.false_eq_true, if_false, bind, Except.bind] at h
  have fin : ∀ i, resolveReg [] src i = .ok (r, k) → ∃ fn fsz K0, UsedQubits.fundOf src = some (.regF fn fsz) ∧
      intOf fsz = some K0 ∧ r = fn ∧ 0 ≤ k ∧ k < K0 := by
    intro i hi
    obtain ⟨fn, fsz, hf, hn, hcase⟩ := key i hi
    obtain ⟨K0, hK0⟩ := hbase hv fn fsz hf
    have hres := resolveAV_intOf hK0 []
    rcases hcase with ⟨K, hK, h0, h1⟩ | hnone
    · rw [hres] at hK; cases hK
      exact ⟨fn, fsz, K0, hf, hK0, hn, h0, h1⟩
    · rw [hres] at hnone; cases hnone
  cases iv with
  | int i => exact fin i h
  | flt d =>
    by_cases hd : d.isIntegral = true
    · simp only [hd, if_true] at h; exact fin _ h
    · simp [hd] at h
  | _ => simp at h

/-! ### All consumers factor through `Resolve.resolveQubit` -/

/-- used-qubit analysis (`UsedQubitIndicesVisitor.visit_NamedQubit`) -/
theorem C06_agree_used (ctx : Resolve.Ctx) (fuel : Nat) (n : String) (src idx : Val) :
    UsedQubits.visitVal ctx fuel (.qubit n src idx) =
      (do let q ← resolveQubit ctx (.qubit n src idx); pure [(q.1, [q.2])]) := by
  cases fuel <;> rfl

/-- the name of a register value -/
def nameOf (v : Val) : String := v.name?.getD ""

theorem map_bind2 {α β : Type} (f : α → β) (x y : M Int) (k : Int → Int → M α) :
    (do let a ← x; let b ← y; k a b : M α).map f = (do let a ← x; let b ← y; (k a b).map f) := by
  cases x with
  | error e => rfl
  | ok a => cases y <;> rfl

theorem resolveRegV_spec {ctx : Resolve.Ctx} {v : Val} : ∀ (i : Int),
    (resolveRegV ctx v i).map (fun p => (nameOf p.1, p.2)) = resolveReg ctx v i ∧
    ∀ reg k, resolveRegV ctx v i = .ok (reg, k) → UsedQubits.fundOf v = some reg := by
  induction v with
  | regF n sz _ =>
    intro i
    rw [resolveRegV_regF_eq, resolveReg_regF_eq, baseGate_map]
    exact ⟨rfl, fun reg k h => by obtain ⟨h1, _⟩ := baseGate_ok h; cases h1; rfl⟩
  | regA n src ih =>
    intro i
    rw [resolveRegV_regA_eq, resolveReg_regA_eq, sizeGate_map, (ih i).1]
    exact ⟨rfl, fun reg k h => by simpa [UsedQubits.fundOf] using (ih i).2 reg k (sizeGate_ok h)⟩
  | regS n src a b s ih _ _ _ =>
    intro i
    rw [resolveRegV_regS_eq, resolveReg_regS_eq, sizeGate_map, map_bind2]
    refine ⟨?_, fun reg k h => ?_⟩
    · congr 1
      cases resolveInt ctx (startOr0 a) with
      | error e => rfl
      | ok ia =>
        cases resolveInt ctx (stepOr1 s) with
        | error e => rfl
        | ok is => exact (ih _).1
    · have h := sizeGate_ok h
      obtain ⟨ia, _, h⟩ := bind_ok h
      obtain ⟨is, _, h⟩ := bind_ok h
      simpa [UsedQubits.fundOf] using (ih _).2 reg k h
  | _ => intro i; exact ⟨rfl, fun _ _ h => by simp [resolveRegV] at h⟩

/-- `NamedQubit.resolve_qubit` returning the register object is `Resolve.resolveQubit` plus the object -/
theorem resolveQubitV_spec (ctx : Resolve.Ctx) (q : Val) :
    (resolveQubitV ctx q).map (fun p => (nameOf p.1, p.2)) = resolveQubit ctx q := by
  cases q with
  | qubit n src idx =>
    rw [resolveQubitV, resolveQubit]
    cases resolveAV ctx (avFuel ctx) idx with
    | error e => rfl
    | ok iv =>
      cases resolveAV ctx (avFuel ctx) src with
      | error e => rfl
      | ok rv =>
        simp only [bind, Except.bind]
        by_cases hr : Resolve.isRegister rv = true
        · simp only [hr, Bool.not_true, Bool.false_eq_true, if_false]
          cases iv with
          | int i => exact (resolveRegV_spec i).1
          | flt d =>
            by_cases hd : d.isIntegral = true
            · simp only [hd, if_true]; exact (resolveRegV_spec _).1
            · simp only [hd]; rfl
          | _ => rfl
        · simp only [hr]; rfl
  | _ => rfl

/-- alias fill-in (`MapFiller.visit_NamedQubit`): `reg[index]` of the resolution, refused when the register's name is
a parameter name of the macro being visited -/
theorem C06_agree_fill (mps : List String) (n : String) (src idx : Val) :
    mapVal mps (.qubit n src idx) = (do
      let (reg, k) ← resolveQubitV [] (.qubit n src idx)
      if mps.contains (nameOf reg) then throw (.jaqal "macro-parameter-named-like-register")
      getItem reg (.int k)) ∧
    (resolveQubitV [] (.qubit n src idx)).map (fun p => (nameOf p.1, p.2)) = resolveQubit [] (.qubit n src idx) :=
  ⟨rfl, resolveQubitV_spec [] _⟩

/-- the emulator's qubit extraction (`unitary.py`: `qind.append(val.resolve_qubit()[1])`), the instance of the
`qidx` parameter of `GateDef.splitArgs` / `GateDef.emuEntry` -/
def emuQidx (v : Val) : M Nat := do
  let q ← resolveQubit [] v
  if q.2 < 0 then throw (.other "IndexError") else pure q.2.toNat

theorem C06_agree_emulator (v : Val) (r : String) (k : Int) (h : resolveQubit [] v = .ok (r, k)) (hk : 0 ≤ k) :
    emuQidx v = .ok k.toNat := by
  simp [emuQidx, h, bind, Except.bind, show ¬ k < 0 by omega, pure, Except.pure]

/-- A gate written on an alias acts on the same fundamental qubit as the gate written on the register directly:
the reference `fund[k]`, where `(fund, k)` is the resolution of the aliased reference, resolves to the same pair. -/
theorem C06_alias_same_as_direct (n : String) (src idx : Val) (reg : Val) (k : Int)
    (h : resolveQubitV [] (.qubit n src idx) = .ok (reg, k)) (nm : String) :
    resolveQubit [] (.qubit nm reg (.int k)) = resolveQubit [] (.qubit n src idx) ∧
    emuQidx (.qubit nm reg (.int k)) = emuQidx (.qubit n src idx) := by
  have hq := resolveQubitV_spec [] (.qubit n src idx)
  rw [h] at hq
  have hq' : resolveQubit [] (.qubit n src idx) = .ok (nameOf reg, k) := hq.symm
  -- `reg` is the fundamental register at the end of the chain and `k` passed its range check
  rw [resolveQubitV] at h
  obtain ⟨iv, _, h⟩ := bind_ok h
  obtain ⟨rv, _, h⟩ := bind_ok h
  by_cases hr : Resolve.isRegister rv = true
  · simp only [hr, Bool.not_true, Bool.false_eq_true, if_false, bind, Except.bind] at h
    have fin : ∀ i, resolveRegV [] rv i = .ok (reg, k) → resolveQubit [] (.qubit nm reg (.int k)) = .ok (nameOf reg, k) := by
      intro i hi
      have h1 := (resolveRegV_spec (ctx := []) (v := rv) i).1
      rw [hi] at h1
      obtain ⟨fn, fsz, hf, hn, hcase⟩ := resolveReg_in_range h1.symm
      have h2 := (resolveRegV_spec (ctx := []) (v := rv) i).2 reg k hi
      rw [hf] at h2; cases h2
      rw [C06_resolve_single [] nm _ k rfl, resolveReg_regF_eq]
      rcases hcase with ⟨K, hK, h0, h1'⟩ | hnone
      · simp only [hK, baseGate]
        simp only [] at h0 h1'
        simp [show ¬ (k < 0 ∨ k ≥ K) by omega, nameOf, Val.name?]
      · simp [hnone, baseGate, nameOf, Val.name?]
    have hdirect : resolveQubit [] (.qubit nm reg (.int k)) = .ok (nameOf reg, k) := by
      cases iv with
      | int i => exact fin i h
      | flt d =>
        by_cases hd : d.isIntegral = true
        · simp only [hd, if_true] at h; exact fin _ h
        · simp [hd] at h
      | _ => simp at h
    exact ⟨by rw [hdirect, hq'], by simp only [emuQidx, hdirect, hq']⟩
  · simp [hr, throw, throwThe, MonadExceptOf.throw, bind, Except.bind] at h


/-! ### Alias fill-in -/

theorem fundOf_valid {v reg : Val} : ValidChain v → UsedQubits.fundOf v = some reg → ValidChain reg := by
  induction v with
  | regF n sz _ => intro hv hf; simp only [UsedQubits.fundOf, Option.some.injEq] at hf; subst hf; exact hv
  | regA n src ih => intro hv hf; exact ih (by simpa [ValidChain, validChain] using hv) (by simpa [UsedQubits.fundOf] using hf)
  | regS n src a b s ih _ _ _ => intro hv hf; exact ih (validChain_regS hv).1 (by simpa [UsedQubits.fundOf] using hf)
  | _ => intro hv; simp [ValidChain, validChain] at hv

theorem intOf_noParam {v : Val} {k : Int} (h : intOf v = some k) : ExpandMacros.noParam v = true := by
  cases v with
  | int _ => rfl
  | const n d => cases d <;> first | rfl | simp [intOf] at h
  | _ => simp [intOf] at h

theorem validChain_noParam {v : Val} : ValidChain v → ExpandMacros.noParam v = true := by
  induction v with
  | regF n sz _ =>
    intro hv
    simp only [ValidChain, validChain] at hv
    cases hk : intOf sz with
    | none => simp [hk] at hv
    | some k => simpa [ExpandMacros.noParam] using intOf_noParam hk
  | regA n src ih => intro hv; simpa [ExpandMacros.noParam] using ih (by simpa [ValidChain, validChain] using hv)
  | regS n src a b s ih _ _ _ =>
    intro hv
    obtain ⟨hs, _, _, _, _, _, h2, h3, h4, _, _⟩ := validChain_regS hv
    simp [ExpandMacros.noParam, ih hs, intOf_noParam h2, intOf_noParam h3, intOf_noParam h4]
  | _ => intro hv; simp [ValidChain, validChain] at hv

/-- the references alias fill-in is specified on: through a valid chain, with an integer (literal or let) index -/
def GoodRef : Val → Prop
  | .qubit _ src idx => ValidChain src ∧ ∃ i, intOf idx = some i
  | _ => True

/-- `MapFiller.visit_NamedQubit`: the result is `fundamental[k]`, `(fundamental, k)` = the resolution of the original -/
theorem C06_mapVal_qubit {mps : List String} {n : String} {src idx v' : Val} (h : mapVal mps (.qubit n src idx) = .ok v') :
    ∃ nm reg k, v' = .qubit nm reg (.int k) ∧ resolveQubitV [] (.qubit n src idx) = .ok (reg, k) ∧
      resolveQubit [] (.qubit n src idx) = .ok (nameOf reg, k) ∧ nameOf reg ∉ mps := by
  simp only [mapVal] at h
  obtain ⟨p, hp, h⟩ := bind_ok h
  obtain ⟨reg, k⟩ := p
  simp only [] at h
  by_cases hc : mps.contains (reg.name?.getD "") = true
  · have hc' : reg.name?.getD "" ∈ mps := by simpa using hc
    simp [hc', throw_eq, bind, Except.bind] at h
  simp only [hc, Bool.false_eq_true, if_false] at h
  have hnot : nameOf reg ∉ mps := by
    intro hmem
    exact hc (by simpa [nameOf] using hmem)
  obtain ⟨nm, hv⟩ := getItem_eq h
  refine ⟨nm, reg, k, hv, hp, ?_, hnot⟩
  have := resolveQubitV_spec [] (.qubit n src idx)
  rw [hp] at this
  exact this.symm

theorem resolveQubitV_fund {n : String} {src idx reg : Val} {k : Int}
    (h : resolveQubitV [] (.qubit n src idx) = .ok (reg, k)) (hv : ValidChain src) : UsedQubits.fundOf src = some reg := by
  have hr : Resolve.isRegister src = true := by
    cases src <;> first | rfl | simp [ValidChain, validChain] at hv
  have h2 : resolveAV [] (avFuel []) src = .ok src := by
    cases src <;> simp [Resolve.isRegister] at hr <;> simp [avFuel, resolveAV]
  rw [resolveQubitV] at h
  obtain ⟨iv, _, h⟩ := bind_ok h
  obtain ⟨rv, hrv, h⟩ := bind_ok h
  rw [h2] at hrv; cases hrv
  simp only [hr, Bool.not_true, Bool.false_eq_true, if_false, bind, Except.bind] at h
  cases iv with
  | int i => exact (resolveRegV_spec (ctx := []) i).2 reg k h
  | flt d =>
    by_cases hd : d.isIntegral = true
    · simp only [hd, if_true] at h; exact (resolveRegV_spec (ctx := []) _).2 reg k h
    · simp [hd] at h
  | _ => simp at h

/-- fill-in of a good reference does not change what it denotes, under any parameter bindings -/
theorem mapVal_sem {mps : List String} {v v' : Val} (hg : GoodRef v) (h : mapVal mps v = .ok v') (b : Sem.Bind) :
    Sem.evalArg [] b v' = Sem.evalArg [] b v ∧ Sem.evalNum [] b v' = Sem.evalNum [] b v := by
  cases v with
  | qubit n src idx =>
    obtain ⟨hv, i, hi⟩ := hg
    obtain ⟨nm, reg, k, rfl, hV, hR, _⟩ := C06_mapVal_qubit h
    have hf := resolveQubitV_fund hV hv
    have hvreg := fundOf_valid hv hf
    have hspec := (C06_resolve_eq_spec n src idx i hv hi (nameOf reg, k)).1 hR
    have hdirect := (C06_alias_same_as_direct n src idx reg k hV nm).1
    have hspec' := (C06_resolve_eq_spec nm reg (.int k) k hvreg rfl (nameOf reg, k)).1 (by rw [hdirect, hR])
    have np1 : ExpandMacros.noParam (.qubit n src idx) = true := by
      simp [ExpandMacros.noParam, validChain_noParam hv, intOf_noParam hi]
    have np2 : ExpandMacros.noParam (.qubit nm reg (.int k)) = true := by
      simp [ExpandMacros.noParam, validChain_noParam hvreg]
    have e : Sem.evalQubit [] b (.qubit nm reg (.int k)) = Sem.evalQubit [] b (.qubit n src idx) := by
      rw [ExpandMacros.evalQubit_noParam [] b [] _ np1, ExpandMacros.evalQubit_noParam [] b [] _ np2, hspec, hspec']
    exact ⟨by simp only [Sem.evalArg, e], rfl⟩
  | regF n sz => simp only [mapVal, pure, Except.pure] at h; cases h; exact ⟨rfl, rfl⟩
  | regA _ _ => simp [mapVal, throw_eq] at h
  | regS _ _ _ _ _ => simp [mapVal, throw_eq] at h
  | int _ => cases h; exact ⟨rfl, rfl⟩
  | flt _ => cases h; exact ⟨rfl, rfl⟩
  | const _ _ => cases h; exact ⟨rfl, rfl⟩
  | param _ _ => cases h; exact ⟨rfl, rfl⟩
  | none => cases h; exact ⟨rfl, rfl⟩
  | str _ => cases h; exact ⟨rfl, rfl⟩

/-- what `fillInMap` returns: the rebuild of the unvisited registers and the visited macros and statements -/
theorem fillInMap_rebuilt {c c' : Circuit} (hw : WellFormed c) (h : fillInMap c = .ok c') :
    ∃ bs, c.body = .block false false (.int 1) bs ∧
      Rebuilt (mapVal []) (fun (m : Macro) => mapVal (m.params.map Prod.fst)) pure c c.registers bs c' := by
  obtain ⟨bs, hbs⟩ := hw.body
  unfold fillInMap mapSx at h
  obtain ⟨sx, hsx, h⟩ := bind_ok h
  obtain ⟨body, hbody, hsx⟩ := bind_ok hsx
  obtain ⟨stmts, hstmts, hsx⟩ := bind_ok hsx
  obtain ⟨macros, hmacros, hsx⟩ := bind_ok hsx
  simp only [pure, Except.pure] at hsx
  cases hsx
  rw [hbs] at hbody
  simp only [mapStmt, visitStmt, Bool.false_eq_true, if_false] at hbody
  obtain ⟨es, hes, hbody⟩ := bind_ok hbody
  simp only [pure, Except.pure] at hbody
  cases hbody
  simp only [tailOf, pure, Except.pure] at hstmts
  cases hstmts
  exact ⟨bs, hbs, build_circuitSx (F := mapVal []) (Fm := fun (m : Macro) => mapVal (m.params.map Prod.fst)) (G := pure) hmacros hes
    hw.consts hw.regs h⟩

/-- a qubit argument of the result sits directly on a fundamental register, with a literal index -/
def FundRef : Val → Prop
  | .qubit _ src idx => (∃ r sz, src = .regF r sz) ∧ ∃ k, idx = .int k
  | _ => True

/-- … and the name of that register is none of `mps` -/
def FundRefNot (mps : List String) : Val → Prop
  | .qubit _ src idx => (∃ r sz, src = .regF r sz ∧ r ∉ mps) ∧ ∃ k, idx = .int k
  | _ => True

theorem FundRefNot.fundRef {mps : List String} {v : Val} (h : FundRefNot mps v) : FundRef v := by
  cases v <;> first | trivial | exact ⟨⟨h.1.choose, h.1.choose_spec.choose, h.1.choose_spec.choose_spec.1⟩, h.2⟩

theorem mapVal_fundRef {mps : List String} {v v' : Val} (hg : GoodRef v) (h : mapVal mps v = .ok v') :
    FundRefNot mps v' := by
  cases v with
  | qubit n src idx =>
    obtain ⟨hv, _, _⟩ := hg
    obtain ⟨nm, reg, k, rfl, hV, _, hnot⟩ := C06_mapVal_qubit h
    refine ⟨?_, k, rfl⟩
    have hf := resolveQubitV_fund hV hv
    clear * - hf hnot
    induction src with
    | regF r sz _ =>
      simp only [UsedQubits.fundOf, Option.some.injEq] at hf
      subst hf
      exact ⟨r, sz, rfl, by simpa [nameOf, Val.name?] using hnot⟩
    | regA _ s ih => exact ih (by simpa [UsedQubits.fundOf] using hf)
    | regS _ s _ _ _ ih _ _ _ => exact ih (by simpa [UsedQubits.fundOf] using hf)
    | _ => simp [UsedQubits.fundOf] at hf
  | regF n sz => simp only [mapVal, pure, Except.pure] at h; cases h; trivial
  | regA _ _ => simp [mapVal, throw_eq] at h
  | regS _ _ _ _ _ => simp [mapVal, throw_eq] at h
  | int _ => cases h; trivial
  | flt _ => cases h; trivial
  | const _ _ => cases h; trivial
  | param _ _ => cases h; trivial
  | none => cases h; trivial
  | str _ => cases h; trivial

mutual
/-- `Q` holds of every gate argument -/
def ArgsAll (Q : Val → Prop) : Stmt → Prop
  | .gate _ _ args => ∀ a ∈ args, Q a.2
  | .block _ _ _ body => ArgsAllList Q body
  | .loop _ b => ArgsAll Q b
def ArgsAllList (Q : Val → Prop) : List Stmt → Prop
  | [] => True
  | s :: ss => ArgsAll Q s ∧ ArgsAllList Q ss
end

mutual
theorem Rel_args {F G : Val → M Val} {P Q : Val → Prop} (hF : ∀ v v', P v → F v = .ok v' → Q v') :
    ∀ (s s' : Stmt), Rel F G s s' → AllVals P s → ArgsAll Q s'
  | .gate n gd args, .gate n' gd' args', h, hP => by
    simp only [Rel] at h
    simp only [AllVals] at hP
    simp only [ArgsAll]
    intro a' ha'
    obtain ⟨a, ha, hab⟩ := forall₂_right h.2 a' ha'
    exact hF _ _ (hP a ha) hab
  | .block par sub it body, .block par' sub' it' body', h, hP => by
    simp only [Rel] at h
    simp only [AllVals] at hP
    simp only [ArgsAll]
    exact Rel_argss hF body body' h.2.2.2 hP.2
  | .loop c b, .loop c' b', h, hP => by
    simp only [Rel] at h
    simp only [AllVals] at hP
    simp only [ArgsAll]
    exact Rel_args hF b b' h.2 hP.2
  | .gate _ _ _, .block _ _ _ _, h, _ | .gate _ _ _, .loop _ _, h, _
  | .block _ _ _ _, .gate _ _ _, h, _ | .block _ _ _ _, .loop _ _, h, _
  | .loop _ _, .gate _ _ _, h, _ | .loop _ _, .block _ _ _ _, h, _ => by simp [Rel] at h
theorem Rel_argss {F G : Val → M Val} {P Q : Val → Prop} (hF : ∀ v v', P v → F v = .ok v' → Q v') :
    ∀ (l l' : List Stmt), RelList F G l l' → AllValsList P l → ArgsAllList Q l'
  | [], [], _, _ => trivial
  | s :: ss, s' :: ss', h, hP => by
    simp only [RelList] at h
    simp only [AllValsList] at hP
    exact ⟨Rel_args hF s s' h.1 hP.1, Rel_argss hF ss ss' h.2 hP.2⟩
  | [], _ :: _, h, _ | _ :: _, [], h, _ => by simp [RelList] at h
end

/-- **C06_fill_in_map**: on a well-formed circuit whose qubit references go through valid chains with integer (literal
or let) indices, a successful alias fill-in (1) leaves the meaning unchanged, (2) leaves only qubit arguments of the
form `fundamental[k]` in the body and the macros — by `C06_mapVal_qubit`, `(fundamental, k)` is the library's
resolution of the original reference — and (3) never writes the name of a register inside a macro one of whose
parameters has that name (there the name would mean the parameter: such a circuit is refused, `C06_fill_in_map_shadow`). -/
theorem C06_fill_in_map (c c' : Circuit) (hw : WellFormed c) (hb : AllVals GoodRef c.body)
    (hm : ∀ m ∈ c.macros, AllVals GoodRef m.body) (h : fillInMap c = .ok c') :
    Sem.meaning [] c' = Sem.meaning [] c ∧ ArgsAll FundRef c'.body ∧
      (∀ m ∈ c'.macros, ArgsAll (FundRefNot (m.params.map (·.1))) m.body) ∧ c'.registers = c.registers := by
  obtain ⟨bs, hbs, hr⟩ := fillInMap_rebuilt hw h
  have hB := hw.blocks
  rw [hbs] at hB hb
  simp only [BlocksOK] at hB
  simp only [AllVals] at hb
  refine ⟨?_, ?_, ?_, hr.registers⟩
  · exact Rebuilt_meaning (P := GoodRef) (fun v v' b hg hv => mapVal_sem hg hv b)
      (fun v v' b _ hv => by cases hv; exact ⟨rfl, fun hn => hn⟩) (fun _ v v' b hg hv => mapVal_sem hg hv b)
      hr hbs hB.2.2 hb.2 (fun m hmem => ⟨hw.macros m hmem, hm m hmem⟩)
  · obtain ⟨ss, hc', hrel⟩ := hr.body
    rw [hc']
    simp only [ArgsAll]
    exact Rel_argss (fun v v' hg hv => (mapVal_fundRef hg hv).fundRef) bs ss hrel hb.2
  · intro m' hm'
    obtain ⟨m, hmem, hmm⟩ := forall₂_right hr.macros m' hm'
    have hps : m'.params.map (·.1) = m.params.map (·.1) := by rw [hmm.2.1, List.map_map]; rfl
    rw [hps]
    exact Rel_args (fun v v' hg hv => mapVal_fundRef hg hv) _ _ hmm.2.2 (hm m hmem)

/-- the error case: a reference that resolves to register `r` inside a macro with a parameter called `r` -/
theorem C06_fill_in_map_shadow (mps : List String) (n : String) (src idx reg : Val) (k : Int)
    (hres : resolveQubitV [] (.qubit n src idx) = .ok (reg, k)) (hin : nameOf reg ∈ mps) :
    mapVal mps (.qubit n src idx) = .error (.jaqal "macro-parameter-named-like-register") := by
  simp [mapVal, hres, bind, Except.bind, throw_eq]
  intro hc
  exact absurd (by simpa [nameOf] using hin) hc

/-! ### Non-vacuity -/
section Examples

def R8 : Val := .regF "r" (.const "n" (.int 8))
/-- `let n 8; let k 1; register r[n]; map a r[k:7:2]; map b a[2:0:-1]; map c b` -/
def aA : Val := .regS "a" R8 (.const "k" (.int 1)) (.int 7) (.int 2)
def aB : Val := .regS "b" aA (.int 2) (.int 0) (.int (-1))
def aC : Val := .regA "c" aB

example : ValidChain aC := by decide
example : sizeI aC = some 2 := by decide
example : Sem.evalReg [] [] aC = .ok [("r", 5), ("r", 3)] := by rfl
example : resolveQubit [] (.qubit "c[1]" aC (.int 1)) = .ok ("r", 3) := by rfl
example : Sem.evalQubit [] [] (.qubit "c[1]" aC (.const "k" (.int 1))) = .ok ("r", 3) := by rfl
example : mapVal [] (.qubit "c[1]" aC (.int 1)) = .ok (.qubit "r[3]" R8 (.int 3)) := by rfl
example : mapVal ["x", "r"] (.qubit "c[1]" aC (.int 1)) = .error (.jaqal "macro-parameter-named-like-register") := by rfl
example : emuQidx (.qubit "c[1]" aC (.int 1)) = .ok 3 := by rfl
/-- a slice that leaves its let-sized source (the constructor cannot check it): the library still resolves `d[0]`,
the specification rejects the alias — `ValidChain` fails -/
def aD : Val := .regS "d" R8 (.int 6) (.int 10) (.int 1)
example : ¬ ValidChain aD := by decide
example : resolveQubit [] (.qubit "d[0]" aD (.int 0)) = .ok ("r", 6) := by rfl
example : ∃ e, Sem.evalQubit [] [] (.qubit "d[0]" aD (.int 0)) = .error e := ⟨_, rfl⟩
/-- literal chains: the builder's checks give `ValidChain` -/
example : ValOK (.regS "a" (.regF "r" (.int 4)) (.int 3) (.int 0) (.int (-2))) →
    ValidChain (.regS "a" (.regF "r" (.int 4)) (.int 3) (.int 0) (.int (-2))) :=
  fun h => (C06_valid_of_builder (k := 2) (by decide) h).1

/-- alias fill-in on the running example (`Lemmas/FillInSem.lean`: `exC`): `r[k]` ↦ `r[1]`, `a[k]` ↦ `r[3]`, `a[0]` ↦ `r[1]` -/
example : WellFormed exC ∧ AllVals GoodRef exC.body ∧ ∀ m ∈ exC.macros, AllVals GoodRef m.body := by
  have hA : ValidChain exA := by decide
  have hR : ValidChain exR := by decide
  refine ⟨exC_wellFormed, ?_, ?_⟩
  · simp [exC, AllVals, AllValsList, GoodRef, intOf]
    exact ⟨hR, hA⟩
  · intro m hm
    simp only [exC, List.mem_singleton] at hm
    subst hm
    simp [AllVals, AllValsList, GoodRef, intOf]
    exact hA
example : (fillInMap exC).map cdigest = .ok ([exR, exA],
    [("block par=false sub=false", [.int 1]),
      ("loop", [.const "k" (.int 1)]), ("block par=false sub=false", [.int 1]),
        ("M", [.qubit "r[1]" exR (.int 1), .int 2]), ("end", []),
      ("block par=false sub=true", [.const "n" (.int 4)]), ("X", [.qubit "r[3]" exR (.int 3)]), ("end", []),
     ("end", []),
     ("macro M x n", []), ("block par=false sub=false", [.int 1]),
      ("P", [.param "x" .none, .param "n" .none]), ("X", [.qubit "r[1]" exR (.int 1)]), ("end", [])]) := by
  decide +kernel
example : ((fillInMap exC).bind (Sem.meaning [])).map Sem.Sem.flat = (Sem.meaning [] exC).map Sem.Sem.flat := by
  decide +kernel
-- a whole alias as a gate argument is refused
example : (fillInMap { exC with body := .block false false (.int 1) [.gate "G" (anonDef "G" 1) [("p0", exA)]] }).map
    cdigest = .error (.jaqal "full-alias-in-statements") := by decide +kernel

end Examples

end Jaqal.FillIn

#print axioms Jaqal.FillIn.C06_resolve_slice
#print axioms Jaqal.FillIn.C06_resolve_whole
#print axioms Jaqal.FillIn.C06_resolve_single
#print axioms Jaqal.FillIn.C06_resolve_closed_form
#print axioms Jaqal.FillIn.C06_resolve_eq_spec
#print axioms Jaqal.FillIn.C06_register_denotation
#print axioms Jaqal.FillIn.C06_total
#print axioms Jaqal.FillIn.C06_valid_of_builder
#print axioms Jaqal.FillIn.C06_in_range
#print axioms Jaqal.FillIn.C06_agree_used
#print axioms Jaqal.FillIn.C06_agree_fill
#print axioms Jaqal.FillIn.C06_agree_emulator
#print axioms Jaqal.FillIn.C06_alias_same_as_direct
#print axioms Jaqal.FillIn.C06_mapVal_qubit
#print axioms Jaqal.FillIn.C06_fill_in_map
#print axioms Jaqal.FillIn.C06_fill_in_map_shadow
