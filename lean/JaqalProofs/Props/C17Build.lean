import JaqalProofs.Lemmas.FrontEnds
import JaqalModel.Model.Builder
/-!
# C17, the link to the builder model: `build` cannot tell the three front ends apart

`Props/C17.lean` shows that the three front ends hand `circuitbuilder.build` S-expressions that are equal after
`norm` (the spelling of an absent subcircuit count: `""` parser, `None` builder API, `1` Q-syntax).  Here, with the
builder model `Jaqal.Builder` (`Model/Builder.lean`), the remaining step is proved: on every S-expression a front
end produces (`genProg a p`, `a` one of the three spellings — `lowerOO_eq`, `parseSx_eq`, `lowerQ_gen`),
`build` gives the same result — same circuit or same error — whichever spelling is used, for every configuration
(gate set, autoload) and every memo-key mode; hence `build (norm e) = build e` (`C17_build_norm`) and the three
front ends build equal circuits (`C17_build_front_ends`).

The proof follows `build_subcircuit_block`: `count == "" or count is None` gives `1`, and `self.build(1)` is `1`;
everything else of the S-expression is literally the same, including the gate statements (so the memo table
evolves identically) and the nesting depth (the model's fuel).

The builder model is used only through the small lemmas of the section `Interface` (congruence of one builder
step in the members of a block / the body of a loop / the count and members of a subcircuit, `subCount` on the
three spellings, the `cons` equations of `mapMSt` and `circuitLoop`, `buildWith` on a circuit): if
`Model/Builder.lean` changes shape, only those few proofs (each `simp only [anyStep]; simp [h]` or shorter)
need attention.
-/
namespace Jaqal.FrontEnds
open Jaqal

/-- The three spellings of an absent subcircuit count. -/
def AbsentSpelling (a : Sx) : Prop := a = .str "" ∨ a = .none ∨ a = .int 1

/-- `x` and `y` are interchangeable wherever the builder meets them (any fuel, context, state), and
equally deep. -/
def BRel (x y : Sx) : Prop :=
  (∀ cfg mode f ctx st, Builder.buildAny cfg mode f ctx (Builder.BSx.ofSx x) st
      = Builder.buildAny cfg mode f ctx (Builder.BSx.ofSx y) st) ∧
  (Builder.BSx.ofSx x).depth = (Builder.BSx.ofSx y).depth

/-- The same for lists: as members of a block (`mapMSt`) and as children of a circuit (`circuitLoop`). -/
def BRelL (xs ys : List Sx) : Prop :=
  (∀ cfg mode f ctx st, Builder.mapMSt (Builder.buildAny cfg mode f ctx) (Builder.BSx.ofSxList xs) st
      = Builder.mapMSt (Builder.buildAny cfg mode f ctx) (Builder.BSx.ofSxList ys) st) ∧
  (∀ cfg mode inject f acc, Builder.circuitLoop cfg mode inject f acc (Builder.BSx.ofSxList xs)
      = Builder.circuitLoop cfg mode inject f acc (Builder.BSx.ofSxList ys)) ∧
  Builder.BSx.depthList (Builder.BSx.ofSxList xs) = Builder.BSx.depthList (Builder.BSx.ofSxList ys)

/-! ## Interface lemmas about the builder

Everything below this section uses the builder model only through these statements: how `buildAny` treats a
list, that a block / loop / subcircuit step depends on its members only through `mapMSt` (resp. the recursive
call on the body), how `subCount` reads the three spellings, and the `cons` equations of `mapMSt` /
`circuitLoop`.  Their proofs are the only places that unfold `anyStep`. -/
section Interface
open Builder

theorem buildAny_zero (cfg : Config) (mode : KeyMode) (ctx : Builder.Ctx) (l : List BSx) (st : St) :
    buildAny cfg mode 0 ctx (.list l) st = throw .hang := by
  simp [buildAny]

theorem buildAny_succ (cfg : Config) (mode : KeyMode) (f : Nat) (ctx : Builder.Ctx) (l : List BSx) (st : St) :
    buildAny cfg mode (f + 1) ctx (.list l) st
      = anyStep cfg mode (buildAny cfg mode f) (buildVal ctx f) ctx l st := by
  simp [buildAny]

/-- a step on a list depends on the fuel-decremented recursion only: two lists with equal steps at every fuel
are interchangeable under `buildAny` -/
theorem buildAny_list_congr {l l' : List BSx}
    (h : ∀ cfg mode f ctx st, anyStep cfg mode (buildAny cfg mode f) (buildVal ctx f) ctx l st
        = anyStep cfg mode (buildAny cfg mode f) (buildVal ctx f) ctx l' st)
    (cfg : Config) (mode : KeyMode) (f : Nat) (ctx : Builder.Ctx) (st : St) :
    buildAny cfg mode f ctx (.list l) st = buildAny cfg mode f ctx (.list l') st := by
  cases f with
  | zero => rw [buildAny_zero, buildAny_zero]
  | succ f => rw [buildAny_succ, buildAny_succ, h]

variable {cfg : Config} {mode : KeyMode} {recA : Builder.Ctx → BSx → St → M (Obj × St)} {recV : BSx → M Val}

theorem anyStep_seq_congr {xs ys : List BSx}
    (h : ∀ ctx' st', mapMSt (recA ctx') xs st' = mapMSt (recA ctx') ys st') (ctx : Builder.Ctx) (st : St) :
    anyStep cfg mode recA recV ctx (.str "sequential_block" :: xs) st
      = anyStep cfg mode recA recV ctx (.str "sequential_block" :: ys) st := by
  simp only [anyStep]
  simp [h]

theorem anyStep_par_congr {xs ys : List BSx}
    (h : ∀ ctx' st', mapMSt (recA ctx') xs st' = mapMSt (recA ctx') ys st') (ctx : Builder.Ctx) (st : St) :
    anyStep cfg mode recA recV ctx (.str "parallel_block" :: xs) st
      = anyStep cfg mode recA recV ctx (.str "parallel_block" :: ys) st := by
  simp only [anyStep]
  simp [h]

theorem anyStep_loop_congr (n : BSx) {b b' : BSx}
    (h : ∀ ctx' st', recA ctx' b st' = recA ctx' b' st') (ctx : Builder.Ctx) (st : St) :
    anyStep cfg mode recA recV ctx [.str "loop", n, b] st
      = anyStep cfg mode recA recV ctx [.str "loop", n, b'] st := by
  simp only [anyStep]
  simp [h]

theorem anyStep_sub_congr {n n' : BSx} {xs ys : List BSx} (hn : subCount recV n = subCount recV n')
    (h : ∀ ctx' st', mapMSt (recA ctx') xs st' = mapMSt (recA ctx') ys st') (ctx : Builder.Ctx) (st : St) :
    anyStep cfg mode recA recV ctx (.str "subcircuit_block" :: n :: xs) st
      = anyStep cfg mode recA recV ctx (.str "subcircuit_block" :: n' :: ys) st := by
  simp only [anyStep]
  simp [h, hn]

/-- `build_subcircuit_block`: `count == "" or count is None` reads as 1, and `self.build(1)` is 1 -/
theorem subCount_absent (ctx : Builder.Ctx) (f : Nat) :
    subCount (buildVal ctx f) (.str "") = pure (.int 1) ∧
    subCount (buildVal ctx f) .none = pure (.int 1) ∧
    subCount (buildVal ctx f) (.int 1) = pure (.int 1) := by
  refine ⟨by simp [subCount], by simp [subCount], ?_⟩
  cases f <;> simp [subCount, buildVal]

theorem mapMSt_cons_congr {g : BSx → St → M (Obj × St)} {x y : BSx} {xs ys : List BSx}
    (h : ∀ st, g x st = g y st) (hs : ∀ st, mapMSt g xs st = mapMSt g ys st) (st : St) :
    mapMSt g (x :: xs) st = mapMSt g (y :: ys) st := by
  simp only [mapMSt, h, hs]

theorem circuitLoop_cons_congr {inject : Option (List (String × GateDef))} {f : Nat} {x y : BSx} {xs ys : List BSx}
    (h : ∀ ctx st, buildAny cfg mode f ctx x st = buildAny cfg mode f ctx y st)
    (hs : ∀ acc, circuitLoop cfg mode inject f acc xs = circuitLoop cfg mode inject f acc ys) (acc : Acc) :
    circuitLoop cfg mode inject f acc (x :: xs) = circuitLoop cfg mode inject f acc (y :: ys) := by
  simp only [circuitLoop, circuitStep, h, hs]

/-- `build` of a circuit depends on its children through `circuitLoop` and their depth -/
theorem buildWith_circuit_congr {xs ys : List BSx} (hd : BSx.depthList xs = BSx.depthList ys)
    (h : ∀ inject f acc, circuitLoop cfg mode inject f acc xs = circuitLoop cfg mode inject f acc ys) :
    buildWith mode cfg (.list (.str "circuit" :: xs)) = buildWith mode cfg (.list (.str "circuit" :: ys)) := by
  simp only [buildWith, buildCore, BSx.depth, BSx.depthList, hd, h]

theorem depth_list (l : List BSx) : (BSx.list l).depth = BSx.depthList l + 1 := by simp [BSx.depth]
theorem depthList_cons (x : BSx) (l : List BSx) : BSx.depthList (x :: l) = max x.depth (BSx.depthList l) := by
  simp [BSx.depthList]
theorem depth_str (s : String) : (BSx.str s).depth = 0 := by simp [BSx.depth]
theorem depth_int (k : Int) : (BSx.int k).depth = 0 := by simp [BSx.depth]
theorem depth_none : BSx.none.depth = 0 := by simp [BSx.depth]
theorem ofSx_list (l : List Sx) : BSx.ofSx (.list l) = .list (BSx.ofSxList l) := by simp [BSx.ofSx]
theorem ofSxList_cons (x : Sx) (l : List Sx) : BSx.ofSxList (x :: l) = BSx.ofSx x :: BSx.ofSxList l := by
  simp [BSx.ofSxList]
theorem ofSx_str (s : String) : BSx.ofSx (.str s) = .str s := by simp [BSx.ofSx]
theorem ofSx_int (k : Int) : BSx.ofSx (.int k) = .int k := by simp [BSx.ofSx]
theorem ofSx_none : BSx.ofSx .none = .none := by simp [BSx.ofSx]
theorem ofSxList_nil : BSx.ofSxList [] = [] := by simp [BSx.ofSxList]
theorem depthList_nil : BSx.depthList [] = 0 := by simp [BSx.depthList]
theorem build_eq_buildWith (cfg : Config) (e : BSx) : build cfg e = buildWith .new cfg e := rfl
/-- `parse_jaqal_string` after the parser = `build`, then the register check -/
theorem parseBuild_congr {cfg : Config} {x y : Sx} (h : build cfg (BSx.ofSx x) = build cfg (BSx.ofSx y)) :
    parseBuild cfg x = parseBuild cfg y := by
  simp only [parseBuild, h]

end Interface

theorem BRel.refl (x : Sx) : BRel x x := ⟨fun _ _ _ _ _ => rfl, rfl⟩
theorem BRelL.refl (xs : List Sx) : BRelL xs xs := ⟨fun _ _ _ _ _ => rfl, fun _ _ _ _ _ => rfl, rfl⟩

theorem BRelL.cons {x y : Sx} {xs ys : List Sx} (h : BRel x y) (hs : BRelL xs ys) : BRelL (x :: xs) (y :: ys) := by
  refine ⟨?_, ?_, ?_⟩
  · intro cfg mode f ctx st
    rw [ofSxList_cons, ofSxList_cons]
    exact mapMSt_cons_congr (h.1 cfg mode f ctx) (hs.1 cfg mode f ctx) st
  · intro cfg mode inject f acc
    rw [ofSxList_cons, ofSxList_cons]
    exact circuitLoop_cons_congr (fun ctx st => h.1 cfg mode f ctx st) (hs.2.1 cfg mode inject f) acc
  · rw [ofSxList_cons, ofSxList_cons, depthList_cons, depthList_cons, h.2, hs.2.2]

theorem BRelL.prepend (pre : List Sx) {xs ys : List Sx} (hs : BRelL xs ys) : BRelL (pre ++ xs) (pre ++ ys) := by
  induction pre with
  | nil => exact hs
  | cons x pre ih => exact BRelL.cons (BRel.refl x) ih

/-- the depth of `[head-string, members…]` -/
theorem depth_headed (s : String) (xs : List Sx) :
    (Builder.BSx.ofSx (.list (.str s :: xs))).depth = Builder.BSx.depthList (Builder.BSx.ofSxList xs) + 1 := by
  rw [ofSx_list, ofSxList_cons, depth_list, depthList_cons, ofSx_str, depth_str, Nat.zero_max]

theorem BRel.seq {xs ys : List Sx} (h : BRelL xs ys) :
    BRel (.list (.str "sequential_block" :: xs)) (.list (.str "sequential_block" :: ys)) := by
  refine ⟨?_, by rw [depth_headed, depth_headed, h.2.2]⟩
  intro cfg mode f ctx st
  simp only [ofSx_list, ofSxList_cons, ofSx_str]
  exact buildAny_list_congr (fun cfg mode f ctx st => anyStep_seq_congr (fun ctx' st' => h.1 cfg mode f ctx' st') ctx st)
    cfg mode f ctx st

theorem BRel.par {xs ys : List Sx} (h : BRelL xs ys) :
    BRel (.list (.str "parallel_block" :: xs)) (.list (.str "parallel_block" :: ys)) := by
  refine ⟨?_, by rw [depth_headed, depth_headed, h.2.2]⟩
  intro cfg mode f ctx st
  simp only [ofSx_list, ofSxList_cons, ofSx_str]
  exact buildAny_list_congr (fun cfg mode f ctx st => anyStep_par_congr (fun ctx' st' => h.1 cfg mode f ctx' st') ctx st)
    cfg mode f ctx st

theorem BRel.loop (n : Sx) {xs ys : List Sx} (h : BRelL xs ys) :
    BRel (.list [.str "loop", n, .list (.str "sequential_block" :: xs)])
      (.list [.str "loop", n, .list (.str "sequential_block" :: ys)]) := by
  have hseq := BRel.seq h
  refine ⟨?_, ?_⟩
  · intro cfg mode f ctx st
    rw [ofSx_list, ofSx_list]
    simp only [ofSxList_cons, ofSx_str]
    rw [ofSxList_nil]
    exact buildAny_list_congr
      (fun cfg mode f ctx st => anyStep_loop_congr _ (fun ctx' st' => hseq.1 cfg mode f ctx' st') ctx st) cfg mode f ctx st
  · rw [depth_headed, depth_headed]
    simp only [ofSxList_cons, depthList_cons, ofSxList_nil, depthList_nil, hseq.2]

theorem BRel.sub_same (n : Sx) {xs ys : List Sx} (h : BRelL xs ys) :
    BRel (.list (.str "subcircuit_block" :: n :: xs)) (.list (.str "subcircuit_block" :: n :: ys)) := by
  refine ⟨?_, ?_⟩
  · intro cfg mode f ctx st
    simp only [ofSx_list, ofSxList_cons, ofSx_str]
    exact buildAny_list_congr
      (fun cfg mode f ctx st => anyStep_sub_congr rfl (fun ctx' st' => h.1 cfg mode f ctx' st') ctx st) cfg mode f ctx st
  · rw [depth_headed, depth_headed, ofSxList_cons, ofSxList_cons, depthList_cons, depthList_cons, h.2.2]

theorem AbsentSpelling.ofSx {a : Sx} (ha : AbsentSpelling a) :
    (Builder.BSx.ofSx a).depth = 0 ∧
    ∀ ctx f, Builder.subCount (Builder.buildVal ctx f) (Builder.BSx.ofSx a) = pure (.int 1) := by
  rcases ha with rfl | rfl | rfl
  · exact ⟨by rw [ofSx_str, depth_str], fun ctx f => by rw [ofSx_str]; exact (subCount_absent ctx f).1⟩
  · exact ⟨by rw [ofSx_none, depth_none], fun ctx f => by rw [ofSx_none]; exact (subCount_absent ctx f).2.1⟩
  · exact ⟨by rw [ofSx_int, depth_int], fun ctx f => by rw [ofSx_int]; exact (subCount_absent ctx f).2.2⟩

/-- `build_subcircuit_block`: `""`, `None` and `1` in the count position give the same block. -/
theorem BRel.sub_absent {a b : Sx} (ha : AbsentSpelling a) (hb : AbsentSpelling b) {xs ys : List Sx}
    (h : BRelL xs ys) :
    BRel (.list (.str "subcircuit_block" :: a :: xs)) (.list (.str "subcircuit_block" :: b :: ys)) := by
  refine ⟨?_, ?_⟩
  · intro cfg mode f ctx st
    simp only [ofSx_list, ofSxList_cons, ofSx_str]
    exact buildAny_list_congr
      (fun cfg mode f ctx st => anyStep_sub_congr (by rw [ha.ofSx.2, hb.ofSx.2])
        (fun ctx' st' => h.1 cfg mode f ctx' st') ctx st) cfg mode f ctx st
  · rw [depth_headed, depth_headed, ofSxList_cons, ofSxList_cons, depthList_cons, depthList_cons, h.2.2,
      ha.ofSx.1, hb.ofSx.1]

mutual
theorem genStmt_brel {a b : Sx} (ha : AbsentSpelling a) (hb : AbsentSpelling b) (ln rn : List String) :
    ∀ s : Stmt, MRel BRel (genStmt a ln rn s) (genStmt b ln rn s)
  | .gate name args => by
    simp only [genStmt]
    exact MRel.bind_same _ (fun x => MRel.pure (BRel.refl _))
  | .seq body => by
    simp only [genStmt]
    exact MRel.bind (genStmts_brel ha hb ln rn body) (fun x y h => MRel.pure (BRel.seq h))
  | .par body => by
    simp only [genStmt]
    exact MRel.bind (genStmts_brel ha hb ln rn body) (fun x y h => MRel.pure (BRel.par h))
  | .loop c body => by
    simp only [genStmt]
    refine MRel.bind_same _ (fun n => ?_)
    exact MRel.bind (genStmts_brel ha hb ln rn body) (fun x y h => MRel.pure (BRel.loop n h))
  | .sub c body => by
    simp only [genStmt]
    cases c with
    | absent =>
      simp only [genSubCount]
      exact MRel.bind (r := fun x y => x = a ∧ y = b) (by exact ⟨rfl, rfl⟩)
        (fun n n' hn => MRel.bind (genStmts_brel ha hb ln rn body)
          (fun x y h => MRel.pure (by obtain ⟨rfl, rfl⟩ := hn; exact BRel.sub_absent ha hb h)))
    | given c =>
      simp only [genSubCount]
      refine MRel.bind_same _ (fun n => ?_)
      exact MRel.bind (genStmts_brel ha hb ln rn body) (fun x y h => MRel.pure (BRel.sub_same n h))
theorem genStmts_brel {a b : Sx} (ha : AbsentSpelling a) (hb : AbsentSpelling b) (ln rn : List String) :
    ∀ l : List Stmt, MRel BRelL (genStmts a ln rn l) (genStmts b ln rn l)
  | [] => by simp only [genStmts]; exact BRelL.refl []
  | s :: rest => by
    simp only [genStmts]
    refine MRel.bind (genStmt_brel ha hb ln rn s) (fun x y h => ?_)
    exact MRel.bind (genStmts_brel ha hb ln rn rest) (fun xs ys hs => MRel.pure (BRelL.cons h hs))
end

/-- Circuits whose children are interchangeable are built alike. -/
theorem buildWith_circuit {l l' : List Sx} (h : BRelL l l') (mode : Builder.KeyMode) (cfg : Builder.Config) :
    Builder.buildWith mode cfg (Builder.BSx.ofSx (.list (.str "circuit" :: l)))
      = Builder.buildWith mode cfg (Builder.BSx.ofSx (.list (.str "circuit" :: l'))) := by
  rw [ofSx_list, ofSx_list, ofSxList_cons, ofSxList_cons, ofSx_str]
  exact buildWith_circuit_congr h.2.2 (fun inject f acc => h.2.1 cfg mode inject f acc)

/-- The lowering of a program with two spellings of the absent count: `build` (any memo-key mode, any
configuration) answers the same. -/
theorem genProg_build {a b : Sx} (ha : AbsentSpelling a) (hb : AbsentSpelling b) (p : Prog) :
    MRel (fun x y => ∀ mode cfg, Builder.buildWith mode cfg (Builder.BSx.ofSx x)
        = Builder.buildWith mode cfg (Builder.BSx.ofSx y)) (genProg a p) (genProg b p) := by
  simp only [genProg]
  refine MRel.bind_same _ (fun names => ?_)
  obtain ⟨ln, rn⟩ := names
  refine MRel.bind_same _ (fun regs => ?_)
  refine MRel.bind (genStmts_brel ha hb ln rn p.body) (fun x y h => MRel.pure ?_)
  intro mode cfg
  have := BRelL.prepend (List.zipWith declLetSx ln p.lets ++ regs) h
  exact buildWith_circuit this mode cfg

/-! ## `build (norm e) = build e` on what the front ends produce -/

/-- A property of the result, if there is one. -/
def MAll {α} (P : α → Prop) : M α → Prop
  | .ok x => P x
  | .error _ => True

theorem MAll.pure {α} {P : α → Prop} {x : α} (h : P x) : MAll P (Pure.pure x : M α) := h

theorem MAll.bind {α β} {P : α → Prop} {Q : β → Prop} {m : M α} {f : α → M β} (h : MAll P m)
    (hf : ∀ x, P x → MAll Q (f x)) : MAll Q (m >>= f) := by
  cases m with
  | error e => trivial
  | ok x => exact hf x h

theorem MAll.mapM {α β} {P : β → Prop} {f : α → M β} (hf : ∀ a, MAll P (f a)) :
    ∀ l : List α, MAll (fun ys => ∀ y ∈ ys, P y) (l.mapM f)
  | [] => by simp [MAll, Pure.pure, Except.pure]
  | a :: l => by
    rw [List.mapM_cons]
    refine MAll.bind (hf a) (fun y hy => MAll.bind (MAll.mapM hf l) (fun ys hys => MAll.pure ?_))
    intro z hz
    rcases List.mem_cons.1 hz with rfl | hz
    · exact hy
    · exact hys z hz

theorem MAll.of_ok {α} {P : α → Prop} {m : M α} {x : α} (h : MAll P m) (hm : m = .ok x) : P x := by
  subst hm; exact h

/-- an atom as `countSx` returns it -/
def CountAtom (n : Sx) : Prop := (∃ k, n = .int k) ∨ (∃ s, n = .str s)

theorem countSx_atom (ln : List String) (c : Count) : MAll CountAtom (countSx ln c) := by
  cases c with
  | lit n => exact .inl ⟨n, rfl⟩
  | ref i =>
    simp only [countSx]
    exact MAll.bind (P := fun _ => True) (by cases nameAt ln i <;> trivial) (fun s _ => MAll.pure (.inr ⟨s, rfl⟩))

theorem norm_atom {n : Sx} (h : CountAtom n) : norm n = n := by
  rcases h with ⟨k, rfl⟩ | ⟨s, rfl⟩ <;> simp [norm]

theorem argSx_normfix (ln rn : List String) (a : Arg) : MAll (fun x => norm x = x) (argSx ln rn a) := by
  cases a with
  | num v => cases v <;> simp [argSx, numSx, MAll, norm]
  | ref i =>
    simp only [argSx]
    exact MAll.bind (P := fun _ => True) (by cases nameAt ln i <;> trivial) (fun s _ => MAll.pure (by simp [norm]))
  | reg r =>
    simp only [argSx]
    exact MAll.bind (P := fun _ => True) (by cases nameAt rn r <;> trivial) (fun s _ => MAll.pure (by simp [norm]))
  | qubit r idx =>
    simp only [argSx]
    refine MAll.bind (P := fun _ => True) (by cases nameAt rn r <;> trivial) (fun s _ => ?_)
    refine MAll.bind (countSx_atom ln idx) (fun i hi => MAll.pure ?_)
    simp [norm, normList, norm_atom hi]

theorem normList_fix : ∀ l : List Sx, (∀ x ∈ l, norm x = x) → normList l = l
  | [], _ => by simp [normList]
  | x :: l, h => by
    simp [normList, h x (by simp), normList_fix l (fun y hy => h y (by simp [hy]))]

/-- the count of a subcircuit block, as the front ends write it, and its normal form -/
theorem BRel.sub_normCount {n : Sx} (hn : CountAtom n ∨ n = .none) {xs ys : List Sx} (h : BRelL xs ys) :
    BRel (.list (.str "subcircuit_block" :: n :: xs)) (.list (.str "subcircuit_block" :: normCount (norm n) :: ys)) := by
  rcases hn with (⟨k, rfl⟩ | ⟨s, rfl⟩) | rfl
  · simpa [norm, normCount] using BRel.sub_same (.int k) h
  · by_cases hs : s = ""
    · subst hs
      simpa [norm, normCount] using BRel.sub_absent (a := .str "") (b := .int 1) (.inl rfl) (.inr (.inr rfl)) h
    · have : normCount (norm (.str s)) = .str s := by
        simp only [norm]
        unfold normCount
        split <;> simp_all
      rw [this]
      exact BRel.sub_same (.str s) h
  · simpa [norm, normCount] using BRel.sub_absent (a := .none) (b := .int 1) (.inr (.inl rfl)) (.inr (.inr rfl)) h

mutual
theorem genStmt_norm_brel {a : Sx} (ha : AbsentSpelling a) (ln rn : List String) :
    ∀ s : Stmt, MAll (fun x => BRel x (norm x)) (genStmt a ln rn s)
  | .gate name args => by
    simp only [genStmt]
    refine MAll.bind (MAll.mapM (argSx_normfix ln rn) args) (fun xs hxs => MAll.pure ?_)
    have : norm (.list (.str "gate" :: .str name :: xs)) = .list (.str "gate" :: .str name :: xs) := by
      simp [norm, normList, normList_fix xs hxs]
    rw [this]
    exact BRel.refl _
  | .seq body => by
    simp only [genStmt]
    refine MAll.bind (genStmts_norm_brel ha ln rn body) (fun xs h => MAll.pure ?_)
    simpa [norm, normList] using BRel.seq h
  | .par body => by
    simp only [genStmt]
    refine MAll.bind (genStmts_norm_brel ha ln rn body) (fun xs h => MAll.pure ?_)
    simpa [norm, normList] using BRel.par h
  | .loop c body => by
    simp only [genStmt]
    refine MAll.bind (countSx_atom ln c) (fun n hn => ?_)
    refine MAll.bind (genStmts_norm_brel ha ln rn body) (fun xs h => MAll.pure ?_)
    simpa [norm, normList, norm_atom hn] using BRel.loop n h
  | .sub c body => by
    simp only [genStmt]
    have hc : MAll (fun n => CountAtom n ∨ n = .none) (genSubCount a ln c) := by
      cases c with
      | absent =>
        rcases ha with rfl | rfl | rfl
        · exact .inl (.inr ⟨"", rfl⟩)
        · exact .inr rfl
        · exact .inl (.inl ⟨1, rfl⟩)
      | given c =>
        simp only [genSubCount]
        have := countSx_atom ln c
        cases h : countSx ln c with
        | error e => trivial
        | ok n => rw [h] at this; exact .inl this
    refine MAll.bind hc (fun n hn => ?_)
    refine MAll.bind (genStmts_norm_brel ha ln rn body) (fun xs h => MAll.pure ?_)
    simpa [norm] using BRel.sub_normCount hn h
theorem genStmts_norm_brel {a : Sx} (ha : AbsentSpelling a) (ln rn : List String) :
    ∀ l : List Stmt, MAll (fun xs => BRelL xs (normList xs)) (genStmts a ln rn l)
  | [] => by simp only [genStmts]; exact BRelL.refl []
  | s :: rest => by
    simp only [genStmts]
    refine MAll.bind (genStmt_norm_brel ha ln rn s) (fun x h => ?_)
    refine MAll.bind (genStmts_norm_brel ha ln rn rest) (fun xs hs => MAll.pure ?_)
    simpa [normList] using BRelL.cons h hs
end

theorem declRegsSx_normfix (ln : List String) : ∀ (rn : List String) (rs : List RegDecl),
    MAll (fun xs => ∀ x ∈ xs, norm x = x) (declRegsSx ln rn rs)
  | [], _ => by simp [declRegsSx, MAll]
  | _ :: _, [] => by simp [declRegsSx, MAll]
  | n :: ns, r :: rs => by
    simp only [declRegsSx]
    refine MAll.bind (countSx_atom ln r.size) (fun sz hsz => ?_)
    refine MAll.bind (declRegsSx_normfix ln ns rs) (fun xs hxs => MAll.pure ?_)
    intro x hx
    rcases List.mem_cons.1 hx with rfl | hx
    · simp [norm, normList, norm_atom hsz]
    · exact hxs x hx

theorem zipWith_declLetSx_normfix (ln : List String) (ls : List LetDecl) :
    ∀ x ∈ List.zipWith declLetSx ln ls, norm x = x := by
  intro x hx
  obtain ⟨i, hi, rfl⟩ := List.mem_iff_getElem.1 hx
  simp only [List.getElem_zipWith, declLetSx]
  cases (ls[i]'(by simp at hi; omega)).value <;> simp [norm, normList, numSx]

/-- On every S-expression a front end produces, `build` of the normalised S-expression is `build` of the
S-expression itself (same circuit or same error; any memo-key mode, any configuration). -/
theorem genProg_build_norm {a : Sx} (ha : AbsentSpelling a) (p : Prog) :
    MAll (fun x => ∀ mode cfg, Builder.buildWith mode cfg (Builder.BSx.ofSx (norm x))
        = Builder.buildWith mode cfg (Builder.BSx.ofSx x)) (genProg a p) := by
  simp only [genProg]
  refine MAll.bind (P := fun _ => True) (by cases namer p.letNames p.regNames <;> trivial) (fun names _ => ?_)
  obtain ⟨ln, rn⟩ := names
  refine MAll.bind (declRegsSx_normfix ln rn p.regs) (fun regs hregs => ?_)
  refine MAll.bind (genStmts_norm_brel ha ln rn p.body) (fun xs h => MAll.pure ?_)
  intro mode cfg
  have hpre : normList (List.zipWith declLetSx ln p.lets ++ regs) = List.zipWith declLetSx ln p.lets ++ regs :=
    normList_fix _ (fun x hx => by
      rcases List.mem_append.1 hx with hx | hx
      · exact zipWith_declLetSx_normfix ln p.lets x hx
      · exact hregs x hx)
  have := BRelL.prepend (List.zipWith declLetSx ln p.lets ++ regs) h
  have hn : norm (.list (.str "circuit" :: (List.zipWith declLetSx ln p.lets ++ regs ++ xs)))
      = .list (.str "circuit" :: (List.zipWith declLetSx ln p.lets ++ regs ++ normList xs)) := by
    rw [norm_circuit, normList_append, hpre]
  dsimp only
  rw [hn]
  exact (buildWith_circuit this mode cfg).symm

/-! ## The property theorems -/

theorem MRel.ok_left {α β} {r : α → β → Prop} {x : α} {m : M β} (h : MRel r (.ok x) m) : ∃ y, m = .ok y ∧ r x y := by
  cases m with
  | error e => exact h.elim
  | ok y => exact ⟨y, rfl, h⟩

/-- `build (norm e) = build e` for every S-expression `e` one of the three front ends produces. -/
theorem C17_build_norm (p : Prog) (cfg : Builder.Config) :
    (∀ e, lowerOO p = .ok e → Builder.build cfg (Builder.BSx.ofSx (norm e)) = Builder.build cfg (Builder.BSx.ofSx e)) ∧
    (∀ e, parseSx p = .ok e → Builder.build cfg (Builder.BSx.ofSx (norm e)) = Builder.build cfg (Builder.BSx.ofSx e)) ∧
    (∀ e, lowerQ p = .ok e → Builder.build cfg (Builder.BSx.ofSx (norm e)) = Builder.build cfg (Builder.BSx.ofSx e)) := by
  refine ⟨?_, ?_, ?_⟩
  · intro e he
    rw [lowerOO_eq] at he
    exact (genProg_build_norm (.inr (.inl rfl)) p).of_ok he .new cfg
  · intro e he
    rw [parseSx_eq] at he
    exact (genProg_build_norm (.inl rfl) p).of_ok he .new cfg
  · intro e he
    exact (genProg_build_norm (.inr (.inr rfl)) _).of_ok (lowerQ_gen p he) .new cfg

/-- The three front ends build the same circuit (or fail with the same error): the builder API and the text
always; Q-syntax, whenever it reaches `build`, and the text of the program — wrapped in
`prepare_all … measure_all` iff `wraps p`.  Also through `parse_jaqal_string`'s register check. -/
theorem C17_build_front_ends (p : Prog) (cfg : Builder.Config) :
    MRel (fun x y => Builder.build cfg (Builder.BSx.ofSx x) = Builder.build cfg (Builder.BSx.ofSx y) ∧
        Builder.parseBuild cfg x = Builder.parseBuild cfg y) (lowerOO p) (parseSx p) ∧
    (∀ s, lowerQ p = .ok s → ∃ y, parseSx (if wraps p then wrap p else p) = .ok y ∧
      Builder.build cfg (Builder.BSx.ofSx s) = Builder.build cfg (Builder.BSx.ofSx y) ∧
      Builder.parseBuild cfg s = Builder.parseBuild cfg y) := by
  constructor
  · rw [lowerOO_eq, parseSx_eq]
    have := genProg_build (a := .none) (b := .str "") (.inr (.inl rfl)) (.inl rfl) p
    cases h1 : genProg .none p <;> cases h2 : genProg (.str "") p <;> simp only [h1, h2, MRel] at this ⊢
    · exact this
    · exact ⟨this .new cfg, parseBuild_congr (this .new cfg)⟩
  · intro s hs
    have hg := lowerQ_gen p hs
    have := genProg_build (a := .int 1) (b := .str "") (.inr (.inr rfl)) (.inl rfl) (if wraps p then wrap p else p)
    rw [hg] at this
    obtain ⟨y, hy, hr⟩ := this.ok_left
    exact ⟨y, by rw [parseSx_eq, hy], hr .new cfg, parseBuild_congr (hr .new cfg)⟩

/-- Non-vacuity: a program with a count-less subcircuit; the three front ends spell the count `1`, `None`, `""`
and the hypotheses of the theorems above hold. -/
def exB : Prog := { lets := [⟨none, .int 2⟩], regs := [⟨some "q", .ref 0⟩],
                    body := [.sub .absent [.gate "prepare_all" [], .gate "X" [.qubit 0 (.lit 0)], .gate "measure_all" []]] }
example : lowerQ exB = .ok (.list [.str "circuit", .list [.str "let", .str "__c0", .int 2],
    .list [.str "register", .str "q", .str "__c0"],
    .list [.str "subcircuit_block", .int 1, .list [.str "gate", .str "prepare_all"],
      .list [.str "gate", .str "X", .list [.str "array_item", .str "q", .int 0]], .list [.str "gate", .str "measure_all"]]]) := by rfl
example : ∃ e, lowerOO exB = .ok e ∧ (lowerOO exB).map norm = lowerQ exB := ⟨_, rfl, rfl⟩
example : ∃ e, parseSx exB = .ok e ∧ wraps exB = false := ⟨_, rfl, rfl⟩

end Jaqal.FrontEnds

#print axioms Jaqal.FrontEnds.C17_build_norm
#print axioms Jaqal.FrontEnds.C17_build_front_ends
