import JaqalProofs.Props.C19Parsed
/-!
# C19 — towards `C19_noSubInPar_passes_full`: two more cases, the general statement stays OPEN

`C19_noSubInPar_passes_full` (no subcircuit block inside a parallel block after EVERY sequence of the four passes on a parsed
circuit) is NOT proved here.  Still open: a sequence with `expand_macros` and without `expand_subcircuits`, on a text where some
MACRO BODY holds a subcircuit block (there the builder's `nestingCheck` / `macroHasSub` would have to be carried from
`Builder.build` through the expansion and the rebuilds).

Proved here (premise about the circuit: `parseProgram cfg txt = .ok c` only, plus the stated side condition):

* `C19_noSubInPar_passes_nomacros` — every sequence that contains no `expand_macros`: the rebuilds of `fill_in_let` / `fill_in_map`
  keep the subcircuit flag of every block and can only turn a parallel flag OFF (`FillIn.Rel`: `par' = par && !sub`), so they
  create no "subcircuit inside parallel" (`rel_subInPar`); `expand_subcircuits` removes every subcircuit block (`subs_noSub`).
* `C19_noSubInPar_passes_macrosNoSub` — EVERY sequence of the four passes, when no macro body of the parsed circuit holds a
  subcircuit block (`MacrosNoSub c`, decidable; the main body may hold any number of them, so this is not covered by `SubsGone`):
  `expand_macros` then splices in bodies without subcircuit blocks (`replaceGate_ns`), its blocks copy `par` / `sub`, and the splice
  of a same-kind non-subcircuit block into its parent does not change the "inside a parallel block" context
  (`subInParL_spliceInto`, `expStmt_nsp`); `MacrosNoSub` is kept by all four passes.
* corollaries: `C19_ok_iff_passes_nomacros` / `_macrosNoSub` (success ⇔ no loop in a parallel block),
  `C19_total_class_passes_nomacros` / `_macrosNoSub` (only `errLoop`, no `AssertionError`); non-vacuity on `exTxt` through
  `expand_macros ; fill_in_let` (`ex_macrosNoSub`: a macro, a subcircuit block in the main body, `¬ NoSubC c`).
-/
set_option linter.unusedVariables false
namespace Jaqal.UnitTimingCircuit
open Jaqal Jaqal.Builder

theorem subInParL_mono_le (l : List Stmt) (p q : Bool) (hpq : p = true → q = true) (h : subInParL p l = true) :
    subInParL q l = true := by
  cases q with
  | true => exact subInParL_mono l p h
  | false =>
    cases p with
    | true => exact absurd (hpq rfl) (by simp)
    | false => exact h

mutual
  theorem rel_subInPar {F G : Val → M Val} : ∀ (s s' : Stmt) (p : Bool), FillIn.Rel F G s s' →
      subInParS p s' = true → subInParS p s = true
    | .gate _ _ _, .gate _ _ _, _, _, h => by simp [subInParS] at h
    | .block par sub it body, .block par' sub' it' body', p, h, hs => by
      simp only [FillIn.Rel] at h
      obtain ⟨rfl, rfl, _, hl⟩ := h
      simp only [subInParS, Bool.or_eq_true, Bool.and_eq_true] at hs ⊢
      rcases hs with hs | hs
      · exact Or.inl hs
      · right
        have h1 := relList_subInPar body body' _ hl hs
        refine subInParL_mono_le body _ _ ?_ h1
        intro hq
        cases p <;> cases par <;> simp_all
    | .loop c b, .loop c' b', _, _, h => by simp [subInParS] at h
    | .gate _ _ _, .block _ _ _ _, _, h, _ => by simp [FillIn.Rel] at h
    | .gate _ _ _, .loop _ _, _, h, _ => by simp [FillIn.Rel] at h
    | .block _ _ _ _, .gate _ _ _, _, h, _ => by simp [FillIn.Rel] at h
    | .block _ _ _ _, .loop _ _, _, h, _ => by simp [FillIn.Rel] at h
    | .loop _ _, .gate _ _ _, _, h, _ => by simp [FillIn.Rel] at h
    | .loop _ _, .block _ _ _ _, _, h, _ => by simp [FillIn.Rel] at h
  theorem relList_subInPar {F G : Val → M Val} : ∀ (l l' : List Stmt) (p : Bool), FillIn.RelList F G l l' →
      subInParL p l' = true → subInParL p l = true
    | [], [], _, _, h => by simp [subInParL] at h
    | s :: r, s' :: r', p, h, hs => by
      simp only [FillIn.RelList] at h
      simp only [subInParL, Bool.or_eq_true] at hs ⊢
      rcases hs with hs | hs
      · exact Or.inl (rel_subInPar s s' p h.1 hs)
      · exact Or.inr (relList_subInPar r r' p h.2 hs)
    | [], _ :: _, _, h, _ => by simp [FillIn.RelList] at h
    | _ :: _, [], _, h, _ => by simp [FillIn.RelList] at h
end

/-- the IR form of "no subcircuit block inside a parallel block of the body" -/
def NoSubInParC (c : Circuit) : Prop := subInParL false c.body.stmts = false

theorem noSubInParC_iff (L : Labelling) (c : Circuit) :
    UnitTiming.anySubInPar false (skelBody L c) = false ↔ NoSubInParC c := by
  rw [skelBody, anySubInPar_skel]; exact Iff.rfl

theorem rebuilt_noSubInPar {F : Val → M Val} {Fm : Macro → Val → M Val} {G : Val → M Val} {c c' : Circuit} {regs : List Val}
    {bs : List Stmt} (hbs : c.body = .block false false (.int 1) bs) (hr : FillIn.Rebuilt F Fm G c regs bs c')
    (hn : NoSubInParC c) : NoSubInParC c' := by
  obtain ⟨ss, hss, hrel⟩ := hr.body
  unfold NoSubInParC at hn ⊢
  rw [hbs] at hn
  rw [hss]
  simp only [Stmt.stmts] at hn ⊢
  cases h : subInParL false ss with
  | false => rfl
  | true => rw [relList_subInPar bs ss false hrel h] at hn; cases hn

def NoMacrosPass (p : Passes.Pass) : Prop := ∀ pr, p ≠ .macros pr

/-- each pass other than `expand_macros` keeps "no subcircuit block inside a parallel block" on a `Legal` circuit -/
theorem apply_noSubInPar (p : Passes.Pass) (hp : NoMacrosPass p) {c c1 : Circuit} (hL : Passes.Legal c) (hn : NoSubInParC c)
    (h : Passes.apply p c = .ok c1) : NoSubInParC c1 := by
  obtain ⟨bs, hbs⟩ := hL.wf2.body
  cases p with
  | let_ ov =>
    obtain ⟨regs, _, hr⟩ := FillIn.fillInLet_rebuilt' hbs hL.wf2.consts hL.wf2.regs h
    exact rebuilt_noSubInPar hbs hr hn
  | macros pr => exact absurd rfl (hp pr)
  | subs =>
    exact (noSubInParC_iff C19_ok_iff_parsed_ir.selfLabellingDefault c1).1 (noSubC_noSubInPar _ (subs_noSub h))
  | map =>
    obtain ⟨bs', hbs', hr⟩ := FillIn.fillInMap_rebuilt hL.wf2 h
    exact rebuilt_noSubInPar hbs' hr hn

theorem applySeq_noSubInPar : ∀ (π : List Passes.Pass) {c c1 : Circuit}, (∀ p ∈ π, NoMacrosPass p) → Passes.Legal c →
    NoSubInParC c → Passes.applySeq π c = .ok c1 → NoSubInParC c1
  | [], c, c1, _, _, hn, h => by simp only [Passes.applySeq, pure, Except.pure, Except.ok.injEq] at h; subst h; exact hn
  | p :: ps, c, c1, hπ, hL, hn, h => by
    simp only [Passes.applySeq] at h
    cases h1 : Passes.apply p c with
    | error e => rw [h1] at h; cases h
    | ok c2 =>
      rw [h1] at h
      exact applySeq_noSubInPar ps (fun q hq => hπ q (by simp [hq])) (Passes.C10_legal_preserved p c c2 hL h1)
        (apply_noSubInPar p (hπ p (by simp)) hL hn h1) h

variable {cfg : Config} {txt : String} {c : Circuit}

/-- **`C19_noSubInPar_passes_full` for every sequence of passes that contains no `expand_macros`** (any text, any configuration) -/
theorem C19_noSubInPar_passes_nomacros (L : Labelling) (π : List Passes.Pass) {c1 : Circuit}
    (hπm : ∀ p ∈ π, ∀ pr, p ≠ .macros pr) (h : Pipeline.parseProgram cfg txt = .ok c)
    (hπ : Passes.applySeq π c = .ok c1) : UnitTiming.anySubInPar false (skelBody L c1) = false :=
  (noSubInParC_iff L c1).2
    (applySeq_noSubInPar π hπm (Passes.parsed_legal cfg txt c h) ((noSubInParC_iff L c).1 (parsed_noSubInPar L h)) hπ)

/-- a macro-free prefix followed by a sequence after which the subcircuit blocks are gone, or a macro-free sequence -/
theorem C19_noSubInPar_passes_nomacros_or_gone (L : Labelling) (π : List Passes.Pass) {c1 : Circuit}
    (hg : (∀ p ∈ π, ∀ pr, p ≠ .macros pr) ∨ SubsGone π c) (h : Pipeline.parseProgram cfg txt = .ok c)
    (hπ : Passes.applySeq π c = .ok c1) : UnitTiming.anySubInPar false (skelBody L c1) = false := by
  rcases hg with hm | hg
  · exact C19_noSubInPar_passes_nomacros L π hm h hπ
  · exact C19_noSubInPar_passes L π h hπ hg

/-- then: success ⇔ no loop in a parallel block -/
theorem C19_ok_iff_passes_nomacros (L : Labelling) (π : List Passes.Pass) {c1 : Circuit} (hi : ImportsOK cfg)
    (hπm : ∀ p ∈ π, ∀ pr, p ≠ .macros pr) (h : Pipeline.parseProgram cfg txt = .ok c)
    (hπ : Passes.applySeq π c = .ok c1) :
    (∃ c', normalizeCircuit c1 = .ok c') ↔ UnitTiming.anyLoopInPar false (skelBody L c1) = false := by
  rw [C19_ok_iff_passes L π hi h hπ]
  exact ⟨fun x => x.1, fun x => ⟨x, C19_noSubInPar_passes_nomacros L π hπm h hπ⟩⟩

/-- … and only `errLoop` (`JaqalError`) can come out: no `AssertionError` -/
theorem C19_total_class_passes_nomacros (L : Labelling) (π : List Passes.Pass) {c1 : Circuit} {e : Err} (hi : ImportsOK cfg)
    (hπm : ∀ p ∈ π, ∀ pr, p ≠ .macros pr) (h : Pipeline.parseProgram cfg txt = .ok c)
    (hπ : Passes.applySeq π c = .ok c1) (hn : normalizeCircuit c1 = .error e) :
    e = errLoop ∧ e.cls = "JaqalError" ∧ UnitTiming.anyLoopInPar false (skelBody L c1) = true := by
  rcases C19_fails_only_passes L π hi h hπ hn with ⟨rfl, hl⟩ | ⟨_, hs⟩
  · exact ⟨rfl, rfl, hl⟩
  · rw [C19_noSubInPar_passes_nomacros L π hπm h hπ] at hs; cases hs


/-! ## with `expand_macros`, when no MACRO BODY holds a subcircuit block (the main body may) -/

open ExpandSubcircuits in
/-- no macro body holds a subcircuit block (decidable on the parsed circuit) -/
def MacrosNoSub (c : Circuit) : Prop := ∀ m ∈ c.macros, hasSub m.body = false

theorem subInParL_append : ∀ (a b : List Stmt) (p : Bool), subInParL p (a ++ b) = (subInParL p a || subInParL p b)
  | [], b, p => by simp [subInParL]
  | s :: r, b, p => by simp [subInParL, subInParL_append r b p, Bool.or_assoc]

open ExpandMacros in
theorem subInParL_spliceInto (par pp : Bool) (hpp : par = true → pp = true) (s : Stmt) (r : List Stmt) :
    subInParL pp (spliceInto par s r) = (subInParS pp s || subInParL pp r) := by
  unfold spliceInto
  split
  · rename_i p it b
    split
    · rename_i hp
      subst hp
      have : (pp || p) = pp := by cases p <;> simp_all
      simp [subInParL_append, subInParS, this]
    · simp [subInParL]
  · simp [subInParL]

open ExpandMacros ExpandSubcircuits in
mutual
  theorem expStmt_nsp {call : Stmt → M Stmt} (hc : CallNS call) : ∀ (s s' : Stmt) (p : Bool), subInParS p s = false →
      expStmt call s = .ok s' → subInParS p s' = false
    | .gate n gd a, s', p, _, h => by
      simp only [expStmt] at h
      exact subInParS_of_noSub s' p (hc n gd a s' h)
    | .block par sub it body, s', p, hs, h => by
      simp only [expStmt] at h
      obtain ⟨stmts, hst, h2⟩ := bind_ok h
      obtain ⟨rfl, _⟩ := mkBlock_ok_c h2
      simp only [subInParS, Bool.or_eq_false_iff] at hs ⊢
      exact ⟨hs.1, expList_nsp hc par body stmts (p || par) (by intro hp; simp [hp]) hs.2 hst⟩
    | .loop cnt b, s', p, hs, h => by
      simp only [expStmt] at h
      obtain ⟨b', hb', h2⟩ := bind_ok h
      unfold ExpandMacros.mkLoop at h2
      split at h2
      · cases h2
      · simp only [pure, Except.pure, Except.ok.injEq] at h2; subst h2; simp [subInParS]
  theorem expList_nsp {call : Stmt → M Stmt} (hc : CallNS call) : ∀ (par : Bool) (l l' : List Stmt) (pp : Bool),
      (par = true → pp = true) → subInParL pp l = false → expList call par l = .ok l' → subInParL pp l' = false
    | par, [], l', pp, _, _, h => by simp only [expList, pure, Except.pure, Except.ok.injEq] at h; subst h; rfl
    | par, s :: r, l', pp, hpp, hs, h => by
      simp only [expList] at h
      obtain ⟨s', hs', h2⟩ := bind_ok h
      obtain ⟨r', hr', h3⟩ := bind_ok h2
      simp only [pure, Except.pure, Except.ok.injEq] at h3
      subst h3
      simp only [subInParL, Bool.or_eq_false_iff] at hs
      rw [subInParL_spliceInto par pp hpp, expStmt_nsp hc s s' pp hs.1 hs', expList_nsp hc par r r' pp hpp hs.2 hr']
      rfl
end

open ExpandMacros in
theorem macros_noSubInPar {p : Bool} {c c1 : Circuit} (hsb : SeqBody c) (hm : MacrosNoSub c) (hn : NoSubInParC c)
    (h : expandMacros p c = .ok c1) : NoSubInParC c1 ∧ MacrosNoSub c1 := by
  obtain ⟨sub, it, b, hb⟩ := hsb
  obtain ⟨body, stmts, hbody, hst, rfl⟩ := ExpandMacros.expand_ok h
  have h0 : subInParS false c.body = false := by
    unfold NoSubInParC at hn
    rw [hb] at hn ⊢
    simpa [subInParS, Stmt.stmts] using hn
  have hc := expStmt_nsp (replaceGate_ns c.macros hm c.macros.length) c.body body false h0 hbody
  rw [hb] at hbody
  simp only [expStmt] at hbody
  obtain ⟨ss, _, h2⟩ := bind_ok hbody
  obtain ⟨rfl, _⟩ := mkBlock_ok_c h2
  simp only [ExpandMacros.statementsOf, pure, Except.pure, Except.ok.injEq] at hst
  subst hst
  simp only [subInParS, Bool.or_eq_false_iff] at hc
  refine ⟨by simpa [NoSubInParC, Stmt.stmts] using hc.2, ?_⟩
  intro m hmm
  cases p with
  | true => exact hm m hmm
  | false => cases hmm

open ExpandSubcircuits in
theorem rebuilt_macrosNoSub {F : Val → M Val} {Fm : Macro → Val → M Val} {G : Val → M Val} {c c' : Circuit} {regs : List Val}
    {bs : List Stmt} (hr : FillIn.Rebuilt F Fm G c regs bs c') (hn : MacrosNoSub c) : MacrosNoSub c' := by
  have hall : ∀ (l l' : List Macro), List.Forall₂ (fun m m' => FillIn.MacroRel (Fm m) G m m') l l' →
      (∀ m ∈ l, hasSub m.body = false) → ∀ m' ∈ l', hasSub m'.body = false := by
    intro l l' hf
    induction hf with
    | nil => intro _ m' hm'; cases hm'
    | cons hab _ ih =>
      intro hl m' hm'
      rcases List.mem_cons.1 hm' with rfl | hm'
      · rw [rel_hasSub _ _ hab.2.2]; exact hl _ (by simp)
      · exact ih (fun m hm => hl m (by simp [hm])) m' hm'
  exact hall _ _ hr.macros hn

/-- all four passes keep the pair -/
theorem apply_noSubInPar_mns (p : Passes.Pass) {c c1 : Circuit} (hL : Passes.Legal c) (hm : MacrosNoSub c) (hn : NoSubInParC c)
    (h : Passes.apply p c = .ok c1) : NoSubInParC c1 ∧ MacrosNoSub c1 := by
  obtain ⟨bs, hbs⟩ := hL.wf2.body
  cases p with
  | let_ ov =>
    obtain ⟨regs, _, hr⟩ := FillIn.fillInLet_rebuilt' hbs hL.wf2.consts hL.wf2.regs h
    exact ⟨rebuilt_noSubInPar hbs hr hn, rebuilt_macrosNoSub hr hm⟩
  | macros pr => exact macros_noSubInPar ⟨false, .int 1, bs, hbs⟩ hm hn h
  | subs =>
    exact ⟨(noSubInParC_iff C19_ok_iff_parsed_ir.selfLabellingDefault c1).1 (noSubC_noSubInPar _ (subs_noSub h)), (subs_noSub h).2⟩
  | map =>
    obtain ⟨bs', hbs', hr⟩ := FillIn.fillInMap_rebuilt hL.wf2 h
    exact ⟨rebuilt_noSubInPar hbs' hr hn, rebuilt_macrosNoSub hr hm⟩

theorem applySeq_noSubInPar_mns : ∀ (π : List Passes.Pass) {c c1 : Circuit}, Passes.Legal c → MacrosNoSub c →
    NoSubInParC c → Passes.applySeq π c = .ok c1 → NoSubInParC c1
  | [], c, c1, _, _, hn, h => by simp only [Passes.applySeq, pure, Except.pure, Except.ok.injEq] at h; subst h; exact hn
  | p :: ps, c, c1, hL, hm, hn, h => by
    simp only [Passes.applySeq] at h
    cases h1 : Passes.apply p c with
    | error e => rw [h1] at h; cases h
    | ok c2 =>
      rw [h1] at h
      have h2 := apply_noSubInPar_mns p hL hm hn h1
      exact applySeq_noSubInPar_mns ps (Passes.C10_legal_preserved p c c2 hL h1) h2.2 h2.1 h

/-- **`C19_noSubInPar_passes_full` for EVERY sequence of the four passes, on every text none of whose macro bodies holds a
subcircuit block** (the main body may hold any number of them) -/
theorem C19_noSubInPar_passes_macrosNoSub (L : Labelling) (π : List Passes.Pass) {c1 : Circuit}
    (hm : MacrosNoSub c) (h : Pipeline.parseProgram cfg txt = .ok c)
    (hπ : Passes.applySeq π c = .ok c1) : UnitTiming.anySubInPar false (skelBody L c1) = false :=
  (noSubInParC_iff L c1).2
    (applySeq_noSubInPar_mns π (Passes.parsed_legal cfg txt c h) hm ((noSubInParC_iff L c).1 (parsed_noSubInPar L h)) hπ)

/-- then: success ⇔ no loop in a parallel block -/
theorem C19_ok_iff_passes_macrosNoSub (L : Labelling) (π : List Passes.Pass) {c1 : Circuit} (hi : ImportsOK cfg)
    (hm : MacrosNoSub c) (h : Pipeline.parseProgram cfg txt = .ok c) (hπ : Passes.applySeq π c = .ok c1) :
    (∃ c', normalizeCircuit c1 = .ok c') ↔ UnitTiming.anyLoopInPar false (skelBody L c1) = false := by
  rw [C19_ok_iff_passes L π hi h hπ]
  exact ⟨fun x => x.1, fun x => ⟨x, C19_noSubInPar_passes_macrosNoSub L π hm h hπ⟩⟩

/-- … and only `errLoop` (`JaqalError`) can come out: no `AssertionError` -/
theorem C19_total_class_passes_macrosNoSub (L : Labelling) (π : List Passes.Pass) {c1 : Circuit} {e : Err} (hi : ImportsOK cfg)
    (hm : MacrosNoSub c) (h : Pipeline.parseProgram cfg txt = .ok c)
    (hπ : Passes.applySeq π c = .ok c1) (hn : normalizeCircuit c1 = .error e) :
    e = errLoop ∧ e.cls = "JaqalError" ∧ UnitTiming.anyLoopInPar false (skelBody L c1) = true := by
  rcases C19_fails_only_passes L π hi h hπ hn with ⟨rfl, hl⟩ | ⟨_, hs⟩
  · exact ⟨rfl, rfl, hl⟩
  · rw [C19_noSubInPar_passes_macrosNoSub L π hm h hπ] at hs; cases hs

/-- non-vacuity: `exTxt` (a macro, and a subcircuit block in the main body — so `SubsGone [.macros false, .let_ []] c` FAILS) has
no subcircuit block in a macro body -/
theorem ex_macrosNoSub : chk (Pipeline.parseProgram {} exTxt) (fun c =>
    c.macros.all (fun m => !ExpandSubcircuits.hasSub m.body) && !c.macros.isEmpty && ExpandSubcircuits.hasSub c.body) = true := by
  decide +kernel

example : ∃ c c1, Pipeline.parseProgram {} exTxt = .ok c ∧ Passes.applySeq [.macros false, .let_ []] c = .ok c1 ∧
    MacrosNoSub c ∧ ¬ NoSubC c ∧ UnitTiming.anySubInPar false (skelBody exL c1) = false := by
  obtain ⟨c, hc, h⟩ := chk_ok ex_passes
  obtain ⟨c1, hc1, _⟩ := chk_ok h
  obtain ⟨c2, hc2, h2⟩ := chk_ok ex_macrosNoSub
  rw [hc] at hc2; cases hc2
  simp only [Bool.and_eq_true, List.all_eq_true, Bool.not_eq_true'] at h2
  have hm : MacrosNoSub c := fun m hm => h2.1.1 m hm
  refine ⟨c, c1, hc, hc1, hm, ?_, C19_noSubInPar_passes_macrosNoSub exL _ hm hc hc1⟩
  intro hn
  rw [hn.1] at h2
  exact absurd h2.2 (by simp)

end Jaqal.UnitTimingCircuit

open Jaqal.UnitTimingCircuit in
#print axioms C19_noSubInPar_passes_nomacros
open Jaqal.UnitTimingCircuit in
#print axioms C19_noSubInPar_passes_nomacros_or_gone
open Jaqal.UnitTimingCircuit in
#print axioms C19_ok_iff_passes_nomacros
open Jaqal.UnitTimingCircuit in
#print axioms C19_total_class_passes_nomacros
open Jaqal.UnitTimingCircuit in
#print axioms C19_noSubInPar_passes_macrosNoSub
open Jaqal.UnitTimingCircuit in
#print axioms C19_ok_iff_passes_macrosNoSub
open Jaqal.UnitTimingCircuit in
#print axioms C19_total_class_passes_macrosNoSub
open Jaqal.UnitTimingCircuit in
#print axioms ex_macrosNoSub
